(** C16 — FGD definitions survive text export, the binary database, and lazy loading.
    Only statements here; proofs are in Fmt/LongStringProofs.v, Fmt/FgdBinProofs.v, SM/LazyDbProofs.v.
    The objects read from the source (Gen/FgdConsts_gen.v) enter through the boolean side conditions
    [table_ok], [cfg_ok], [order_ok], [entflags_ok], ... which checks/c16.py discharges on every run
    (instance obligations, vm_compute).  The FGD grammar itself is not modelled (search only). *)
From Coq Require Import List NArith Arith Bool String.
From SV Require Import Fmt.LongString Fmt.LongStringProofs Fmt.FgdBin Fmt.FgdBinProofs SM.LazyDb SM.LazyDbProofs SM.LazyDbMulti SM.LazyDbMultiProofs.
From SV Require Import Fmt.FgdBinEnt Fmt.FgdBinEntProofs Fmt.FgdLine Fmt.FgdLineProofs Fmt.FgdLineTextProofs Fmt.FgdBody Fmt.FgdBodyProofs.
From SV Require Import Fmt.FgdHead Fmt.FgdHeadProofs Fmt.FgdEntity Fmt.FgdEntityProofs.
From SV Require Import Fmt.FgdTypeText Fmt.FgdTypeTextProofs SM.FgdBlocks SM.FgdBlocksProofs Fmt.FgdKindKw Fmt.FgdKindKwProofs.
From SV Require Import SM.FgdCopyShare SM.FgdCopyShareProofs.
From SV Require Import Fmt.FgdBare.
From SV Require Import Gen.FgdConsts_gen.
Import ListNotations.
Open Scope N_scope.
Open Scope list_scope.

(** * Ties between the hand-written model and the generated constants (all boolean, all named) *)
Fixpoint nlist_eqb (a b : list N) : bool :=
  match a, b with [], [] => true | x :: a', y :: b' => (x =? y) && nlist_eqb a' b' | _, _ => false end.
Definition op_is_gt (o : cmp_op) : bool := match o with OpGt => true | _ => false end.
Definition std_repl_matches : bool :=
  match std_repl with
  | [(a1, b1); (a2, b2)] => nlist_eqb a1 [LF] && nlist_eqb b1 [BSLASH; LOWER_N] && nlist_eqb a2 [QUOTE] && nlist_eqb b2 [APOS; APOS]
  | _ => false
  end.
Definition flag_value (n : string) : N := match flag_of_name n ent_flags with Some v => v | None => 0 end.
Definition type_flags : list (string * N) :=
  filter (fun p => String.prefix "TYPE_"%string (fst p)) ent_flags.
Definition entity_types_have_flags : bool :=
  forallb (fun n => match flag_of_name (String.append "TYPE_"%string n) ent_flags with Some _ => true | None => false end) entity_types_all
  && (List.length type_flags =? List.length entity_types_all)%nat.
Definition bit_lits (fn op : string) : list N :=
  map snd (filter (fun x => String.eqb (fst (fst x)) fn && String.eqb (snd (fst x)) op) bit_ops).
Definition all_in (l allowed : list N) : bool := forallb (fun x => existsb (N.eqb x) allowed) l.
Definition struct_is (n f : string) : bool :=
  existsb (fun p => String.eqb (fst p) n && String.eqb (snd p) f) struct_formats.
Definition needle1_ok : bool := nlist_eqb ls_needle1 [BSLASH; LOWER_N] && (ls_off1 =? 2)%nat.
Definition needle2_ok : bool := nlist_eqb ls_needle2 [SPACE] && (ls_off2 =? 1)%nat && (ls_notfound =? 0)%nat.
Definition joiner_ok : bool := nlist_eqb ls_joiner JOINER.
Definition limits_ok : bool := (2 <=? limit gen_cfg)%nat && (1 <=? min_nl gen_cfg)%nat.
Definition cfg_ok_is_parts : bool :=
  Bool.eqb (cfg_ok gen_cfg) (limits_ok && empty_quotes gen_cfg && cut_guard gen_cfg).
Definition bit_literals_ok : bool :=
  all_in (bit_lits "kv_serialise" "or") [128] && all_in (bit_lits "ent_serialise" "or") [128]
  && all_in (bit_lits "kv_unserialise" "and") [127; 128] && all_in (bit_lits "ent_unserialise" "and") [127; 128]
  && (List.length bit_ops =? 9)%nat.
Definition index_formats_ok : bool :=
  struct_is "_fmt_16bit" "<H" && struct_is "_fmt_8bit" "<B" && struct_is "_fmt_ent_header" "<BBBBBB".
Definition entflags_layout_ok : bool :=
  entflags_ok (map snd type_flags) (flag_value "MASK_TYPE") (flag_value "IS_ALIAS").
Definition entity_flags_distinct : bool :=
  entity_types_have_flags && nodup_N (map snd type_flags) && nodup_str (map fst type_flags).

(** * Long strings *)
(** For every text, every indent of blanks and everything that may follow on the line, the reader
    (_handle_string + the '+' continuation of _read_colon_list) returns exactly the text that
    _write_longstring wrote — in the extended syntax for all texts, in the plain syntax for texts
    without double quote, backslash and carriage return (which that syntax cannot represent). *)
Theorem c16_longstring_roundtrip : forall t excl, table_ok t excl = true ->
  forall cfg ext indent text tail,
  cfg_ok cfg = true -> all_blank indent = true -> stops t tail = true ->
  (ext = false -> std_safe text = true) ->
  read_joined t (write_longstring t excl cfg ext indent text ++ tail) = Some text.
Proof. exact longstring_roundtrip. Qed.

(** The writer never writes nothing, loses no character, keeps every section within LIMIT, and never
    cuts between a backslash and the character it escapes. *)
Theorem c16_longstring_sections : forall t excl, table_ok t excl = true ->
  forall cfg ext text, cfg_ok cfg = true -> (ext = false -> std_safe text = true) ->
  let secs := sections cfg (fgd_escape t excl ext text) in
  secs <> [] /\ List.concat secs = fgd_escape t excl ext text
  /\ Forall (fun sec => (List.length sec <= limit cfg)%nat /\ section_closed sec = true) secs.
Proof. exact longstring_sections. Qed.

(** Both repaired branches are necessary.  Without `or not sections` empty text is written as nothing,
    and nothing cannot be read back: *)
Theorem c16_empty_text_refuted : forall t excl cfg ext indent tail,
  empty_quotes cfg = false -> (forall r, tail <> QUOTE :: r) ->
  read_joined t (write_longstring t excl cfg ext indent [] ++ tail) = None.
Proof. intros. rewrite empty_text_writes_nothing by assumption. apply nothing_is_unreadable. assumption. Qed.

(** ... and without the guard of the hard cut a text of LIMIT-1 letters, a double quote and a letter is cut
    between the backslash and the quote (today's constants and escape table). *)
Definition unguarded : ls_cfg :=
  {| limit := limit gen_cfg; min_nl := min_nl gen_cfg; empty_quotes := true; cut_guard := false |}.
Definition hard_cut_text : str := repeat 97 (limit gen_cfg - 1) ++ [QUOTE; 98].
Definition hard_cut_breaks : bool :=
  match read_joined esc_pairs (write_longstring esc_pairs esc_excluded unguarded true [TAB] hard_cut_text ++ [LF]) with
  | Some v => negb (nlist_eqb v hard_cut_text)
  | None => true
  end
  && negb (forallb section_closed (sections unguarded (fgd_escape esc_pairs esc_excluded true hard_cut_text))).

(** Example: the hypotheses of the round trip are satisfiable (a concrete table and configuration). *)
Example c16_hypotheses_satisfiable :
  table_ok [(110, 10); (114, 13); (34, 34); (92, 92)] [] = true
  /\ cfg_ok {| limit := 1000; min_nl := 128; empty_quotes := true; cut_guard := true |} = true
  /\ stops [(110, 10)] [SPACE; 58; SPACE; 49; LF] = true.
Proof. repeat split. Qed.

(** * The lines that carry the fields (token level, Fmt/FgdLine.v) *)
(** [line_cfg]: the decisive branches of KVDef.export / EntityDef.export read from the source ([gen_line_cfg]);
    the hypotheses on [vt_lookup], [io_lookup], [rt_lookup], [undec] are checked on the real tables (data obligations),
    [tags_wf] = the tags are in the normal form read_tags produces and pass validate_tags. *)
Definition line_cfg_ok (c : line_cfg) : bool :=
  (colons_before_desc_without_default c =? 2)%nat && bool_default_filled c && res_block_if_defined c.

(** Keyvalue lines without a value list: whatever the tags, readonly / report, the split of display name and
    description into '+' sections, with or without default and description, KVDef._parse reads back the same name,
    tags, type, flags, display name, default and description and stops at the end of the line. *)
Theorem c16_kv_line_roundtrip :
  forall (tag_norm : str -> str) (tags_valid : list str -> bool) (vt : Type) (vt_text : vt -> str) (vt_lookup : str -> option (bool * vt))
         (vt_is_bool vt_is_flags vt_is_choices : vt -> bool) (dec : N -> str) (undec : str -> option N) (pow2 : N -> bool) (cfg : line_cfg),
  (forall v, vt_lookup (vt_text v) = Some (false, v)) -> colons_before_desc_without_default cfg = 2%nat ->
  forall (label custom : bool) (k : kvline vt) (rest : list tok),
  tags_wf tag_norm tags_valid (l_tags vt k) -> vt_is_flags (l_type vt k) = false -> vt_is_choices (l_type vt k) = false ->
  l_list vt k = NoList -> l_disp vt k <> [] ->
  yes_no vt vt_is_bool (l_type vt k) (default_written vt vt_is_bool cfg k) = default_written vt vt_is_bool cfg k ->
  ends_line rest ->
  kv_parse tag_norm tags_valid vt vt_lookup vt_is_bool vt_is_flags vt_is_choices dec undec pow2 (l_name vt k)
    (List.tl (kv_toks vt vt_text vt_is_bool vt_is_flags dec cfg label custom k) ++ rest)
  = Some (kv_norm vt vt_is_bool cfg custom k NoList, rest).
Proof. exact kv_plain_roundtrip. Qed.

(** Choices keyvalues with their value list (value, display name in any split, tags per item) *)
Theorem c16_kv_choices_roundtrip :
  forall (tag_norm : str -> str) (tags_valid : list str -> bool) (vt : Type) (vt_text : vt -> str) (vt_lookup : str -> option (bool * vt))
         (vt_is_bool vt_is_flags vt_is_choices : vt -> bool) (dec : N -> str) (undec : str -> option N) (pow2 : N -> bool) (cfg : line_cfg),
  (forall v, vt_lookup (vt_text v) = Some (false, v)) -> colons_before_desc_without_default cfg = 2%nat ->
  forall (label custom : bool) (k : kvline vt) (items : list (str * list str * list str)) (rest : list tok),
  tags_wf tag_norm tags_valid (l_tags vt k) -> vt_is_flags (l_type vt k) = false -> vt_is_choices (l_type vt k) = true ->
  l_list vt k = Choices items -> Forall (ciwf tag_norm tags_valid) items -> l_disp vt k <> [] ->
  yes_no vt vt_is_bool (l_type vt k) (default_written vt vt_is_bool cfg k) = default_written vt vt_is_bool cfg k ->
  kv_parse tag_norm tags_valid vt vt_lookup vt_is_bool vt_is_flags vt_is_choices dec undec pow2 (l_name vt k)
    (List.tl (kv_toks vt vt_text vt_is_bool vt_is_flags dec cfg label custom k) ++ rest)
  = Some (kv_norm vt vt_is_bool cfg custom k (Choices (map (cires custom) items)), TNl :: rest).
Proof. exact kv_choices_roundtrip. Qed.

(** Spawnflags keyvalues: every item with its value, name (the generated `[n]` label removed again), default and tags,
    for names that do not start with a blank and — when no labels are written — do not themselves start with `[n]` *)
Theorem c16_kv_flags_roundtrip :
  forall (tag_norm : str -> str) (tags_valid : list str -> bool) (vt : Type) (vt_text : vt -> str) (vt_lookup : str -> option (bool * vt))
         (vt_is_bool vt_is_flags vt_is_choices : vt -> bool) (dec : N -> str) (undec : str -> option N) (pow2 : N -> bool) (cfg : line_cfg),
  (forall v, vt_lookup (vt_text v) = Some (false, v)) -> (forall n, undec (dec n) = Some n) ->
  colons_before_desc_without_default cfg = 2%nat ->
  forall (label custom : bool) (k : kvline vt) (items : list (N * list str * bool * list str)) (rest : list tok),
  tags_wf tag_norm tags_valid (l_tags vt k) -> vt_is_flags (l_type vt k) = true -> vt_is_choices (l_type vt k) = false ->
  l_list vt k = Flags items -> Forall (fiwf tag_norm tags_valid dec pow2 label) items ->
  default_written vt vt_is_bool cfg k = [] -> List.concat (l_desc vt k) = [] ->
  kv_parse tag_norm tags_valid vt vt_lookup vt_is_bool vt_is_flags vt_is_choices dec undec pow2 (l_name vt k)
    (List.tl (kv_toks vt vt_text vt_is_bool vt_is_flags dec cfg label custom k) ++ rest)
  = Some (mk_kvl vt (l_name vt k) (seen_tags custom (l_tags vt k)) (l_type vt k) (l_ro vt k) (l_report vt k)
                 [l_name vt k] [] [[]] (Flags (map (fires custom) items)), TNl :: rest).
Proof. exact kv_flags_roundtrip. Qed.

(** input / output lines: name, tags, the decayed type, the description *)
Theorem c16_io_line_roundtrip :
  forall (tag_norm : str -> str) (tags_valid : list str -> bool) (vt : Type) (io_text : vt -> str) (io_lookup : str -> option vt)
         (io_decay : vt -> vt),
  (forall v, io_lookup (io_text v) = Some (io_decay v)) ->
  forall (custom : bool) (o : ioline vt) (rest : list tok),
  tags_wf tag_norm tags_valid (o_tags vt o) -> ends_line rest ->
  io_parse tag_norm tags_valid vt io_lookup (io_toks vt io_text custom o ++ rest)
  = Some (mk_iol vt (o_name vt o) (seen_tags custom (o_tags vt o)) (io_decay (o_type vt o)) [List.concat (o_desc vt o)], rest).
Proof. exact io_roundtrip. Qed.

(** @resources (extended syntax): undefined stays undefined, a defined list — EMPTY OR NOT — comes back as that list *)
Theorem c16_resources_roundtrip :
  forall (tag_norm : str -> str) (tags_valid : list str -> bool) (cfg : line_cfg),
  colons_before_desc_without_default cfg = 2%nat ->
  forall (rt : Type) (rt_text : rt -> str) (rt_lookup : str -> option rt),
  (forall t, rt_lookup (rt_text t) = Some t) ->
  forall (res : option (list (rt * str * list str))) (rest : list tok),
  res_block_if_defined cfg = true ->
  match res with Some l => Forall (riwf tag_norm tags_valid rt) l | None => True end ->
  res_read tag_norm tags_valid rt rt_lookup (res_toks cfg rt rt_text true res ++ TBrClose :: rest)
  = Some (res, match res with Some _ => TNl :: TBrClose :: rest | None => TBrClose :: rest end).
Proof. exact res_roundtrip. Qed.

(** Character level and token level joined.  The STRING tokens of a text as _write_longstring writes it
    ([token_sections]: Tokenizer._handle_string on every section): there is at least one, every section is a complete
    string body, and the token values concatenate to the text. *)
Theorem c16_longstring_token_sections : forall t excl, table_ok t excl = true -> forall cfg ext text, cfg_ok cfg = true ->
  (ext = false -> std_safe text = true) ->
  token_sections t excl cfg ext text <> []
  /\ List.concat (token_sections t excl cfg ext text) = text
  /\ Forall (fun sec => exists o, run t Plain sec = Some (Plain, o)) (sections cfg (fgd_escape t excl ext text)).
Proof. exact token_sections_spec. Qed.

(** ... so a keyvalue line whose display name and description went through _write_longstring — any length, any
    characters (plain syntax: without quote, backslash, CR) — is parsed back to exactly that display name and that
    description (plus name, tags, type, readonly, report, default). *)
Theorem c16_kv_line_text_roundtrip :
  forall (tag_norm : str -> str) (tags_valid : list str -> bool) (vt : Type) (vt_text : vt -> str) (vt_lookup : str -> option (bool * vt))
         (vt_is_bool vt_is_flags vt_is_choices : vt -> bool) (dec : N -> str) (undec : str -> option N) (pow2 : N -> bool) (lcfg : line_cfg),
  (forall v, vt_lookup (vt_text v) = Some (false, v)) -> colons_before_desc_without_default lcfg = 2%nat ->
  forall t excl, table_ok t excl = true -> forall cfg, cfg_ok cfg = true ->
  forall (label custom : bool) name tags ty ro rep disp dflt desc rest,
  (custom = false -> std_safe disp = true /\ std_safe desc = true) ->
  let k := mk_kvl vt name tags ty ro rep (token_sections t excl cfg custom disp) dflt (token_sections t excl cfg custom desc) NoList in
  tags_wf tag_norm tags_valid tags -> vt_is_flags ty = false -> vt_is_choices ty = false ->
  yes_no vt vt_is_bool ty (default_written vt vt_is_bool lcfg k) = default_written vt vt_is_bool lcfg k -> ends_line rest ->
  kv_parse tag_norm tags_valid vt vt_lookup vt_is_bool vt_is_flags vt_is_choices dec undec pow2 name
    (List.tl (kv_toks vt vt_text vt_is_bool vt_is_flags dec lcfg label custom k) ++ rest)
  = Some (mk_kvl vt name (seen_tags custom tags) ty ro rep [disp] (default_written vt vt_is_bool lcfg k) [desc] NoList, rest).
Proof. exact kv_line_text_roundtrip. Qed.

(** The whole body of an entity (Fmt/FgdBody.v): the keyvalue, input and output lines in the order written — with the
    blank / comment lines EntityDef.export puts between them —, the @resources block and the closing bracket are read
    back by the loop of EntityDef.parse as the same keyvalues, inputs and outputs in the same order (normal forms: long
    strings joined, I/O types decayed, no tags in the plain syntax) and the same resources.  [item_wf]: the line
    conditions above, and no keyvalue is called input, output or @resources. *)
Theorem c16_entity_body_roundtrip :
  forall (tag_norm : str -> str) (tags_valid : list str -> bool) (vt : Type) (vt_text : vt -> str) (vt_lookup : str -> option (bool * vt))
         (vt_is_bool vt_is_flags vt_is_choices : vt -> bool) (io_text : vt -> str) (io_lookup : str -> option vt) (io_decay : vt -> vt)
         (dec : N -> str) (undec : str -> option N) (pow2 : N -> bool) (cfg : line_cfg) (rt : Type) (rt_text : rt -> str)
         (rt_lookup : str -> option rt),
  (forall v, vt_lookup (vt_text v) = Some (false, v)) -> (forall v, io_lookup (io_text v) = Some (io_decay v)) ->
  (forall n, undec (dec n) = Some n) -> (forall t, rt_lookup (rt_text t) = Some t) ->
  colons_before_desc_without_default cfg = 2%nat -> res_block_if_defined cfg = true ->
  forall (label custom : bool) (items : list (nat * item vt)) (res : resources rt) (rest : list tok),
  Forall (item_wf tag_norm tags_valid vt vt_is_bool vt_is_flags vt_is_choices dec pow2 cfg label) (map snd items) ->
  match res with Some l => Forall (riwf tag_norm tags_valid rt) l | None => True end ->
  body_read tag_norm tags_valid vt vt_lookup vt_is_bool vt_is_flags vt_is_choices io_lookup dec undec pow2 rt rt_lookup
    (body_toks vt vt_text vt_is_bool vt_is_flags io_text dec cfg rt rt_text label custom items res ++ rest)
  = Some (with_res vt rt (fold_left (add_item vt vt_is_bool io_decay cfg rt custom) (map snd items) (mk_body vt rt [] [] [] None))
                   (if custom then res else None), rest).
Proof. exact body_roundtrip. Qed.

(** One concrete instance (non-vacuity, and the refutations of the other writer branches). *)
Inductive xvt := XString | XBool | XFlags | XChoices.
Definition x_text (v : xvt) : str := match v with XString => [115] | XBool => [98] | XFlags => [102] | XChoices => [99] end.
Definition x_lookup (s : str) : option (bool * xvt) :=
  match s with [115] => Some (false, XString) | [98] => Some (false, XBool) | [102] => Some (false, XFlags) | [99] => Some (false, XChoices) | _ => None end.
Definition x_bool (v : xvt) := match v with XBool => true | _ => false end.
Definition x_flags (v : xvt) := match v with XFlags => true | _ => false end.
Definition x_choices (v : xvt) := match v with XChoices => true | _ => false end.
Definition x_dec (n : N) : str := repeat 49 (N.to_nat n).      (* unary *)
Definition x_undec (s : str) : option N := Some (N.of_nat (List.length s)).
Definition x_cfg (colons : nat) (res_defined : bool) : line_cfg :=
  {| colons_before_desc_without_default := colons; bool_default_filled := true; res_block_if_defined := res_defined |}.
Definition x_kv : kvline xvt :=   (* key[A, +B](s) readonly : "di" + "sp" : : "de" + "sc"  — no default *)
  mk_kvl xvt [107] [[65]; [43; 66]] XString true false [[100; 105]; [115; 112]] [] [[100; 101]; [115; 99]] NoList.
Definition x_parse (colons : nat) : option (kvline xvt * list tok) :=
  kv_parse (fun t => t) (fun _ => true) xvt x_lookup x_bool x_flags x_choices x_dec x_undec (fun _ => true) [107]
    (List.tl (kv_toks xvt x_text x_bool x_flags x_dec (x_cfg colons true) true true x_kv) ++ [TStr [110]]).
Example c16_kv_line_example :
  x_parse 2 = Some (mk_kvl xvt [107] [[65]; [43; 66]] XString true false [[100; 105; 115; 112]] [] [[100; 101; 115; 99]] NoList, [TStr [110]])
  /\ (forall v, x_lookup (x_text v) = Some (false, v)) /\ (forall n, x_undec (x_dec n) = Some n).
Proof.
  split; [vm_compute; reflexivity|]. split; [intros []; reflexivity|].
  intros n. unfold x_undec, x_dec. rewrite repeat_length, N2Nat.id. reflexivity.
Qed.
(** with a single ':' before the description of a keyvalue without default, the description is read as the default *)
Example c16_one_colon_refuted :
  x_parse 1 = Some (mk_kvl xvt [107] [[65]; [43; 66]] XString true false [[100; 105; 115; 112]] [100; 101; 115; 99] [[]] NoList, [TStr [110]]).
Proof. vm_compute. reflexivity. Qed.
(** when the @resources block is only written for a non-empty list, an explicitly empty list comes back undefined *)
Definition x_res_read (res_defined : bool) (res : option (list (N * str * list str))) :=
  res_read (fun t => t) (fun _ => true) N (fun s => match s with [c] => Some c | _ => None end)
    (res_toks (x_cfg 2 res_defined) N (fun t => [t]) true res ++ [TBrClose]).
Example c16_empty_resources_refuted :
  x_res_read false (Some []) = Some (None, [TBrClose])
  /\ x_res_read true (Some []) = Some (Some [], [TNl; TBrClose])
  /\ x_res_read true (Some [(5, [109], [[65]]); (6, [110], [])]) = Some (Some [(5, [109], [[65]]); (6, [110], [])], [TNl; TBrClose]).
Proof. repeat split; vm_compute; reflexivity. Qed.
Definition empty_resources_need_block : bool :=
  match x_res_read false (Some []), x_res_read true (Some []) with
  | Some (None, _), Some (Some [], _) => true
  | _, _ => false
  end.

(** * The entity header and the whole entity definition (token level, Fmt/FgdHead.v, Fmt/FgdEntity.v; round 3) *)
(** Helper objects are abstract: [known n] = `HelperTypes(n)` succeeds, [hparse n args] = `HELPER_IMPL[HelperTypes(n)].parse(args)`
    (None = it raises), [hunknown n args] = `UnknownHelper(n, args)`.  [form_ok f h]: the written form [f] of a helper (bare name /
    name(args)) is read back as the object [h]; arguments and base names are non-empty, stripped and without ','; a helper is not
    called base, aliasof or autovis.  [secs] = the '+' sections of the description (none for an empty description).
    The header as EntityDef.export writes it — `base(..)` or `aliasof(..)` when there are bases, one helper per line, `= classname`,
    `: description`, `[` — is read back by EntityDef.parse (from the token after `@PointClass`) as the same bases in the same
    order, the alias flag (extended syntax only), the same helper objects in the same order, the class name and the description,
    and the parser stops right after the `[`. *)
Theorem c16_entity_header_roundtrip :
  forall (H : Type) (known : str -> bool) (hparse : str -> list str -> option H) (hunknown : str -> list str -> H),
  known KW_BASE = true -> known KW_ALIASOF = false ->
  forall (custom alias : bool) (bases : list str) (forms : list hform) (hidden : bool) (hs : list H) (cls : str) (secs : list str) (rest : list tok),
  bases_ok bases -> Forall2 (form_ok H known hparse hunknown) forms hs -> strip cls = cls ->
  head_read H known hparse hunknown (head_toks custom alias bases forms hidden cls secs ++ rest)
  = Some (mk_head H (match bases with [] => false | _ => alias && custom end) bases hs cls (List.concat secs), rest).
Proof. exact head_roundtrip. Qed.

(** the `(a, b, c)` of a helper or of base(): `', '.join(args)` is split at ',' and stripped back to the arguments.  Round 5:
    arguments may be BLANK at any position ([args_ok]: every argument stripped and comma-free, the list is not [['']]) — the writer
    leaves an empty slot (`frustum(lightfov, , , lightcolor, -1)`) and the reader must keep it, because helper arguments are
    positional.  The one list that cannot come back is the sole blank argument: `helper()` is read as no argument at all. *)
Theorem c16_helper_args_roundtrip : forall args, args_ok args -> paren_args (join_cs args) = args.
Proof. exact paren_args_join0. Qed.
Theorem c16_helper_args_sole_blank : paren_args (join_cs [[]]) = [] /\ paren_args (join_cs []) = [].
Proof. exact paren_args_sole_blank. Qed.
(** [gen_args_cfg] is read off the PAREN_ARGS branch of EntityDef.parse on every run (separator, strip, the comprehension's
    filter, the `['']` special case); [helper_arg_joiners] = every string literal whose .join() writes an argument list in
    EntityDef.export.  EVERY configuration of today's shape computes [paren_args] on all inputs, hence reads back what was written. *)
Definition helper_args_program_ok : bool := args_cfg_ok gen_args_cfg.
(** computed witnesses with today's configuration: blank arguments at the first, a middle, the last and several positions come back
    where they were, and `name()` is no argument *)
Fixpoint strs_eqb (a b : list str) : bool :=
  match a, b with [] , [] => true | x :: a', y :: b' => nlist_eqb x y && strs_eqb a' b' | _, _ => false end.
Definition blank_witnesses : list (list str) :=
  [[[108]; []; [99]]; [[]; [108]]; [[108]; []]; [[]; []]; [[108]; []; []; [99; 32; 100]; []]; [[]; []; []]].
Definition helper_args_blank_kept : bool :=
  forallb (fun l => strs_eqb (paren_args_with gen_args_cfg (join_cs l)) l) blank_witnesses.
Definition helper_args_empty_parens_no_argument : bool :=
  match paren_args_with gen_args_cfg [] with [] => true | _ => false end.
Definition helper_args_joined_by_comma_blank : bool :=
  negb (match helper_arg_joiners with [] => true | _ => false end) && forallb (nlist_eqb [COMMA; 32]) helper_arg_joiners.
Definition helper_args_ok : bool := helper_args_program_ok && helper_args_joined_by_comma_blank.
Theorem c16_helper_args_program_is_model : forall c, args_cfg_ok c = true -> forall s, paren_args_with c s = paren_args s.
Proof. exact paren_args_with_is_model. Qed.
Theorem c16_helper_args_program_roundtrip : forall c, args_cfg_ok c = true -> forall args, args_ok args ->
  paren_args_with c (join_cs args) = args.
Proof. exact paren_args_with_roundtrip. Qed.
(** the nearby wrong shapes: a filter in the comprehension (`if arg.strip()` / `if arg`) also turns `helper()` into no argument, but
    drops every blank argument, so the later ones shift left; without the special case `helper()` has one blank argument *)
Definition filter_stripped_cfg : args_cfg := mk_args_cfg COMMA true FDropStripped false.
Definition filter_raw_cfg : args_cfg := mk_args_cfg COMMA true FDropRaw true.
Example c16_helper_args_filter_refuted :
  let a := [108] in let b := [99] in
  args_ok [a; []; []; b] /\ args_ok [[]; a]
  /\ paren_args_with filter_stripped_cfg (join_cs [a; []; []; b]) = [a; b]
  /\ paren_args_with filter_raw_cfg (join_cs [[]; a]) = [a]
  /\ paren_args_with filter_stripped_cfg (join_cs []) = []
  /\ paren_args_with (mk_args_cfg COMMA true FKeep false) (join_cs []) = [[]]
  /\ paren_args (join_cs [a; []; []; b]) = [a; []; []; b] /\ paren_args (join_cs [[]; a]) = [[]; a].
Proof.
  cbv zeta. repeat split; try (vm_compute; reflexivity); try discriminate;
    repeat (constructor; try (split; vm_compute; reflexivity)).
Qed.
Definition filter_blank_breaks : bool :=
  negb (Nat.eqb (List.length (paren_args_with filter_stripped_cfg (join_cs [[108]; []; [99]]))) 3)
  && negb (Nat.eqb (List.length (paren_args_with filter_raw_cfg (join_cs [[]; [108]]))) 2).

(** Composition of the header with [c16_entity_body_roundtrip]: a WHOLE entity definition as written — header, `[`, keyvalue / input /
    output lines, @resources, `]` — is read back as the same header fields and the same body. *)
Theorem c16_entity_text_roundtrip :
  forall (tag_norm : str -> str) (tags_valid : list str -> bool) (vt : Type) (vt_text : vt -> str) (vt_lookup : str -> option (bool * vt))
         (vt_is_bool vt_is_flags vt_is_choices : vt -> bool) (io_text : vt -> str) (io_lookup : str -> option vt) (io_decay : vt -> vt)
         (dec : N -> str) (undec : str -> option N) (pow2 : N -> bool) (cfg : line_cfg) (rt : Type) (rt_text : rt -> str)
         (rt_lookup : str -> option rt)
         (H : Type) (known : str -> bool) (hparse : str -> list str -> option H) (hunknown : str -> list str -> H),
  (forall v, vt_lookup (vt_text v) = Some (false, v)) -> (forall v, io_lookup (io_text v) = Some (io_decay v)) ->
  (forall n, undec (dec n) = Some n) -> (forall t, rt_lookup (rt_text t) = Some t) ->
  colons_before_desc_without_default cfg = 2%nat -> res_block_if_defined cfg = true ->
  known KW_BASE = true -> known KW_ALIASOF = false ->
  forall (label custom alias : bool) (bases : list str) (forms : list hform) (hidden : bool) (hs : list H) (cls : str) (secs : list str)
         (items : list (nat * item vt)) (res : resources rt) (rest : list tok),
  bases_ok bases -> Forall2 (form_ok H known hparse hunknown) forms hs -> strip cls = cls ->
  Forall (item_wf tag_norm tags_valid vt vt_is_bool vt_is_flags vt_is_choices dec pow2 cfg label) (map snd items) ->
  match res with Some l => Forall (riwf tag_norm tags_valid rt) l | None => True end ->
  entity_read tag_norm tags_valid vt vt_lookup vt_is_bool vt_is_flags vt_is_choices io_lookup dec undec pow2 rt rt_lookup H known hparse hunknown
    (entity_toks vt vt_text vt_is_bool vt_is_flags io_text dec cfg rt rt_text label custom alias bases forms hidden cls secs items res ++ rest)
  = Some (mk_head H (match bases with [] => false | _ => alias && custom end) bases hs cls (List.concat secs),
          with_res vt rt (fold_left (add_item vt vt_is_bool io_decay cfg rt custom) (map snd items) (mk_body vt rt [] [] [] None))
                   (if custom then res else None),
          rest).
Proof. exact entity_roundtrip. Qed.

(** One concrete header (non-vacuity): `aliasof(A, B)` NEWLINE `s(1 2, 3)` NEWLINE `h` NEWLINE `u(x)` NEWLINE `= e : "de" + "sc"` NEWLINE `[`
    with the known helper types base, s, h; helper objects are (name, arguments).  And two limits of the format that the premises
    exclude: an unknown helper written WITHOUT parentheses is forgotten when the next helper name arrives, and an argument that
    contains a comma comes back as two. *)
Definition xh_known (n : str) : bool := str_eqb n KW_BASE || str_eqb n [115] || str_eqb n [104].
Definition xh_parse (n : str) (a : list str) : option (str * list str) := Some (n, a).
Definition xh_read := head_read (str * list str) xh_known xh_parse (fun n a => (n, a)).
Example c16_entity_header_example :
  xh_read (head_toks true true [[65]; [66]] [HCall [115] [[49; 32; 50]; [51]]; HBare [104]; HCall [117] [[120]]] false [101] [[100; 101]; [115; 99]] ++ [TNl])
  = Some (mk_head _ true [[65]; [66]] [([115], [[49; 32; 50]; [51]]); ([104], []); ([117], [[120]])] [101] [100; 101; 115; 99], [TNl])
  /\ xh_known KW_BASE = true /\ xh_known KW_ALIASOF = false.
Proof. split; [vm_compute; reflexivity|split; reflexivity]. Qed.
Example c16_bare_unknown_helper_refuted :
  option_map (fun x => h_helpers _ (fst x)) (xh_read [TStr [117]; TNl; TStr [118]; TParen []; TNl; TEq; TStr [101]; TNl; TBrOpen])
  = Some [([118], [])].
Proof. vm_compute. reflexivity. Qed.
Example c16_comma_in_argument_refuted : paren_args (join_cs [[97; 44; 98]]) = [[97]; [98]].
Proof. vm_compute. reflexivity. Qed.

(** * Binary database: tables and bit packings *)
(** VALUE_TYPE_ORDER / FILE_TYPE_ORDER: the index written for an enum member reads back as that member
    and fits in 7 bits (the order list may contain a member twice; the last index is the one written). *)
Theorem c16_order_roundtrip : forall order all v, order_ok order all = true -> In v all ->
  exists i, encode_type order v = Some i /\ decode_type order i = Some v /\ (i < 128)%nat.
Proof. exact order_roundtrip. Qed.
Theorem c16_order_decodes_members : forall order all i v, order_ok order all = true ->
  decode_type order i = Some v -> In v all.
Proof. exact order_decodes_members. Qed.

(** index | 128: value type + readonly, spawnflag power + default, resource type + has-tags *)
Theorem c16_flag7_roundtrip : forall idx f, idx < 128 ->
  unpack_flag7 (pack_flag7 idx f) = (idx, f) /\ pack_flag7 idx f < 256.
Proof. exact flag7_roundtrip. Qed.
Theorem c16_spawnflag_roundtrip : forall p d, p < 128 -> unpack_spawnflag (pack_spawnflag (2 ^ p) d) = (2 ^ p, d).
Proof. exact spawnflag_roundtrip. Qed.

(** EntFlags: entity kind and the alias bit *)
Theorem c16_entflags_roundtrip : forall types mask alias_bit ty a,
  entflags_ok types mask alias_bit = true -> In ty types ->
  unpack_entflags mask alias_bit (pack_entflags ty alias_bit a) = (ty, a) /\ pack_entflags ty alias_bit a < 256.
Proof. exact entflags_roundtrip. Qed.
Theorem c16_flag_table_inverse : forall l n v, nodup_N (map snd l) = true -> nodup_str (map fst l) = true ->
  flag_of_name n l = Some v -> name_of_flag v l = Some n.
Proof. exact flag_table_inverse. Qed.

(** BinStrDict: every string of the shared or the block dictionary is written as an index that reads back
    as that string, provided the shared dictionary has exactly SHARED_STRINGS entries. *)
Theorem c16_strdict_roundtrip : forall (A : Type) (eqb : A -> A -> bool), (forall a b, eqb a b = true <-> a = b) ->
  forall base own shared s, List.length base = shared -> In s base \/ In s own ->
  exists i, sd_encode A eqb base own shared s = Some i /\ sd_decode A base own i = Some s
            /\ (i < List.length base + List.length own)%nat.
Proof. exact strdict_roundtrip. Qed.
Theorem c16_le16_roundtrip : forall i, i < 65536 ->
  fst (pack16 i) < 256 /\ snd (pack16 i) < 256 /\ unpack16 (pack16 i) = i.
Proof. exact le16_roundtrip. Qed.
Theorem c16_split_join : forall sep l, l <> [] -> Forall (fun x => mem_N sep x = false) l ->
  split_sep sep (join_sep sep l) = l.
Proof. exact split_join. Qed.

(** * Binary database: whole definitions and blocks *)
(** ent_serialise / ent_unserialise (Fmt/FgdBinEnt.v: header of six bytes, base names, keyvalues with spawnflag lists,
    inputs, outputs, resources with tags) composed from the codecs above.  [enc]/[dec] is the string dictionary;
    the side conditions on the tables are the instance obligations value_type_order_covers_enum,
    file_type_order_covers_enum, entflags_layout, entity_types_have_distinct_flags.  For every definition the writer
    accepts ([Some bs]) whose spawnflag masks are powers of two, whose SPAWNFLAGS keyvalues have no default and whose
    other keyvalues have no flag list, the reader returns the definition and exactly the bytes that followed. *)
Theorem c16_ent_bin_roundtrip : forall (A : Type) (enc : A -> option (N * N)) (dec : N * N -> option A),
  (forall s p, enc s = Some p -> dec p = Some s) ->
  forall (empty : A) (vt_order ft_order : list string),
  (List.length vt_order < 128)%nat -> (List.length ft_order < 128)%nat ->
  forall (list_type choices_type : string) (kinds : list (string * N)) (mask alias_bit : N),
  entflags_ok (map snd kinds) mask alias_bit = true -> nodup_N (map snd kinds) = true -> nodup_str (map fst kinds) = true ->
  forall e bs rest, ent_wf A empty list_type e ->
  ent_ser A enc vt_order ft_order list_type choices_type kinds alias_bit e = Some bs ->
  ent_unser A dec empty vt_order ft_order list_type kinds mask alias_bit (bs ++ rest) = Some (e, rest).
Proof. exact ent_roundtrip. Qed.

(** all definitions of a block, read back in the order of the block's class names, nothing left over *)
Theorem c16_block_bin_roundtrip : forall (A : Type) (enc : A -> option (N * N)) (dec : N * N -> option A),
  (forall s p, enc s = Some p -> dec p = Some s) ->
  forall (empty : A) (vt_order ft_order : list string),
  (List.length vt_order < 128)%nat -> (List.length ft_order < 128)%nat ->
  forall (list_type choices_type : string) (kinds : list (string * N)) (mask alias_bit : N),
  entflags_ok (map snd kinds) mask alias_bit = true -> nodup_N (map snd kinds) = true -> nodup_str (map fst kinds) = true ->
  forall es bs rest, Forall (ent_wf A empty list_type) es ->
  block_ser A enc vt_order ft_order list_type choices_type kinds alias_bit es = Some bs ->
  block_unser A dec empty vt_order ft_order list_type kinds mask alias_bit (List.length es) (bs ++ rest) = Some (es, rest).
Proof. exact block_roundtrip. Qed.

(** the dictionary premise holds for BinStrDict: shared dictionary of exactly SHARED_STRINGS entries + the block's own
    strings, indexes written as 16-bit little-endian (composition of c16_strdict_roundtrip and c16_le16_roundtrip) *)
Theorem c16_block_dictionary_inverts : forall (A : Type) (eqb : A -> A -> bool), (forall a b, eqb a b = true <-> a = b) ->
  forall base own shared, List.length base = shared ->
  forall s p, dict_enc A eqb base own shared s = Some p -> dict_dec A base own p = Some s.
Proof. exact dict_enc_dec. Qed.

(** the file header ('FGD', version, block count, per block: class names, position, size) reads back, and reading
    `size` bytes at `off` for the positions serialise() fills in returns every block's data *)
Theorem c16_db_header_roundtrip : forall version positions0 bs rest, header_ser version positions0 = Some bs ->
  header_unser version (bs ++ rest) = Some (positions0, rest).
Proof. exact header_roundtrip. Qed.
Theorem c16_block_positions_slices : forall (blocks : list (list N * list N)) pre post,
  Forall2 (fun p blk => slice (pre ++ List.concat (map snd blocks) ++ post) (bp_off p) (bp_size p) = snd blk /\ bp_names p = fst blk)
          (positions (N.of_nat (List.length pre)) blocks) blocks.
Proof. exact positions_slices. Qed.

(** the generated tables satisfy the premises of c16_ent_bin_roundtrip *)
Definition bin_tables_ok : bool :=
  (List.length value_type_order <? 128)%nat && (List.length file_type_order <? 128)%nat
  && entflags_layout_ok && nodup_N (map snd type_flags) && nodup_str (map fst type_flags)
  && mem_str bin_list_type value_type_order && mem_str bin_choices_type value_type_order
  && negb (String.eqb bin_list_type bin_choices_type).

(** the I/O skeletons of the eight (un)serialisers, as the model of Fmt/FgdBinEnt.v has them: kv = name, display name,
    type|readonly byte, then for the list type a count and (power|default byte, name) per flag, otherwise the default;
    io = name, type byte; ent = six header bytes (flags, then the counts of bases, keyvalues, inputs, outputs,
    resources), the base names, the keyvalues, inputs, outputs, and per resource the type|has-tags byte, the tags if
    flagged, the file name *)
Fixpoint slist_eqb (a b : list string) : bool :=
  match a, b with [], [] => true | x :: a', y :: b' => String.eqb x y && slist_eqb a' b' | _, _ => false end.
Definition layout_is (fn : string) (expected : list string) : bool :=
  match find (fun p => String.eqb (fst p) fn) bin_layouts with Some p => slist_eqb (snd p) expected | None => false end.
Definition layout_kv_writer_ok : bool := layout_is "kv_serialise"
  ["str"; "str"; "u8"; "if(_.type is ValueTypes.SPAWNFLAGS){"; "u8"; "loop(_.flags_list){"; "if(_){"; "raise"; "}"; "u8"; "str"; "}";
   "return"; "}"; "str"; "if(_.type is ValueTypes.CHOICES){"; "raise"; "}"].
Definition layout_kv_reader_ok : bool := layout_is "kv_unserialise"
  ["str"; "str"; "u8"; "if(_ is ValueTypes.SPAWNFLAGS){"; "u8"; "loop(range(r3)){"; "u8"; "str"; "}"; "}else{"; "str"; "}"].
Definition layout_io_ok : bool := layout_is "iodef_serialise" ["str"; "u8"] && layout_is "iodef_unserialise" ["str"; "u8"].
Definition layout_ent_writer_ok : bool := layout_is "ent_serialise"
  ["hdr:_.value,len(_.bases),len(_.keyvalues),len(_.inputs),len(_.outputs),len(_.resources)";
   "loop(_.bases){"; "str"; "}";
   "loop(_._iter_attrs()){"; "loop(_.items()){"; "if(len(_) == 1){"; "if(not _){"; "if(isinstance(_, KVDef)){"; "kv"; "}else{";
   "if(isinstance(_, IODef)){"; "io"; "}else{"; "raise"; "}"; "}"; "}"; "}"; "raise"; "}"; "}";
   "loop(_.resources){"; "u8"; "if(_.tags){"; "tags"; "}"; "str"; "}"].
Definition layout_ent_reader_ok : bool := layout_is "ent_unserialise"
  ["hdr6"; "loop(h1){"; "str"; "}"; "loop(h2){"; "kv"; "}"; "loop(h3){"; "io"; "}"; "loop(h4){"; "io"; "}";
   "if(h5){"; "loop(h5){"; "u8"; "if(r1 & 128){"; "tags"; "}"; "str"; "}"; "}"].
Definition header_formats_ok : bool :=
  struct_is "_fmt_header" "<BI" && struct_is "_fmt_block_pos" "<IH" && struct_is "_fmt_32bit" "<I".

(** the model instantiated with the generated tables, strings numbered (see [encN]/[decN]) *)
Definition g_ent_ser : entdef N -> option (list N) :=
  ent_ser N encN value_type_order file_type_order bin_list_type bin_choices_type type_flags (flag_value "IS_ALIAS").
Definition g_ent_unser (canon : list N) (empty : N) : reader (entdef N) :=
  ent_unser N (decN canon) empty value_type_order file_type_order bin_list_type type_flags (flag_value "MASK_TYPE") (flag_value "IS_ALIAS").
Definition g_block_ser : list (entdef N) -> option (list N) :=
  block_ser N encN value_type_order file_type_order bin_list_type bin_choices_type type_flags (flag_value "IS_ALIAS").
Definition g_block_unser (canon : list N) (empty : N) (n : nat) : reader (list (entdef N)) :=
  block_unser N (decN canon) empty value_type_order file_type_order bin_list_type type_flags (flag_value "MASK_TYPE") (flag_value "IS_ALIAS") n.

(** * Lazy loading *)
(** [via] = how _parse_block replaces the stored base names ([lazy_via_get_ent] read from the source).
    For every file (list of blocks) in which no class name occurs twice and every block has data, for
    every decoding function that yields one definition per class name, and for EVERY sequence of
    engine_def() queries (any order, any repetitions) on a fresh database, the answers are exactly the
    definitions obtained by decoding the whole database. *)
Theorem c16_lazy_equals_eager :
  forall (name ent bytes : Type) (name_eqb : name -> name -> bool),
  (forall a b, name_eqb a b = true <-> a = b) ->
  forall (decode : list name -> bytes -> list ent),
  (forall cs data, List.length (decode cs data) = List.length cs) ->
  forall (ent_bases : ent -> list name) (is_empty : bytes -> bool) (empty_bytes : bytes),
  is_empty empty_bytes = true ->
  forall (via : bool) (B : list (block name bytes)),
  NoDup (flat_map fst B) -> Forall (fun b => is_empty (snd b) = false) B ->
  forall f g qs,
  fst (run_queries name ent bytes name_eqb decode ent_bases is_empty empty_bytes via (S f) (init name ent bytes B) qs)
  = map (eager name ent bytes name_eqb decode ent_bases is_empty empty_bytes via B g) qs.
Proof. exact lazy_equals_eager. Qed.

(** The same including the bases: when _parse_block resolves base names through get_ent ([via = true]) and the
    fuel covers the number of blocks, every answer of every query sequence carries, for each stored base name,
    exactly the definition of that class in the file — alias chains across blocks included — and that is
    also what a look-up in the completely loaded database gives. *)
Theorem c16_lazy_equals_eager_with_bases :
  forall (name ent bytes : Type) (name_eqb : name -> name -> bool),
  (forall a b, name_eqb a b = true <-> a = b) ->
  forall (decode : list name -> bytes -> list ent),
  (forall cs data, List.length (decode cs data) = List.length cs) ->
  forall (ent_bases : ent -> list name) (is_empty : bytes -> bool) (empty_bytes : bytes),
  is_empty empty_bytes = true ->
  forall (via : bool) (B : list (block name bytes)),
  NoDup (flat_map fst B) -> Forall (fun b => is_empty (snd b) = false) B ->
  via = true -> forall f g qs, (List.length B <= f)%nat -> (List.length B <= g)%nat ->
  fst (run_full name ent bytes name_eqb decode ent_bases is_empty empty_bytes via f (init name ent bytes B) qs)
  = map (eager_full name ent bytes name_eqb decode ent_bases is_empty empty_bytes via B g) qs.
Proof. exact lazy_full_equals_eager. Qed.

Theorem c16_eager_with_bases_is_file_content :
  forall (name ent bytes : Type) (name_eqb : name -> name -> bool),
  (forall a b, name_eqb a b = true <-> a = b) ->
  forall (decode : list name -> bytes -> list ent),
  (forall cs data, List.length (decode cs data) = List.length cs) ->
  forall (ent_bases : ent -> list name) (is_empty : bytes -> bool) (empty_bytes : bytes),
  is_empty empty_bytes = true ->
  forall (via : bool) (B : list (block name bytes)),
  NoDup (flat_map fst B) -> Forall (fun b => is_empty (snd b) = false) B ->
  via = true -> forall f c, (List.length B <= f)%nat ->
  eager_full name ent bytes name_eqb decode ent_bases is_empty empty_bytes via B f c
  = full_spec name ent bytes name_eqb decode ent_bases B c.
Proof. exact eager_full_correct. Qed.

(** if every stored base name is a class of the file, no base of any answer is left as a bare name *)
Theorem c16_lazy_bases_all_resolved :
  forall (name ent bytes : Type) (name_eqb : name -> name -> bool),
  (forall a b, name_eqb a b = true <-> a = b) ->
  forall (decode : list name -> bytes -> list ent),
  (forall cs data, List.length (decode cs data) = List.length cs) ->
  forall (ent_bases : ent -> list name) (is_empty : bytes -> bool) (empty_bytes : bytes),
  is_empty empty_bytes = true ->
  forall (via : bool) (B : list (block name bytes)),
  NoDup (flat_map fst B) -> Forall (fun b => is_empty (snd b) = false) B ->
  via = true -> forall f qs, (List.length B <= f)%nat ->
  (forall c e b, spec name ent bytes name_eqb decode B c = Some e -> In b (ent_bases e) ->
                 spec name ent bytes name_eqb decode B b <> None) ->
  Forall (fun a => match a with
                   | Some (e, rb) => List.length rb = List.length (ent_bases e) /\ Forall (fun x => x <> None) rb
                   | None => True end)
         (fst (run_full name ent bytes name_eqb decode ent_bases is_empty empty_bytes via f (init name ent bytes B) qs)).
Proof. exact lazy_bases_all_resolved. Qed.

(** Non-vacuity and refutation on one concrete file with a CROSS-BLOCK alias chain: block 0 holds class 1
    (alias of 2), block 1 holds class 2 (alias of 3) and class 4, block 2 holds class 3.  Definitions are
    (class, stored base names). *)
Definition xb_ent : Type := (N * list N)%type.
Definition xb_bases (c : N) : list N := match c with 1 => [2] | 2 => [3] | _ => [] end.
Definition xb_decode (cs : list N) (data : N) : list xb_ent := map (fun c => (c, xb_bases c)) cs.
Definition xb_file : list (block N N) := [([1], 10); ([2; 4], 11); ([3], 12)].
Definition xb_run (via : bool) (qs : list N) : list (option (xb_ent * list (option xb_ent))) :=
  fst (run_full N xb_ent N N.eqb xb_decode (fun e => snd e) (N.eqb 0) 0 via 3 (init N xb_ent N xb_file) qs).
Example c16_cross_block_alias_resolved :
  xb_run true [1; 4; 2; 1] = [Some ((1, [2]), [Some (2, [3])]); Some ((4, []), []); Some ((2, [3]), [Some (3, [])]);
                              Some ((1, [2]), [Some (2, [3])])]
  /\ NoDup (flat_map fst xb_file) /\ Forall (fun b => N.eqb 0 (snd b) = false) xb_file.
Proof. split; [vm_compute; reflexivity|]. split; [repeat constructor; cbn; intuition discriminate|repeat constructor]. Qed.
(** a look-up in `ent_map` that only succeeds for decoded entries (instead of get_ent) leaves the base of class 1
    as a bare name when class 1 is asked for first — and differently when class 2 was asked for before: the
    answer depends on the query order *)
Example c16_map_lookup_refuted :
  xb_run false [1] = [Some ((1, [2]), [None])]
  /\ xb_run false [2; 1] = [Some ((2, [3]), [None]); Some ((1, [2]), [Some (2, [3])])].
Proof. split; vm_compute; reflexivity. Qed.
Definition map_lookup_breaks : bool :=
  match xb_run false [1], xb_run true [1] with
  | [Some (_, [None])], [Some (_, [Some _])] => true
  | _, _ => false
  end.

(** and each answer is the entry at the class's position in its block *)
Theorem c16_eager_is_file_content :
  forall (name ent bytes : Type) (name_eqb : name -> name -> bool),
  (forall a b, name_eqb a b = true <-> a = b) ->
  forall (decode : list name -> bytes -> list ent),
  (forall cs data, List.length (decode cs data) = List.length cs) ->
  forall (ent_bases : ent -> list name) (is_empty : bytes -> bool) (empty_bytes : bytes),
  is_empty empty_bytes = true ->
  forall (via : bool) (B : list (block name bytes)),
  NoDup (flat_map fst B) -> Forall (fun b => is_empty (snd b) = false) B ->
  forall f c, eager name ent bytes name_eqb decode ent_bases is_empty empty_bytes via B f c
              = spec name ent bytes name_eqb decode B c.
Proof. exact eager_correct. Qed.

(** the recursive lookups of alias bases never run deeper than the number of blocks (the model marks a block as
    decoded before its bases are looked up, as the source does) *)
Theorem c16_base_lookups_terminate :
  forall (name ent bytes : Type) (name_eqb : name -> name -> bool)
         (decode : list name -> bytes -> list ent) (ent_bases : ent -> list name)
         (is_empty : bytes -> bool) (empty_bytes : bytes),
  is_empty empty_bytes = true ->
  forall (via : bool) (B : list (block name bytes)) f qs, (List.length B <= f)%nat ->
  oof _ _ _ (snd (run_queries name ent bytes name_eqb decode ent_bases is_empty empty_bytes via f (init name ent bytes B) qs)) = false.
Proof. exact base_lookups_terminate. Qed.

(** * Several databases (add_engine_database): EntityDef.engine_def vs FGD.engine_dbase  (round 3)
    [Bs] = the list of files in the order of `_ENGINE_DB` (an added database comes first); every file is well formed as in the
    single-database theorems ([file_ok]: no class name twice inside one file, every block has data) — the SAME class name in
    two files is exactly the case of interest.  [engine_dbase_merge] (Gen) is the shape of the merge loop of FGD.engine_dbase
    read from the source: [FirstWins] = a class name that is already present is kept, [LastWins] = it is overwritten. *)
Definition merge_is_first (m : merge_mode) : bool := match m with FirstWins => true | LastWins => false end.
Definition multi_modes_agree : bool := merge_is_first engine_dbase_merge && engine_def_returns_first_hit.

(** one at a time (first database that knows the class), in any order and with any repetitions, on a fresh list of databases
    = the merged whole database, answers including what every stored base name was replaced by *)
Theorem c16_multi_lazy_equals_eager :
  forall (name ent bytes : Type) (name_eqb : name -> name -> bool),
  (forall a b, name_eqb a b = true <-> a = b) ->
  forall (decode : list name -> bytes -> list ent),
  (forall cs data, List.length (decode cs data) = List.length cs) ->
  forall (ent_bases : ent -> list name) (is_empty : bytes -> bool) (empty_bytes : bytes),
  is_empty empty_bytes = true ->
  forall (via : bool), via = true ->
  forall (f g : nat) (Bs : list (list (block name bytes))) (qs : list name),
  Forall (file_ok name bytes is_empty) Bs ->
  Forall (fun B => (List.length B <= f)%nat) Bs -> Forall (fun B => (List.length B <= g)%nat) Bs ->
  fst (run_defs name ent bytes name_eqb decode ent_bases is_empty empty_bytes via f (map (init name ent bytes) Bs) qs)
  = map (engine_dbase name ent bytes name_eqb decode ent_bases is_empty empty_bytes via FirstWins g Bs) qs.
Proof. exact multi_lazy_equals_eager. Qed.

(** and that common answer is the content of the FIRST file that defines the class (an added database overrides) *)
Theorem c16_multi_eager_is_first_file :
  forall (name ent bytes : Type) (name_eqb : name -> name -> bool),
  (forall a b, name_eqb a b = true <-> a = b) ->
  forall (decode : list name -> bytes -> list ent),
  (forall cs data, List.length (decode cs data) = List.length cs) ->
  forall (ent_bases : ent -> list name) (is_empty : bytes -> bool) (empty_bytes : bytes),
  is_empty empty_bytes = true ->
  forall (via : bool), via = true ->
  forall (g : nat) (Bs : list (list (block name bytes))) (c : name),
  Forall (file_ok name bytes is_empty) Bs -> Forall (fun B => (List.length B <= g)%nat) Bs ->
  engine_dbase name ent bytes name_eqb decode ent_bases is_empty empty_bytes via FirstWins g Bs c
  = multi_spec name ent bytes name_eqb decode ent_bases Bs c.
Proof. exact engine_dbase_first. Qed.

(** the overwriting merge (dict.update) answers with the LAST file that defines the class ... *)
Theorem c16_multi_overwrite_is_last_file :
  forall (name ent bytes : Type) (name_eqb : name -> name -> bool),
  (forall a b, name_eqb a b = true <-> a = b) ->
  forall (decode : list name -> bytes -> list ent),
  (forall cs data, List.length (decode cs data) = List.length cs) ->
  forall (ent_bases : ent -> list name) (is_empty : bytes -> bool) (empty_bytes : bytes),
  is_empty empty_bytes = true ->
  forall (via : bool), via = true ->
  forall (g : nat) (Bs : list (list (block name bytes))) (c : name),
  Forall (file_ok name bytes is_empty) Bs -> Forall (fun B => (List.length B <= g)%nat) Bs ->
  engine_dbase name ent bytes name_eqb decode ent_bases is_empty empty_bytes via LastWins g Bs c
  = multi_spec_last name ent bytes name_eqb decode ent_bases Bs c.
Proof. exact engine_dbase_last. Qed.

(** ... so with it the look-up and the whole database disagree on EVERY class whose first and last definitions differ *)
Theorem c16_multi_overwrite_refuted :
  forall (name ent bytes : Type) (name_eqb : name -> name -> bool),
  (forall a b, name_eqb a b = true <-> a = b) ->
  forall (decode : list name -> bytes -> list ent),
  (forall cs data, List.length (decode cs data) = List.length cs) ->
  forall (ent_bases : ent -> list name) (is_empty : bytes -> bool) (empty_bytes : bytes),
  is_empty empty_bytes = true ->
  forall (via : bool), via = true ->
  forall (f g : nat) (Bs : list (list (block name bytes))) (c : name),
  Forall (file_ok name bytes is_empty) Bs ->
  Forall (fun B => (List.length B <= f)%nat) Bs -> Forall (fun B => (List.length B <= g)%nat) Bs ->
  multi_spec name ent bytes name_eqb decode ent_bases Bs c <> multi_spec_last name ent bytes name_eqb decode ent_bases Bs c ->
  fst (run_defs name ent bytes name_eqb decode ent_bases is_empty empty_bytes via f (map (init name ent bytes) Bs) [c])
  <> [engine_dbase name ent bytes name_eqb decode ent_bases is_empty empty_bytes via LastWins g Bs c].
Proof. exact multi_overwrite_differs. Qed.

(** the shortcut `if len(databases) == 1: return databases[0].get_fgd()` is the merge of one database, whatever the merge does *)
Theorem c16_engine_dbase_single_shortcut :
  forall (name ent bytes : Type) (name_eqb : name -> name -> bool),
  (forall a b, name_eqb a b = true <-> a = b) ->
  forall (decode : list name -> bytes -> list ent),
  (forall cs data, List.length (decode cs data) = List.length cs) ->
  forall (ent_bases : ent -> list name) (is_empty : bytes -> bool) (empty_bytes : bytes),
  is_empty empty_bytes = true ->
  forall (via : bool), via = true ->
  forall (mode : merge_mode) (g : nat) (B : list (block name bytes)) (c : name),
  file_ok name bytes is_empty B -> (List.length B <= g)%nat ->
  engine_dbase name ent bytes name_eqb decode ent_bases is_empty empty_bytes via mode g [B] c
  = engine_dbase_single name ent bytes name_eqb decode ent_bases is_empty empty_bytes via g B c.
Proof. exact engine_dbase_one. Qed.

(** Non-vacuity and refutation on two concrete files: the added file (first) redefines class 2 and adds class 5 (an alias of 2,
    resolved INSIDE the added file); the bundled file is [xb_file] with data 10.. .  Definitions are (class, stored bases) and
    carry the block data in the class component (class + 100 * data) so that the two definitions of class 2 differ. *)
Definition mb_ent : Type := (N * list N)%type.
Definition mb_bases (c : N) : list N := match c with 1 => [2] | 2 => [3] | 5 => [2] | _ => [] end.
Definition mb_decode (cs : list N) (data : N) : list mb_ent := map (fun c => (c + 100 * data, mb_bases c)) cs.
Definition mb_added : list (block N N) := [([2; 3], 7); ([5], 8)].
Definition mb_files : list (list (block N N)) := [mb_added; xb_file].
Definition mb_lazy (qs : list N) : list (option (mb_ent * list (option mb_ent))) :=
  fst (run_defs N mb_ent N N.eqb mb_decode (fun e => snd e) (N.eqb 0) 0 true 3 (map (init N mb_ent N) mb_files) qs).
Definition mb_eager (m : merge_mode) (c : N) : option (mb_ent * list (option mb_ent)) :=
  engine_dbase N mb_ent N N.eqb mb_decode (fun e => snd e) (N.eqb 0) 0 true m 3 mb_files c.
Example c16_multi_example :
  mb_lazy [2; 1; 5; 4; 9] = map (mb_eager FirstWins) [2; 1; 5; 4; 9]
  /\ mb_lazy [2] = [Some ((702, [3]), [Some (703, [])])]                       (* the added definition, bases from the added file *)
  /\ mb_lazy [1] = [Some ((1001, [2]), [Some (1102, [3])])]                    (* class 1 exists only in the bundled file: its base is the bundled class 2 *)
  /\ mb_eager LastWins 2 = Some ((1102, [3]), [Some (1203, [])])               (* overwritten by the bundled definition *)
  /\ Forall (file_ok N N (N.eqb 0)) mb_files.
Proof.
  repeat split; try (vm_compute; reflexivity).
  repeat constructor; cbn; intuition discriminate.
Qed.
Definition overwrite_merge_breaks : bool :=
  match mb_lazy [2], mb_eager LastWins 2, mb_eager FirstWins 2 with
  | [Some ((a, _), _)], Some ((b, _), _), Some ((c, _), _) => negb (a =? b) && (a =? c)
  | _, _, _ => false
  end.

(** * The type text of keyvalue / input / output lines (Fmt/FgdTypeText.v; round 4)
    [kv_type_prog] / [io_type_prog] are read off KVDef._parse / IODef._parse by symbolic execution on every run (which string is
    stripped, casefolded, compared, looked up in VALUE_TYPE_LOOKUP and stored as the custom type), [vt_lookup_tab] is
    VALUE_TYPE_LOOKUP.  [fold] is str.casefold; the three laws hold for ASCII lower-casing ([c16_ascii_casefold_laws]). *)
Definition TARGET_DESTINATION : str := [116; 97; 114; 103; 101; 116; 95; 100; 101; 115; 116; 105; 110; 97; 116; 105; 111; 110].
Definition kv_type_prog_ok : bool := kv_prog_ok kv_type_prog.
Definition io_type_prog_ok : bool := io_prog_ok TARGET_DESTINATION io_type_prog.
Definition kv_unknown_type_kept_verbatim : bool := fallback_verbatim kv_type_prog.
Definition io_unknown_type_kept_verbatim : bool := fallback_verbatim io_type_prog.
Definition type_table_ok : bool := tab_ok lower vt_lookup_tab.
Definition fold_then_fallback_breaks : bool := fold_fallback_breaks.

(** every generated program that passes the obligation equals the hand model (known names matched case-insensitively, a leading
    '*' = report, unknown names kept as written) on ALL token texts *)
Theorem c16_kv_type_program_is_model : forall (fold : str -> str) (tab : list (str * str)),
  (forall s, fold (fold s) = fold s) -> (forall s, fold (strip s) = strip (fold s)) -> (forall s, fold (tl s) = tl (fold s)) ->
  forall p, kv_prog_ok p = true -> forall raw, trun fold tab p raw = spec_kv fold tab raw.
Proof. exact kv_prog_is_model. Qed.
Theorem c16_io_type_program_is_model : forall (fold : str -> str) (tab : list (str * str)),
  (forall s, fold (fold s) = fold s) -> (forall s, fold (strip s) = strip (fold s)) -> (forall s, fold (tl s) = tl (fold s)) ->
  forall special p, io_prog_ok special p = true -> forall raw, trun fold tab p raw = spec_io fold tab special raw.
Proof. exact io_prog_is_model. Qed.
(** export then parse is the identity on a custom type name (stripped, no leading '*', not a spelling of a known type / of
    `ehandle`): the text between the parentheses is the name and it is read back as exactly that name *)
Theorem c16_custom_kv_type_roundtrip : forall (fold : str -> str) (tab : list (str * str)) s,
  strip s = s -> starts_star s = false -> assoc (fold s) tab = None ->
  spec_kv fold tab (kv_type_text (Custom s)) = (false, Custom s).
Proof. exact kv_custom_roundtrip. Qed.
Theorem c16_custom_io_type_roundtrip : forall (fold : str -> str) (tab : list (str * str)) special io_text s,
  strip s = s -> str_eqb s EHANDLE = false -> assoc (fold s) tab = None ->
  spec_io fold tab special (io_type_text io_text (Custom s)) = (false, Custom s).
Proof. exact io_custom_roundtrip. Qed.
(** parse then export is idempotent on known types: whatever spelling was read, the canonical text that is written reads back
    as the same member (keyvalues), resp. the written text is reproduced by the next parse + export (I/O, where types decay) *)
Theorem c16_known_kv_type_idempotent : forall (fold : str -> str) (tab : list (str * str)) raw b c,
  tab_ok fold tab = true -> spec_kv fold tab raw = (b, Known c) -> spec_kv fold tab (kv_type_text (Known c)) = (false, Known c).
Proof. exact kv_known_idempotent. Qed.
Theorem c16_known_io_type_idempotent : forall (fold : str -> str) (tab : list (str * str)) special (io_text decay : str -> str) raw c,
  (forall c, spec_io fold tab special (io_text c) = (false, Known (decay c))) -> (forall c, io_text (decay c) = io_text c) ->
  spec_io fold tab special raw = (false, Known c) ->
  let text2 := io_type_text io_text (Known c) in
  io_type_text io_text (snd (spec_io fold tab special text2)) = text2.
Proof. exact io_known_idempotent. Qed.
Theorem c16_ascii_casefold_laws :
  (forall s, lower (lower s) = lower s) /\ (forall s, lower (strip s) = strip (lower s)) /\ (forall s, lower (tl s) = tl (lower s)).
Proof. exact (conj lower_idem (conj lower_strip lower_tl)). Qed.
(** composition for today's source: with the generated programs and table, a custom name survives export -> parse on keyvalue,
    input and output lines, and re-reading what was written for a known type gives the same member *)
Theorem c16_type_text_property :
  kv_type_prog_ok = true -> io_type_prog_ok = true -> type_table_ok = true ->
  (forall s, strip s = s -> starts_star s = false -> assoc (lower s) vt_lookup_tab = None ->
     trun lower vt_lookup_tab kv_type_prog (kv_type_text (Custom s)) = (false, Custom s)) /\
  (forall io_text s, strip s = s -> str_eqb s EHANDLE = false -> assoc (lower s) vt_lookup_tab = None ->
     trun lower vt_lookup_tab io_type_prog (io_type_text io_text (Custom s)) = (false, Custom s)) /\
  (forall raw b c, trun lower vt_lookup_tab kv_type_prog raw = (b, Known c) ->
     trun lower vt_lookup_tab kv_type_prog (kv_type_text (Known c)) = (false, Known c)).
Proof. exact (type_text_property_gen kv_type_prog io_type_prog vt_lookup_tab TARGET_DESTINATION). Qed.
(** the documented I/O type decay, for the generated VALUE_TO_IO_DECAY and the literal spellings of IODef.export: what is written for
    a member reads back as the decayed member, and the next parse + export writes the same text again *)
Definition io_decay_table_ok : bool := io_decay_ok lower vt_lookup_tab TARGET_DESTINATION io_decay_tab io_special_text.
Theorem c16_io_decay_text_fixpoint : forall fold tab sp decay_tab special, io_decay_ok fold tab sp decay_tab special = true ->
  forall c d, In (c, d) decay_tab ->
  let text := io_type_text (io_text_of decay_tab special) (Known c) in
  spec_io fold tab sp text = (false, Known (io_decay_of decay_tab c)) /\
  io_type_text (io_text_of decay_tab special) (snd (spec_io fold tab sp text)) = text.
Proof. exact io_decay_fixpoint. Qed.
(** the nearby wrong shape — casefold first, then look up and fall back to the folded text — loses the case of `Locale_ID` *)
Example c16_fold_then_fallback_refuted :
  trun lower [] fold_first_prog (kv_type_text (Custom LOCALE_ID)) = (false, Custom (lower LOCALE_ID)) /\ lower LOCALE_ID <> LOCALE_ID
  /\ fallback_verbatim fold_first_prog = false.
Proof. split; [vm_compute; reflexivity | split; [discriminate | vm_compute; reflexivity]]. Qed.
(** the hypotheses of [c16_custom_kv_type_roundtrip] are satisfiable with a table that knows `integer` and `int` *)
Example c16_type_text_example :
  let tab := [([105; 110; 116], [105; 110; 116; 101; 103; 101; 114]); ([105; 110; 116; 101; 103; 101; 114], [105; 110; 116; 101; 103; 101; 114])] in
  tab_ok lower tab = true /\
  spec_kv lower tab [32; 42; 73; 78; 84; 32] = (true, Known [105; 110; 116; 101; 103; 101; 114]) /\
  spec_kv lower tab LOCALE_ID = (false, Custom LOCALE_ID).
Proof. vm_compute. auto. Qed.

(** * Grouping the entities into blocks (SM/FgdBlocks.v; round 4)
    [gen_bcfg] is read off _engine_db.build_blocks on every run: the three size tests and where blocks without entities leave
    all_blocks.  For EVERY configuration that does not drop the (still empty) first overflow block before the leftovers are put
    into it — whatever the size tests, sizes, block limit, order of the overlapping pairs and iteration order of the set of
    unplaced entities — every entity is in exactly as many blocks as it occurs in the entity list: once.  serialise() writes the
    class names and the data of every block of that list ([serialise_writes_every_entity], read off the two loops). *)
Definition blocks_cfg_ok : bool := bcfg_ok gen_bcfg.
Definition blocks_empty_dropped_at_end : bool := drop_empty_after_leftovers gen_bcfg.
Definition blocks_all_written : bool := serialise_writes_every_entity.
Theorem c16_every_entity_in_exactly_one_block : forall (cfg : bcfg) (size : N -> N) (maxsz : N) (all : list N) (pairs : list (N * N)) (order : list N),
  bcfg_ok cfg = true -> nodupN all = true -> pairs_ok all pairs = true ->
  (forall x, count_occ N.eq_dec order x = count_occ N.eq_dec (leftovers all (pair_loop cfg size maxsz pairs)) x) ->
  forall x, count_occ N.eq_dec (List.concat (build_with cfg size maxsz pairs order)) x = count_occ N.eq_dec all x.
Proof. exact build_with_places_every_entity. Qed.
Theorem c16_no_empty_block_is_written : forall (cfg : bcfg) (size : N -> N) (maxsz : N) (pairs : list (N * N)) (order : list N),
  drop_empty_after_leftovers cfg = true -> Forall (fun b => b <> []) (build_with cfg size maxsz pairs order).
Proof. exact build_has_no_empty_block. Qed.
(** the defect repaired by bdb271a: the empty overflow block leaves the list before the leftovers are put into it.
    Entities 1..3 of size 1, limit 10, one overlapping pair (1, 2): entity 3 is in no block. *)
Definition early_drop_cfg : bcfg :=
  {| merge_fits := N.leb; add_fits := N.ltb; ovf_full := fun a b => N.leb b a; drop_empty_before_leftovers := true; drop_empty_after_leftovers := false |}.
Example c16_early_drop_refuted :
  build early_drop_cfg (fun _ => 1) 10 [1; 2; 3] [(1, 2)] = [[1; 2]] /\
  build gen_bcfg (fun _ => 1) 10 [1; 2; 3] [(1, 2)] = (if blocks_cfg_ok then [[1; 2]; [3]] else build gen_bcfg (fun _ => 1) 10 [1; 2; 3] [(1, 2)]).
Proof. split; vm_compute; reflexivity. Qed.
Definition early_drop_breaks : bool := negb (memN 3 (List.concat (build early_drop_cfg (fun _ => 1) 10 [1; 2; 3] [(1, 2)]))).
(** the hypotheses are satisfiable, merges and overflow splits included: 6 entities of size 4, limit 10 *)
Example c16_blocks_example :
  let all := [1; 2; 3; 4; 5; 6] in let pairs := [(1, 2); (3, 4); (2, 3); (1, 4)] in
  nodupN all = true /\ pairs_ok all pairs = true /\
  build {| merge_fits := N.leb; add_fits := N.ltb; ovf_full := fun a b => N.leb b a; drop_empty_before_leftovers := false;
           drop_empty_after_leftovers := true |} (fun _ => 4) 10 all pairs = [[1; 2]; [3; 4]; [5; 6]].
Proof. vm_compute. auto. Qed.

(** * The keyword that opens an entity definition and the top-level dispatch of FGD.parse_file (Fmt/FgdKindKw.v; round 4)
    [pf_directives], [pf_token_folded], [entity_kind_values], [kind_writer_ops] are read off FGD.parse_file, EntityTypes and
    EntityDef.export on every run. *)
Definition kind_keywords_read_back : bool := kinds_read_back pf_token_folded pf_directives entity_kind_values kind_writer_ops.
Definition unfolded_dispatch_breaks : bool := negb (kinds_read_back false pf_directives entity_kind_values kind_writer_ops).
Theorem c16_kind_keyword_roundtrip : forall folded directives kinds ops,
  kinds_read_back folded directives kinds ops = true ->
  forall v, In v kinds -> kw_dispatch folded directives kinds (kind_written ops v) = KKind v.
Proof. exact kind_keyword_roundtrip. Qed.
(** `@PointClass` is what the writer makes of `pointclass`; compared without casefold it is not an entity kind *)
Example c16_kind_keyword_example :
  let ops := [WTitle; WReplace [99; 108; 97; 115; 115] [67; 108; 97; 115; 115]] in
  let pc := [112; 111; 105; 110; 116; 99; 108; 97; 115; 115] in
  kind_written ops pc = [64; 80; 111; 105; 110; 116; 67; 108; 97; 115; 115] /\
  kw_dispatch true [[64; 105]] [pc] (kind_written ops pc) = KKind pc /\ kw_dispatch false [[64; 105]] [pc] (kind_written ops pc) = KError.
Proof. vm_compute. auto. Qed.

(** * What a copy shares with the cached definition (SM/FgdCopyShare.v; round 5)
    EntityDef.engine_def() and FGD.engine_dbase() return deepcopy() results of the definitions the engine database caches, so a
    history "look up, change the answer in place, look up again / load the whole database" gives the same definitions only if
    EntityDef.__deepcopy__ (hand-written, field by field) re-creates every mutable object a caller can reach.
    [entity_copy_plan] is read off the source on every run: for every attribute the shape its annotation promises and the
    expression that produces the copy's value (KVDef.copy / IODef.copy followed into their constructor calls).
    For EVERY shape, expression and value of that shape: if [isolates] accepts the pair, no object of the copy is an object of
    the original, so no in-place change of anything reachable from the copy changes the original. *)
Definition copy_field_isolates (f : string) : bool :=
  match find (fun p => String.eqb (fst p) f) entity_copy_plan with Some (_, (t, e)) => isolates e t | None => false end.
Definition entity_copy_isolates : bool := plan_isolates (map snd entity_copy_plan).
(** [answer_copies]: what EntityDef.engine_def and the two return statements of FGD.engine_dbase hand out — `deepcopy(..)` of the
    cached object (which runs EntityDef.__deepcopy__ for every definition) or the cached object itself *)
Definition answers_are_deep_copies : bool := forallb (fun p => isolates (snd p) TAny) answer_copies.
Definition state_isolated : bool := entity_copy_isolates && answers_are_deep_copies.
Theorem c16_copy_is_fresh : forall base v e t, has_type t v = true -> isolates e t = true ->
  Forall (fun a => base <= a) (addrs (do_copy base e v)).
Proof. exact copy_is_fresh. Qed.
Theorem c16_copy_isolated : forall base e t v, has_type t v = true -> isolates e t = true ->
  Forall (fun a => a < base) (addrs v) ->
  forall a new, In a (addrs (do_copy base e v)) -> update a new v = v.
Proof. exact copy_isolated. Qed.
Theorem c16_entity_copy_isolated : forall p : plan, plan_isolates p = true ->
  forall t e, In (t, e) p -> forall base v, has_type t v = true -> Forall (fun a => a < base) (addrs v) ->
  forall a new, In a (addrs (do_copy base e v)) -> update a new v = v.
Proof. exact plan_isolated. Qed.
(** the two wrong shapes that were met.  (1) the I/O maps are copied with `io_map.copy()`: the IODef objects (address 3) are
    shared, renaming the copy's input renames the cached one.  (2) `copy.resources = self.resources` (repaired by 3cb0d87): the
    list itself (address 1) is shared, an append through the copy is an append to the cached definition. *)
Definition io_shape : ftype := TColl (TColl (TObj [TImm; TImm; TImm])).
Definition io_value : val := VMut 1 [VMut 2 [VMut 3 [VImm 7; VImm 0; VImm 9]]].
Example c16_shared_io_objects_refuted :
  has_type io_shape io_value = true /\ isolates (CMap CShallow) io_shape = false
  /\ In 3 (addrs (do_copy 100 (CMap CShallow) io_value)) /\ update 3 [VImm 8; VImm 0; VImm 9] io_value <> io_value
  /\ isolates (CMap (CMap (CObj [CShare; CShare; CShare]))) io_shape = true
  /\ addrs (do_copy 100 (CMap (CMap (CObj [CShare; CShare; CShare]))) io_value) = [101; 102; 103].
Proof. repeat split; try (vm_compute; reflexivity); try discriminate. vm_compute. auto. Qed.
Example c16_shared_resources_list_refuted :
  let v := VMut 1 [VImm 4; VImm 5] in
  has_type (TColl TImm) v = true /\ isolates CShare (TColl TImm) = false /\ In 1 (addrs (do_copy 100 CShare v))
  /\ update 1 [VImm 4; VImm 5; VImm 6] v <> v /\ isolates CShallow (TColl TImm) = true /\ addrs (do_copy 100 CShallow v) = [101].
Proof. cbv zeta. repeat split; try (vm_compute; reflexivity); try discriminate. vm_compute. auto. Qed.
Definition shared_io_objects_break : bool := negb (isolates (CMap CShallow) io_shape) && negb (isolates CShare (TColl TImm)).

(** * The whole property in one statement, for today's source (round 4)
    The hypotheses are the named booleans over the objects that translate/c16_fgd.py regenerates from the source on every run; the
    check discharges each of them, and their conjunction [c16_property_hypotheses], by vm_compute (instance obligations).  The
    conclusion instantiates the parts above at those objects:
    text — a whole entity definition as written (header, keyvalue / spawnflag / choices / I/O lines, @resources) is read back, with
    [gen_line_cfg]; the type between the parentheses with [kv_type_prog] / [io_type_prog] / [vt_lookup_tab] (custom names verbatim,
    known names idempotent); the kind keyword with the dispatch chain of FGD.parse_file;
    binary — every entity is in exactly one block for [gen_bcfg] (records, blocks, header: c16_ent_bin_roundtrip,
    c16_block_bin_roundtrip, c16_db_header_roundtrip are unconditional in the generated objects except for [bin_tables_ok]);
    lazy — every history of one-at-a-time look-ups over a list of databases = the merged whole database, in the modes read from
    the source. *)
Definition entity_text_roundtrip_at (cfg : line_cfg) : Prop :=
  forall (tag_norm : str -> str) (tags_valid : list str -> bool) (vt : Type) (vt_text : vt -> str) (vt_lookup : str -> option (bool * vt))
         (vt_is_bool vt_is_flags vt_is_choices : vt -> bool) (io_text : vt -> str) (io_lookup : str -> option vt) (io_decay : vt -> vt)
         (dec : N -> str) (undec : str -> option N) (pow2 : N -> bool) (rt : Type) (rt_text : rt -> str)
         (rt_lookup : str -> option rt)
         (H : Type) (known : str -> bool) (hparse : str -> list str -> option H) (hunknown : str -> list str -> H),
  (forall v, vt_lookup (vt_text v) = Some (false, v)) -> (forall v, io_lookup (io_text v) = Some (io_decay v)) ->
  (forall n, undec (dec n) = Some n) -> (forall t, rt_lookup (rt_text t) = Some t) ->
  known KW_BASE = true -> known KW_ALIASOF = false ->
  forall (label custom alias : bool) (bases : list str) (forms : list hform) (hidden : bool) (hs : list H) (cls : str) (secs : list str)
         (items : list (nat * item vt)) (res : resources rt) (rest : list tok),
  bases_ok bases -> Forall2 (form_ok H known hparse hunknown) forms hs -> strip cls = cls ->
  Forall (item_wf tag_norm tags_valid vt vt_is_bool vt_is_flags vt_is_choices dec pow2 cfg label) (map snd items) ->
  match res with Some l => Forall (riwf tag_norm tags_valid rt) l | None => True end ->
  entity_read tag_norm tags_valid vt vt_lookup vt_is_bool vt_is_flags vt_is_choices io_lookup dec undec pow2 rt rt_lookup H known hparse hunknown
    (entity_toks vt vt_text vt_is_bool vt_is_flags io_text dec cfg rt rt_text label custom alias bases forms hidden cls secs items res ++ rest)
  = Some (mk_head H (match bases with [] => false | _ => alias && custom end) bases hs cls (List.concat secs),
          with_res vt rt (fold_left (add_item vt vt_is_bool io_decay cfg rt custom) (map snd items) (mk_body vt rt [] [] [] None))
                   (if custom then res else None),
          rest).
Definition multi_lazy_equals_eager_at (via : bool) (mode : merge_mode) : Prop :=
  forall (name ent bytes : Type) (name_eqb : name -> name -> bool),
  (forall a b, name_eqb a b = true <-> a = b) ->
  forall (decode : list name -> bytes -> list ent),
  (forall cs data, List.length (decode cs data) = List.length cs) ->
  forall (ent_bases : ent -> list name) (is_empty : bytes -> bool) (empty_bytes : bytes),
  is_empty empty_bytes = true ->
  forall (f g : nat) (Bs : list (list (block name bytes))) (qs : list name),
  Forall (file_ok name bytes is_empty) Bs ->
  Forall (fun B => (List.length B <= f)%nat) Bs -> Forall (fun B => (List.length B <= g)%nat) Bs ->
  fst (run_defs name ent bytes name_eqb decode ent_bases is_empty empty_bytes via f (map (init name ent bytes) Bs) qs)
  = map (engine_dbase name ent bytes name_eqb decode ent_bases is_empty empty_bytes via mode g Bs) qs.
Definition c16_property_hypotheses : bool :=
  line_cfg_ok gen_line_cfg && kv_type_prog_ok && io_type_prog_ok && type_table_ok && kind_keywords_read_back
  && blocks_cfg_ok && lazy_via_get_ent && multi_modes_agree && helper_args_ok && state_isolated.
Fact and10_true (a b c d e f g h i j : bool) : a && b && c && d && e && f && g && h && i && j = true ->
  a = true /\ b = true /\ c = true /\ d = true /\ e = true /\ f = true /\ g = true /\ h = true /\ i = true /\ j = true.
Proof. destruct a, b, c, d, e, f, g, h, i, j; cbn; intros; try discriminate; repeat split. Qed.
Fact line_cfg_ok_parts (c : line_cfg) : line_cfg_ok c = true -> colons_before_desc_without_default c = 2%nat /\ res_block_if_defined c = true.
Proof.
  unfold line_cfg_ok. intros H. apply andb_true_iff in H as [H R]. apply andb_true_iff in H as [H _]. split; [apply Nat.eqb_eq; exact H | exact R].
Qed.
Fact merge_is_first_eq (m : merge_mode) : merge_is_first m = true -> m = FirstWins.
Proof. destruct m; [reflexivity | discriminate]. Qed.
Theorem c16_property : c16_property_hypotheses = true ->
  entity_text_roundtrip_at gen_line_cfg
  /\ ((forall s, strip s = s -> starts_star s = false -> assoc (lower s) vt_lookup_tab = None ->
         trun lower vt_lookup_tab kv_type_prog (kv_type_text (Custom s)) = (false, Custom s)) /\
      (forall io_text s, strip s = s -> str_eqb s EHANDLE = false -> assoc (lower s) vt_lookup_tab = None ->
         trun lower vt_lookup_tab io_type_prog (io_type_text io_text (Custom s)) = (false, Custom s)) /\
      (forall raw b c, trun lower vt_lookup_tab kv_type_prog raw = (b, Known c) ->
         trun lower vt_lookup_tab kv_type_prog (kv_type_text (Known c)) = (false, Known c)))
  /\ (forall v, In v entity_kind_values ->
        kw_dispatch pf_token_folded pf_directives entity_kind_values (kind_written kind_writer_ops v) = KKind v)
  /\ (forall (size : N -> N) (maxsz : N) (all : list N) (pairs : list (N * N)) (order : list N),
        nodupN all = true -> pairs_ok all pairs = true ->
        (forall x, count_occ N.eq_dec order x = count_occ N.eq_dec (leftovers all (pair_loop gen_bcfg size maxsz pairs)) x) ->
        forall x, count_occ N.eq_dec (List.concat (build_with gen_bcfg size maxsz pairs order)) x = count_occ N.eq_dec all x)
  /\ multi_lazy_equals_eager_at lazy_via_get_ent engine_dbase_merge
  /\ (forall args, args_ok args -> paren_args_with gen_args_cfg (join_cs args) = args)
  /\ (forall f t e, In (f, (t, e)) entity_copy_plan -> forall base v, has_type t v = true -> Forall (fun a => a < base) (addrs v) ->
        forall a new, In a (addrs (do_copy base e v)) -> update a new v = v).
Proof.
  intros H. destruct (and10_true _ _ _ _ _ _ _ _ _ _ H) as (L & K & I & T & W & B & V & M & A & S). clear H.
  unfold helper_args_ok in A. apply andb_true_iff in A as [A _].
  unfold state_isolated in S. apply andb_true_iff in S as [S _].
  destruct (line_cfg_ok_parts _ L) as [C2 R].
  unfold multi_modes_agree in M. apply andb_true_iff in M as [M _]. apply merge_is_first_eq in M.
  pose proof (type_text_property_gen kv_type_prog io_type_prog vt_lookup_tab TARGET_DESTINATION K I T) as (P1 & P2 & P3).
  split; [|split; [|split; [|split; [|split; [|split]]]]].
  7: { intros f t e Hin. apply (plan_isolated (map snd entity_copy_plan) S t e). apply (in_map snd _ _ Hin). }
  6: { intros. apply paren_args_with_roundtrip; assumption. }
  - unfold entity_text_roundtrip_at. intros. apply entity_roundtrip; assumption.
  - exact (conj P1 (conj P2 P3)).
  - apply kind_keyword_roundtrip. exact W.
  - intros. apply build_with_places_every_entity; assumption.
  - rewrite M. unfold multi_lazy_equals_eager_at. intros. apply multi_lazy_equals_eager; assumption.
Qed.

(** Round 6.  Defaults written WITHOUT quotes (Fmt/FgdBare.v): `TStr (default_written k)` of the line model presupposes that the text
    KVDef.export writes is lexed as one token equal to the default.  For a quoted default that is the escape model; for a bare one it
    holds for every test that passes [bare_test_ok] (a character set all of whose members may start a bare word), on ALL strings. *)
Theorem c16_bare_default_is_one_token :
  forall t s, bare_test_ok t = true -> writes_bare t s = true -> one_token s = true.
Proof. exact bare_written_is_one_token. Qed.
(** ... in particular for the test read off today's source *)
Theorem c16_bare_default_of_source_is_one_token :
  bare_test_ok gen_bare_test = true -> forall s, writes_bare gen_bare_test s = true -> one_token s = true.
Proof. intros H s. apply bare_written_is_one_token. exact H. Qed.
(** the nearby wrong shape `try: int(default_str)`: the computed witness is `7 ` (written bare, read back as `7`); `+7` and ` 7` are
    written bare too and are not one token, `1_0` and `--7` are harmless; the digits-and-minus test writes none of them bare *)
Example c16_bare_int_call_refuted :
  bare_witness BIntCall = Some [55; 32]
  /\ writes_bare BIntCall [43; 55] = true /\ one_token [43; 55] = false /\ lex_word [43; 55] = None
  /\ writes_bare BIntCall [32; 55] = true /\ one_token [32; 55] = false
  /\ writes_bare BIntCall [49; 95; 48] = true /\ one_token [49; 95; 48] = true
  /\ writes_bare (BChars digits_minus) [45; 45; 55] = true /\ one_token [45; 45; 55] = true
  /\ writes_bare (BChars digits_minus) [43; 55] = false /\ writes_bare (BChars digits_minus) [32; 55] = false
  /\ bare_witness (BChars digits_minus) = None.
Proof. repeat split; vm_compute; reflexivity. Qed.
