(** C12 — atomic file replacement through [srctools.AtomicWriter] (used by BSP.save).
    Only statements here; the model is SM/AtomicWriter.v, the proofs are SM/AtomicWriterProofs.v and
    SM/AtomicWriterThms.v.  [c : cfg] is the record of source facts that translate/c12_atomic.py regenerates into
    Gen/AtomicWriter_gen.v on every run; the check discharges [cfg_ok aw_cfg = true] flag by flag in the kernel.

    Reading guide.  [run2 c s1 s2 sched (start d0)] runs two writers (scenarios [s1], [s2]) in one directory with
    initial contents [d0] under the schedule [sched : list (who, inject_OSError)]; every element performs exactly one
    file-system operation of one writer.  A crash/kill at any operation boundary is a schedule that stops there,
    so a statement "for every [sched]" covers every crash point, every pattern of injected OSErrors and every
    interleaving at once.  [alone c s faults d0] is one writer alone.  Contents are token lists: [new s] is the
    complete new content, [d0 (File (dest s))] the previous one. *)
From Coq Require Import List Bool Arith.
From SV Require Import SM.AtomicWriter SM.AtomicWriterProofs SM.AtomicWriterThms.
Import ListNotations.

(** Old or new, never a mixture; new exactly when the replace has succeeded — at every point of every execution,
    with any injected faults and any concurrent writer to another file. *)
Theorem c12_crash_atomic : forall c d0 s1 s2, dest s1 <> dest s2 -> cfg_safe c = true -> forall sched,
  let st := run2 c s1 s2 sched (start d0) in
  sd st (File (dest s1)) = (if committed (p1 st) then Some (new s1) else d0 (File (dest s1))) /\
  sd st (File (dest s2)) = (if committed (p2 st) then Some (new s2) else d0 (File (dest s2))).
Proof. exact crash_atomic. Qed.

Theorem c12_crash_atomic_alone : forall c d0 s, cfg_safe c = true -> forall faults,
  let st := alone c s faults d0 in
  sd st (File (dest s)) = (if committed (p1 st) then Some (new s) else d0 (File (dest s))).
Proof. exact alone_crash_atomic. Qed.

(** Any OSError in any operation of the writer (mkdir, open, write, flush, close, replace, unlink), at any time:
    the writer never commits afterwards and the destination keeps the previous contents. *)
Theorem c12_fault_keeps_old : forall c d0 s1 s2, dest s1 <> dest s2 -> cfg_safe c = true -> forall sched,
  let st := run2 c s1 s2 sched (start d0) in
  faulted false (tr st) -> committed (p1 st) = false /\ sd st (File (dest s1)) = d0 (File (dest s1)).
Proof. exact fault_keeps_old. Qed.

Theorem c12_fault_keeps_old_alone : forall c d0 s, cfg_safe c = true -> forall faults,
  let st := alone c s faults d0 in
  faulted false (tr st) -> committed (p1 st) = false /\ sd st (File (dest s)) = d0 (File (dest s)).
Proof. exact alone_fault_keeps_old. Qed.

(** The caller's body raises after any number [r] of raw writes: previous contents remain, and once the writer has
    finished (and its cleanup unlink did not itself raise) the whole directory is as it was. *)
Theorem c12_body_exception_cleans : forall c d0 s, cfg_ok c = true -> forall r faults,
  raise_at s = Some r -> r <= length (body s) ->
  let st := alone c s faults d0 in
  sd st (File (dest s)) = d0 (File (dest s)) /\
  (finished (p1 st) = true -> (forall i, ~ In (false, (EUnlink i, RFault)) (tr st)) -> forall n, sd st n = d0 n).
Proof. exact alone_body_exception_cleans. Qed.

Theorem c12_body_exception_keeps_old_concurrent : forall c d0 s1 s2, dest s1 <> dest s2 -> cfg_safe c = true ->
  forall r sched, raise_at s1 = Some r -> r <= length (body s1) ->
  let st := run2 c s1 s2 sched (start d0) in
  committed (p1 st) = false /\ sd st (File (dest s1)) = d0 (File (dest s1)).
Proof. exact body_exception_keeps_old. Qed.

(** No temp file is left by a handled failure: a finished writer (success, body exception, OSError in mkdir / open /
    write / flush / close / replace) leaves every temp name as it was; the single exception is an OSError raised by
    the cleanup unlink itself, which no implementation can handle (see [c12_unlink_fault_leaves_temp]). *)
Theorem c12_no_temp_after_handled_failure_alone : forall c d0 s, cfg_ok c = true -> forall faults,
  let st := alone c s faults d0 in
  finished (p1 st) = true -> (forall i, ~ In (false, (EUnlink i, RFault)) (tr st)) ->
  forall i, sd st (Tmp i) = d0 (Tmp i).
Proof. exact alone_no_temp_left. Qed.

Theorem c12_no_temp_after_handled_failure : forall c d0 s1 s2, dest s1 <> dest s2 -> cfg_ok c = true -> forall sched,
  let st := run2 c s1 s2 sched (start d0) in
  finished (p1 st) = true -> (forall i, ~ In (false, (EUnlink i, RFault)) (tr st)) ->
  assoc (p1 st) = None /\ forall i, assoc (p2 st) <> Some i -> sd st (Tmp i) = d0 (Tmp i).
Proof. exact no_temp_after_handled_failure. Qed.

(** Two writers to different files of one directory, all interleavings, all fault patterns: they never hold the same
    temp name; a held temp name was created fresh (it did not exist before) and still exists; the temp file that is
    about to be committed holds exactly its own writer's complete data; nothing that existed before (other files,
    stale temp files) is touched.  (The destinations are covered by [c12_crash_atomic].) *)
Theorem c12_two_writers_isolated : forall c d0 s1 s2, dest s1 <> dest s2 -> cfg_safe c = true -> forall sched,
  let st := run2 c s1 s2 sched (start d0) in
  (forall i, assoc (p1 st) = Some i -> assoc (p2 st) = Some i -> False) /\
  (forall i, assoc (p1 st) = Some i \/ assoc (p2 st) = Some i -> d0 (Tmp i) = None /\ sd st (Tmp i) <> None) /\
  (forall i, p1 st = PReplace i -> sd st (Tmp i) = Some (new s1)) /\
  (forall i, p2 st = PReplace i -> sd st (Tmp i) = Some (new s2)) /\
  (forall n, n <> File (dest s1) -> n <> File (dest s2) -> d0 n <> None -> sd st n = d0 n).
Proof. exact two_writers_isolated. Qed.

(** The repaired source satisfies the hypotheses; the statements are not vacuous. *)
Theorem c12_cfg_fixed_ok : cfg_ok cfg_fixed = true.
Proof. exact cfg_fixed_ok. Qed.
Theorem c12_happy_path_commits :
  let st := alone cfg_fixed sc_a (repeat false 7) d_old in
  p1 st = PDone FCommitted None /\ sd st (File 0) = Some [1; 2; 3] /\ sd st (Tmp 1) = None /\ sd st (Tmp 2) = Some [777].
Proof. exact happy_path_commits. Qed.

(** The hypotheses are needed.  Pinned tree (cleanup not in a finally, DESIGN section 7 #31): an OSError from the
    flush/close or from the replace leaves tmp_1 behind. *)
Theorem c12_pinned_close_fault_leaves_temp_refuted :
  let st := alone cfg_pinned sc_a [false; false; false; false; false; true] d_old in
  p1 st = PDone FNot (Some 1) /\ sd st (Tmp 1) = Some [1; 2; 3] /\ sd st (File 0) = Some [100].
Proof. exact pinned_close_fault_leaves_temp. Qed.
Theorem c12_pinned_flush_fault_leaves_temp_refuted :
  let st := alone cfg_pinned sc_a [false; false; false; false; true; false] d_old in
  p1 st = PDone FNot (Some 1) /\ sd st (Tmp 1) = Some [1; 2] /\ sd st (File 0) = Some [100].
Proof. exact pinned_flush_fault_leaves_temp. Qed.
Theorem c12_pinned_replace_fault_leaves_temp_refuted :
  let st := alone cfg_pinned sc_a [false; false; false; false; false; false; true] d_old in
  p1 st = PDone FNot (Some 1) /\ sd st (Tmp 1) = Some [1; 2; 3] /\ sd st (File 0) = Some [100].
Proof. exact pinned_replace_fault_leaves_temp. Qed.
Theorem c12_nonexclusive_open_clobbers_refuted :
  let st := run2 cfg_nonexcl sc_a1 sc_b
              [(false, false); (false, false); (false, false); (true, false); (true, false); (true, false);
               (false, false); (false, false)] (start d_old) in
  committed (p1 st) = true /\ sd st (File 0) = Some [7] /\ new sc_a1 = [1].
Proof. exact nonexclusive_open_clobbers. Qed.
Theorem c12_commit_on_exception_refuted :
  let st := alone cfg_commit_on_exc sc_raise (repeat false 6) d_old in
  sd st (File 0) = Some [1] /\ new sc_raise = [1; 2; 3].
Proof. exact commit_on_exception_publishes_partial. Qed.
Theorem c12_unlink_fault_leaves_temp :
  let st := alone cfg_fixed sc_raise [false; false; false; false; true] d_old in
  p1 st = PDone FNot (Some 1) /\ sd st (Tmp 1) = Some [1] /\ sd st (File 0) = Some [100].
Proof. exact unlink_fault_leaves_temp. Qed.
