(** C12 — atomic file replacement through [srctools.AtomicWriter] (used by BSP.save).
    Only statements here; the model is SM/AtomicWriter.v, the proofs are SM/AtomicWriterProofs.v and
    SM/AtomicWriterThms.v.  [c : cfg] is the record of source facts that translate/c12_atomic.py regenerates into
    Gen/AtomicWriter_gen.v on every run; the check discharges [cfg_ok aw_cfg = true] flag by flag in the kernel.

    Reading guide.  [run2 c s1 s2 sched (start d0)] runs two writers (scenarios [s1], [s2]) in one directory with
    initial contents [d0] under the schedule [sched : list (who, inject_OSError)]; every element performs exactly one
    file-system operation of one writer.  A crash/kill at any operation boundary is a schedule that stops there,
    so a statement "for every [sched]" covers every crash point, every pattern of injected OSErrors and every
    interleaving at once.  [alone c s faults d0] is one writer alone.  Contents are token lists: [new s] is the
    complete new content, [d0 (File (dest s))] the previous one. *)
From Coq Require Import List Bool Arith.
From SV Require Import SM.AtomicWriter SM.AtomicWriterProofs SM.AtomicWriterThms SM.AtomicExit SM.AtomicExitProofs
  SM.AtomicOpenLoopProofs SM.AtomicSameDestProofs SM.AtomicReuse SM.AtomicReuseProofs SM.AtomicRetry
  SM.AtomicRetryProofs SM.AtomicProduct SM.AtomicProductProofs SM.AtomicAbandon SM.AtomicAbandonProofs.
Import ListNotations.

(** Old or new, never a mixture; new exactly when the replace has succeeded — at every point of every execution,
    with any injected faults and any concurrent writer to another file. *)
Theorem c12_crash_atomic : forall c d0 s1 s2, dest s1 <> dest s2 -> cfg_safe c = true -> forall sched,
  let st := run2 c s1 s2 sched (start d0) in
  sd st (File (dest s1)) = (if committed (p1 st) then Some (new s1) else d0 (File (dest s1))) /\
  sd st (File (dest s2)) = (if committed (p2 st) then Some (new s2) else d0 (File (dest s2))).
Proof. exact crash_atomic. Qed.

Theorem c12_crash_atomic_alone : forall c d0 s, cfg_safe c = true -> forall faults,
  let st := alone c s faults d0 in
  sd st (File (dest s)) = (if committed (p1 st) then Some (new s) else d0 (File (dest s))).
Proof. exact alone_crash_atomic. Qed.

(** Any OSError in any operation of the writer (mkdir, open, write, flush, close, replace, unlink), at any time:
    the writer never commits afterwards and the destination keeps the previous contents. *)
Theorem c12_fault_keeps_old : forall c d0 s1 s2, dest s1 <> dest s2 -> cfg_safe c = true -> forall sched,
  let st := run2 c s1 s2 sched (start d0) in
  faulted false (tr st) -> committed (p1 st) = false /\ sd st (File (dest s1)) = d0 (File (dest s1)).
Proof. exact fault_keeps_old. Qed.

Theorem c12_fault_keeps_old_alone : forall c d0 s, cfg_safe c = true -> forall faults,
  let st := alone c s faults d0 in
  faulted false (tr st) -> committed (p1 st) = false /\ sd st (File (dest s)) = d0 (File (dest s)).
Proof. exact alone_fault_keeps_old. Qed.

(** The caller's body raises after any number [r] of raw writes: previous contents remain, and once the writer has
    finished (and its cleanup unlink did not itself raise) the whole directory is as it was. *)
Theorem c12_body_exception_cleans : forall c d0 s, cfg_ok c = true -> forall r faults,
  raise_at s = Some r -> r <= length (body s) ->
  let st := alone c s faults d0 in
  sd st (File (dest s)) = d0 (File (dest s)) /\
  (finished (p1 st) = true -> (forall i, ~ In (false, (EUnlink i, RFault)) (tr st)) -> forall n, sd st n = d0 n).
Proof. exact alone_body_exception_cleans. Qed.

Theorem c12_body_exception_keeps_old_concurrent : forall c d0 s1 s2, dest s1 <> dest s2 -> cfg_safe c = true ->
  forall r sched, raise_at s1 = Some r -> r <= length (body s1) ->
  let st := run2 c s1 s2 sched (start d0) in
  committed (p1 st) = false /\ sd st (File (dest s1)) = d0 (File (dest s1)).
Proof. exact body_exception_keeps_old. Qed.

(** No temp file is left by a handled failure: a finished writer (success, body exception, OSError in mkdir / open /
    write / flush / close / replace) leaves every temp name as it was; the single exception is an OSError raised by
    the cleanup unlink itself, which no implementation can handle (see [c12_unlink_fault_leaves_temp]). *)
Theorem c12_no_temp_after_handled_failure_alone : forall c d0 s, cfg_ok c = true -> forall faults,
  let st := alone c s faults d0 in
  finished (p1 st) = true -> (forall i, ~ In (false, (EUnlink i, RFault)) (tr st)) ->
  forall i, sd st (Tmp i) = d0 (Tmp i).
Proof. exact alone_no_temp_left. Qed.

Theorem c12_no_temp_after_handled_failure : forall c d0 s1 s2, dest s1 <> dest s2 -> cfg_ok c = true -> forall sched,
  let st := run2 c s1 s2 sched (start d0) in
  finished (p1 st) = true -> (forall i, ~ In (false, (EUnlink i, RFault)) (tr st)) ->
  assoc (p1 st) = None /\ forall i, assoc (p2 st) <> Some i -> sd st (Tmp i) = d0 (Tmp i).
Proof. exact no_temp_after_handled_failure. Qed.

(** Two writers to different files of one directory, all interleavings, all fault patterns: they never hold the same
    temp name; a held temp name was created fresh (it did not exist before) and still exists; the temp file that is
    about to be committed holds exactly its own writer's complete data; nothing that existed before (other files,
    stale temp files) is touched.  (The destinations are covered by [c12_crash_atomic].) *)
Theorem c12_two_writers_isolated : forall c d0 s1 s2, dest s1 <> dest s2 -> cfg_safe c = true -> forall sched,
  let st := run2 c s1 s2 sched (start d0) in
  (forall i, assoc (p1 st) = Some i -> assoc (p2 st) = Some i -> False) /\
  (forall i, assoc (p1 st) = Some i \/ assoc (p2 st) = Some i -> d0 (Tmp i) = None /\ sd st (Tmp i) <> None) /\
  (forall i, p1 st = PReplace i -> sd st (Tmp i) = Some (new s1)) /\
  (forall i, p2 st = PReplace i -> sd st (Tmp i) = Some (new s2)) /\
  (forall n, n <> File (dest s1) -> n <> File (dest s2) -> d0 n <> None -> sd st n = d0 n).
Proof. exact two_writers_isolated. Qed.

(** The repaired source satisfies the hypotheses; the statements are not vacuous. *)
Theorem c12_cfg_fixed_ok : cfg_ok cfg_fixed = true.
Proof. exact cfg_fixed_ok. Qed.
Theorem c12_happy_path_commits :
  let st := alone cfg_fixed sc_a (repeat false 7) d_old in
  p1 st = PDone FCommitted None /\ sd st (File 0) = Some [1; 2; 3] /\ sd st (Tmp 1) = None /\ sd st (Tmp 2) = Some [777].
Proof. exact happy_path_commits. Qed.

(** The hypotheses are needed.  Pinned tree (cleanup not in a finally, DESIGN section 7 #31): an OSError from the
    flush/close or from the replace leaves tmp_1 behind. *)
Theorem c12_pinned_close_fault_leaves_temp_refuted :
  let st := alone cfg_pinned sc_a [false; false; false; false; false; true] d_old in
  p1 st = PDone FNot (Some 1) /\ sd st (Tmp 1) = Some [1; 2; 3] /\ sd st (File 0) = Some [100].
Proof. exact pinned_close_fault_leaves_temp. Qed.
Theorem c12_pinned_flush_fault_leaves_temp_refuted :
  let st := alone cfg_pinned sc_a [false; false; false; false; true; false] d_old in
  p1 st = PDone FNot (Some 1) /\ sd st (Tmp 1) = Some [1; 2] /\ sd st (File 0) = Some [100].
Proof. exact pinned_flush_fault_leaves_temp. Qed.
Theorem c12_pinned_replace_fault_leaves_temp_refuted :
  let st := alone cfg_pinned sc_a [false; false; false; false; false; false; true] d_old in
  p1 st = PDone FNot (Some 1) /\ sd st (Tmp 1) = Some [1; 2; 3] /\ sd st (File 0) = Some [100].
Proof. exact pinned_replace_fault_leaves_temp. Qed.
Theorem c12_nonexclusive_open_clobbers_refuted :
  let st := run2 cfg_nonexcl sc_a1 sc_b
              [(false, false); (false, false); (false, false); (true, false); (true, false); (true, false);
               (false, false); (false, false)] (start d_old) in
  committed (p1 st) = true /\ sd st (File 0) = Some [7] /\ new sc_a1 = [1].
Proof. exact nonexclusive_open_clobbers. Qed.
Theorem c12_commit_on_exception_refuted :
  let st := alone cfg_commit_on_exc sc_raise (repeat false 6) d_old in
  sd st (File 0) = Some [1] /\ new sc_raise = [1; 2; 3].
Proof. exact commit_on_exception_publishes_partial. Qed.
Theorem c12_unlink_fault_leaves_temp :
  let st := alone cfg_fixed sc_raise [false; false; false; false; true] d_old in
  p1 st = PDone FNot (Some 1) /\ sd st (Tmp 1) = Some [1] /\ sd st (File 0) = Some [100].
Proof. exact unlink_fault_leaves_temp. Qed.

(** * The same property for the exit protocol as a generated object (SM/AtomicExit.v)

    translate/c12_atomic.py transliterates [AtomicWriter.__exit__] into a program [aw_exit_prog : xstmt]; the kernel
    interprets it symbolically into the decision trees [x_ok] / [x_exc] of a protocol [x : xproto] (which operation
    follows which result of close / rename / unlink, whether an exception leaves [__exit__]).  [run2t x] runs two
    writers whose exit phase walks these trees.  [proto_safe x] / [proto_ok x] are boolean: the trees are those of a
    member of the five-flag family with the good flags; the check discharges them for today's program by vm_compute.
    The theorems below therefore speak about every program the translator can produce, not about five flags. *)

(** Refinement: a protocol in the family runs exactly like the flag machine with the flags read off its trees
    (same directory and same trace after every schedule, related program counters). *)
Theorem c12_protocol_refines_flags : forall x, in_family x = true -> forall d0 s1 s2 sched,
  Rsys (derive_cfg x) (run2t x s1 s2 sched (startt d0)) (run2 (derive_cfg x) s1 s2 sched (start d0)).
Proof. exact run2t_refines. Qed.

Theorem c12_family_is_recognised : forall c, in_family (proto_of_cfg c) = true.
Proof. exact family_complete. Qed.

Theorem c12_protocol_crash_atomic : forall x d0 s1 s2, dest s1 <> dest s2 -> proto_safe x = true -> forall sched,
  let st := run2t x s1 s2 sched (startt d0) in
  sdt st (File (dest s1)) = (if committedt (q1 st) then Some (new s1) else d0 (File (dest s1))) /\
  sdt st (File (dest s2)) = (if committedt (q2 st) then Some (new s2) else d0 (File (dest s2))).
Proof. exact proto_crash_atomic. Qed.

Theorem c12_protocol_fault_keeps_old : forall x d0 s1 s2, dest s1 <> dest s2 -> proto_safe x = true -> forall sched,
  let st := run2t x s1 s2 sched (startt d0) in
  faulted false (trt st) -> committedt (q1 st) = false /\ sdt st (File (dest s1)) = d0 (File (dest s1)).
Proof. exact proto_fault_keeps_old. Qed.

Theorem c12_protocol_body_exception_keeps_old : forall x d0 s1 s2, dest s1 <> dest s2 -> proto_safe x = true ->
  forall r sched, raise_at s1 = Some r -> r <= length (body s1) ->
  let st := run2t x s1 s2 sched (startt d0) in
  committedt (q1 st) = false /\ sdt st (File (dest s1)) = d0 (File (dest s1)).
Proof. exact proto_body_exception_keeps_old. Qed.

Theorem c12_protocol_no_temp_after_handled_failure : forall x d0 s1 s2, dest s1 <> dest s2 -> proto_ok x = true ->
  forall sched, let st := run2t x s1 s2 sched (startt d0) in
  finishedt (q1 st) = true -> (forall i, ~ In (false, (EUnlink i, RFault)) (trt st)) ->
  assoct (q1 st) = None /\ forall i, assoct (q2 st) <> Some i -> sdt st (Tmp i) = d0 (Tmp i).
Proof. exact proto_no_temp_after_handled_failure. Qed.

Theorem c12_protocol_two_writers_isolated : forall x d0 s1 s2, dest s1 <> dest s2 -> proto_safe x = true ->
  forall sched, let st := run2t x s1 s2 sched (startt d0) in
  (forall i, assoct (q1 st) = Some i -> assoct (q2 st) = Some i -> False) /\
  (forall i, assoct (q1 st) = Some i \/ assoct (q2 st) = Some i -> d0 (Tmp i) = None /\ sdt st (Tmp i) <> None) /\
  (forall i, about_to_replace (q1 st) i -> sdt st (Tmp i) = Some (new s1)) /\
  (forall i, about_to_replace (q2 st) i -> sdt st (Tmp i) = Some (new s2)) /\
  (forall n, n <> File (dest s1) -> n <> File (dest s2) -> d0 n <> None -> sdt st n = d0 n).
Proof. exact proto_two_writers_isolated. Qed.

Theorem c12_protocol_body_exception_cleans : forall x d0 s, proto_ok x = true -> forall r faults,
  raise_at s = Some r -> r <= length (body s) ->
  let st := alonet x s faults d0 in
  sdt st (File (dest s)) = d0 (File (dest s)) /\
  (finishedt (q1 st) = true -> (forall i, ~ In (false, (EUnlink i, RFault)) (trt st)) -> forall n, sdt st n = d0 n).
Proof. exact proto_alone_body_exception_cleans. Qed.

Theorem c12_protocol_no_temp_left_alone : forall x d0 s, proto_ok x = true -> forall faults,
  let st := alonet x s faults d0 in
  finishedt (q1 st) = true -> (forall i, ~ In (false, (EUnlink i, RFault)) (trt st)) ->
  forall i, sdt st (Tmp i) = d0 (Tmp i).
Proof. exact proto_alone_no_temp_left. Qed.

(** BSP.save = rebuild phase without file-system operations, then one writer: a failure while rebuilding lumps
    leaves the whole directory as it was; otherwise the destination is old or complete new at every point. *)
Theorem c12_save_rebuild_failure_touches_nothing : forall x d0 s faults,
  let st := save_alone x false s faults d0 in
  (forall n, sdt st n = d0 n) /\ trt st = [] /\ committedt (q1 st) = false.
Proof. exact save_pre_failure_touches_nothing. Qed.

Theorem c12_save_atomic : forall x d0 s, proto_safe x = true -> forall pre_ok faults,
  let st := save_alone x pre_ok s faults d0 in
  sdt st (File (dest s)) = (if committedt (q1 st) then Some (new s) else d0 (File (dest s))).
Proof. exact save_atomic. Qed.

(** The named obligations on decision trees follow from [proto_ok] (they refine it; none is an extra demand). *)
Theorem c12_protocol_ok_implies_tree_obligations : forall x, proto_ok x = true ->
  forallb (fun b => b) (proto_preds x) = true.
Proof. exact proto_ok_preds. Qed.

(** Non-vacuity: the repaired [__exit__] (as the translator writes it) satisfies the hypotheses and has the flags
    [cfg_fixed]; the pinned one is in the family with the flags [cfg_pinned]. *)
Theorem c12_repaired_program_ok :
  proto_ok (proto_of_prog true prog_fixed) = true /\ derive_cfg (proto_of_prog true prog_fixed) = cfg_fixed.
Proof. exact (conj prog_fixed_ok prog_fixed_cfg). Qed.
Theorem c12_pinned_program_flags :
  in_family (proto_of_prog true prog_pinned) = true /\ derive_cfg (proto_of_prog true prog_pinned) = cfg_pinned.
Proof. exact prog_pinned_cfg. Qed.

(** Defective shapes are outside the hypotheses, and the tree machine exhibits what they do.  Commit decided in a
    [finally] by [exc_type is None] alone: the flush inside close fails, the truncated temp
    file [1;2] replaces the destination although the complete content is [1;2;3] and an OSError was raised. *)
Theorem c12_commit_in_finally_refuted :
  let x := proto_of_prog true prog_commit_in_finally in
  in_family x = false /\ no_replace (close_fl (x_ok x)) = false /\
  let st := alonet x sc_a [false; false; false; false; true; false; false] d_old in
  q1 st = TDone FCommitted None true /\ sdt st (File 0) = Some [1; 2] /\ new sc_a = [1; 2; 3] /\ faulted false (trt st).
Proof. exact commit_in_finally_refuted. Qed.
Theorem c12_replace_before_close_refuted :
  let x := proto_of_prog true prog_replace_before_close in in_family x = false /\ closes_first (x_ok x) = false.
Proof. exact replace_before_close_refuted. Qed.
Theorem c12_swallowed_exception_refuted :
  let x := proto_of_prog true prog_swallow in in_family x = false /\ propagates (x_exc x) true = false.
Proof. exact swallow_refuted. Qed.

(** * The temp-name loop of [make_tempfile] terminates

    One writer alone, no temp name above tmp_N present: the loop settles on the least free index j <= N+1 after
    exactly j attempts (all earlier ones answered FileExistsError), creates only tmp_j, nothing else changes. *)
Theorem c12_open_loop_least_free : forall c s d0 N, c_excl c = true -> (forall i, N < i -> d0 (Tmp i) = None) ->
  exists j, 1 <= j <= S N /\ d0 (Tmp j) = None /\ (forall k, 1 <= k < j -> d0 (Tmp k) <> None) /\
    run1 c s (S j) 0 [] PMkdir d0 =
    (after_body s j 0, upd d0 (Tmp j) (Some []),
     (EMkdir, ROk) :: exist_events 1 (j - 1) ++ [(EOpen j, ROk)]).
Proof. exact open_loop_least_free. Qed.

(** Two writers, every schedule and fault pattern: every open attempt (also in the recorded trace) and every held
    temp name has an index <= N+2.  The attempts of one writer have strictly increasing indexes, so no interleaving
    makes a writer loop more than N+2 times; [c12_temp_index_bound_is_tight] shows N+2 is reached. *)
Theorem c12_temp_index_bounded : forall x d0 s1 s2 N, dest s1 <> dest s2 -> proto_safe x = true ->
  (forall i, N < i -> d0 (Tmp i) = None) -> forall sched,
  let st := run2t x s1 s2 sched (startt d0) in
  (forall i, idxt (q1 st) = Some i -> i <= N + 2) /\
  (forall i, idxt (q2 st) = Some i -> i <= N + 2) /\
  (forall w i r, In (w, (EOpen i, r)) (trt st) -> i <= N + 2).
Proof. exact proto_temp_index_bounded. Qed.

Theorem c12_temp_index_bound_is_tight :
  let d := dir_of [(File 0, [100]); (Tmp 1, [111])] in
  let st := run2 cfg_fixed sc_a sc_b
              [(true, false); (true, false); (true, false); (false, false); (false, false); (false, false);
               (false, false)] (start d) in
  assoc (p2 st) = Some 2 /\ assoc (p1 st) = Some 3.
Proof. exact bound_is_tight. Qed.

(** * Two writers to the same destination (beyond the wording of the property: "different files")

    At every point of every schedule and fault pattern the destination holds the previous contents (nobody has
    committed yet) or the complete contents of a writer that has committed — never chunks of both; temp names are
    never shared; every other pre-existing file is untouched.  Which of two committed writers wins is decided by the
    order of the renames ([c12_same_destination_last_rename_wins]). *)
Theorem c12_same_destination_no_mixture : forall x d0 s1 s2, dest s1 = dest s2 -> proto_safe x = true -> forall sched,
  let st := run2t x s1 s2 sched (startt d0) in
  ((committedt (q1 st) = false /\ committedt (q2 st) = false /\ sdt st (File (dest s1)) = d0 (File (dest s1))) \/
   (committedt (q1 st) = true /\ sdt st (File (dest s1)) = Some (new s1)) \/
   (committedt (q2 st) = true /\ sdt st (File (dest s1)) = Some (new s2))) /\
  (forall i, assoct (q1 st) = Some i -> assoct (q2 st) = Some i -> False) /\
  (forall n, n <> File (dest s1) -> d0 n <> None -> sdt st n = d0 n).
Proof. exact proto_same_dest_no_mixture. Qed.

Theorem c12_same_destination_fault_never_commits : forall x d0 s1 s2, dest s1 = dest s2 -> proto_safe x = true ->
  forall sched, let st := run2t x s1 s2 sched (startt d0) in
  faulted false (trt st) ->
  committedt (q1 st) = false /\
  (sdt st (File (dest s1)) = d0 (File (dest s1)) \/
   (committedt (q2 st) = true /\ sdt st (File (dest s1)) = Some (new s2))).
Proof. exact proto_same_dest_fault_never_commits. Qed.

Theorem c12_same_destination_last_rename_wins :
  let sb := {| dest := 0; body := [7]; tail := []; raise_at := None |} in
  let seq w := repeat (w, false) 6 in
  sd (run2 cfg_fixed sc_a1 sb (seq false ++ seq true) (start d_old)) (File 0) = Some [7] /\
  sd (run2 cfg_fixed sc_a1 sb (seq true ++ seq false) (start d_old)) (File 0) = Some [1].
Proof. exact same_dest_last_rename_wins. Qed.

(** * One AtomicWriter object used for several [with] blocks (SM/AtomicReuse.v)

    What survives a [with] block is the object's instance attributes.  [o : wobj] is generated from today's source:
    the program of [__exit__], the attribute slots it mentions, their values after [__init__], what
    [__enter__]/[make_tempfile] assign on every entry, which attributes are never assigned again.  [proto_at o a] is the
    exit protocol of a use that starts with the attributes in state [a]; [reuse_indep o] (a boolean the check
    discharges by vm_compute) enumerates EVERY state [a] that agrees with [__init__] on the constant attributes.
    A history [h] is a list of uses (scenario, fault pattern, attribute state the object happens to be in), each run
    in the directory the previous one left ([hrun]/[hfinal]); a killed use ends the history. *)

(** In whatever state earlier uses left the attributes, the next use runs the protocol of a fresh object. *)
Theorem c12_reuse_every_use_runs_the_first_use_protocol : forall o, reuse_indep o = true ->
  forall a, ostate o a -> proto_at o a = obj_proto o.
Proof. exact reuse_indep_sound. Qed.
Theorem c12_reuse_fresh_object_is_a_state : forall o, reuse_indep o = true -> ostate o (o_init o).
Proof. exact init_is_a_state. Qed.

(** Every use of every history (successful, abandoned by the body, failing with OSErrors anywhere, killed; in any
    order: S, F, SF, SSF, FSF, SFS, ...) is a good single use relative to the directory it started in: destination
    old or complete new (new exactly when its rename succeeded), any OSError / body exception keeps the previous
    contents, a finished use whose cleanup unlink was not itself refused leaves every temp name as it found it, every
    other file untouched. *)
Theorem c12_reuse_history : forall o, reuse_indep o = true -> proto_ok (obj_proto o) = true ->
  forall h, hstates_ok o h -> forall d, hist_good o h d.
Proof. exact reuse_history_good. Qed.

(** Temp files do not accumulate over a history, and files that are no destination are never touched. *)
Theorem c12_reuse_no_temp_accumulates : forall o, reuse_indep o = true -> proto_ok (obj_proto o) = true ->
  forall h, hstates_ok o h -> forall d, hclean o h d ->
  (forall i, hfinal o h d (Tmp i) = d (Tmp i)) /\
  (forall k, (forall u, In u h -> dest (fst (fst u)) <> k) -> hfinal o h d (File k) = d (File k)).
Proof. exact reuse_no_temp_accumulates. Qed.

(** Non-vacuity: today's class (no attribute besides handle, temp name, destination), and a "committed" flag kept in
    an attribute that is reset on entry or at the start of [__exit__], satisfy the hypotheses. *)
Theorem c12_reuse_repaired_object_ok :
  reuse_indep obj_fixed = true /\ proto_ok (obj_proto obj_fixed) = true /\
  exit_always_leaves obj_fixed 0 VNone = true /\ init_unentered obj_fixed = true /\ enter_binds obj_fixed = true.
Proof. exact obj_fixed_reusable. Qed.
Theorem c12_reuse_flag_attribute_reset_ok :
  reuse_indep obj_flag_reset_on_entry = true /\ proto_ok (obj_proto obj_flag_reset_on_entry) = true /\
  reuse_indep obj_flag_reset_in_exit = true /\ proto_ok (obj_proto obj_flag_reset_in_exit) = true.
Proof. exact obj_flag_reset_reusable. Qed.

(** The hypothesis is needed: the same flag initialised by [__init__] only (the shape of seeded c12_4).  The first
    use is good, [reuse_indep] is false; after one successful use the flag is True, and the next use, abandoned by the
    body after one write, leaves tmp_1 = [1] behind although no operation failed. *)
Theorem c12_reuse_flag_never_reset_refuted :
  let o := obj_flag_never_reset in
  proto_ok (obj_proto o) = true /\ reuse_indep o = false /\
  ok_leaf (leaf_tree o (o_init o) false
             (fun e => is_val VNone (e 0) && is_val VTName (e 1) && is_val VDest (e 2) && is_val VTrue (e 6))) = true /\
  ostate o st_after_success /\
  let h := [(sc_a, repeat false 7, o_init o); (sc_raise, repeat false 6, st_after_success)] in
  hclean o h d_old /\
  hfinal o h d_old (Tmp 1) = Some [1] /\ d_old (Tmp 1) = None /\ hfinal o h d_old (File 0) = Some [1; 2; 3].
Proof. exact flag_never_reset_refuted. Qed.

(** * A history of [BSP.save] calls
    Every call builds a fresh writer object; the rebuild phase of a call may raise before the writer is entered
    ([pre = false]: nothing at all happens, the next call finds the directory as it was).  Every call of every history
    is a good single use relative to the directory it started in, and temp files do not accumulate. *)
Theorem c12_save_history : forall x, proto_ok x = true -> forall h d, shist_good x h d.
Proof. exact save_history_good. Qed.
Theorem c12_save_history_no_temp_accumulates : forall x, proto_ok x = true -> forall h d, shclean x h d ->
  (forall i, shfinal x h d (Tmp i) = d (Tmp i)) /\
  (forall k, (forall u, In u h -> dest (snd (fst u)) <> k) -> shfinal x h d (File k) = d (File k)).
Proof. exact save_history_no_temp_accumulates. Qed.
Theorem c12_save_history_example :
  let x := obj_proto obj_fixed in
  let h := [(true, sc_a, repeat false 7); (false, sc_a, []); (true, sc_raise, repeat false 6)] in
  shclean x h d_old /\ shfinal x h d_old (File 0) = Some [1; 2; 3] /\ shfinal x h d_old (Tmp 1) = d_old (Tmp 1).
Proof. exact save_history_example. Qed.

(** * Round 4: refused operations by exception class, bounded retries (SM/AtomicRetry.v)

    [with_class r o] is the object [o] with the handler classes of its [__exit__] specialised to runs in which every
    refused operation raises class [r] (an OSError that is no named subclass / the c-th named subclass: PermissionError,
    FileExistsError, ... / KeyboardInterrupt); all theorems above that speak about objects and protocols apply to
    [with_class r o] and [class_proto o r], and the check discharges their hypotheses for every run class.
    [SFor n body orelse] / [SBreak] / [SContinue] make a retry loop a statement like any other; its decision tree is a
    chain of renames, which [collapse] merges. *)

(** The [with] statement of a finished writer returns normally exactly when its rename succeeded — for ANY protocol
    whose trees pass [proto_outcome_ok] (no family membership needed), after every schedule of two writers. *)
Theorem c12_returns_normally_iff_committed : forall x, proto_outcome_ok x = true -> forall d0 s1 s2 sched,
  let st := run2t x s1 s2 sched (startt d0) in
  (forall r l b, q1 st = TDone r l b -> b = negb (committedt (q1 st))) /\
  (forall r l b, q2 st = TDone r l b -> b = negb (committedt (q2 st))).
Proof. exact outcome_inv. Qed.

(** Stutter simulation: every run of a protocol is, up to refused renames / unlinks that are tried again, a run of the
    collapsed protocol: same directory, related program counters, and every event of the collapsed run happened. *)
Theorem c12_retry_run_is_a_run_of_the_collapsed_protocol : forall x s1 s2 sched d0,
  exists sched', Rc (run2t x s1 s2 sched (startt d0)) (run2t (collapse_proto x) s1 s2 sched' (startt d0)).
Proof. intros x s1 s2 sched d0. exact (run2t_collapse x s1 s2 sched _ _ (Rc_start d0)). Qed.

(** The property for protocols with retries ([retry_safe] / [retry_ok]: the collapsed protocol is in the good part of
    the five-flag family). *)
Theorem c12_retry_crash_atomic : forall x d0 s1 s2, dest s1 <> dest s2 -> retry_safe x = true -> forall sched,
  let st := run2t x s1 s2 sched (startt d0) in
  sdt st (File (dest s1)) = (if committedt (q1 st) then Some (new s1) else d0 (File (dest s1))) /\
  sdt st (File (dest s2)) = (if committedt (q2 st) then Some (new s2) else d0 (File (dest s2))).
Proof. exact retry_crash_atomic. Qed.

(** With retries "a refused operation => never commits" is false and not wanted (refused once, accepted at the next
    attempt: commits).  What the property asks: the write FAILED (the with statement raised) => previous contents. *)
Theorem c12_retry_failure_keeps_old : forall x d0 s1 s2, dest s1 <> dest s2 -> retry_safe x = true ->
  proto_outcome_ok x = true -> forall sched,
  let st := run2t x s1 s2 sched (startt d0) in
  forall r l, q1 st = TDone r l true -> committedt (q1 st) = false /\ sdt st (File (dest s1)) = d0 (File (dest s1)).
Proof. exact retry_failure_keeps_old. Qed.

Theorem c12_retry_body_exception_keeps_old : forall x d0 s1 s2, dest s1 <> dest s2 -> retry_safe x = true ->
  forall r sched, raise_at s1 = Some r -> r <= length (body s1) ->
  let st := run2t x s1 s2 sched (startt d0) in
  committedt (q1 st) = false /\ sdt st (File (dest s1)) = d0 (File (dest s1)).
Proof. exact retry_body_exception_keeps_old. Qed.

Theorem c12_retry_no_temp_after_handled_failure : forall x d0 s1 s2, dest s1 <> dest s2 -> retry_ok x = true ->
  forall sched, let st := run2t x s1 s2 sched (startt d0) in
  finishedt (q1 st) = true -> (forall i, ~ In (false, (EUnlink i, RFault)) (trt st)) ->
  assoct (q1 st) = None /\ forall i, assoct (q2 st) <> Some i -> sdt st (Tmp i) = d0 (Tmp i).
Proof. exact retry_no_temp_after_handled_failure. Qed.

Theorem c12_retry_two_writers_isolated : forall x d0 s1 s2, dest s1 <> dest s2 -> retry_safe x = true ->
  forall sched, let st := run2t x s1 s2 sched (startt d0) in
  (forall i, assoct (q1 st) = Some i -> assoct (q2 st) = Some i -> False) /\
  (forall i, assoct (q1 st) = Some i \/ assoct (q2 st) = Some i -> d0 (Tmp i) = None /\ sdt st (Tmp i) <> None) /\
  (forall i, about_to_replace (q1 st) i -> sdt st (Tmp i) = Some (new s1)) /\
  (forall i, about_to_replace (q2 st) i -> sdt st (Tmp i) = Some (new s2)) /\
  (forall n, n <> File (dest s1) -> n <> File (dest s2) -> d0 n <> None -> sdt st n = d0 n).
Proof. exact retry_two_writers_isolated. Qed.

(** The whole property in one statement (hypotheses visible; composes the five theorems above). *)
Theorem c12_property : forall x d0 s1 s2, dest s1 <> dest s2 -> retry_ok x = true -> proto_outcome_ok x = true ->
  forall sched, let st := run2t x s1 s2 sched (startt d0) in
  (sdt st (File (dest s1)) = (if committedt (q1 st) then Some (new s1) else d0 (File (dest s1))) /\
   sdt st (File (dest s2)) = (if committedt (q2 st) then Some (new s2) else d0 (File (dest s2)))) /\
  (forall r l b, q1 st = TDone r l b ->
     b = negb (committedt (q1 st)) /\ (b = true -> sdt st (File (dest s1)) = d0 (File (dest s1)))) /\
  (forall r, raise_at s1 = Some r -> r <= length (body s1) -> committedt (q1 st) = false) /\
  (finishedt (q1 st) = true -> (forall i, ~ In (false, (EUnlink i, RFault)) (trt st)) ->
   assoct (q1 st) = None /\ forall i, assoct (q2 st) <> Some i -> sdt st (Tmp i) = d0 (Tmp i)) /\
  ((forall i, assoct (q1 st) = Some i -> assoct (q2 st) = Some i -> False) /\
   (forall i, assoct (q1 st) = Some i \/ assoct (q2 st) = Some i -> d0 (Tmp i) = None /\ sdt st (Tmp i) <> None) /\
   (forall i, about_to_replace (q1 st) i -> sdt st (Tmp i) = Some (new s1)) /\
   (forall i, about_to_replace (q2 st) i -> sdt st (Tmp i) = Some (new s2)) /\
   (forall n, n <> File (dest s1) -> n <> File (dest s2) -> d0 n <> None -> sdt st n = d0 n)).
Proof. exact whole_property. Qed.

(** Its hypotheses hold for today's class under every run class (8 named subclasses), and for a class whose rename is
    retried on PermissionError with [else: raise]: not vacuous. *)
Theorem c12_property_hypotheses_hold :
  all_classes 8 obj_fixed (fun o => retry_ok (obj_proto o) && proto_outcome_ok (obj_proto o) && reuse_indep o) = true /\
  all_classes 8 obj_retry_good (fun o => retry_ok (obj_proto o) && proto_outcome_ok (obj_proto o) && reuse_indep o) = true.
Proof. vm_compute. auto. Qed.

(** One writer alone: a finished use is a good use (returned normally iff committed; complete new content after a
    commit, previous content otherwise; no temp name changed unless the cleanup unlink was refused). *)
Theorem c12_retry_good_use : forall x d0 s, retry_ok x = true -> proto_outcome_ok x = true -> forall faults,
  good_use d0 s (alonet x s faults d0).
Proof. exact retry_good_use. Qed.

(** A protocol with retries is good iff exhausting the retries takes the failure path: the family whose commit tries
    the rename n+1 times and continues with [exh] after the last refusal, for every n. *)
Theorem c12_retry_good_iff_exhaustion_fails : forall c n exh, cfg_ok c = true -> exh_shape exh ->
  ((forall d0 s faults, good_use d0 s (alonet (retry_proto c n exh) s faults d0)) <-> exh = unlink_tree true).
Proof. exact retry_good_iff_exhaustion_fails. Qed.

(** The three wrong continuations, each for EVERY number of attempts.  Unconditional commit after the loop (seeded
    c12_6): the with statement returns normally, the destination keeps its old contents, tmp_1 holds the new data. *)
Theorem c12_retry_unconditional_commit_after_loop_refuted : forall n,
  let st := refused_run n (XDone false) [] in
  q1 st = TDone FNot (Some 1) false /\ sdt st (File 0) = Some [100] /\ sdt st (Tmp 1) = Some [1; 2; 3] /\
  ~ good_use d_old sc_a st.
Proof. exact retry_swallowed_exhaustion_refuted. Qed.
Theorem c12_retry_exhaustion_without_cleanup_refuted : forall n,
  let st := refused_run n (XDone true) [] in
  q1 st = TDone FNot (Some 1) true /\ sdt st (File 0) = Some [100] /\ sdt st (Tmp 1) = Some [1; 2; 3] /\
  ~ good_use d_old sc_a st.
Proof. exact retry_exhaustion_without_cleanup_refuted. Qed.
Theorem c12_retry_exhaustion_swallowed_after_cleanup_refuted : forall n,
  let st := refused_run n (unlink_tree false) [false] in
  q1 st = TDone FNot None false /\ sdt st (File 0) = Some [100] /\ sdt st (Tmp 1) = None /\
  ~ good_use d_old sc_a st.
Proof. exact retry_exhaustion_swallowed_after_cleanup_refuted. Qed.

(** The retry loop as a program: the kernel computes its trees.  With [else: raise] it is good for every class (and the
    uncollapsed protocol is outside the five-flag family: the theorems of rounds 1-3 alone could not accept it). *)
Theorem c12_retry_loop_program_ok :
  all_classes 8 obj_retry_good (fun o => retry_ok (obj_proto o) && proto_outcome_ok (obj_proto o) && reuse_indep o) = true /\
  x_ok (class_proto obj_retry_good (RSub 0)) =
    XClose (retry_tree 2 (XDone false) (unlink_tree true) (unlink_tree true)) (unlink_tree true) /\
  x_ok (class_proto obj_retry_good RGeneric) = x_ok (proto_of_cfg cfg_fixed) /\
  proto_ok (class_proto obj_retry_good (RSub 0)) = false.
Proof. exact obj_retry_good_ok. Qed.
(** Without the else clause: wrong exactly for the class the handler names, right for every other class. *)
Theorem c12_retry_loop_without_else_refuted :
  class_proto obj_retry_swallow (RSub 0) = retry_proto cfg_fixed 2 (XDone false) /\
  retry_ok (class_proto obj_retry_swallow (RSub 0)) = false /\
  proto_outcome_ok (class_proto obj_retry_swallow (RSub 0)) = false /\
  cleans (x_ok (class_proto obj_retry_swallow (RSub 0))) false = false /\
  propagates (x_ok (class_proto obj_retry_swallow (RSub 0))) false = false /\
  retry_ok (class_proto obj_retry_swallow RGeneric) = true /\
  retry_ok (class_proto obj_retry_swallow RKbd) = true /\
  retry_ok (class_proto obj_retry_swallow (RSub 1)) = true.
Proof. exact obj_retry_swallow_refuted. Qed.

(** The entry prologue of [make_tempfile] (what it does before mkdir and the temp-name loop): inert whenever the object
    holds no open temp file — today's; keyed on the temp name that nothing resets (seeded c12_5) it removes tmp_N on
    re-entry, which by then may be another writer's file. *)
Theorem c12_entry_prologue_keyed_on_stale_name_refuted :
  entry_inert obj_fixed prologue_fixed = true /\ entry_inert obj_fixed prologue_stale_name = false /\
  exec prologue_stale_name None (env_of (o_attrs obj_fixed) [Some VNone; Some VTName; Some VDest] false) inert_k
    = XUnlink (XDone false) (XDone true) (XDone false).
Proof. exact entry_prologue_examples. Qed.

(** * Reuse histories of one writer interleaved with a concurrent writer (SM/AtomicProduct.v)

    Writer A is one object used for a history [h] of [with] blocks to the destination [k1] (each segment = the scenario of
    the use + a schedule interleaving it with B; after a finished use that left no temp file A starts again at mkdir:
    obligations [reuse_entry_touches_nothing_before_creating_its_temp_file] and
    [reuse_exit_protocol_independent_of_earlier_uses]); writer B is a single use of another file, in flight across A's
    uses.  For every history, every schedule of every segment (= every kill point, fault pattern and interleaving):
    B's destination is old or B's complete new content; A and B never hold the same temp name; the temp file B holds did
    not exist before, exists, and holds exactly what B has written so far — no re-entry of A removes or rewrites it
    (what seeded c12_5 breaks); nothing else in the directory changes.  Proof: the round-1 invariant, re-based at A's
    destination, survives the restart of A. *)
Theorem c12_product_isolated : forall x d0 k1 s2 h, proto_safe x = true -> k1 <> dest s2 -> h <> [] ->
  (forall u, In u h -> dest (fst u) = k1) ->
  let st := prunt x s2 h (startt d0) in
  sdt st (File (dest s2)) = (if committedt (q2 st) then Some (new s2) else d0 (File (dest s2))) /\
  (forall i, assoct (q1 st) = Some i -> assoct (q2 st) = Some i -> False) /\
  (forall i, assoct (q2 st) = Some i -> d0 (Tmp i) = None /\ exists ct, sdt st (Tmp i) = Some ct /\ progresst s2 (q2 st) ct) /\
  (forall n, n <> File k1 -> n <> File (dest s2) ->
     (forall i, n = Tmp i -> assoct (q1 st) <> Some i /\ assoct (q2 st) <> Some i) -> sdt st n = d0 n).
Proof. exact proto_product_isolated. Qed.

(** Not vacuous: A succeeds, B opens tmp_1 and writes, A is entered again while B is open (tmp_1 and the stale tmp_2
    are taken: it uses tmp_3) and completes, B completes. *)
Theorem c12_product_example :
  let x := proto_of_cfg cfg_fixed in
  let sA := {| dest := 0; body := [1]; tail := []; raise_at := None |} in
  let sA2 := {| dest := 0; body := [2; 3]; tail := []; raise_at := None |} in
  let sB := {| dest := 1; body := [7; 8]; tail := []; raise_at := None |} in
  let h := [(sA, repeat (false, false) 5 ++ repeat (true, false) 3);
            (sA2, repeat (false, false) 8 ++ repeat (true, false) 3)] in
  let st := prunt x sB h (startt d_old) in
  committedt (q1 st) = true /\ committedt (q2 st) = true /\
  sdt st (File 0) = Some [2; 3] /\ sdt st (File 1) = Some [7; 8] /\ sdt st (Tmp 1) = None /\ sdt st (Tmp 2) = Some [777] /\
  In (false, (EOpen 1, RExist)) (trt st).
Proof. exact product_example. Qed.

(** * Entering a writer that still holds a temp file (round 5, SM/AtomicAbandon.v)

    A use that was entered and written but never exited leaves the object with an open handle and its temp file tmp_j.
    The statements of [make_tempfile] before mkdir / the temp-name loop (generated: [aw_entry_prog]) decide what the next
    entry does with it; [reentry_tree] is their decision tree in a state with a handle, [gives_up] the shape "close the
    handle, remove the file by name, only then go on; a failing close fails the entry" (obligation
    [reuse_entry_gives_up_a_temp_file_left_open] = [reentry_ok aw_obj aw_entry_prog]).  For every such tree, every
    directory, every pattern of refused operations in the prologue and in the use that follows (one writer alone; [x]:
    any exit protocol with the hypotheses of [c12_property]): nothing but tmp_j changes in the prologue; if the entry
    goes on, the use is a good single use relative to the directory the prologue left, and the destination ends up with
    its previous content or with the complete new content of THIS use — written to a temp file the temp-name loop
    created afresh — never with anything the abandoned attempt wrote. *)
Theorem c12_reentry_after_abandoned_use : forall x, retry_ok x = true -> proto_outcome_ok x = true ->
  forall t, gives_up t = true -> forall j fs d s faults,
  let d' := fst (pro_run t j fs d) in
  let r := snd (pro_run t j fs d) in
  let st := alonet x s faults d' in
  (exists b, r = Some b) /\
  (forall n, n <> Tmp j -> d' n = d n) /\
  (d' (Tmp j) = None \/ d' (Tmp j) = d (Tmp j)) /\
  (r = Some false ->
     good_use d' s st /\
     sdt st (File (dest s)) = (if committedt (q1 st) then Some (new s) else d (File (dest s)))).
Proof. exact reentry_then_good_use. Qed.

(** The obligation on the generated object gives the hypothesis for every attribute state with a handle. *)
Theorem c12_reentry_obligation_gives_the_shape : forall o p, reentry_ok o p = true ->
  forall a, In a (holding o) -> gives_up (reentry_tree o p a) = true.
Proof. exact reentry_ok_gives_up. Qed.

(** Today's prologue (and the one of rounds 1-4) gives the file up; only today's forgets the handle when the entry
    fails (the defect repaired in round 5: a later entry unlinked the stale NAME again); a prologue that keeps a handle
    that is still open and returns (seeded c12_8: truncate(0) without seek, NUL padding + new data are committed) has the
    tree [XBad] — it ends before any temp file is created —, [reentry_ok] is false. *)
Theorem c12_reentry_keeps_open_handle_refuted :
  reentry_ok obj_fixed prologue_r4 = true /\ reentry_forgets obj_fixed prologue_r4 = false /\
  reentry_ok obj_fixed prologue_r5 = true /\ reentry_forgets obj_fixed prologue_r5 = true /\
  entry_inert obj_fixed prologue_r5 = true /\
  reentry_ok obj_fixed prologue_keep_open_handle = false /\
  reentry_tree obj_fixed prologue_keep_open_handle [Some VTemp; Some VTName; Some VDest] = XBad /\
  reentry_tree obj_fixed prologue_r5 [Some VTemp; Some VTName; Some VDest]
    = XClose (XUnlink (XDone false) (XDone true) (XDone false)) (XUnlink (XDone true) (XDone true) (XDone true)).
Proof. exact reentry_examples. Qed.

(** Not vacuous: the repaired prologue on a directory in which the object holds tmp_1. *)
Theorem c12_reentry_example :
  let t := reentry_tree obj_fixed prologue_r5 [Some VTemp; Some VTName; Some VDest] in
  let d := upd d_old (Tmp 1) (Some [9]) in
  snd (pro_run t 1 [] d) = Some false /\ fst (pro_run t 1 [] d) (Tmp 1) = None /\
  snd (pro_run t 1 [true] d) = Some true /\ fst (pro_run t 1 [true] d) (Tmp 1) = None /\
  fst (pro_run t 1 [] d) (File 0) = d_old (File 0).
Proof. exact reentry_run_example. Qed.

(** * The property for the generated object (round 5: consolidation)

    Every hypothesis is a boolean computed by the kernel on objects the translator generates from today's source — [o]
    (aw_obj: the __exit__ program, the attribute facts, the open modes), [p] (aw_entry_prog: the statements of
    make_tempfile before mkdir), [n] (aw_nclasses) — and discharged on every run as the instance obligation
    [c12_property_of_generated_object_hypotheses]; what remains is [In r (run_classes n)] (the class of exception the
    refused operations of the run raise), [dest s1 <> dest s2] inside [two_writer_property] (the property speaks of
    writers to different files) and [hstates_ok] (the attribute states of a history keep the constants).  Conclusion, for
    the exit protocol [x] of the object under run class [r]: [two_writer_property x] = the conclusion of [c12_property]
    (old or complete new at every point of every schedule, raised iff not committed and then the old contents, an
    abandoned body never commits, no temp file after a handled failure, isolation of the two writers); every history of
    complete uses of the object is good use by use (when the uncollapsed protocol is in the family: no retry loop); and
    entering the object while it still holds a temp file gives that file up and is followed by a good use. *)
Theorem c12_property_of_generated_object : forall n o p r,
  all_classes n o (fun o' => retry_ok (obj_proto o') && proto_outcome_ok (obj_proto o') && reuse_indep o') = true ->
  reentry_ok o p = true -> In r (run_classes n) ->
  let o' := with_class r o in
  let x := obj_proto o' in
  two_writer_property x /\
  (proto_ok x = true -> forall h, hstates_ok o' h -> forall d, hist_good o' h d) /\
  (forall a, In a (holding o) -> reentry_property x (reentry_tree o p a)).
Proof. exact generated_object_property. Qed.

Theorem c12_generated_object_hypotheses_hold :
  all_classes 8 obj_fixed (fun o' => retry_ok (obj_proto o') && proto_outcome_ok (obj_proto o') && reuse_indep o') = true /\
  reentry_ok obj_fixed prologue_r5 = true /\ reentry_ok obj_fixed prologue_r4 = true /\
  all_classes 8 obj_fixed (fun o' => proto_ok (obj_proto o')) = true /\ holding obj_fixed <> [].
Proof. exact generated_object_hypotheses_hold. Qed.
