(** C01 — KeyValues1 serialise/parse round trip preserves the whole tree.

    Objects: [serialise_doc C E o d] interprets the write templates [C] (regenerated from the f-strings of
    Keyvalues.serialise/_serialise) with the escape tables [E] (regenerated from tokenizer.ESCAPES/ESCAPE_RE);
    [parse_kv E flag_on text] is the character-level tokenizer model composed with the Keyvalues.parse token
    loop.  [cfg_ok C] and [esc_ok E] are decidable conditions that the check discharges for today's source
    by computation (instance obligations); everything else is proved for all inputs. *)
From Coq Require Import List NArith Bool.
From SV Require Import KV.KvBase KV.KvLex KV.KvParse KV.KvSer KV.KvSym KV.KvRoundtrip KV.KvStrip.
Import ListNotations.
Open Scope N_scope.

(** Round trip, root documents: for all trees (any depth/width, empty blocks, duplicate names, empty strings,
    every code point in names and values except line breaks in names), all whitespace-only indent strings,
    both brace styles, any start_indent, any flag table: parsing the serialised text gives the tree back
    (same shape, order, exact names and values) and no error. *)
Theorem kv_roundtrip : forall C E, cfg_ok C = true -> esc_ok E = true ->
  forall flag_on o d, ws_opts o = true -> doc_names_ok d = true ->
  parse_kv E flag_on (serialise_doc C E o d) = POk d.
Proof. exact roundtrip_doc. Qed.

(** The same for serialise() called on a named node (start_indent is used there). *)
Theorem kv_roundtrip_node : forall C E, cfg_ok C = true -> esc_ok E = true ->
  forall flag_on o k, ws_opts o = true -> names_ok k = true ->
  parse_kv E flag_on (serialise_node C E o k) = POk [k].
Proof. exact roundtrip_node. Qed.

(** The serialised text depends on the indentation options only through whitespace: for any two
    whitespace-only option sets the tokenizer sees identical token streams (and no error). *)
Theorem serialise_indent_ws : forall C E, cfg_ok C = true -> esc_ok E = true ->
  forall o1 o2 d, ws_opts o1 = true -> ws_opts o2 = true ->
  lex_all E (serialise_doc C E o1 d) = lex_all E (serialise_doc C E o2 d).
Proof. exact indent_independent_tokens. Qed.

Theorem serialise_indent_ws_node : forall C E, cfg_ok C = true -> esc_ok E = true ->
  forall o1 o2 k, ws_opts o1 = true -> ws_opts o2 = true ->
  lex_all E (serialise_node C E o1 k) = lex_all E (serialise_node C E o2 k).
Proof. exact indent_independent_tokens_node. Qed.

(** The same clause at the level of the text: deleting the blanks (space, tab) that stand outside quoted
    strings leaves a canonical text that is a function of the tree alone -- whatever the indent string, the
    brace style and start_indent. *)
Theorem serialise_ws_canonical : forall C E, cfg_ok C = true -> esc_ok E = true ->
  forall o d, ws_opts o = true -> strip_blanks (serialise_doc C E o d) = canon_doc E d.
Proof. exact ws_canonical_doc. Qed.

Theorem serialise_ws_canonical_node : forall C E, cfg_ok C = true -> esc_ok E = true ->
  forall o k, ws_opts o = true -> strip_blanks (serialise_node C E o k) = canon E k.
Proof. exact ws_canonical_node. Qed.

(** The hypotheses are satisfiable (the repaired templates and the pinned escape tables). *)
Theorem kv_hypotheses_satisfiable : cfg_ok (ref_sercfg (PEsc FName)) = true /\ esc_ok ref_escfg = true.
Proof. exact (conj ref_cfg_ok ref_esc_ok). Qed.

(** ... and needed.  Block name written raw (pinned tree, DESIGN section 7 #1): rejected by cfg_ok, and the
    model exhibits a tree that does not come back. *)
Theorem kv_roundtrip_raw_block_name_refuted :
  cfg_ok (ref_sercfg (PRaw FName)) = false /\
  doc_names_ok raw_block_witness = true /\
  parse_kv ref_escfg (fun _ => false)
    (serialise_doc (ref_sercfg (PRaw FName)) ref_escfg default_opts raw_block_witness)
  = PErr (ELex LUnterminated).
Proof. exact (conj raw_block_name_rejected raw_block_name_refuted). Qed.

(** Names with line breaks are outside the format (the property excludes them). *)
Theorem kv_roundtrip_linebreak_name_refuted :
  parse_kv ref_escfg (fun _ => false)
    (serialise_doc (ref_sercfg (PEsc FName)) ref_escfg default_opts [Leaf [97; 10] [98]])
  = PErr ENewlineKey.
Proof. exact linebreak_name_refuted. Qed.

(** Non-whitespace indent strings are outside the "apart from whitespace" clause. *)
Theorem kv_roundtrip_nonws_indent_refuted :
  parse_kv ref_escfg (fun _ => false)
    (serialise_doc (ref_sercfg (PEsc FName)) ref_escfg
       {| o_indent := [120]; o_indent_braces := true; o_start := [] |} [Block [97] [Leaf [98] [99]]])
  <> POk [Block [97] [Leaf [98] [99]]].
Proof. exact nonws_indent_refuted. Qed.
