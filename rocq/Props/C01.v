(** C01 — KeyValues1 serialise/parse round trip preserves the whole tree.

    Objects: [serialise_doc C E o d] interprets the write templates [C] (regenerated from the f-strings of
    Keyvalues.serialise/_serialise) with the escape tables [E] (regenerated from tokenizer.ESCAPES/ESCAPE_RE);
    [parse_kv E flag_on text] is the character-level tokenizer model composed with the Keyvalues.parse token
    loop.  [cfg_ok C] and [esc_ok E] are decidable conditions that the check discharges for today's source
    by computation (instance obligations); everything else is proved for all inputs. *)
From Coq Require Import List NArith Bool.
From SV Require Import Text.Str Text.Prog Text.Tokenizer.
From SV Require Import KV.KvBase KV.KvLex KV.KvParse KV.KvSer KV.KvSym KV.KvParseProofs KV.KvRoundtrip KV.KvStrip
  KV.KvRefine KV.KvDelivery KV.KvExport KV.KvFlags KV.KvLoop KV.KvLoopRef KV.KvLoopProofs KV.KvLoopEquiv KV.KvLoopRoundtrip
  KV.KvWriter KV.KvFlagProg KV.KvWProg KV.KvProperty KV.KvNoEsc KV.KvShift KV.KvWHist KV.KvXProg KV.KvProperty5.
Import ListNotations.
Open Scope N_scope.

(** Round trip, root documents: for all trees (any depth/width, empty blocks, duplicate names, empty strings,
    every code point in names and values except line breaks in names), all whitespace-only indent strings,
    both brace styles, any start_indent, any flag table: parsing the serialised text gives the tree back
    (same shape, order, exact names and values) and no error. *)
Theorem kv_roundtrip : forall C E P, cfg_ok C = true -> esc_ok E = true -> pcfg_ok P = true ->
  forall flag_on o d, ws_opts o = true -> doc_names_ok d = true ->
  parse_kv P E flag_on (serialise_doc C E o d) = POk d.
Proof. exact roundtrip_doc. Qed.

(** The same for serialise() called on a named node (start_indent is used there). *)
Theorem kv_roundtrip_node : forall C E P, cfg_ok C = true -> esc_ok E = true -> pcfg_ok P = true ->
  forall flag_on o k, ws_opts o = true -> names_ok k = true ->
  parse_kv P E flag_on (serialise_node C E o k) = POk [k].
Proof. exact roundtrip_node. Qed.

(** Non-default parse options (allow_escapes=False is outside the model).  For every setting of newline_keys,
    newline_values and single_line (single_block off): the tree comes back provided each kind of field is either
    free of line breaks or allowed to have them.  In particular with newline_keys=True the round trip holds for
    ALL names (the writer escapes LF and CR), and single_line=True never changes the result on serialised text. *)
Theorem kv_roundtrip_options : forall C E P, cfg_ok C = true -> esc_ok E = true -> pcfg_ok P = true ->
  forall flag_on O o d, po_single_block O = false -> ws_opts o = true ->
  po_newline_keys O || doc_names_ok d = true -> po_newline_values O || doc_values_ok d = true ->
  parse_kv_opts P O E flag_on (serialise_doc C E o d) = POk d.
Proof. exact roundtrip_doc_opts. Qed.

Theorem kv_roundtrip_options_node : forall C E P, cfg_ok C = true -> esc_ok E = true -> pcfg_ok P = true ->
  forall flag_on O o k, po_single_block O = false -> ws_opts o = true ->
  po_newline_keys O || names_ok k = true -> po_newline_values O || values_ok k = true ->
  parse_kv_opts P O E flag_on (serialise_node C E o k) = POk [k].
Proof. exact roundtrip_node_opts. Qed.

(** single_block=True returns the node itself ([PNode], not a root): for a serialised named node, and for the
    first top-level node of a serialised document whatever follows it. *)
Theorem kv_roundtrip_single_block : forall C E P, cfg_ok C = true -> esc_ok E = true -> pcfg_ok P = true ->
  forall flag_on O o k, po_single_block O = true -> ws_opts o = true ->
  po_newline_keys O || names_ok k = true -> po_newline_values O || values_ok k = true ->
  parse_kv_opts P O E flag_on (serialise_node C E o k) = PNode k.
Proof. exact roundtrip_single_block_node. Qed.

Theorem kv_roundtrip_single_block_first : forall C E P, cfg_ok C = true -> esc_ok E = true -> pcfg_ok P = true ->
  forall flag_on O o k ks, po_single_block O = true -> ws_opts o = true ->
  po_newline_keys O || names_ok k = true -> po_newline_values O || values_ok k = true ->
  parse_kv_opts P O E flag_on (serialise_doc C E o (k :: ks)) = PNode k.
Proof. exact roundtrip_single_block_doc. Qed.

(** The serialised text depends on the indentation options only through whitespace: for any two
    whitespace-only option sets the tokenizer sees identical token streams (and no error). *)
Theorem serialise_indent_ws : forall C E, cfg_ok C = true -> esc_ok E = true ->
  forall o1 o2 d, ws_opts o1 = true -> ws_opts o2 = true ->
  lex_all E (serialise_doc C E o1 d) = lex_all E (serialise_doc C E o2 d).
Proof. exact indent_independent_tokens. Qed.

Theorem serialise_indent_ws_node : forall C E, cfg_ok C = true -> esc_ok E = true ->
  forall o1 o2 k, ws_opts o1 = true -> ws_opts o2 = true ->
  lex_all E (serialise_node C E o1 k) = lex_all E (serialise_node C E o2 k).
Proof. exact indent_independent_tokens_node. Qed.

(** The same clause at the level of the text: deleting the blanks (space, tab) that stand outside quoted
    strings leaves a canonical text that is a function of the tree alone -- whatever the indent string, the
    brace style and start_indent. *)
Theorem serialise_ws_canonical : forall C E, cfg_ok C = true -> esc_ok E = true ->
  forall o d, ws_opts o = true -> strip_blanks (serialise_doc C E o d) = canon_doc E d.
Proof. exact ws_canonical_doc. Qed.

Theorem serialise_ws_canonical_node : forall C E, cfg_ok C = true -> esc_ok E = true ->
  forall o k, ws_opts o = true -> strip_blanks (serialise_node C E o k) = canon E k.
Proof. exact ws_canonical_node. Qed.

(** The hypotheses are satisfiable (the repaired templates and the pinned escape tables). *)
Theorem kv_hypotheses_satisfiable :
  cfg_ok (ref_sercfg (PEsc FName)) = true /\ esc_ok ref_escfg = true /\ pcfg_ok ref_pcfg = true.
Proof. exact (conj ref_cfg_ok (conj ref_esc_ok ref_pcfg_ok)). Qed.

(** ... and needed.  Block name written raw (pinned tree, DESIGN section 7 #1): rejected by cfg_ok, and the
    model exhibits a tree that does not come back. *)
Theorem kv_roundtrip_raw_block_name_refuted :
  cfg_ok (ref_sercfg (PRaw FName)) = false /\
  doc_names_ok raw_block_witness = true /\
  parse_kv ref_pcfg ref_escfg (fun _ => false)
    (serialise_doc (ref_sercfg (PRaw FName)) ref_escfg default_opts raw_block_witness)
  = PErr (ELex LUnterminated).
Proof. exact (conj raw_block_name_rejected raw_block_name_refuted). Qed.

(** Names with line breaks are outside the format (the property excludes them). *)
Theorem kv_roundtrip_linebreak_name_refuted :
  parse_kv ref_pcfg ref_escfg (fun _ => false)
    (serialise_doc (ref_sercfg (PEsc FName)) ref_escfg default_opts [Leaf [97; 10] [98]])
  = PErr ENewlineKey.
Proof. exact linebreak_name_refuted. Qed.

(** Non-whitespace indent strings are outside the "apart from whitespace" clause. *)
Theorem kv_roundtrip_nonws_indent_refuted :
  parse_kv ref_pcfg ref_escfg (fun _ => false)
    (serialise_doc (ref_sercfg (PEsc FName)) ref_escfg
       {| o_indent := [120]; o_indent_braces := true; o_start := [] |} [Block [97] [Leaf [98] [99]]])
  <> POk [Block [97] [Leaf [98] [99]]].
Proof. exact nonws_indent_refuted. Qed.

(** The root test of the writer must be [is None] (seeded fault c01_1: a truth test also fires on the name ''):
    rejected by cfg_ok, and the model exhibits the block that loses its header and braces. *)
Theorem kv_roundtrip_falsy_root_test_refuted :
  cfg_ok (ref_sercfg_rt RTFalsy (PEsc FName)) = false /\
  doc_names_ok falsy_root_witness = true /\
  parse_kv ref_pcfg ref_escfg (fun _ => false)
    (serialise_doc (ref_sercfg_rt RTFalsy (PEsc FName)) ref_escfg default_opts falsy_root_witness)
  = POk [Leaf [97] [98]].
Proof. exact (conj falsy_root_test_rejected falsy_root_test_refuted). Qed.

(** The parser's 'Illegal newline in key' test may reject LF and CR only (seeded fault c01_2: str.splitlines
    also breaks on VT, FF, FS, GS, RS, NEL, LS, PS): rejected by pcfg_ok, with a legal name that does not come back. *)
Theorem kv_roundtrip_wide_key_break_refuted :
  pcfg_ok wide_break_pcfg = false /\
  doc_names_ok [Leaf [97; 11; 98] [99]] = true /\
  parse_kv wide_break_pcfg ref_escfg (fun _ => false)
    (serialise_doc (ref_sercfg (PEsc FName)) ref_escfg default_opts [Leaf [97; 11; 98] [99]])
  = PErr ENewlineKey.
Proof. exact (conj wide_key_break_rejected wide_key_break_refuted). Qed.

(** newline_values=False: the premise on values of kv_roundtrip_options is needed. *)
Theorem kv_roundtrip_linebreak_value_refuted :
  parse_kv_opts ref_pcfg {| po_newline_keys := false; po_newline_values := false; po_single_line := false;
                            po_single_block := false |} ref_escfg (fun _ => false)
    (serialise_doc (ref_sercfg (PEsc FName)) ref_escfg default_opts [Leaf [97] [98; 13]])
  = PErr ENewlineValue.
Proof. exact linebreak_value_refuted. Qed.

(** * Delivery of the text: str, list of arbitrary chunks, file object (an iterable of chunks)

    [tokens_flat T kv_topts] / [tokens_chk T kv_topts] are the reader-program model of [Tokenizer] built for C03
    (Text/Tokenizer.v: [_get_token] etc. over [_next_char] and the push-back [_char_index -= 1]), with the options
    Keyvalues.parse passes; [tables_match T E] (decidable, discharged for the regenerated tables) says that its
    constant tables agree with those of the KV lexer model. *)

(** The hand-written KV lexer computes exactly the tokens, and the error, of the C03 tokenizer model. *)
Theorem kv_lexer_refines_tokenizer : forall T E, tables_match T E = true -> forall l,
  conv_trace (tokens_flat T kv_topts (length l + 2) (length l + 2) 1 false l) = lex_all E l.
Proof. exact lexer_refines. Qed.

(** parse of a list of chunks = parse of the concatenation: for every cut (inside CR LF, an escape pair, a comment,
    before a pushed-back delimiter), empty chunks included, every option vector and flag table. *)
Theorem parse_any_delivery : forall T E, tables_match T E = true ->
  forall P O flag_on cs n f, (length (concat cs) < n)%nat -> (length (concat cs) < f)%nat ->
  parse_kv_reader P O T flag_on n f (chk_of_chunks cs) = parse_kv_opts P O E flag_on (concat cs).
Proof. exact parse_any_delivery_chunks. Qed.

(** ... and the same from any reader state that denotes the text (e.g. Tokenizer(str): one chunk). *)
Theorem parse_any_delivery_reader_state : forall T E, tables_match T E = true ->
  forall P O flag_on l s n f, R l s -> (length l < n)%nat -> (length l < f)%nat ->
  parse_kv_reader P O T flag_on n f s = parse_kv_opts P O E flag_on l.
Proof. exact parse_any_reader_state. Qed.

(** The whole property for chunked delivery: however the serialised text is cut, the tree comes back. *)
Theorem kv_roundtrip_any_delivery : forall C E P T, cfg_ok C = true -> esc_ok E = true -> pcfg_ok P = true ->
  tables_match T E = true ->
  forall flag_on o d cs n f, ws_opts o = true -> doc_names_ok d = true ->
  concat cs = serialise_doc C E o d -> (length (concat cs) < n)%nat -> (length (concat cs) < f)%nat ->
  parse_kv_reader P default_popts T flag_on n f (chk_of_chunks cs) = POk d.
Proof. exact roundtrip_any_delivery. Qed.

Theorem kv_delivery_hypotheses_satisfiable : tables_match ref_tables ref_escfg' = true.
Proof. exact ref_tables_match. Qed.

(** * The deprecated writer export()
    [export_doc X E d] interprets the regenerated templates [X] of the generator ([''.join(tree.export())]); [xcfg_ok X]
    is discharged for today's source.  The round trip holds for it exactly as for serialise(). *)
Theorem kv_export_roundtrip : forall X E P, xcfg_ok X = true -> esc_ok E = true -> pcfg_ok P = true ->
  forall flag_on O d, po_single_block O = false ->
  po_newline_keys O || doc_names_ok d = true -> po_newline_values O || doc_values_ok d = true ->
  parse_kv_opts P O E flag_on (export_doc X E d) = POk d.
Proof. exact export_roundtrip_doc. Qed.

Theorem kv_export_roundtrip_node : forall X E P, xcfg_ok X = true -> esc_ok E = true -> pcfg_ok P = true ->
  forall flag_on O k, po_single_block O = false ->
  po_newline_keys O || names_ok k = true -> po_newline_values O || values_ok k = true ->
  parse_kv_opts P O E flag_on (export_node X E k) = POk [k].
Proof. exact export_roundtrip_node. Qed.

Theorem kv_export_hypotheses_satisfiable : xcfg_ok (ref_expcfg (PEsc FName)) = true.
Proof. exact ref_xcfg_ok. Qed.

(** The pinned export() (block name raw) is rejected, with the same witness as for _serialise. *)
Theorem kv_export_raw_block_name_refuted :
  xcfg_ok (ref_expcfg (PRaw FName)) = false /\
  parse_kv ref_pcfg ref_escfg (fun _ => false) (export_doc (ref_expcfg (PRaw FName)) ref_escfg raw_block_witness)
  = PErr (ELex LUnterminated).
Proof. exact (conj raw_export_rejected raw_export_refuted). Qed.

(** * The flags parameter of Keyvalues.parse
    [read_flag casefold flags defaults] mirrors [_read_flag] (KV/KvFlags.v; compared with the implementation through
    the [flags=] parameter on every run).  Whatever mapping is passed, the round trip is the same. *)
Theorem kv_roundtrip_any_flags : forall C E P, cfg_ok C = true -> esc_ok E = true -> pcfg_ok P = true ->
  forall casefold flags defaults o d, ws_opts o = true -> doc_names_ok d = true ->
  parse_kv P E (read_flag casefold flags defaults) (serialise_doc C E o d) = POk d.
Proof. exact roundtrip_any_flags. Qed.

(** * The token loop of Keyvalues.parse as a decision tree regenerated from the source
    [T], [F]: the trees that translate/c01_kvloop.py reads off the body of the token loop and off the checks after
    it (symbolic execution path by path: control flow normalised, tests turned into atoms of the state at the start
    of a pass, the heap operations of a path summarised into one operation on the block stack).  [loop_ok T F P]
    (both trees [tree_equiv] to the reference trees -- a decision procedure proved sound below, insensitive to the
    order of independent tests --, both emptiness guards present) is discharged by the check.  For such
    trees the parser [parse_kv_tree] IS the hand-written [parse_kv_opts], on every text, under every option vector,
    flag predicate and tokenizer ending -- so the hand model of the token loop is tied to the source by a proof over
    all inputs plus the translator, not only by differential runs. *)
Theorem parse_loop_tree_is_model : forall T F P, loop_ok T F P = true ->
  forall O E flag_on text, parse_kv_tree T F P O E flag_on text = parse_kv_opts P O E flag_on text.
Proof. exact loop_ok_parse. Qed.

(** Soundness of the symbolic equivalence check: equivalent trees make the same pass through the loop body from
    every state on every token list (hence the same loop, [ploop_equiv]). *)
Theorem parse_loop_tree_equiv_sound : forall P O flag_on fin t1 t2, tree_equiv t1 t2 = true ->
  forall n s ts, pstep P O flag_on fin t1 n s ts = pstep P O flag_on fin t2 n s ts.
Proof. exact tree_equiv_sound. Qed.

(** The reference tree run by [ploop] is the hand-written [prun]: from every state, on every token list. *)
Theorem parse_loop_reference_tree_is_token_loop : forall P O flag_on fin,
  p_replace_guard P = true -> p_single_block_guard P = true ->
  forall n s ts, (length ts < n)%nat ->
  ploop P O flag_on fin n ref_ptree ref_pfinal s ts = prun P O flag_on fin (m_stk s) (m_cur s) (m_b s) (m_cfr s) ts.
Proof. exact ploop_ref_is_prun. Qed.

(** The same at the level of token lists for syntactically equal trees. *)
Theorem parse_loop_tree_is_token_loop : forall T F P, ptree_eqb T ref_ptree = true -> ptree_eqb F ref_pfinal = true ->
  p_replace_guard P = true -> p_single_block_guard P = true ->
  forall O flag_on tf, parse_toks_tree T F P O flag_on tf = parse_toks_opts P O flag_on tf.
Proof. exact parse_tree_is_prun. Qed.

(** The round trip for the parser given by the regenerated loop (all parse options; single_block separately). *)
Theorem kv_roundtrip_source_loop : forall C E P T F, cfg_ok C = true -> esc_ok E = true -> pcfg_ok P = true ->
  loop_ok T F P = true ->
  forall flag_on O o d, po_single_block O = false -> ws_opts o = true ->
  po_newline_keys O || doc_names_ok d = true -> po_newline_values O || doc_values_ok d = true ->
  parse_kv_tree T F P O E flag_on (serialise_doc C E o d) = POk d.
Proof. exact tree_roundtrip_doc. Qed.

Theorem kv_roundtrip_source_loop_node : forall C E P T F, cfg_ok C = true -> esc_ok E = true -> pcfg_ok P = true ->
  loop_ok T F P = true ->
  forall flag_on O o k, po_single_block O = false -> ws_opts o = true ->
  po_newline_keys O || names_ok k = true -> po_newline_values O || values_ok k = true ->
  parse_kv_tree T F P O E flag_on (serialise_node C E o k) = POk [k].
Proof. exact tree_roundtrip_node. Qed.

Theorem kv_roundtrip_source_loop_single_block : forall C E P T F, cfg_ok C = true -> esc_ok E = true -> pcfg_ok P = true ->
  loop_ok T F P = true ->
  forall flag_on O o k, po_single_block O = true -> ws_opts o = true ->
  po_newline_keys O || names_ok k = true -> po_newline_values O || values_ok k = true ->
  parse_kv_tree T F P O E flag_on (serialise_node C E o k) = PNode k.
Proof. exact tree_roundtrip_single_block. Qed.

Theorem kv_loop_hypotheses_satisfiable : loop_ok ref_ptree ref_pfinal ref_pcfg = true.
Proof. exact ref_loop_ok. Qed.

(** A loop whose brace-open path does not push the opened block is rejected, and does lose the nesting. *)
Theorem kv_loop_forgotten_push_refuted :
  tree_equiv (forget_push ref_ptree) ref_ptree = false /\
  parse_toks_tree (forget_push ref_ptree) ref_pfinal ref_pcfg default_popts (fun _ => false)
    ([TStr [97]; TNL; TBO; TNL; TStr [98]; TStr [99]; TNL; TBC; TNL], None) = PErr ETooManyClose.
Proof. exact (conj forget_push_rejected forget_push_refuted). Qed.

(** The equivalence check is semantic, not textual: two differently ordered trees are accepted. *)
Theorem kv_loop_equiv_not_syntactic : ptree_eqb swap_demo_a swap_demo_b = false /\ tree_equiv swap_demo_a swap_demo_b = true.
Proof. exact tree_equiv_not_syntactic. Qed.

(** * Round 4: the wrapper serialise(), _read_flag and the statement list of _serialise read from the source

    [ps : list serpath]: the execution paths of [Keyvalues.serialise(file=None, *, indent, indent_braces, start_indent)]
    (which buffer / file every [_serialise] call and [write] goes to, what [getvalue()] reads, what is returned).  On
    every path accepted by [delivery_ok] the text that reaches the destination -- the caller's file, or the returned
    string -- is exactly [ser_obj C E o x] (= [serialise_node] / [serialise_doc]), with the right return value, and
    there is a path for each way of calling. *)
Theorem serialise_delivery : forall C E ps, delivery_ok ps = true -> forall file_none o x,
  (forall p, In p ps -> path_text C E o x p = Some (ser_obj C E o x) /\ sp_ret_ok p = true) /\
  (exists p, In p ps /\ sp_file_none p = file_none /\ sp_ib p = o_indent_braces o).
Proof. exact delivery_is_writer_text. Qed.

(** serialise(file) writes to the file exactly the string serialise() returns. *)
Theorem serialise_file_and_returned_text_agree : forall C E ps, delivery_ok ps = true -> forall o x p q,
  In p ps -> In q ps -> sp_file_none p = true -> sp_file_none q = false ->
  path_text C E o x p = path_text C E o x q /\ path_text C E o x p = Some (ser_obj C E o x).
Proof. exact file_and_returned_text_agree. Qed.

(** The offset applied by a pass over the finished text instead of by the write templates (seeded fault c01_6,
    textwrap.indent): such paths are rejected; on ordinary text the pass gives what the templates give, but a name
    containing U+001C (written raw inside the quotes; str.splitlines breaks there) comes back with the indent in it. *)
Theorem kv_roundtrip_postprocessed_indent_refuted :
  delivery_ok post_serpaths = false /\
  (let o := {| o_indent := [TAB]; o_indent_braces := true; o_start := [TAB] |} in
   let k := Leaf [97; 28; 98] [99] in
   names_ok k = true /\ ws_opts o = true /\
   parse_kv ref_pcfg ref_escfg (fun _ => false)
     (indent_lines [TAB] (serialise_node (ref_sercfg (PEsc FName)) ref_escfg (with_start o []) k))
   = POk [Leaf [97; 28; 9; 98] [99]]).
Proof. exact (conj post_delivery_rejected post_indent_refuted). Qed.

(** How start_indent enters the text (the positive counterpart of the refutation above).  [shift pre text] puts [pre] in
    front of every line of [text], a line being what ends at a LINE FEED and nothing else.  For write templates that are
    sequences of writer lines ([lines_ok]: every line starts with exactly one cur_indent, continues with literal
    characters other than LF, indent, escaped fields, and ends with a literal LF; the children get cur_indent followed by
    indents), serialise() with start_indent [s] writes the text of serialise() with the empty start_indent, every line
    shifted by [s] -- for every tree and every string content, because raw line feeds never occur inside the quotes. *)
Theorem serialise_start_indent_shifts_writer_lines : forall C E o,
  esc_ok E = true -> no_lf (o_indent o) = true -> lines_ok C o = true ->
  forall k, serialise_node C E o k = shift (o_start o) (serialise_node C E (with_start0 o) k).
Proof. exact serialise_node_shift. Qed.

(** The same for [_serialise] at any cur_indent, with the fact that makes it compose: the text ends in a line feed. *)
Theorem ser_node_is_shift_of_unindented : forall C E o,
  esc_ok E = true -> no_lf (o_indent o) = true -> lines_ok C o = true ->
  forall k cur, ser_node C E o cur k = shift cur (ser_node C E o [] k) /\ closed (ser_node C E o cur k) = true.
Proof. exact ser_node_shift. Qed.

Theorem start_indent_hypothesis_satisfiable : forall o, lines_ok (ref_sercfg (PEsc FName)) o = true.
Proof. exact ref_sercfg_lines_ok. Qed.

(** A leaf template with the indent inside the quotes is rejected. *)
Theorem start_indent_inside_quotes_rejected : forall o,
  lines_ok (ref_sercfg' [PLit [34]; PVar VCurIndent; PEsc FName; PLit [34; 32; 34]; PEsc FValue; PLit [34; 10]]) o = false.
Proof. exact indent_inside_quotes_rejected. Qed.

(** [fp : ftree]: [_read_flag] executed symbolically.  Every tree accepted by [flagprog_ok] computes [read_flag] of
    KV/KvFlags.v for every flag text, mapping, default table and casefold function: the hand model of [_read_flag] is
    tied to the source by this proof plus the translator (before: by sampled runs only). *)
Theorem read_flag_program_is_model : forall fp, flagprog_ok fp = true -> forall casefold flags defaults f,
  eval_ftree casefold flags defaults f fp = Some (read_flag casefold flags defaults f).
Proof. exact flagprog_is_read_flag. Qed.

(** A [_read_flag] that notices the '!' but looks the flag up with it: rejected, and wrong on "!x" with {x: True}. *)
Theorem read_flag_keep_bang_refuted :
  flagprog_ok keep_bang_flagprog = false /\
  eval_ftree (fun s => s) [([120], true)] [] [33; 120] keep_bang_flagprog = Some true /\
  read_flag (fun s => s) [([120], true)] [] [33; 120] = false.
Proof. exact (conj keep_bang_rejected keep_bang_refuted). Qed.

(** [W : wprog]: the statements of [_serialise] in order (write / child loop / store / mutating call; the translator
    fails closed on anything else, so the program is the whole writer).  A store replaces the node by [upd node] for an
    arbitrary [upd].  "Serialisation never changes the tree it is given": a program without store instructions returns
    the tree it was given -- for every [upd], tree, cur_indent and recursion depth. *)
Theorem writer_program_leaves_tree_unchanged : forall C E o W upd, wprog_pure W = true ->
  forall fuel cur k, fst (wexec C E o W upd fuel cur k) = k.
Proof. exact wexec_pure_tree. Qed.

(** ... and a program whose writes are the templates of the writer model writes the model's text. *)
Theorem writer_program_writes_model_text : forall C E o W upd, wprog_text_ok C W = true ->
  forall fuel k cur, (kv_depth k <= fuel)%nat -> wexec C E o W upd fuel cur k = (k, ser_node C E o cur k).
Proof. exact wexec_text. Qed.

Theorem writer_program_with_store_rejected : wprog_pure storing_wprog = false.
Proof. exact storing_wprog_rejected. Qed.

(** allow_escapes=False (the C03 tokenizer model with the option off + the token loop; compared with the implementation
    on every run, no general theorem): the round trip does not hold under it -- a tab comes back as backslash + t, a
    quote ends the string early. *)
Theorem kv_roundtrip_no_escapes_refuted :
  parse_kv_reader_noesc ref_pcfg default_popts ref_tables (fun _ => false) 60 60
    (chk_of_str (ref_text (Leaf [97] [120; 9; 121]))) = POk [Leaf [97] [120; 92; 116; 121]] /\
  parse_kv_reader_noesc ref_pcfg default_popts ref_tables (fun _ => false) 60 60
    (chk_of_str (ref_text (Leaf [97] [120; 34; 121]))) = PErr EMultipleNames.
Proof. exact (conj noesc_tab_refuted noesc_quote_refuted). Qed.

(** * THE WHOLE PROPERTY in one statement, every hypothesis visible (all nine are decidable conditions on objects
    regenerated from the source, discharged in the kernel by the check on every run).

    For every tree [x] (named node or root document), whitespace-only indent / start_indent, both brace styles, every
    setting of newline_keys / newline_values / single_line, every flags mapping / default table / casefold function,
    on EVERY execution path [p] of serialise() (file given or not): the path delivers a text [txt] with the right
    return value; [txt] is the writer model's text and the text the instruction program writes; running the writer
    leaves the tree unchanged; parsing [txt] with the regenerated token loop and the regenerated _read_flag gives the
    tree back (same shape, order, exact names and values, no error); so does parsing it through the tokenizer reader
    model however it is cut into chunks; and for any other whitespace-only option set the token stream is the same and
    the text with the blanks outside quotes deleted is a function of the tree alone. *)
Theorem c01_property : forall C E P T F TB ps fp W,
  cfg_ok C = true -> esc_ok E = true -> pcfg_ok P = true -> loop_ok T F P = true -> tables_match TB E = true ->
  delivery_ok ps = true -> flagprog_ok fp = true -> wprog_pure W = true -> wprog_text_ok C W = true ->
  forall casefold flags defaults O o x p,
    po_single_block O = false -> ws_opts o = true ->
    po_newline_keys O || obj_names_ok x = true -> po_newline_values O || obj_values_ok x = true ->
    In p ps ->
    let flag := flag_of fp casefold flags defaults in
    exists txt,
      (path_text C E o x p = Some txt /\ sp_ret_ok p = true) /\
      (txt = ser_obj C E o x /\
       forall upd fuel k cur, (kv_depth k <= fuel)%nat -> snd (wexec C E o W upd fuel cur k) = ser_node C E o cur k) /\
      (forall upd fuel k cur, fst (wexec C E o W upd fuel cur k) = k) /\
      parse_kv_tree T F P O E flag txt = POk (obj_doc x) /\
      (forall cs n f, concat cs = txt -> (length txt < n)%nat -> (length txt < f)%nat ->
         parse_kv_reader P O TB flag n f (chk_of_chunks cs) = parse_kv_tree T F P O E flag txt) /\
      (forall o2, ws_opts o2 = true ->
         lex_all E txt = lex_all E (ser_obj C E o2 x) /\ strip_blanks txt = obj_canon E x) /\
      (forall s, flag s = read_flag casefold flags defaults s).
Proof. exact whole_property. Qed.

(** There is a path for each way of calling serialise(), so [c01_property] is not vacuous in [p] ... *)
Theorem c01_property_paths_exist : forall ps, delivery_ok ps = true -> forall file_none o,
  exists p, In p ps /\ sp_file_none p = file_none /\ sp_ib p = o_indent_braces o.
Proof. exact (whole_property_paths_exist (ref_sercfg (PEsc FName)) ref_escfg). Qed.

(** ... the flag predicate in it is [_read_flag] as modelled by KV/KvFlags.v ... *)
Theorem c01_property_flags : forall fp, flagprog_ok fp = true -> forall cf fl df s,
  flag_of fp cf fl df s = read_flag cf fl df s.
Proof. exact flag_of_read_flag. Qed.

(** ... and today's reference objects satisfy all nine hypotheses together (one [E] for all of them). *)
Theorem c01_property_hypotheses_satisfiable :
  cfg_ok (ref_sercfg (PEsc FName)) = true /\ esc_ok ref_escfg = true /\ pcfg_ok ref_pcfg = true /\
  loop_ok ref_ptree ref_pfinal ref_pcfg = true /\ tables_match ref_tables ref_escfg = true /\
  delivery_ok ref_serpaths = true /\ flagprog_ok ref_flagprog = true /\
  wprog_pure (ref_wprog (PEsc FName)) = true /\ wprog_text_ok (ref_sercfg (PEsc FName)) (ref_wprog (PEsc FName)) = true.
Proof. exact whole_property_hypotheses_satisfiable. Qed.

(** Round 5 — histories of calls.  [_serialise] read over the state that outlives a call ([gen_hprog]: writes, which can
    raise; the child loop; guard / mark / unmark / any other use of a module-level or class-level mutable object).  A
    program without state instructions gives back the marks it found and its outcome does not depend on them ... *)
Theorem writer_outcome_independent_of_leftover_state : forall H idf is_root other, hprog_stateless H = true ->
  forall fuel M b k, hexec H idf is_root other fuel M b k = with_marks M (hexec H idf is_root other fuel [] b k).
Proof. exact hexec_stateless. Qed.

(** ... so after ANY history of earlier calls (each on any tree, completed or aborted by the file raising at any write,
    each starting from what the one before left behind) a call runs exactly as in a fresh process. *)
Theorem writer_history_independent : forall H idf is_root other, hprog_stateless H = true ->
  forall calls fuel b k,
  hexec H idf is_root other fuel (marks_after H idf is_root other calls []) b k = hexec H idf is_root other fuel [] b k.
Proof. exact history_independent. Qed.

Theorem writer_history_hypothesis_satisfiable :
  hprog_stateless ref_hprog = true /\ same_skeleton ref_hprog (ref_wprog (PEsc FName)) = true /\
  h_ok (hexec ref_hprog name_id (fun _ => false) (fun _ M => M) 3%nat [] 10%nat hist_witness) = true.
Proof. exact (conj ref_hprog_stateless (conj (ref_same_skeleton (PEsc FName)) ref_hprog_completes)). Qed.

(** The nearby wrong shape (seeded fault c01_7: cycle detection through a module-level set of the blocks being written,
    un-marked after the children but not in a finally clause): rejected; and the witness -- the call completes in a
    fresh process; a call whose file raises at the second write leaves the mark [97] behind; after it the same valid
    tree can not be written any more (the guard raises), and the mark stays. *)
Theorem writer_marks_left_behind_refuted :
  hprog_stateless marking_hprog = false /\
  let run := hexec marking_hprog name_id (fun _ => false) (fun _ M => M) in
  let M1 := marks_after marking_hprog name_id (fun _ => false) (fun _ M => M) [(3%nat, 1%nat, hist_witness)] [] in
  h_ok (run 3%nat [] 10%nat hist_witness) = true
  /\ M1 = [97]
  /\ h_ok (run 3%nat M1 10%nat hist_witness) = false
  /\ h_marks (run 3%nat M1 10%nat hist_witness) = [97].
Proof. exact (conj marking_writer_rejected marking_writer_refuted). Qed.

(** Round 5 -- the deprecated generator export() as an instruction program [gen_xprog] (yields, the hand-on of the
    children's lines, stores to / mutating calls on tree objects), as [_serialise] was given in round 4: a program without
    store instructions leaves the tree as it was, whatever a store would do ... *)
Theorem export_program_leaves_tree_unchanged : forall X E P upd, xprog_pure P = true ->
  forall fuel w k, fst (xexec X E P upd fuel w k) = k.
Proof. exact xexec_pure_tree. Qed.

(** ... and a program whose yields are those of the structural reading [gen_expcfg] yields the export model's text. *)
Theorem export_program_yields_model_text : forall X E P upd, xprog_text_ok X P = true ->
  forall fuel k w, (kv_depth k <= fuel)%nat -> xexec X E P upd fuel w k = (k, exp_node X E w k).
Proof. exact xexec_text. Qed.

Theorem export_program_hypotheses_satisfiable :
  xprog_pure (ref_xprog (PEsc FName)) = true /\
  xprog_text_ok (ref_expcfg (PEsc FName)) (ref_xprog (PEsc FName)) = true.
Proof. exact ref_xprog_ok. Qed.

Theorem export_program_with_mutating_call_rejected : xprog_pure sorting_xprog = false.
Proof. exact sorting_xprog_rejected. Qed.

(** Round 5 -- THE WHOLE PROPERTY, for every call: [c01_property] together with history independence of the writer and
    with the deprecated export() (text of its instruction program = text of the export model, tree unchanged, round
    trip).  Thirteen hypotheses, all decidable conditions on objects regenerated from the source on every run. *)
Theorem c01_property_all_calls : forall C E P T F TB ps fp W H X XP,
  cfg_ok C = true -> esc_ok E = true -> pcfg_ok P = true -> loop_ok T F P = true -> tables_match TB E = true ->
  delivery_ok ps = true -> flagprog_ok fp = true -> wprog_pure W = true -> wprog_text_ok C W = true ->
  hprog_stateless H = true -> xcfg_ok X = true -> xprog_pure XP = true -> xprog_text_ok X XP = true ->
  (* 1. the property for one call of serialise(), on every execution path (c01_property) *)
  (forall casefold flags defaults O o x p,
    po_single_block O = false -> ws_opts o = true ->
    po_newline_keys O || obj_names_ok x = true -> po_newline_values O || obj_values_ok x = true ->
    In p ps ->
    let flag := flag_of fp casefold flags defaults in
    exists txt,
      (path_text C E o x p = Some txt /\ sp_ret_ok p = true) /\
      (txt = ser_obj C E o x /\
       forall upd fuel k cur, (kv_depth k <= fuel)%nat -> snd (wexec C E o W upd fuel cur k) = ser_node C E o cur k) /\
      (forall upd fuel k cur, fst (wexec C E o W upd fuel cur k) = k) /\
      parse_kv_tree T F P O E flag txt = POk (obj_doc x) /\
      (forall cs n f, concat cs = txt -> (length txt < n)%nat -> (length txt < f)%nat ->
         parse_kv_reader P O TB flag n f (chk_of_chunks cs) = parse_kv_tree T F P O E flag txt) /\
      (forall o2, ws_opts o2 = true ->
         lex_all E txt = lex_all E (ser_obj C E o2 x) /\ strip_blanks txt = obj_canon E x) /\
      (forall s, flag s = read_flag casefold flags defaults s)) /\
  (* 2. ... for every call, whatever the calls before it did or left undone *)
  (forall idf is_root other calls fuel b k,
     hexec H idf is_root other fuel (marks_after H idf is_root other calls []) b k = hexec H idf is_root other fuel [] b k) /\
  (* 3. the deprecated writer: text of the program = text of the export model, tree unchanged, round trip *)
  (forall upd fuel w k, (kv_depth k <= fuel)%nat -> xexec X E XP upd fuel w k = (k, exp_node X E w k)) /\
  (forall flag_on O d, po_single_block O = false ->
     po_newline_keys O || doc_names_ok d = true -> po_newline_values O || doc_values_ok d = true ->
     parse_kv_opts P O E flag_on (export_doc X E d) = POk d).
Proof. exact whole_property_all_calls. Qed.

Theorem c01_property_all_calls_hypotheses_satisfiable :
  hprog_stateless ref_hprog = true /\ xcfg_ok (ref_expcfg (PEsc FName)) = true /\
  xprog_pure (ref_xprog (PEsc FName)) = true /\ xprog_text_ok (ref_expcfg (PEsc FName)) (ref_xprog (PEsc FName)) = true.
Proof. exact whole_property_all_calls_hypotheses_satisfiable. Qed.
