(** C03 — tokenizing is total and independent of how the input is chunked.
    Only statements here; proofs are in Text/ProgProofs.v and Text/TokenizerProofs.v.

    The tokenizer model (Text/Tokenizer.v) mirrors Tokenizer._get_token/_handle_comment/_handle_string as reader
    programs over an abstract character source; [run_chk] interprets them over the reader state of the real class
    ([_cur_chunk], [_char_index], the chunk iterator; [cnext] = [_next_char], [cunread] = [_char_index -= 1]),
    [run_flat] over the plain string.  [T] are the constant tables regenerated from tokenizer.py, [o] any of the
    2^7 option vectors.  A trace is the list of results of successive calls, each result carrying token kind, value,
    [line_num] and [_last_was_cr] after the call, or the error site with its line; it ends at the first error. *)
From Coq Require Import List NArith ZArith Bool.
From SV Require Import Text.Str Text.Prog Text.ProgProofs Text.Tokenizer Text.TokenizerProofs Text.KvErrModel Text.KvErrProofs
  Text.BaseTok Text.BaseTokProofs Text.BaseTokTokenizer Text.BaseTokHelpers Text.ErrFmt Text.ErrFmtProofs
  Text.HsTable Text.HsTableProofs Text.GtTable Text.GtTableProofs Text.GtExample Text.NextChar.
Import ListNotations.

(** Generic: NO reader program can tell a chunked source from the flat string it denotes — same result, and the
    sources stay related (so this holds call after call). Empty chunks, and cuts at any position (inside CR-LF,
    escapes, comments, before a pushed-back character), are all instances. *)
Theorem c03_chunk_independent : forall (A : Type) (p : Prog A) l s, R l s ->
  fst (run_flat p l) = fst (run_chk p s) /\ R (snd (run_flat p l)) (snd (run_chk p s)).
Proof. exact @chunk_independent. Qed.

(** The initial states of [Tokenizer(str)] and [Tokenizer(iterable of chunks)] denote the text. *)
Theorem c03_initial_states : forall cs, R (concat cs) (chk_of_chunks cs) /\ R (concat cs) (chk_of_str (concat cs)).
Proof. intros cs. split; [apply R_of_chunks|apply R_of_str]. Qed.

(** Token traces (kind, value, line number, error) are identical for every chunking of the same text, for every
    option vector, any number of calls, any fuel. *)
Theorem c03_tokens_chunk_independent : forall T o n fuel line lcr l s, R l s ->
  tokens_chk T o n fuel line lcr s = tokens_flat T o n fuel line lcr l.
Proof. exact tokens_chunk_independent. Qed.

Theorem c03_tokens_any_chunking : forall T o n fuel cs,
  tokens_chk T o n fuel 1 false (chk_of_chunks cs) = tokens_chk T o n fuel 1 false (chk_of_str (concat cs)).
Proof. exact tokens_any_chunking. Qed.

(** Totality and progress of one call: with fuel above the length of the remaining text the call does not run out
    of fuel, returns EOF only with the input exhausted, leaves a remaining text no longer than before, and
    performs at most 2*|remaining text|+1 character reads. *)
Theorem c03_get_token_total : forall T o, ops_no_eof T = true ->
  forall f l line lcr, (length l < f)%nat ->
  let r := run_flat (get_token T o f line lcr) l in
  fst r <> RFuel
  /\ (forall v ln b, fst r = RTok EOF v ln b -> snd r = [] /\ v = [] /\ True)
  /\ (Prog.reads (get_token T o f line lcr) l + 2 * length (snd r) <= 2 * length l + 1)%nat.
Proof.
  intros T o H f l line lcr Hf. destruct (get_token_total T o H f l line lcr Hf) as [[H1 H2] H3].
  cbv zeta. repeat split; try assumption; apply (H2 v ln b H0).
Qed.

(** Every result of every call is a token or an error value of the one error type; never "out of fuel". The
    model has no other outcome: in the implementation "nothing but TokenSyntaxError escapes" is checked by the
    differential run and the oracle. *)
Theorem c03_tokens_total : forall T o, ops_no_eof T = true ->
  forall n fuel line lcr l, (length l < fuel)%nat ->
  Forall (fun r => r <> RFuel) (tokens_flat T o n fuel line lcr l).
Proof. exact tokens_total. Qed.

Theorem c03_tokens_total_chunked : forall T o, ops_no_eof T = true ->
  forall n fuel cs, (length (concat cs) < fuel)%nat ->
  Forall (fun r => r <> RFuel) (tokens_chk T o n fuel 1 false (chk_of_chunks cs)).
Proof. exact tokens_total_chunked. Qed.

(** Once a call returns EOF, every later call returns EOF and the state no longer changes. *)
Theorem c03_eof_forever : forall T o, ops_no_eof T = true ->
  forall fuel l line lcr v line' lcr' l', (length l < fuel)%nat ->
  run_flat (get_token T o fuel line lcr) l = (RTok EOF v line' lcr', l') ->
  v = [] /\ l' = [] /\ forall n, tokens_flat T o n fuel line' lcr' l' = repeat (RTok EOF [] line' lcr') n.
Proof. exact eof_forever. Qed.

(** Linear step bound for the whole stream: [n] calls cost at most 2*|text| + n character reads, and the count
    is the same on every chunking. *)
Theorem c03_trace_reads_linear : forall T o, ops_no_eof T = true ->
  forall n fuel line lcr l, (length l < fuel)%nat -> (trace_reads T o n fuel line lcr l <= 2 * length l + n)%nat.
Proof. exact trace_reads_linear. Qed.

Theorem c03_reads_chunk_independent : forall (A : Type) (p : Prog A) l s, R l s -> reads_chk p s = Prog.reads p l.
Proof. exact @reads_chunk_independent. Qed.

(** Non-vacuity: a concrete run (star comment cut inside "*/", CR-LF cut in the middle, an empty chunk). *)
Definition ex_tables : tables := {|
  esc_table := [(110,10);(116,9);(34,34);(92,92)]%N; excl_single := []; excl_multi := [];
  bare_disallowed := [34;39;123;125;59;44;61;91;93;40;41;13;10;9;32]%N;
  operators := [(123, BRACE_OPEN); (125, BRACE_CLOSE); (61, EQUALS); (44, COMMA)]%N;
  casefold := fun c => [c] |}.
Definition ex_opts : opts := {| string_bracket := false; string_parens := true; allow_escapes := true;
  allow_star_comments := true; preserve_comments := true; colon_operator := false; plus_operator := false |}.
Theorem c03_example :
  ops_no_eof ex_tables = true /\
  tokens_chk ex_tables ex_opts 5 20 1 false (chk_of_chunks [[97;13]; []; [10;47;42;120;42]; [47;98]]%N)
  = [RTok STRING [97]%N 1 false; RTok NEWLINE [10]%N 2 true; RTok COMMENT [120]%N 2 false; RTok STRING [98]%N 2 false;
     RTok EOF [] 2 false].
Proof. vm_compute. split; reflexivity. Qed.

(** ---- "KeyValError and nothing else" for [Keyvalues.parse] (exception-level model Text/KvErrModel.v) ----
    [cfg] records how the source guards each indexing site of the parser (regenerated from keyvalues.py on every run;
    the check discharges [cfg_safe gen_kcfg = true] field by field).  For EVERY token stream the parser can see through
    its tokenizer, every caller-supplied flag mapping, every option vector and whatever error the tokenizer ends with:
    the parser returns, or raises KeyValError — never an exception of another type. *)
Theorem c03_kvparse_only_keyvalerror : forall cfg ko cf flags defaults fin,
  cfg_safe cfg = true -> forall ts s, parse_tokens cfg ko cf flags defaults fin ts <> OForeign s.
Proof. exact no_foreign. Qed.

(** Site by site: a foreign exception starting at site [s] needs the guard of exactly that site to be missing (and the
    unguarded [cur_block_contents[-1]] of the "block expected" branch is never reached with an empty list). *)
Theorem c03_kvparse_foreign_needs_missing_guard : forall cfg ko cf flags defaults fin ts s,
  parse_tokens cfg ko cf flags defaults fin ts = OForeign s -> site_guard cfg s = false.
Proof. exact foreign_needs_missing_guard. Qed.

(** Composition with the tokenizer model: [Keyvalues.parse(text)] for any text: the tokenizer part does not run out
    of fuel and ends in EOF or one of its error values (raised with error_type = KeyValError); the parser part never
    leaves with a foreign exception. *)
Theorem c03_kvparse_text_typed : forall T cfg ko ae flags defaults, cfg_safe cfg = true -> ops_no_eof T = true ->
  forall text,
  let tr := split_trace (tokens_flat T (kv_tok_opts ae) (S (length text)) (S (length text)) 1 false text) in
  snd tr <> Some RFuel /\ forall s, kv_parse_text T cfg ko ae flags defaults text <> OForeign s.
Proof. exact kv_parse_text_typed. Qed.

(** ... and the outcome (ok / which KeyValError, including the tokenizer error and its line when that ends the stream)
    is the same whether the text is passed as one string or as any sequence of chunks. *)
Theorem c03_kvparse_any_chunking : forall T cfg ko ae flags defaults cs,
  kv_parse_chunks T cfg ko ae flags defaults cs = kv_parse_text T cfg ko ae flags defaults (concat cs).
Proof. exact kv_parse_any_chunking. Qed.

(** The guards are not decoration (these are the shapes the pinned tree had before the fixes, and seeded fault c03_2):
    an empty flag with an index test, a flagged keyvalue after a skipped block, a skipped block in single-block mode. *)
Definition all_guarded : kcfg := {| bang_total := true; guard_replace_block := true; guard_replace_leaf := true;
  guard_single_root := true; close_guarded := true |}.
Definition ko_default : kopts := {| newline_keys := false; newline_values := true; single_line := false; single_block := false |}.
Theorem c03_kvparse_unguarded_refuted :
  let S_ := (STRING, [97]%N) in let NL_ := (NEWLINE, [10]%N) in
  let run c k ts := parse_tokens c k (fun x => [x]) [] [] None ts in
  run {| bang_total := false; guard_replace_block := true; guard_replace_leaf := true; guard_single_root := true; close_guarded := true |}
      ko_default [S_; S_; (PROP_FLAG, []); NL_] = OForeign F_BANG
  /\ run {| bang_total := true; guard_replace_block := true; guard_replace_leaf := false; guard_single_root := true; close_guarded := true |}
      ko_default [S_; (PROP_FLAG, [120]%N); NL_; (BRACE_OPEN, []); (BRACE_CLOSE, []); S_; S_; (PROP_FLAG, [33; 120]%N); NL_] = OForeign F_REPLACE_LEAF
  /\ run {| bang_total := true; guard_replace_block := true; guard_replace_leaf := true; guard_single_root := false; close_guarded := true |}
      {| newline_keys := false; newline_values := true; single_line := false; single_block := true |}
      [S_; (PROP_FLAG, [120]%N); NL_; (BRACE_OPEN, []); (BRACE_CLOSE, [])] = OForeign F_ROOT0
  /\ run all_guarded ko_default [S_; (PROP_FLAG, [120]%N); NL_; (BRACE_OPEN, []); (BRACE_CLOSE, []); S_; S_; (PROP_FLAG, [33; 120]%N); NL_] = OOk
  /\ cfg_safe all_guarded = true.
Proof. vm_compute. repeat split; reflexivity. Qed.

(** ---- The token-level layer [BaseTokenizer] (Text/BaseTok.v): [__call__] with the push-back list, [peek],
    [push_back]; generic over the underlying source [get] (= [_get_token] of Tokenizer or IterTokenizer).  [c] says which
    end of [_pushback] each method uses (regenerated from the source; obligation [lifo gen_bcfg = true]). ---- *)

(** Every sequence of calls, peeks and push-backs returns what the same sequence returns on the logical stream
    "pushed-back tokens, last pushed first, then the stream [_get_token] delivers" ([view]); [n] only bounds how much
    of that stream is looked at. *)
Theorem c03_basetok_refines_logical_stream : forall (S E : Type) (get : S -> (ptok + E) * S) c, lifo c = true ->
  forall ops b n, (BaseTok.reads ops <= n)%nat -> fst (run S E get c ops b) = srun E ops (view S E get c n b).
Proof. exact run_refines. Qed.

(** Delivery = underlying stream: with nothing pushed back explicitly, whatever mixture of calls and peeks is made,
    the tokens the calls return are the first tokens of [_get_token]'s stream, in order, none lost or repeated. *)
Theorem c03_basetok_delivery_is_underlying_stream : forall (S E : Type) (get : S -> (ptok + E) * S) c, lifo c = true ->
  forall ops b, pb b = [] -> Forall (fun o => match o with Push _ => False | _ => True end) ops ->
  exists k, map snd (filter fst (fst (run S E get c ops b))) = firstn k (unfold S E get (BaseTok.reads ops) (src b)).
Proof. exact delivery_is_underlying_stream. Qed.

(** LIFO, one level: push_back then call returns the token and restores the state; peek shows what the next call
    returns; a re-delivered token does not touch the source (so [line_num] stays where the furthest read left it). *)
Theorem c03_basetok_call_after_push_back : forall (S E : Type) (get : S -> (ptok + E) * S) c, lifo c = true ->
  forall x b, call S E get c (push S c x b) = (inl x, b).
Proof. exact call_push. Qed.
Theorem c03_basetok_peek_then_call : forall (S E : Type) (get : S -> (ptok + E) * S) c, lifo c = true ->
  forall b x b1, call S E get c b = (inl x, b1) ->
  fst (peek S E get c b) = inl x /\ call S E get c (snd (peek S E get c b)) = (inl x, b1).
Proof. exact peek_then_call. Qed.
Theorem c03_basetok_redelivery_keeps_source : forall (S E : Type) (get : S -> (ptok + E) * S) c b x l,
  pb_pop (pop_last c) (pb b) = Some (x, l) -> call S E get c b = (inl x, {| pb := l; src := src b |}).
Proof. exact redelivery_keeps_source. Qed.

(** Chunk independence through the layer: over [Tokenizer] as the source, any sequence of calls / peeks / push-backs,
    and [expect], give the same tokens, values and errors and leave the same push-back list, [line_num] and
    [_last_was_cr], whether the text is one string or any sequence of chunks ([R l s]). *)
Theorem c03_basetok_ops_chunk_independent : forall T o fuel c ops pbl line lcr l s, R l s ->
  fst (run _ _ (tk_get_flat T o fuel) c ops {| pb := pbl; src := (line, lcr, l) |})
  = fst (run _ _ (tk_get_chk T o fuel) c ops {| pb := pbl; src := (line, lcr, s) |})
  /\ Rb _ _ Rtk (snd (run _ _ (tk_get_flat T o fuel) c ops {| pb := pbl; src := (line, lcr, l) |}))
                (snd (run _ _ (tk_get_chk T o fuel) c ops {| pb := pbl; src := (line, lcr, s) |})).
Proof. exact bt_ops_chunk_independent. Qed.
Theorem c03_basetok_expect_chunk_independent : forall T o fuel c f want skip pbl line lcr l s, R l s ->
  fst (expect _ _ (tk_get_flat T o fuel) c f want skip {| pb := pbl; src := (line, lcr, l) |})
  = fst (expect _ _ (tk_get_chk T o fuel) c f want skip {| pb := pbl; src := (line, lcr, s) |}).
Proof. exact bt_expect_chunk_independent. Qed.

(** [expect(token)] on the logical stream: the NEWLINE tokens in front are skipped (NEWLINE itself not being wanted),
    the first other token [x] decides: its value is returned if it is the wanted kind, otherwise the error names [x] —
    whether those tokens come from the push-back list or from the source. *)
Theorem c03_basetok_expect_spec : forall (S E : Type) (get : S -> (ptok + E) * S) c nls fuel want b n x rest,
  Forall (fun t => is_tok NEWLINE t = true) nls -> is_tok NEWLINE x = false ->
  is_tok NEWLINE (want, []) = false -> (length nls < fuel)%nat ->
  view S E get c n b = map inl nls ++ inl x :: rest ->
  fst (expect S E get c fuel want true b) = if is_tok want x then HVal (snd x) else HErr x.
Proof. exact expect_spec. Qed.

(** [IterTokenizer]: delivers the wrapped items, then (EOF, '') for ever. *)
Theorem c03_itertokenizer_stream : forall l n, (length l <= n)%nat ->
  unfold (list ptok) Empty_set iter_get n l = map inl l ++ repeat (inl (EOF, [])) (n - length l).
Proof. exact iter_delivers_the_list. Qed.

(** The LIFO condition is not decoration: popping the other end (FIFO) re-delivers two pushed-back tokens in the
    wrong order. *)
Theorem c03_basetok_fifo_refuted :
  let c := {| pop_last := false; push_last := true; peek_last := true |} in
  let b := {| pb := []; src := ([] : list ptok) |} in
  lifo c = false /\
  fst (run _ _ iter_get c [Push (STRING, [97]%N); Push (STRING, [98]%N); Call; Call] b)
  = [(true, inl (STRING, [97]%N)); (true, inl (STRING, [98]%N))].
Proof. vm_compute. split; reflexivity. Qed.

(** ---- the TEXT of an error (round 3): [str(exc)] = [format_exc_fileinfo(mess, file, line_num)], and the messages
    [BaseTokenizer.error] builds for a token.  [c] are the pieces of the text for the four combinations "file is None" x
    "line_num is None", regenerated from tokenizer.py on every run (a combination that raises is [None]); the check
    discharges the boolean conditions for the generated [c]. ---- *)

(** Formatting an error cannot itself fail (the AssertionError branch of [format_exc_fileinfo] is unreachable). *)
Theorem c03_error_text_never_fails : forall c, fmt_total c = true ->
  forall msg file line, format_fileinfo c msg file line <> None.
Proof. exact fileinfo_total. Qed.

(** The text starts with the message; without file and line it is the message. *)
Theorem c03_error_text_starts_with_message : forall c, fmt_msg_first c = true ->
  forall msg file line s, format_fileinfo c msg file line = Some s -> exists rest, s = msg ++ rest.
Proof. exact fileinfo_starts_with_message. Qed.
Theorem c03_error_text_plain : forall c, fmt_plain c = true -> forall msg, format_fileinfo c msg None None = Some msg.
Proof. exact fileinfo_plain. Qed.

(** A given line number appears in the text as a non-empty string of decimal digits; a given file name appears. *)
Theorem c03_error_text_shows_line : forall c, fmt_line_shown c = true ->
  forall msg file n s, format_fileinfo c msg file (Some n) = Some s -> exists a b, s = a ++ dec n ++ b.
Proof. exact fileinfo_shows_line. Qed.
Theorem c03_error_text_shows_file : forall c, fmt_file_shown c = true ->
  forall msg f line s, format_fileinfo c msg (Some f) line = Some s -> exists a b, s = a ++ f ++ b.
Proof. exact fileinfo_shows_file. Qed.
Theorem c03_error_line_is_decimal : forall n, dec n <> [] /\ Forall (fun ch => (48 <= ch <= 57)%N) (dec n).
Proof. intros n. split; [apply dec_nonempty|apply dec_digits]. Qed.

(** [error(Token.X)] and [error(Token.X, value)] build a message for every member of [Token] (no KeyError from the
    [_OPERATOR_VALS] fall-through, no IndexError from the value). *)
Theorem c03_error_token_message_total : forall ts members, tmsgs_total ts members = true ->
  forall t v, In t members -> token_message ts t v <> None.
Proof. exact token_message_total. Qed.

(** The error a tokenizer run ends with has the same text for every chunking of the input, whatever the message texts
    of the error sites are ([msgf]) and whatever the file name; and that text exists, starts with the message and shows the
    line the error was raised on. *)
Theorem c03_error_text_any_chunking : forall c msgf file T o n fuel cs,
  map (err_text c msgf file) (tokens_chk T o n fuel 1 false (chk_of_chunks cs))
  = map (err_text c msgf file) (tokens_chk T o n fuel 1 false (chk_of_str (concat cs))).
Proof. exact error_text_any_chunking. Qed.
Theorem c03_error_text_shape : forall c msgf file e a line,
  fmt_total c = true -> fmt_msg_first c = true -> fmt_line_shown c = true ->
  exists s rest x y, err_text c msgf file (RErr e a line) = Some s /\ s = msgf e a ++ rest /\ s = x ++ dec line ++ y.
Proof. exact error_text_shape. Qed.

(** Non-vacuity (a configuration satisfying every condition, with a computed text) and a refutation: if one
    combination raised, formatting would fail there. *)
Definition ex_fcfg : fcfg := {|
  f_none_none := Some [PMsg]; f_file_only := Some [PMsg; PLit [32]%N; PFile];
  f_line_only := Some [PMsg; PLit [58]%N; PLine]; f_both := Some [PMsg; PLit [58]%N; PLine; PLit [32]%N; PFile] |}.
Theorem c03_error_text_example :
  fmt_total ex_fcfg = true /\ fmt_msg_first ex_fcfg = true /\ fmt_plain ex_fcfg = true /\ fmt_line_shown ex_fcfg = true
  /\ fmt_file_shown ex_fcfg = true
  /\ format_fileinfo ex_fcfg [109]%N (Some [102]%N) (Some 120%N) = Some [109; 58; 49; 50; 48; 32; 102]%N.
Proof. vm_compute. repeat split; reflexivity. Qed.
Theorem c03_error_text_raising_case_refuted :
  let c := {| f_none_none := Some [PMsg]; f_file_only := None; f_line_only := Some [PMsg; PLine]; f_both := Some [PMsg; PLine; PFile] |} in
  fmt_total c = false /\ format_fileinfo c [109]%N (Some [102]%N) None = None.
Proof. vm_compute. split; reflexivity. Qed.

(** Round 4: [_get_token] and [_handle_comment] AS WRITTEN in the source.  translate/c02_gettoken.py cuts the two functions into
    eight segments (the outer loop, the four inner loops, the entry of [_handle_comment] and its two loops), executes each on
    abstract values and emits a decision tree per segment; [gt_interp] gives any such object a meaning as a reader program.  If
    the trees pass [trees_ok] (eight instance obligations, one per segment: the tree asks only what a segment of its kind may
    depend on, and computes the model's function on every consistent abstract environment) and [hs] computes what the hand model
    of [_handle_string] computes, the interpretation IS the hand model [get_token] on every input ... *)
Theorem c03_get_token_trees_are_the_model : forall T o G hs, trees_ok G = true ->
  (forall f acc lcr line l, run_flat (hs f acc lcr line) l = run_flat (handle_string T o f acc lcr line) l) ->
  forall f line lcr l,
  run_flat (gt_interp T o (steps_of G) hs f line lcr) l = run_flat (get_token T o f line lcr) l.
Proof. exact gt_trees_interp_is_model. Qed.

(** ... also over the chunked reader state of the real class ... *)
Theorem c03_get_token_trees_are_the_model_chunked : forall T o G hs, trees_ok G = true ->
  (forall f acc lcr line l, run_flat (hs f acc lcr line) l = run_flat (handle_string T o f acc lcr line) l) ->
  forall f line lcr l s, R l s ->
  fst (run_chk (gt_interp T o (steps_of G) hs f line lcr) s) = fst (run_flat (get_token T o f line lcr) l).
Proof. exact gt_trees_interp_is_model_chunked. Qed.

(** ... so the whole tokenizer as written ([_get_token] and [_handle_comment] from their trees [G], [_handle_string] from its
    rows) yields, call after call, on the flat text and on ANY chunking of it, the trace of the hand model - to which the
    totality, EOF-for-ever and linear-bound theorems above apply. *)
Theorem c03_tokenizer_as_written_any_chunking : forall T o G rows, trees_ok G = true -> hs_rows_ok rows = true ->
  forall n fuel cs,
  itokens_chk (gt_interp T o (steps_of G) (hs_interp T o (tb_of rows)) fuel) n 1 false (chk_of_chunks cs)
  = tokens_flat T o n fuel 1 false (concat cs)
  /\ itokens_chk (gt_interp T o (steps_of G) (hs_interp T o (tb_of rows)) fuel) n 1 false (chk_of_str (concat cs))
  = tokens_flat T o n fuel 1 false (concat cs)
  /\ itokens_flat (gt_interp T o (steps_of G) (hs_interp T o (tb_of rows)) fuel) n 1 false (concat cs)
  = tokens_flat T o n fuel 1 false (concat cs).
Proof.
  intros T o G rows HG Hr n fuel cs.
  pose proof (hs_rows_interp_is_model T o rows Hr) as Hhs.
  repeat split.
  - exact (gt_trees_trace_is_model_chunked T o G _ HG Hhs n fuel 1%N false (concat cs) _ (R_of_chunks cs)).
  - exact (gt_trees_trace_is_model_chunked T o G _ HG Hhs n fuel 1%N false (concat cs) _ (R_of_str (concat cs))).
  - exact (gt_trees_trace_is_model T o G _ HG Hhs n fuel 1%N false (concat cs)).
Qed.

Theorem c03_tokenizer_as_written_total : forall T o G rows, trees_ok G = true -> hs_rows_ok rows = true -> ops_no_eof T = true ->
  forall n fuel cs, (length (concat cs) < fuel)%nat ->
  Forall (fun r => r <> RFuel)
         (itokens_chk (gt_interp T o (steps_of G) (hs_interp T o (tb_of rows)) fuel) n 1 false (chk_of_chunks cs)).
Proof.
  intros T o G rows HG Hr Hops n fuel cs Hf.
  destruct (c03_tokenizer_as_written_any_chunking T o G rows HG Hr n fuel cs) as [-> _].
  exact (tokens_total T o Hops n fuel 1%N false (concat cs) Hf).
Qed.

(** The condition is satisfiable (a fixed copy of the trees of the pinned source passes it; the check proves it for the trees
    it regenerates from today's source) and it matters: a dispatch tree that no longer looks at [_last_was_cr] is rejected, and
    its interpretation turns CR LF into two NEWLINE tokens. *)
Theorem c03_get_token_trees_satisfiable : trees_ok ex_trees = true.
Proof. vm_compute. reflexivity. Qed.
Theorem c03_get_token_trees_refuted :
  trees_ok bad_trees = false
  /\ itokens_flat (gt_interp ex_tables ex_opts (steps_of bad_trees) (handle_string ex_tables ex_opts) 5) 3 1 false [CR; LF]
     = [RTok NEWLINE [LF] 2 true; RTok NEWLINE [LF] 3 false; RTok EOF [] 3 false]
  /\ tokens_flat ex_tables ex_opts 3 5 1 false [CR; LF] = [RTok NEWLINE [LF] 2 true; RTok EOF [] 2 false; RTok EOF [] 2 false].
Proof. vm_compute. repeat split; reflexivity. Qed.

(** Round 4: [_next_char] AS WRITTEN, and chunk sources that are not texts.  translate/c03_nextchar.py reads the fast path and
    executes the refill part on abstract values for every thing the chunk iterator can do next (yield bytes / another non-str
    object / the empty string / a non-empty string, be exhausted, raise UnicodeDecodeError / another exception).  If the rows are
    the model's ([nc_rows_ok], instance obligation [next_char_rows_are_the_model]), then on a source of [str] chunks the function
    IS the reader [cnext] that every theorem above is about ... *)
Theorem c03_next_char_is_cnext : forall fast rows, nc_rows_ok fast rows = true -> forall s,
  xnext (nc_tb rows) (xof s) = (XChar (fst (cnext s)), xof (snd (cnext s))).
Proof. exact xnext_is_cnext. Qed.

(** ... and the first thing that is not a [str] (after any number of empty chunks, when the current chunk is used up) is answered
    precisely: ValueError for a bytes / non-str object (such a source is not a text: outside the property; nothing is silently
    dropped), the tokenizer's own error (TokenSyntaxError / KeyValError, 'Could not decode file!') for UnicodeDecodeError - a file in
    the wrong encoding is covered by "TokenSyntaxError and nothing else" -, any other exception of the iterator propagates. *)
Theorem c03_next_char_first_non_text : forall fast rows, nc_rows_ok fast rows = true -> forall s n it r,
  at_end s -> xmore s = repeat (IStr []) n ++ it :: r ->
  fst (xnext (nc_tb rows) s) =
  match it with
  | IBytes | INonStr => XValueError
  | IDecodeErr => XDecodeError
  | IOtherErr => XPropagates
  | IStr [] => fst (xnext (nc_tb rows) {| xcur := xcur s; xidx := xidx s; xmore := r |})
  | IStr (c :: _) => XChar (Some c)
  end.
Proof. exact xnext_first_bad. Qed.

Theorem c03_next_char_rows_refuted :
  nc_rows_ok 1 nc_rows_of_spec = true /\ nc_rows_ok 1 nc_rows_bad = false
  /\ fst (xnext (nc_tb nc_rows_bad) {| xcur := []; xidx := -1; xmore := [INonStr; IStr [65%N]] |}) = XChar (Some 65%N)
  /\ fst (xnext (nc_tb nc_rows_bad) {| xcur := []; xidx := -1; xmore := [IDecodeErr] |}) = XPropagates.
Proof. vm_compute. repeat split; reflexivity. Qed.
