(** C05 — Angle stays in [0,360), frozen values never change, text form is canonical.
    Only statements here; proofs are in Num/Mod360Proofs.v, Num/AngleSitesProofs.v, Num/Dec6Proofs.v,
    SM/FrozenOpsProofs.v.  The generated objects (angle_sites, format_float_cfg, mut_events) are in
    Gen/AngleSites_gen.v; the instance obligations about them are kernel-checked by checks/c05.py. *)
From Coq Require Import ZArith NArith Reals List String Bool.
From Flocq Require Import Core BinarySingleNaN.
From SV Require Import Num.Mod360 Num.Mod360Proofs Num.AngleSites Num.AngleSitesProofs
                       Num.Dec6 Num.Dec6Proofs Num.Dec6CarveProofs Num.VecText Num.VecTextProofs Num.Mod360Id Num.VecTextFloat SM.FrozenOps SM.FrozenOpsProofs SM.FrozenCopy SM.FrozenCopyProofs
                       SM.FrozenCopyValue SM.FrozenCopyValueProofs Num.AngleText Num.AngleTextProofs
                       Num.AngleCtor Num.AngleCtorProofs SM.FrozenHash SM.FrozenHashProofs Num.SpecStrip Num.SpecStripProofs Num.C05Whole SM.FrozenEq SM.FrozenEqProofs.
Import ListNotations.

(** ------------------------------------------------------------------ (a) range *)

(** Python's [x % 360.0 % 360.0] on ANY finite binary64 x is finite and in the half-open interval. *)
Theorem c05_norm360_range : forall x : b64, is_finite x = true ->
  is_finite (double360 x) = true /\ (0 <= B2R (double360 x) < 360)%R.
Proof. exact norm360_range. Qed.

(** One application only gives the closed interval ... *)
Theorem c05_single_mod_closed : forall x : b64, is_finite x = true ->
  is_finite (pymod360 x) = true /\ (0 <= B2R (pymod360 x) <= 360)%R /\ (Bsign x = false -> (B2R (pymod360 x) < 360)%R).
Proof. exact pymod360_closed. Qed.

(** ... and 360.0 is reached (x = -1e-14). *)
Theorem c05_single_mod_refuted : exists x : b64, is_finite x = true /\ B2R (single360 x) = 360%R.
Proof. exact single_mod_refuted. Qed.

(** If every store to _pitch/_yaw/_roll found in the source is safe (double modulo, copy of an angle slot,
    literal 0.0), then after every history of stores with finite operands every slot of every angle is in
    [0, 360). *)
Theorem c05_angle_range_invariant : forall sites, all_sites_safe sites = true ->
  forall es st, Forall in_range st -> finite_inputs es -> Forall in_range (AngleSites.run sites es st).
Proof. exact angle_range_invariant. Qed.

(** Error paths (round 5): the events are single stores, so a call that raises half-way leaves a PREFIX of its stores
    behind; the invariant holds after the prefix as well as after the whole call (no store relies on a later one).  The
    frame theorems below quantify over arbitrary new values for the registers a call may write, which covers a call that
    was interrupted after some of its writes. *)
Theorem c05_range_after_interrupted_call : forall sites, all_sites_safe sites = true ->
  forall done skipped st, Forall in_range st -> finite_inputs done -> Forall in_range (AngleSites.run sites done st) /\
    (finite_inputs skipped -> Forall in_range (AngleSites.run sites (done ++ skipped) st)).
Proof. exact angle_range_after_interrupted_call. Qed.

Theorem c05_single_site_refuted :
  exists es, finite_inputs es /\
    exists x, In x (AngleSites.run [("_to_angle"%string, Single360)] es []) /\ B2R x = 360%R.
Proof. exact single_site_refuted. Qed.

(** Constructors by ARGUMENT FORM (round 4).  For every dispatch table read off Angle.__init__ / FrozenAngle.__new__
    that passes [ctor_table_ok]: whatever the first argument is - a number, an object of the class, an angle of the
    twin class, a Vec, a FrozenVec, any other iterable - and whatever finite floats it supplies (in range when they
    are the slots of an angle), each constructor has a path for that form and the object that path hands out has
    three finite slots in [0, 360). *)
Theorem c05_ctor_range : forall ctors rows, ctor_table_ok ctors rows = true ->
  forall c, In c ctors -> forall f v, supplied_ok f v ->
    (exists a, In (c, f, a) rows) /\
    (forall a, In (c, f, a) rows -> exists s, ctor_eval a v = Some s /\ in_range3 s).
Proof. exact ctor_range. Qed.

(** A fast path that stores the components of a Vec argument as they are (seeded fault c05_6) fails the table check,
    the offending row is named, and FrozenAngle(Vec(-90, 0, 0)) holds -90. *)
Theorem c05_ctor_vec_copy_refuted :
  let rows := [("FrozenAngle.__new__"%string, FVec, AStores Other Other Other)] in
  ctor_table_ok ["FrozenAngle.__new__"%string] rows = false /\
  bad_ctor_rows rows = [("FrozenAngle.__new__"%string, FVec)] /\
  supplied_ok FVec (neg90, B754_zero false, B754_zero false) /\
  exists s, ctor_eval (AStores Other Other Other) (neg90, B754_zero false, B754_zero false) = Some s /\
            (B2R (fst (fst s)) = -90)%R.
Proof. exact ctor_vec_copy_refuted. Qed.

(** ------------------------------------------------------------------ (b) frozen values, copies *)

(** For every mutation table that passes the census check, and every history of public calls that do not
    trigger a carved-out event: registers of a frozen class keep their observable value ... *)
Theorem c05_frozen_registers_stable : forall (V : Type) table carve, table_ok table carve = true ->
  forall h st i r, good_history V table carve h st ->
  nth_error st i = Some r -> frozen_class (fst r) = true -> nth_error (FrozenOps.run V table h st) i = Some r.
Proof. intros V table carve OK h. exact (frozen_registers_stable V table carve OK h). Qed.

(** ... and a register that is never the receiver of a call (e.g. the source of a copy while its copy is
    operated on, or the copy while the source is operated on) keeps its value. *)
Theorem c05_copy_independent : forall (V : Type) table carve, table_ok table carve = true ->
  forall h st i r, good_history V table carve h st ->
  nth_error st i = Some r -> Forall (fun x => recv (fst (fst x)) <> i) h ->
  nth_error (FrozenOps.run V table h st) i = Some r.
Proof. intros V table carve OK h. exact (non_receiver_stable V table carve OK h). Qed.

Theorem c05_frozen_stable_refuted :
  table_ok bad_table no_carve = false /\
  FrozenOps.run nat bad_table (({| meth := "__matmul__"; recv := 0%nat; args := (0%nat :: nil) |}, fun _ : nat => 1%nat, nil) :: nil)
    (("FrozenMatrix"%string, 0%nat) :: nil) = (("FrozenMatrix"%string, 1%nat) :: nil).
Proof. exact frozen_stable_refuted. Qed.

(** Copy independence WITH aliasing.  The state is a heap of objects; [src] is an object, [m] one of copy / __copy__ /
    __deepcopy__ / __reduce__ (pickle) / freeze / thaw that its class has.  For every census and result table read
    from the source that pass the three checks: the call writes nothing; its result is a new object or — only for a
    frozen class — [src] itself; whatever public calls follow, operating on the result never changes the source (1)
    and operating on the source never changes the result (2). *)
Theorem c05_copy_independent_alias : forall (V : Type) table carve results,
  table_ok table carve = true -> copy_results_ok results = true -> no_copy_events table = true ->
  forall st src c v m nv newobj,
    nth_error st src = Some (c, v) -> copylike m = true -> has results c m = true ->
    let k := kind_of results c m in
    let o := {| meth := m; recv := src; args := [] |} in
    let st' := FrozenOps.step V table st (o, nv, result_alloc k newobj) in
    let dst := result_obj k st src in
    (k = RFresh \/ (k = RSelf /\ frozen_class c = true)) /\
    nth_error st' src = Some (c, v) /\
    (k = RFresh -> nth_error st' dst = Some newobj /\ dst <> src) /\
    (forall h, good_history V table carve h st' -> Forall (fun x => recv (fst (fst x)) = dst \/ recv (fst (fst x)) <> src) h ->
       nth_error (FrozenOps.run V table h st') src = Some (c, v)) /\
    (forall h r, good_history V table carve h st' -> nth_error st' dst = Some r ->
       Forall (fun x => recv (fst (fst x)) = src \/ recv (fst (fst x)) <> dst) h ->
       nth_error (FrozenOps.run V table h st') dst = Some r).
Proof. intros V table carve results T R N. exact (copy_independent_alias V table carve results T R N). Qed.

(** necessary: with `Angle.copy` returning the receiver the check of the result table fails and multiplying the
    "copy" changes the source *)
Theorem c05_copy_alias_refuted :
  copy_results_ok bad_results_table = false /\
  let k := kind_of bad_results_table "Angle" "copy" in
  let st := [("Angle"%string, 5%nat)] in
  let st' := FrozenOps.step nat imul_table st ({| meth := "copy"; recv := 0%nat; args := [] |}, fun _ => 0%nat, result_alloc k ("Angle"%string, 5%nat)) in
  let dst := result_obj k st 0%nat in
  table_ok imul_table no_carve = true /\ dst = 0%nat /\
  nth_error (FrozenOps.run nat imul_table [({| meth := "__imul__"; recv := dst; args := [] |}, fun _ => 7%nat, [])] st') 0%nat = Some ("Angle"%string, 7%nat).
Proof. exact copy_alias_refuted. Qed.

(** The VALUE of a copy.  [copy_shapes] (generated: each of copy / __copy__ / __deepcopy__ / __reduce__ / freeze /
    thaw of the six classes run symbolically on a source whose slots hold floats) lists which source slot reaches
    which result slot through which conversion.  For every table that passes [copy_shapes_ok]: the result has the class
    the method promises; a new Vec/FrozenVec/Matrix/FrozenMatrix has in every slot exactly the value of the same slot
    of the source (whatever the values are, any value type) ... *)
Theorem c05_copy_result_class : forall l, copy_shapes_ok l = true ->
  forall c m rc sh, In (c, m, rc, sh) l -> rc = result_class c m.
Proof. exact copy_result_class. Qed.

Theorem c05_copy_value_equal_exact : forall l, copy_shapes_ok l = true ->
  forall c m rc t, In (c, m, rc, CSlots t) l -> angle_family rc = false ->
  forall (V : Type) (norm : V -> V) (dflt : V) (src : string -> V) s, In s (slots_of rc) -> built V norm dflt t src s = src s.
Proof. exact copy_value_equal_exact. Qed.

(** ... and a new Angle/FrozenAngle built from a source that satisfies the range invariant (c05_angle_range_invariant)
    has in every slot a finite double with the same real value, again in [0, 360): the constructor's and the property
    setters' [% 360 % 360] is the identity there (c05_double360_id).  Composes (a) with (b): "a copy is equal to its
    source" for Angle.copy() / pickle needs the range invariant of the source. *)
Theorem c05_copy_value_equal_angles : forall l, copy_shapes_ok l = true ->
  forall c m rc t, In (c, m, rc, CSlots t) l -> angle_family rc = true ->
  forall src : string -> b64, (forall s, In s (slots_of rc) -> in_range (src s)) ->
  forall s, In s (slots_of rc) ->
    same64 (built b64 double360 (B754_zero false) t src s) (src s) /\ in_range (built b64 double360 (B754_zero false) t src s).
Proof. exact copy_value_equal_angles. Qed.

(** necessary: a copy() that swaps two slots fails the check and the built object differs *)
Theorem c05_copy_value_refuted :
  copy_shapes_ok [("Vec"%string, "copy"%string, "Vec"%string, CSlots swapped)] = false /\
  built nat (fun v => v) 0%nat swapped (fun s => if String.eqb s "_y" then 1%nat else if String.eqb s "_z" then 2%nat else 0%nat) "_y"%string = 2%nat.
Proof. exact copy_value_refuted. Qed.

(** Hash of frozen values (round 4).  [hash_kinds] = what hash(obj) is for each concrete class, read from the source.
    For every table that passes [hash_table_ok] (a FROZEN class is unhashable or its hash is a function of ALL of its slots
    and of nothing else - not of the object's identity; round 5: the property is silent about the hash of a value that
    can change, so rows of mutable classes are not constrained; "mutable classes unhashable, FrozenVec/FrozenAngle
    hashable" is the separate predicate [hash_conventions], an observation of the check and the premise of
    c05_hashable_is_frozen only): *)

(** equal frozen values hash equal, wherever the two objects live (a copy, a pickle, thaw().freeze() of a dictionary key finds it) *)
Theorem c05_hash_same_value : forall (V X H : Type) (get : V -> string -> X) (hf : list X -> H) (ident : nat -> H) rows,
  hash_table_ok rows = true -> forall c a b i j, frozen_class c = true -> same_value V X get c a b ->
  hash_of V X H get hf ident rows i (c, a) = hash_of V X H get hf ident rows j (c, b).
Proof. exact hash_same_value. Qed.

(** the hash ignores no component *)
Theorem c05_hash_reads_every_slot : forall rows, hash_table_ok rows = true ->
  forall c l, frozen_class c = true -> FrozenHash.lookup c rows = Some (HSlots l) -> forall s, In s (family_slots c) -> In s l.
Proof. exact hash_reads_every_slot. Qed.

(** only frozen classes are hashable - a convention of today's source ([hash_conventions]), not a clause of C05 *)
Theorem c05_hashable_is_frozen : forall (V X H : Type) (get : V -> string -> X) (hf : list X -> H) (ident : nat -> H) rows,
  hash_conventions rows = true -> forall c i v h, hash_of V X H get hf ident rows i (c, v) = Some h -> frozen_class c = true.
Proof. exact hashable_is_frozen. Qed.

(** composed with the frame theorem: the hash of a frozen object is the same after EVERY history of public calls *)
Theorem c05_frozen_hash_stable : forall (V X H : Type) (get : V -> string -> X) (hf : list X -> H) (ident : nat -> H) table carve rows,
  table_ok table carve = true ->
  forall h st i r, good_history V table carve h st ->
  nth_error st i = Some r -> frozen_class (fst r) = true ->
  exists r', nth_error (FrozenOps.run V table h st) i = Some r' /\
             hash_of V X H get hf ident rows i r' = hash_of V X H get hf ident rows i r.
Proof. exact frozen_hash_stable. Qed.

(** == (round 4).  [eq_shapes] = the per-slot comparisons of __eq__ on two objects of one family, read from the source.
    For every table that passes [eq_table_ok] (every slot of the family compared, each comparison accepting a difference of
    zero): two objects whose slots hold the same finite values (rationals) compare equal - with the copy theorems this
    is "a copy == its source" *)
Theorem c05_eq_same_value : forall rows, eq_table_ok rows = true ->
  forall fam l, In (fam, l) rows -> forall a b : string -> QArith_base.Q,
  (forall s, In s (family_slots fam) -> QArith_base.Qeq (a s) (b s)) -> eq_eval l a b = true.
Proof. exact eq_same_value. Qed.

Theorem c05_eq_reads_every_slot : forall rows, eq_table_ok rows = true ->
  forall fam l, In (fam, l) rows -> forall s, In s (family_slots fam) -> In s (map fst l).
Proof. exact eq_reads_every_slot. Qed.

(** a strict test against a tolerance of zero rejects even identical values (own mutation OM10) *)
Theorem c05_eq_strict_zero_refuted :
  let rows := [("AngleBase"%string, [("_pitch"%string, CTol true (QArith_base.Qmake 0 1)); ("_yaw"%string, CTol false (QArith_base.Qmake 1 1000000)); ("_roll"%string, CTol false (QArith_base.Qmake 1 1000000))])] in
  eq_table_ok rows = false /\ bad_eq_rows rows = ["AngleBase"%string] /\
  eq_eval (snd (hd (""%string, []) rows)) (fun _ => QArith_base.Qmake 90 1) (fun _ => QArith_base.Qmake 90 1) = false.
Proof. exact eq_strict_zero_refuted. Qed.

(** in-place operators: for every census [inplace_rows] that passes, no class of a frozen object (nor a base class
    of one) defines an __iOP__ method: `frozen op= y` can only rebind the name to the result of the binary operator *)
Theorem c05_inplace_never_on_frozen : forall rows, inplace_ok rows = true ->
  forall c m, In (c, m) rows -> frozen_reachable c = false /\ frozen_class c = false.
Proof. exact inplace_never_on_frozen. Qed.

(** an identity hash on a frozen class is rejected: equal values in two registers hash differently *)
Theorem c05_hash_identity_refuted :
  let rows := [("FrozenVec"%string, HIdentity)] in
  hash_table_ok rows = false /\ bad_hash_rows rows = ["FrozenVec"%string] /\
  hash_of nat nat nat (fun v _ => v) (fun l => 0%nat) (fun i => i) rows 0 ("FrozenVec"%string, 7%nat)
  <> hash_of nat nat nat (fun v _ => v) (fun l => 0%nat) (fun i => i) rows 1 ("FrozenVec"%string, 7%nat).
Proof. exact hash_identity_refuted. Qed.

(** ------------------------------------------------------------------ (c) text *)

(** Shape of the text for EVERY dyadic x and every pipeline read from the source that strips zeros at six
    places: sign?, digits without leading zero, optionally '.' and 1-6 digits not ending in 0, never "-0" -
    except on the carved-out inputs, which exist only while the '-0' repair is absent (known defect #3:
    negative x with |x|*1e6 rounding to 0). *)
Theorem c05_format6_shape : forall c x, cfg_base_ok c = true -> carved c x = false -> shape_ok (fmt_parts c x) = true.
Proof. exact format6_shape_gen. Qed.

(** with the repair nothing is carved out *)
Theorem c05_format6_shape_fixed : forall c x, cfg_ok c = true -> shape_ok (fmt_parts c x) = true.
Proof. exact format6_shape. Qed.

(** the rendered STRING is accepted by an independent recogniser of  -?[0-9]+(\.[0-9]{1,6})?  minus "-0" *)
Theorem c05_render_plain : forall p, shape_ok p = true -> plain_decimal (render p) = true.
Proof. exact render_plain. Qed.

Theorem c05_format6_plain : forall c x, cfg_base_ok c = true -> carved c x = false -> plain_decimal (format6 c x) = true.
Proof. exact format6_plain_gen. Qed.

(** the carved-out class is exactly the "-0" output *)
Theorem c05_carved_prints_negative_zero : forall c x, cfg_base_ok c = true -> carved c x = true ->
  format6 c x = [45; 48]%N.
Proof. exact carved_prints_negative_zero. Qed.

(** The carve-out is EXACT: the text is "-0" if and only if the input is carved out ... *)
Theorem c05_negative_zero_iff_carved : forall c x, cfg_base_ok c = true -> (format6 c x = [45; 48]%N <-> carved c x = true).
Proof. exact negative_zero_iff_carved. Qed.

(** ... which means: no '-0' repair, a sign is printed, and |x|·10^6 <= 1/2 (num/den = |x|·10^6 exactly) *)
Theorem c05_carved_iff : forall c x, carved c x = true <->
  neg_zero_fix c = false /\ sign_flag c x = true /\ (2 * fst (num_den x) <= snd (num_den x))%N.
Proof. exact carved_iff. Qed.

(** for the pinned pipeline (x+0.0, no repair): exactly the non-zero negative values with |x| <= 5e-7 *)
Theorem c05_carved_pinned_iff : forall x, carved cfg_pinned x = true <->
  dneg x = true /\ dm x <> 0%N /\ (2 * fst (num_den x) <= snd (num_den x))%N.
Proof. exact carved_pinned_iff. Qed.

(** an exact zero of either sign prints as "0" when the pipeline formats x+0.0 or repairs '-0' (obligation
    format_float_exact_zero_has_no_sign); without either, -0.0 prints as "-0" *)
Theorem c05_exact_zero_prints_zero : forall c x, cfg_base_ok c = true -> zero_sign_ok c = true -> dm x = 0%N -> format6 c x = [48]%N.
Proof. exact exact_zero_prints_zero. Qed.

Theorem c05_exact_zero_refuted :
  format6 {| adds_zero := false; places := 6; strips := true; neg_zero_fix := false |} {| dneg := true; dm := 0; de := 0%Z |} = [45; 48]%N.
Proof. exact exact_zero_refuted. Qed.

Theorem c05_format6_value : forall c x, scaled_value (fmt_parts c x) = scaled6 x.
Proof. exact format6_value. Qed.

(** |text·10^6 − |x|·10^6| ≤ 1/2, i.e. the text is within 5e-7 of x  (num/den = |x|·10^6 exactly) *)
Theorem c05_format6_error : forall x,
  (0 < Z.of_N (snd (num_den x)))%Z /\
  (2 * Z.abs (Z.of_N (scaled6 x) * Z.of_N (snd (num_den x)) - Z.of_N (fst (num_den x))) <= Z.of_N (snd (num_den x)))%Z.
Proof. exact scaled6_error. Qed.

Theorem c05_format6_sign : forall c x, pneg (fmt_parts c x) = true -> dneg x = true.
Proof. exact format6_sign. Qed.

Theorem c05_format6_shape_refuted :
  format6 cfg_pinned {| dneg := true; dm := 1; de := (-30)%Z |} = [45; 48]%N /\
  shape_ok (fmt_parts cfg_pinned {| dneg := true; dm := 1; de := (-30)%Z |}) = false.
Proof. exact format6_shape_refuted. Qed.

(** ------------------------------------------------------------------ (c) text: __format__ with a user spec (round 4) *)

(** What Vec.__format__ / Angle.__format__ do to the text Python's format(component, spec) produced, for every
    configuration read from the source that passes [spec_cfg_ok]: a fixed-point text  pre ++ "." ++ frac  ([pre] = sign,
    padding, integer ss_digits, separators: anything without '.', 'e', 'E'; [frac] ss_digits) loses the trailing zeros of the
    fraction, and the dot when nothing is left - and nothing else. *)
Theorem c05_spec_post_fixed : forall k pre frac,
  spec_cfg_ok k = true -> spec_neg_zero_fix k = false ->
  ss_has 46 pre = false -> ss_has 101 pre = false -> ss_has 69 pre = false -> ss_digits frac = true ->
  exists (frac' : list N) n, frac = (frac' ++ repeat 48%N n)%list /\ (forall p x, frac' = (p ++ [x])%list -> x <> 48%N) /\
    spec_post k (pre ++ 46%N :: frac)%list = (pre ++ (match frac' with [] => [] | _ => 46%N :: frac' end))%list.
Proof. exact spec_post_fixed. Qed.

(** a text with an exponent is handed on unchanged (its trailing zeros belong to the exponent) *)
Theorem c05_spec_post_exponent : forall k s,
  guard_no_exp k = true -> dot_outside k = false \/ (forall p, s <> (p ++ [46%N])%list) ->
  ss_has 101 s = true \/ ss_has 69 s = true -> spec_post k s = s.
Proof. exact spec_post_exponent. Qed.

(** a text without a dot is handed on unchanged *)
Theorem c05_spec_post_no_dot : forall k s,
  guard_dot k = true -> spec_neg_zero_fix k = false -> ss_has 46 s = false -> spec_post k s = s.
Proof. exact spec_post_no_dot. Qed.

(** the pinned tree before repair ab396c8 (no exponent ss_guard): "1.5e+20" -> "1.5e+2", "0.0e+00" -> "0.0e+" *)
Theorem c05_spec_post_unguarded_refuted :
  spec_cfg_ok cfg_unguarded = false /\
  spec_post cfg_unguarded [49; 46; 53; 101; 43; 50; 48]%N = [49; 46; 53; 101; 43; 50]%N /\
  spec_post cfg_unguarded [48; 46; 48; 101; 43; 48; 48]%N = [48; 46; 48; 101; 43]%N /\
  spec_post cfg_guarded [49; 46; 53; 101; 43; 50; 48]%N = [49; 46; 53; 101; 43; 50; 48]%N.
Proof. exact spec_post_unguarded_refuted. Qed.

(** ------------------------------------------------------------------ (c) text: reading back *)

(** every number written by format_float (any pipeline, any dyadic, the carved-out "-0" included) is decoded by the
    plain-decimal reader to an exact decimal within 5e-7 of the number *)
Theorem c05_parse_format6 : forall c x, exists d, parse_decimal (format6 c x) = Some d /\ within_5e7 d x.
Proof. exact parse_format6. Qed.

(** parse_vec_str (as read from the source, [pcfg_ok]) applied to three formatted numbers separated by non-empty
    whitespace, optionally wrapped in one opening and/or one closing bracket of the source's sets, with arbitrary
    whitespace outside and inside the brackets: three fields, each decoded within 5e-7 of its component *)
Theorem c05_parse_format_vec : forall pc c x y z ws1 ob wa s1 s2 wb cb ws2,
  pcfg_ok pc = true ->
  all_space ws1 -> all_space wa -> all_space wb -> all_space ws2 ->
  all_space s1 -> s1 <> [] -> all_space s2 -> s2 <> [] ->
  opt_bracket (opens pc) ob -> opt_bracket (closes pc) cb ->
  exists dx dy dz,
    parse_vec pc (ws1 ++ ob ++ wa ++ format6 c x ++ s1 ++ format6 c y ++ s2 ++ format6 c z ++ wb ++ cb ++ ws2)
      = PFields (Some dx) (Some dy) (Some dz) /\
    within_5e7 dx x /\ within_5e7 dy y /\ within_5e7 dz z.
Proof. exact parse_format_vec. Qed.

(** str(vec) / str(angle) itself *)
Theorem c05_parse_str_vec : forall pc c x y z, pcfg_ok pc = true ->
  exists dx dy dz, parse_vec pc (vec_text c x y z) = PFields (Some dx) (Some dy) (Some dz) /\
    within_5e7 dx x /\ within_5e7 dy y /\ within_5e7 dz z.
Proof. exact parse_str_vec. Qed.

(** the documented forms "(x y z)", "{x y z}", "[x y z]", "<x y z>" (mixed pairs too) *)
Theorem c05_parse_bracketed_vec : forall pc c x y z o cl, pcfg_ok pc = true -> accepts_documented_brackets pc = true ->
  In o [40; 123; 91; 60]%N -> In cl [41; 125; 93; 62]%N ->
  exists dx dy dz, parse_vec pc ([o] ++ vec_text c x y z ++ [cl]) = PFields (Some dx) (Some dy) (Some dz) /\
    within_5e7 dx x /\ within_5e7 dy y /\ within_5e7 dz z.
Proof. exact parse_bracketed_vec. Qed.

(** without strip() the bracket after a leading space is not removed and the first field is lost *)
Theorem c05_parse_nostrip_refuted :
  parse_vec {| strips_ws := false; opens := [40]%N; closes := [41]%N; splits_ws := true; uses_float := true |} [32; 40; 49; 32; 50; 32; 51; 41]%N
  = PFields None (Some (false, 2%N, O)) (Some (false, 3%N, O)).
Proof. exact parse_nostrip_refuted. Qed.

(** ------------------------------------------------------------------ (a)+(c) normalisation of a value already in range *)

(** Python's [x % 360.0 % 360.0] leaves every finite x with 0 <= x < 360 unchanged (as a real number): the
    constructor normalisation in Angle.from_str / Angle(...) / FrozenAngle(...) does not move a component that was
    read back from text, and storing twice equals storing once. *)
Theorem c05_double360_id : forall x : b64, is_finite x = true -> (0 <= B2R x < 360)%R ->
  B2R (double360 x) = B2R x /\ is_finite (double360 x) = true.
Proof. exact double360_id. Qed.

Theorem c05_double360_idempotent : forall x : b64, is_finite x = true ->
  B2R (double360 (double360 x)) = B2R (double360 x).
Proof. exact double360_idempotent. Qed.

(** exactly 360.0 — what a component such as 359.9999997 prints as ("360") and re-reads to — is stored as 0.0:
    the 5e-7 of the property is measured on the circle for angles *)
Theorem c05_double360_of_360 : show (double360 f360) = (0, 0, 0)%Z.
Proof. exact double360_of_360. Qed.

(** ------------------------------------------------------------------ (c) float(): the binary rounding of the field *)

(** [within_5e7] is the statement |decimal − x| <= 5e-7 over the reals *)
Theorem c05_within_5e7_R : forall d x, within_5e7 d x -> (Rabs (dec_R d - dy_R x) <= 5 / 10000000)%R.
Proof. exact within_5e7_R. Qed.

(** float() modelled as correctly rounded ([py_float] = round-to-nearest-even to binary64 of the exact decimal):
    the double read back is within 5e-7 + half an ulp of x *)
Theorem c05_float_parse_error : forall d x, within_5e7 d x ->
  (Rabs (py_float d - dy_R x) <= 5 / 10000000 + / 2 * ulp radix2 (FLT_exp (-1074) 53) (dec_R d))%R.
Proof. exact float_parse_error. Qed.

(** and exact when the text denotes x itself *)
Theorem c05_float_parse_exact : forall d x, dec_R d = dy_R x ->
  generic_format radix2 (FLT_exp (-1074) 53) (dy_R x) -> py_float d = dy_R x.
Proof. exact float_parse_exact. Qed.

(** ------------------------------------------------------------------ (a)+(c) composed: str(angle) -> from_str *)

(** Python's [% 360.0] on a finite value in [360, 720) is the exact subtraction of 360 (no rounding, no sign repair):
    what happens to a component that was printed as "360" / "360.000000" and read back *)
Theorem c05_double360_sub : forall x : b64, is_finite x = true -> (360 <= B2R x < 720)%R ->
  B2R (double360 x) = (B2R x - 360)%R /\ is_finite (double360 x) = true.
Proof. exact double360_sub. Qed.

(** ONE COMPONENT through the whole chain.  [x] is a slot that satisfies the range invariant (c05_angle_range_invariant);
    [d] the decimal that the reader decodes from format_float's text of it; [f] the double float() returns for [d]
    (correctly rounded, [py_float]).  Then the slot the constructor stores, [f % 360.0 % 360.0], is again in [0, 360)
    and is within 5e-7 + ulp/2 of [x] either directly or after the wrap-around 360 -> 0 (distance on the circle). *)
Theorem c05_angle_component_roundtrip : forall c (x f : b64) d,
  in_range x -> parse_decimal (format6 c (dy_of x)) = Some d ->
  is_finite f = true -> B2R f = py_float d ->
  in_range (double360 f) /\
  (Rabs (B2R (double360 f) - B2R x) <= 5 / 10000000 + / 2 * ulp radix2 (FLT_exp (-1074) 53) (dec_R d) \/
   Rabs (B2R (double360 f) + 360 - B2R x) <= 5 / 10000000 + / 2 * ulp radix2 (FLT_exp (-1074) 53) (dec_R d))%R.
Proof. exact angle_component_roundtrip. Qed.

(** THE WHOLE ANGLE: Angle.from_str / FrozenAngle.from_str applied to the text of an angle whose slots are in range, in
    any bracket style of the source's sets with any whitespace: parse_vec_str (pipeline read from the source) returns
    three decimal fields, and for whatever finite doubles float() returns for them (correctly rounded) each stored slot
    is in [0, 360) and within 5e-7 + ulp/2 of the printed slot modulo 360.  Composes c05_angle_range_invariant (premise),
    c05_parse_format_vec, c05_float_parse_error, c05_double360_id and c05_double360_sub. *)
Theorem c05_angle_text_roundtrip : forall pc c (p y r : b64) ws1 ob wa s1 s2 wb cb ws2,
  pcfg_ok pc = true ->
  all_space ws1 -> all_space wa -> all_space wb -> all_space ws2 ->
  all_space s1 -> s1 <> [] -> all_space s2 -> s2 <> [] ->
  opt_bracket (opens pc) ob -> opt_bracket (closes pc) cb ->
  in_range p -> in_range y -> in_range r ->
  exists d1 d2 d3,
    parse_vec pc (ws1 ++ ob ++ wa ++ format6 c (dy_of p) ++ s1 ++ format6 c (dy_of y) ++ s2 ++ format6 c (dy_of r) ++ wb ++ cb ++ ws2)
      = PFields (Some d1) (Some d2) (Some d3) /\
    forall d x, In (d, x) [(d1, p); (d2, y); (d3, r)] ->
    forall f : b64, is_finite f = true -> B2R f = py_float d ->
      in_range (double360 f) /\
      (Rabs (B2R (double360 f) - B2R x) <= 5 / 10000000 + / 2 * ulp radix2 (FLT_exp (-1074) 53) (dec_R d) \/
       Rabs (B2R (double360 f) + 360 - B2R x) <= 5 / 10000000 + / 2 * ulp radix2 (FLT_exp (-1074) 53) (dec_R d))%R.
Proof. exact angle_text_roundtrip. Qed.

(** the dyadic given to format6 and the binary64 given to double360 are the same reading of a Python float (the
    (sign, mantissa, exponent) triple of the bit-exact correspondences) *)
Theorem c05_dy_of_show : forall x : b64, is_finite x = true ->
  show x = ((if dneg (dy_of x) then 1 else 0)%Z, Z.of_N (dm (dy_of x)), de (dy_of x)).
Proof. exact dy_of_show. Qed.

(** THE WHOLE VECTOR: Vec.from_str / FrozenVec.from_str applied to the text of a vector with finite components (the
    carved-out "-0" included), any bracket style: three decimal fields, and the double float() returns for each
    (correctly rounded) is within 5e-7 + ulp/2 of the component that was printed.  The constructor stores float(x)
    unchanged, so this is the value of the new vector. *)
Theorem c05_vec_text_roundtrip : forall pc c (x y z : b64) ws1 ob wa s1 s2 wb cb ws2,
  pcfg_ok pc = true ->
  all_space ws1 -> all_space wa -> all_space wb -> all_space ws2 ->
  all_space s1 -> s1 <> [] -> all_space s2 -> s2 <> [] ->
  opt_bracket (opens pc) ob -> opt_bracket (closes pc) cb ->
  is_finite x = true -> is_finite y = true -> is_finite z = true ->
  exists d1 d2 d3,
    parse_vec pc (ws1 ++ ob ++ wa ++ format6 c (dy_of x) ++ s1 ++ format6 c (dy_of y) ++ s2 ++ format6 c (dy_of z) ++ wb ++ cb ++ ws2)
      = PFields (Some d1) (Some d2) (Some d3) /\
    forall d v, In (d, v) [(d1, x); (d2, y); (d3, z)] ->
      (Rabs (py_float d - B2R v) <= 5 / 10000000 + / 2 * ulp radix2 (FLT_exp (-1074) 53) (dec_R d))%R.
Proof. exact vec_text_roundtrip. Qed.

(** ------------------------------------------------------------------ THE WHOLE PROPERTY (round 4) *)

(** One statement over everything the translator reads from math.py ([c05_source]: store sites, creations, constructor
    dispatch, mutation census, result kinds, copy shapes, hash kinds, in-place methods, the == table, the census of state kept
    between calls, the format_float / parse_vec_str / __format__ pipelines).  If the boolean checks [c05_source_ok] hold - the check evaluates them on today's generated
    objects on every run (obligation whole_property_hypotheses_hold, and each conjunct under its own name) - then:
    angle slots stay in [0, 360) along every history of stores and out of every constructor form; frozen objects and
    non-receivers never change and the hash of a frozen object is stable and equal for equal values (histories carry no state
    but the objects: the census of module- and class-level state written by functions is empty); identical values compare ==; a copy has the
    promised class and the value of its source; the text of a component is a plain decimal ("-0" exactly on the
    carved-out class), str -> from_str returns to within 5e-7 + ulp/2 (on the circle for angles, in range again), and
    format(obj, spec) only drops trailing zeros of a fixed-point fraction.  Remaining assumptions are visible in the
    clauses: finite operands ([finite_inputs], [supplied_ok]), float() correctly rounded ([py_float]), public calls only
    ([good_history]). *)
Theorem c05_property : forall s, c05_source_ok s = true ->
  whole_range s /\ whole_ctor s /\ whole_no_hidden_state s /\ whole_frozen s /\ whole_independent s /\ whole_hash s /\ whole_eq s /\ whole_copy_value s /\
  whole_text_shape s /\ whole_angle_roundtrip s /\ whole_vec_roundtrip s /\ whole_format_spec s.
Proof. exact c05_whole. Qed.
