(** C07 — the VMF class/name indexes always agree with the entities in the map.
    Only statements here; the model is SM/IndexModel.v (the repaired maintenance code of vmf.py), the proofs are in
    SM/IndexProofs.v.  Everything is stated for an arbitrary case-folding function [fold] that leaves '' and the
    three literals 'classname', 'targetname', 'worldspawn' unchanged ([str.casefold] does; so does [ascii_fold],
    which shows the hypotheses are satisfiable). *)
From stdpp Require Import gmap sets list.
From Coq Require Import NArith.
From SV Require Import SM.IndexModel SM.IndexProofs SM.IndexSearchProofs SM.IndexShapes SM.IndexShapeProofs
  SM.IndexUniqueProofs SM.IndexCopySetProofs SM.IndexMaint SM.IndexMaintProofs SM.IndexEquivProofs
  SM.IndexRemove SM.IndexRemoveProofs SM.IndexDel SM.IndexDelProofs SM.IndexListOps SM.IndexListOpsProofs SM.IndexClear SM.IndexClearProofs
  SM.IndexGlue SM.IndexGlueProofs SM.IndexProperty SM.IndexFold SM.IndexSearchCount.
From Coq Require Strings.String.
Notation string := String.string (only parsing).

Section C07.
  Variable fold : str → str.
  Hypothesis fold_nil : fold [] = [].
  Hypothesis fold_cn : fold cn = cn.
  Hypothesis fold_tn : fold tn = tn.
  Hypothesis fold_ws : fold ws = ws.

  (** [Inv st] (SM/IndexProofs.v) says: for every key [k] and entity [e],
      [e ∈ by_class[k]] iff [e] is in the entity list or is the worldspawn, and its current classname folds to [k];
      the same for [by_target] with ['' ↦ None]; the worldspawn's class is 'worldspawn' and it is not in the
      entity list; no key list holds two spellings of one key; no object beyond the allocation counter is present. *)

  (** A freshly constructed VMF satisfies the invariant ... *)
  Theorem c07_index_inv_init : Inv fold init.
  Proof. apply init_inv; assumption. Qed.

  (** ... so does the result of VMF.parse for every world block and every list of entity blocks ... *)
  Theorem c07_index_inv_parse : ∀ spawn_keys ent_keys, Inv fold (parse_init fold spawn_keys ent_keys).
  Proof. apply parse_init_inv; assumption. Qed.

  (** ... every single operation preserves it (whatever its arguments, whether it raises or not) ... *)
  Theorem c07_index_inv_step : ∀ o st, Inv fold st → Inv fold (step fold o st).1.
  Proof. apply step_inv; assumption. Qed.

  (** ... hence it holds after EVERY finite sequence of operations on one map ... *)
  Theorem c07_index_inv_reachable : ∀ ops, Inv fold (run fold ops init).
  Proof. intros ops. apply run_inv; try assumption. apply c07_index_inv_init. Qed.

  (** ... and for every history over any number of maps with entities copied between them and maps parsed. *)
  Theorem c07_index_inv_worlds : ∀ ops, Forall (Inv fold) (wrun fold ops []).
  Proof. intros ops. apply wrun_inv; try assumption. constructor. Qed.

  (** What a reader of the indexes gets in a state satisfying the invariant: exactly the scan. *)
  Theorem c07_by_class_is_scan : ∀ st k e, Inv fold st →
    e ∈ ix_get (by_class st) k ↔ present st e ∧ cls_of fold st e = k.
  Proof. exact (inv_by_class fold). Qed.
  Theorem c07_by_target_is_scan : ∀ st k e, Inv fold st →
    e ∈ ix_get (by_target st) k ↔ present st e ∧ tgt_of fold st e = k.
  Proof. exact (inv_by_target fold). Qed.

  (** VMF.search(name) returns exactly the entities in the map whose current targetname (exact or [prefix*] form)
      or current classname matches case-insensitively ([search_spec], SM/IndexSearchProofs.v); unnamed entities
      are never found by name and the empty query finds nothing. Needs folding to be idempotent. *)
  Theorem c07_search_sound_complete : (∀ s, fold (fold s) = fold s) → ∀ name st e, Inv fold st →
    e ∈ search fold name st ↔ search_spec fold name st e.
  Proof. intros Hidem name st e. by apply search_sound_complete. Qed.

  (** The worldspawn entity always has class 'worldspawn' and is always listed under it. *)
  Theorem c07_worldspawn_pinned : ∀ ops m st, wrun fold ops [] !! m = Some st →
    cls_of fold st (spawn st) = ws ∧ spawn st ∈ ix_get (by_class st) ws.
  Proof.
    intros ops m st Hm. apply (inv_worldspawn fold).
    exact (Forall_lookup_1 _ _ _ _ (c07_index_inv_worlds ops) Hm).
  Qed.

  (** *** The code as written (shapes read off vmf.py by translate/c07_index_shapes.py on every run).
      Entity.__setitem__: whatever spelling the caller uses, a lookup loop that passes the five shape obligations
      (previous value fetched with the *stored* spelling before the store, ...) is the model's [set_item] — for
      all arguments and states — and therefore preserves the invariant. *)
  Theorem c07_setitem_as_written : ∀ sh e key v st, setitem_shape_ok sh = true →
    set_item_sh fold sh e key v st = set_item fold e key v st ∧ (Inv fold st → Inv fold (set_item_sh fold sh e key v st).1).
  Proof.
    intros sh e key v st Hok. rewrite (set_item_sh_ok fold sh e key v st Hok). split; [done|].
    by apply set_item_inv.
  Qed.

  (** Entity.__setitem__ as written, whole function (round 3): the lookup loop of shape [sh] followed by the
      maintenance program [p] read off the source (the `if key_fold == 'classname' ... elif ...` chain with the
      worldspawn guard; `self['classname'] = 'worldspawn'` on its error path is a recursive call of the same
      function, modelled with an explicit depth).  When every path through [p] executes the actions the four named
      obligations ask for, the function is the model's [set_item] for all arguments and states — in particular the
      rejected re-class of the worldspawn leaves it listed under 'worldspawn' — and keeps the invariant. *)
  Theorem c07_setitem_maintenance_as_written : ∀ sh p d e key v st,
    setitem_shape_ok sh = true → maint_ok p = true →
    set_item_pg fold sh p (S (S d)) e key v st = set_item fold e key v st ∧
    (Inv fold st → Inv fold (set_item_pg fold sh p (S (S d)) e key v st).1).
  Proof.
    intros sh p d e key v st Hsh Hp. rewrite (set_item_pg_ok fold fold_cn fold_ws sh p d e key v st Hsh Hp).
    split; [done|]. by apply set_item_inv.
  Qed.

  (** VMF.add_ents as written (round 3): a program over an argument that may be a one-shot iterable.  When every
      entity is listed once and indexed once in both indexes — whether or not the argument can be iterated a
      second time — the function is the model's [add_ents] for every argument, and keeps the invariant. *)
  Theorem c07_add_ents_as_written : ∀ p es oneshot st, ae_ok p = true →
    ae_run fold p es oneshot st = add_ents fold es st ∧ (Inv fold st → Inv fold (ae_run fold p es oneshot st)).
  Proof.
    intros p es oneshot st Hp. rewrite (ae_run_ok fold p es oneshot st Hp). split; [done|]. by apply add_ents_inv.
  Qed.

  (** Entity.__delitem__ with a single key, as written (round 3): the statements before the lookup loop as a
      maintenance program [p] (the by_target update of the targetname branch, whose removal key is the entity's
      current targetname, and the refusal to delete the classname, in either order) and the loop that pops the stored
      key as a shape [dl], both read off the source.  When every path through [p] executes what the three named
      obligations ask for and the loop is case-insensitive and pops the stored spelling, the function is the model's
      [del_item] for all arguments and states, and keeps the invariant.  ([del self[k1, k2, ...]], pop, popitem and
      clear go through this function: [del_items], [pop_item], [pop_first], [clear] of the model.) *)
  Theorem c07_delitem_as_written : ∀ p dl e key st,
    del_maint_ok p = true → del_loop_ok dl = true →
    del_item_pg fold p dl e key st = del_item fold e key st ∧
    (Inv fold st → Inv fold (del_item_pg fold p dl e key st).1).
  Proof.
    intros p dl e key st Hp Hdl. rewrite (del_item_pg_ok fold p dl e key st Hp Hdl). split; [done|].
    by apply del_item_inv.
  Qed.

  (** Entity.clear as written (round 3): a straight-line list of steps read off the source.  When the classname is reset
      through __setitem__ and the targetname deleted through __delitem__ before the key dict is emptied directly, and
      the classname is stored back afterwards, the function is the model's [clear] for every entity and state (the
      only assumption: 'nodeid'.casefold() is neither 'classname' nor 'targetname'), and keeps the invariant. *)
  Theorem c07_clear_as_written : fold nodeid ≠ cn ∧ fold nodeid ≠ tn → ∀ l e st, clear_ok l = true →
    clear_pg fold l e st = clear fold e st ∧ (Inv fold st → Inv fold (clear_pg fold l e st).1).
  Proof.
    intros Hn l e st Hl. rewrite (clear_pg_ok fold Hn l e st Hl). split; [done|]. by apply clear_inv.
  Qed.

  (** VMF.remove_ent and VMF.add_ent as written (round 3): little programs over the entity list and the two indexes
      whose conditions are evaluated where they stand (the membership test of remove_ent after the list removal).
      A remove_ent program that passes its three path obligations — the worldspawn stays indexed, an entity that is
      still listed (it was added more than once) stays indexed, any other entity leaves the list and both indexes —
      is the model's [remove_ent]; an add_ent program that appends the item and adds it to each index exactly once
      is the model's [add_ent] (for an entity object of this map that is not the worldspawn: the modelled domain).
      Both keep the invariant. *)
  Theorem c07_remove_ent_as_written : ∀ p e st, remove_ok p = true →
    v_run fold p e st = remove_ent fold e st ∧ (Inv fold st → Inv fold (v_run fold p e st)).
  Proof.
    intros p e st Hp. rewrite (remove_ent_pg_ok fold p e st Hp). split; [done|]. by apply remove_ent_inv.
  Qed.
  Theorem c07_add_ent_as_written : ∀ p e st, add_ok p = true → e ≠ spawn st → e < nobj st →
    v_run fold p e st = add_ent fold e st ∧ (Inv fold st → Inv fold (v_run fold p e st)).
  Proof.
    intros p e st Hp Hs Hn. rewrite (add_ent_pg_ok fold p e st Hp Hs Hn). split; [done|]. by apply add_ent_inv.
  Qed.

  (** VMF.search as written: any program for the two branches that passes the shape obligations — over the real
      defaultdict semantics, where reading a missing key inserts an empty set and `name in index` sees such keys —
      returns exactly [search_spec], and the state it leaves cannot be told from the one before by any reader. *)
  Theorem c07_search_as_written : (∀ s, fold (fold s) = fold s) → ∀ sh name st, search_shape_ok sh = true → Inv fold st →
    (∀ e, e ∈ (search_sh fold sh name st).1 ↔ search_spec fold name st e) ∧
    ix_equiv st (search_sh fold sh name st).2 ∧ Inv fold (search_sh fold sh name st).2.
  Proof. intros Hidem sh name st. by apply search_sh_sound_complete. Qed.

  (** *** Entity.make_unique terminates: with [n] keys in by_target, one of the [n+1] candidates base1 .. base(n+1)
      is unused (they stay pairwise distinct after case folding), so the `while True` loop ends within the fuel
      the model gives it; the name chosen is the first unused candidate; make_unique never raises.
      Folding is abstract: it distributes over an appended decimal number and leaves the digits alone. *)
  Section unique.
    Hypothesis fold_app_dec : ∀ b i, fold (b ++ dec i) = fold b ++ dec i.
    Theorem c07_make_unique_loop_total : ∀ (bt : gmap (option str) (gset nat)) base i,
      is_Some (free_name fold (S (size bt)) i base bt).
    Proof. exact (free_name_total fold fold_app_dec). Qed.
    Theorem c07_make_unique_first_unused : ∀ fuel i base bt name, free_name fold fuel i base bt = Some name →
      ∃ j, (j < fuel)%nat ∧ name = base ++ dec (i + N.of_nat j) ∧ ix_get bt (cand fold base i j) = ∅ ∧
           ∀ j', (j' < j)%nat → ix_get bt (cand fold base i j') ≠ ∅.
    Proof. exact (free_name_some fold). Qed.
    Theorem c07_make_unique_terminates : ∀ e p st, (make_unique fold e p st).2 = 0.
    Proof. exact (make_unique_terminates fold fold_app_dec fold_tn). Qed.

    (** Every operation respects [ix_equiv] (round 3): two states that differ only in empty sets held by the index
        maps — what defaultdict reads, iteration and make_unique's own lookups leave behind in the implementation
        and the model does not track — give equivalent states and the same error code, step after step.  (For
        make_unique the fuel of the model's loop differs between the two states; the name found does not.) *)
    Theorem c07_step_respects_ix_equiv : ∀ o st st', ix_equiv st st' →
      ix_equiv (step fold o st).1 (step fold o st').1 ∧ (step fold o st).2 = (step fold o st').2.
    Proof. exact (step_resp fold fold_app_dec). Qed.
    Theorem c07_run_respects_ix_equiv : ∀ ops st st', ix_equiv st st' →
      ix_equiv (run fold ops st) (run fold ops st') ∧ (Inv fold st → Inv fold (run fold ops st')).
    Proof.
      intros ops st st' H. pose proof (run_resp fold fold_app_dec ops st st' H) as H'. split; [done|].
      intros HI. eapply ix_equiv_inv; [|exact H']. by apply run_inv.
    Qed.
  End unique.

  (** *** Iterating an index while mutating it (CopySet.__iter__, shape read off the source): a generator that
      never iterates the live set cannot raise, for every loop body; when the body applies arbitrary operations
      to the yielded entity (re-class, rename, remove, add, ...) every map still satisfies the invariant. *)
  Theorem c07_copyset_iteration_keeps_inv : ∀ (get : list mstate → gset nat) (f : nat → list wop)
      (order : gset nat → list nat) p w,
    iprog_never_live p = true → Forall (Inv fold) w →
    let out := irun get (λ x w, wrun fold (f x) w) order p ∅ [] w in
    io_raised out = false ∧ Forall (Inv fold) (io_state out).
  Proof. apply copyset_iteration_keeps_inv; assumption. Qed.
  (** *** Round 4: the glue around those functions, as written (statement lists / shapes read off vmf.py by
      translate/c07_index_glue.py on every run).
      VMF.__init__: when the two indexes and the entity list are created before the worldspawn, and the worldspawn is a
      new entity without keys that becomes [spawn], is classed 'worldspawn' through __setitem__ and filed under no
      name, the constructor yields exactly the model's [init]. *)
  Theorem c07_vmf_init_as_written : ∀ l env, vmf_init_ok l = true →
    g_run fold l env blank = init ∧ Inv fold (g_run fold l env blank).
  Proof. intros l env H. rewrite (vmf_init_pg_ok fold fold_nil fold_cn fold_ws l env H). split; [done|]. by apply init_inv. Qed.

  (** VMF.parse: constructor, worldspawn replacement (the parsed world block becomes an entity; the placeholder leaves
      both indexes before [spawn] is re-assigned; the new spawn is classed through __setitem__ and filed under its
      current name) and the entity loop (every block is parsed into an entity and added through add_ent) are the
      model's [parse_init] for every world block and every list of entity blocks. *)
  Theorem c07_parse_as_written : ∀ pi ps pe sk ek,
    vmf_init_ok pi = true → parse_spawn_ok ps = true → parse_ent_ok pe = true →
    parse_pg fold pi ps pe sk ek = parse_init fold sk ek ∧ Inv fold (parse_pg fold pi ps pe sk ek).
  Proof.
    intros pi ps pe sk ek H1 H2 H3. rewrite (parse_pg_ok fold fold_nil fold_cn fold_ws pi ps pe sk ek H1 H2 H3).
    split; [done|]. by apply parse_init_inv.
  Qed.

  (** VMF.create_ent (the keyword arguments cannot contain 'classname' itself: Python rejects such a call),
      Entity.__init__ (a new empty key dict, self.map assigned first, the keys stored one by one through
      __setitem__), Entity.pop (case-insensitive lookup loop, the deletion goes through __delitem__; needs folding
      to be idempotent when the folded key is deleted instead of the stored one). *)
  Theorem c07_create_ent_as_written : ∀ l keys c st, create_ent_ok l = true → dget cn keys = None →
    g_run fold l (GE keys c) st = create_ent fold c keys st ∧ (Inv fold st → Inv fold (g_run fold l (GE keys c) st)).
  Proof. intros l keys c st H Hk. rewrite (create_ent_pg_ok fold l keys c st H Hk). split; [done|]. by apply create_ent_inv. Qed.
  Theorem c07_entity_init_as_written : ∀ sh l st, einit_ok sh = true →
    new_ent_sh fold sh l st = new_ent fold l st ∧ (Inv fold st → Inv fold (new_ent_sh fold sh l st)).
  Proof. intros sh l st H. rewrite (new_ent_sh_ok fold sh l st H). split; [done|]. by apply new_ent_inv. Qed.
  Theorem c07_pop_as_written : (∀ s, fold (fold s) = fold s) → ∀ sh e key st, pop_ok sh = true →
    pop_item_sh fold sh e key st = pop_item fold e key st ∧ (Inv fold st → Inv fold (pop_item_sh fold sh e key st).1).
  Proof. intros Hi sh e key st H. rewrite (pop_item_sh_ok fold sh e key st Hi H). split; [done|]. by apply pop_item_inv. Qed.

  (** Entity.make_unique as written: the uniqueness test, the clearing of the own name, the base name and the
      candidate loop look names up folded, count from 1 in steps of 1, and store through __setitem__: then the function
      is the model's [make_unique] (whose loop is shown to terminate above). *)
  Theorem c07_make_unique_as_written : ∀ sh e p st, mu_ok sh = true →
    make_unique_sh fold sh e p st = make_unique fold e p st ∧ (Inv fold st → Inv fold (make_unique_sh fold sh e p st).1).
  Proof. intros sh e p st H. rewrite (make_unique_sh_ok fold sh e p st H). split; [done|]. by apply make_unique_inv. Qed.

  (** *** THE PROPERTY over the code as written (round 4).  [P] collects every object the translators read off vmf.py
      and [programs_ok P] all their named obligations; [census] is the list of all functions of the package that write
      by_class / by_target, a VMF.entities list, VMF.spawn or an Entity._keys dict (translate/c07_index_sites.py), and
      [census_covered] says each of them is one of the functions below.  Then
      (a) every function of the census, as written, is the corresponding operation of the model on its whole modelled
          domain and preserves the invariant;
      (b) after every history of public operations as written ([step_w]: create/add/remove, []=, del, pop, popitem,
          setdefault, update, clear, make_unique, export, defaultdict reads) on a map constructed as written, the
          invariant holds, looking an entity up by class or by name returns exactly the scan of the entities in the
          map, search() as written returns exactly [search_spec], and the worldspawn is listed under 'worldspawn'. *)
  Theorem c07_property :
    (∀ s, fold (fold s) = fold s) → (∀ b i, fold (b ++ dec i) = fold b ++ dec i) → fold nodeid ≠ cn ∧ fold nodeid ≠ tn →
    ∀ (census : list string) (P : programs), census_covered census = true → programs_ok P = true →
    (∀ s, s ∈ census → ∃ f, fname_of s = Some f ∧
       ∀ a st, fn_dom f a st → fn_w fold P f a st = fn_model fold f a st ∧ (Inv fold st → Inv fold (fn_w fold P f a st).1)) ∧
    (∀ ops, ops_dom fold ops (init_w fold P) →
       let st := run_w fold P ops (init_w fold P) in
       Inv fold st ∧
       (∀ k e, e ∈ ix_get (by_class st) k ↔ present st e ∧ cls_of fold st e = k) ∧
       (∀ k e, e ∈ ix_get (by_target st) k ↔ present st e ∧ tgt_of fold st e = k) ∧
       (∀ name e, e ∈ (search_sh fold (pg_search P) name st).1 ↔ search_spec fold name st e) ∧
       cls_of fold st (spawn st) = ws ∧ spawn st ∈ ix_get (by_class st) ws).
  Proof.
    intros Hidem Hdec Hnode census P Hc HP. split.
    - eapply property_functions; eassumption.
    - intros ops Hd. eapply property_histories; eassumption.
  Qed.
End C07.

(** CopySet iteration in general (any state type, any loop body, any iteration order of a frozen set): no
    RuntimeError; today's generator stops after [size snapshot + size late] yields, yields no element twice, and
    yields exactly the snapshot and the elements added during the first pass. *)
Theorem c07_copyset_never_live_no_raise : ∀ {S} (get : S → gset nat) body order p, iprog_never_live p = true →
  ∀ cur ys s, io_raised (irun get body order p cur ys s) = false.
Proof. intros S. exact (@irun_never_live_no_raise S). Qed.
Theorem c07_copyset_iteration_total : ∀ {S} (get : S → gset nat) body order, (∀ X, order X ≡ₚ elements X) → ∀ s,
  let out := irun get body order copyset_iter_today ∅ [] s in
  let s1 := yield_frozen body (order (get s)) s in
  io_raised out = false ∧
  length (io_yield out) = size (get s) + size (get s1 ∖ get s) ∧
  NoDup (io_yield out) ∧
  ∀ x, x ∈ io_yield out ↔ x ∈ get s ∨ (x ∈ get s1 ∧ x ∉ get s).
Proof. intros S. exact (@copyset_iteration_total S). Qed.
Theorem c07_plain_set_iteration_refuted :
  iprog_never_live plain_set_iter = false ∧
  io_raised (irun (S := gset nat) id (λ x s, s ∖ {[x]}) elements plain_set_iter ∅ [] {[1; 2]}) = true.
Proof. exact plain_set_iteration_refuted. Qed.
Example c07_ascii_fold_app_dec : ∀ b i, ascii_fold (b ++ dec i) = ascii_fold b ++ dec i.
Proof. exact ascii_fold_app_dec. Qed.

(** Today's shapes pass; the shapes of the seeded faults do not, and are wrong on reachable states:
    c07_1 (previous value fetched with the caller's spelling; also: fetched after the store) ... *)
Example c07_shapes_today_ok : setitem_shape_ok setitem_shape_today = true ∧ search_shape_ok search_shape_today = true.
Proof. split; reflexivity. Qed.
Theorem c07_setitem_caller_spelling_refuted :
  setitem_shape_ok setitem_shape_caller = false ∧
  let st0 := run ascii_fold [CreateEnt [97]%N [([84;97;114;103;101;116;78;97;109;101]%N, [120]%N)]] init in
  Inv ascii_fold st0 ∧ ¬ Inv ascii_fold (set_item_sh ascii_fold setitem_shape_caller 1 tn [121]%N st0).1.
Proof. exact set_item_caller_spelling_refuted. Qed.
Theorem c07_setitem_read_after_store_refuted :
  setitem_shape_ok setitem_shape_after = false ∧
  let st0 := run ascii_fold [CreateEnt [97]%N [([84;97;114;103;101;116;78;97;109;101]%N, [120]%N)]] init in
  ¬ Inv ascii_fold (set_item_sh ascii_fold setitem_shape_after 1 tn [121]%N st0).1.
Proof. exact set_item_read_after_store_refuted. Qed.
(** ... and c07_2 (`if name in by_target ... elif name in by_class`): after a mere read of by_target['a'], or when
    another entity is named 'A', search('a') misses the entity of class 'a'. *)
Theorem c07_search_elif_refuted :
  search_shape_ok search_shape_elif = false ∧
  let st_probe := run ascii_fold [CreateEnt [97]%N []; ProbeTarget (Some [97]%N)] init in
  let st_named := run ascii_fold [CreateEnt [97]%N []; CreateEnt [98]%N [(tn, [65]%N)]] init in
  Inv ascii_fold st_probe ∧ search_spec ascii_fold [97]%N st_probe 1 ∧ 1 ∉ (search_sh ascii_fold search_shape_elif [97]%N st_probe).1 ∧
  Inv ascii_fold st_named ∧ search_spec ascii_fold [97]%N st_named 1 ∧ 1 ∉ (search_sh ascii_fold search_shape_elif [97]%N st_named).1.
Proof. exact search_elif_refuted. Qed.

(** Round 5, seeded fault c07_5 ([ents = self.by_target.get(name) or self.by_class.get(name); if ents: yield from ents]):
    the search programs now have plain lookups ([PYieldGetTarget] / [PYieldGetClass]: nothing is inserted) and
    non-emptiness tests ([CNeTarget] / [CNeClass]), so the `or` form is a program with a meaning.  It fails the
    obligation about the exact branch, and when an entity is named like another one's class the search for that class
    misses the entity of that class; two plain lookups one after the other pass (and find it). *)
Theorem c07_search_or_refuted :
  search_shape_ok search_shape_or = false ∧ search_shape_ok search_shape_two_gets = true ∧
  let st_named := run ascii_fold [CreateEnt [97]%N []; CreateEnt [98]%N [(tn, [65]%N)]] init in
  Inv ascii_fold st_named ∧ search_spec ascii_fold [97]%N st_named 1 ∧
  1 ∉ (search_sh ascii_fold search_shape_or [97]%N st_named).1 ∧
  1 ∈ (search_sh ascii_fold search_shape_two_gets [97]%N st_named).1.
Proof. exact search_or_refuted. Qed.

(** Round 3: today's maintenance program and add_ents pass their obligations; the shapes of seeded faults c07_3
    (rejected re-class of the worldspawn reverted by a direct store: ValueError is raised, the keyvalue is back,
    the worldspawn is gone from by_class) and c07_4 (add_ents iterates its argument twice: with a generator the
    entity is listed but not indexed) fail theirs and break the invariant on reachable states. *)
Example c07_maintenance_today_ok : maint_ok maint_today = true ∧ ae_ok add_ents_today = true.
Proof. split; reflexivity. Qed.
Theorem c07_setitem_guard_direct_revert_refuted :
  maint_guard_error_ok maint_direct_revert = false ∧
  maint_classname_ok maint_direct_revert = true ∧ maint_targetname_ok maint_direct_revert = true ∧
  maint_other_ok maint_direct_revert = true ∧
  let r := set_item_pg ascii_fold setitem_shape_today maint_direct_revert 2 0 cn [97]%N init in
  r.2 = 2 ∧ keys_of r.1 0 = [(cn, ws)] ∧ ¬ Inv ascii_fold r.1.
Proof. exact maint_direct_revert_refuted. Qed.
Theorem c07_add_ents_iterated_twice_refuted :
  ae_ok_reiterable add_ents_twice = true ∧ ae_ok_oneshot add_ents_twice = false ∧
  let st0 := run ascii_fold [NewEnt [(cn, [97]%N)]] init in
  Inv ascii_fold st0 ∧ ents (ae_run ascii_fold add_ents_twice [1] true st0) = [1] ∧
  ¬ Inv ascii_fold (ae_run ascii_fold add_ents_twice [1] true st0).
Proof. exact add_ents_twice_refuted. Qed.

(** Round 5, seeded fault c07_7: membership in the map read from a flag cached on the entity object ([self._in_map],
    kept by add_ent / remove_ent but not by add_ents) instead of the scan [self in self.map.entities].  Such a flag
    is state the model does not have: the translator emits the condition [MCCached], which no fact decides; the state
    census [prog_stateless] and the path obligations of both indexed keys fail, and for the value the flag has after
    add_ents a re-classed entity is in no class set. *)
Theorem c07_setitem_cached_membership_flag_refuted :
  prog_stateless maint_today = true ∧ prog_stateless maint_cached_flag = false ∧
  maint_classname_ok maint_cached_flag = false ∧ maint_targetname_ok maint_cached_flag = false ∧
  maint_other_ok maint_cached_flag = true ∧
  let st0 := run ascii_fold [NewEnt [(cn, [97]%N)]; AddEnts [1]] init in
  let r := set_item_pg ascii_fold setitem_shape_today maint_cached_flag 2 1 cn [98]%N st0 in
  Inv ascii_fold st0 ∧ r.2 = 0 ∧ ents r.1 = [1] ∧ keys_of r.1 1 = [(cn, [98]%N)] ∧ ¬ Inv ascii_fold r.1.
Proof. exact maint_cached_flag_refuted. Qed.

(** _remove_copyset as written (round 3): every shape of the helper that passes the four named obligations (the set is
    found without raising and a missing set means nothing to do; the entity is discarded, not removed; the other
    members stay; a set that became empty is dropped) is the model's [ix_remove] — the function every removal of the
    model and of the generated maintenance program goes through — for every mapping, key and entity, and never raises.
    Without the fourth obligation the only difference is an empty set left under the key: the same sets for every
    reader ([ix_get]), which is what [ix_equiv] ignores.  The other shapes are refuted by computed witnesses:
    [set.remove] raises KeyError, an inverted emptiness test loses the remaining members, no `is not None` guard raises
    on an absent key. *)
Theorem c07_remove_copyset_as_written : ∀ sh,
  rc_ok sh = true →
  (∀ k e (m : gmap str (gset nat)), rc_run sh k e m = (ix_remove k e m, 0)) ∧
  (∀ k e (m : gmap (option str) (gset nat)), rc_run sh k e m = (ix_remove k e m, 0)).
Proof. intros sh Hok. split; intros; by apply rc_run_ok. Qed.
Theorem c07_remove_copyset_leaving_empty_sets_reader_equal : ∀ sh,
  rc_reader_ok sh = true →
  ∀ k e (m : gmap (option str) (gset nat)),
    (rc_run sh k e m).2 = 0 ∧ ∀ k', ix_get (rc_run sh k e m).1 k' = ix_get (ix_remove k e m) k'.
Proof. intros sh Hok k e m. by apply rc_run_reader_ok. Qed.
Example c07_remove_copyset_today_ok : rc_ok rc_today = true.
Proof. exact rc_today_ok. Qed.
Theorem c07_remove_copyset_variants_refuted :
  let m1 : gmap nat (gset nat) := {[ 7 := {[1; 2]} ]} in
  (rc_discards rc_strict_remove = false ∧ (rc_run rc_strict_remove 7 3 m1).2 = 1 ∧ (ix_remove 7 3 m1) = m1) ∧
  (rc_keeps_others rc_drop_inverted = false ∧ ix_get (rc_run rc_drop_inverted 7 1 m1).1 7 = ∅ ∧ ix_get (ix_remove 7 1 m1) 7 = {[2]}) ∧
  (rc_lookup_ok rc_no_none_guard = false ∧ (rc_run rc_no_none_guard 8 1 m1).2 = 9) ∧
  (rc_drops_empty rc_never_drops = false ∧ rc_reader_ok rc_never_drops = true ∧
   (rc_run rc_never_drops 7 1 {[ 7 := {[1]} ]}).1 = ({[ 7 := ∅ ]} : gmap nat (gset nat)) ∧
   ix_remove 7 1 ({[ 7 := {[1]} ]} : gmap nat (gset nat)) = ∅).
Proof. exact rc_refutations. Qed.

(** Round 3: today's __delitem__, remove_ent and add_ent programs pass their obligations; refuted variants: a
    by_target[None] addition in __delitem__ without the membership test (an entity that is not in the map ends up in
    by_target[None]), a pop by the caller's spelling (KeyError for a key stored in another letter case), the
    membership test of remove_ent placed before the list removal (the entity leaves the list but stays indexed), the
    guard of remove_ent written with `and` (removing the worldspawn takes it out of by_class). *)
Example c07_delitem_listops_today_ok :
  del_maint_ok del_maint_today = true ∧ del_loop_ok del_loop_today = true ∧
  remove_ok remove_ent_today = true ∧ add_ok add_ent_today = true.
Proof. repeat split; reflexivity. Qed.
Theorem c07_delitem_variants_refuted :
  (del_targetname_ok del_maint_unguarded = false ∧ del_classname_refused del_maint_unguarded = true ∧
   del_other_ok del_maint_unguarded = true ∧
   let st0 := run ascii_fold [NewEnt [(cn, [97]%N); (tn, [120]%N)]] init in
   let r := del_item_pg ascii_fold del_maint_unguarded del_loop_today 1 tn st0 in
   Inv ascii_fold st0 ∧ r.2 = 0 ∧ ents r.1 = [] ∧ ¬ Inv ascii_fold r.1) ∧
  (del_loop_pops_stored del_loop_pop_caller = false ∧
   delitem_loop ascii_fold del_loop_pop_caller [84;110]%N [([116;78]%N, [120]%N)] = ([([116;78]%N, [120]%N)], 1) ∧
   delitem_loop ascii_fold del_loop_today [84;110]%N [([116;78]%N, [120]%N)] = ([], 0)).
Proof. exact del_refutations. Qed.
Theorem c07_remove_ent_variants_refuted :
  (remove_unlists_and_unindexes remove_ent_test_first = false ∧
   let st0 := run ascii_fold [CreateEnt [97]%N []] init in
   let st1 := v_run ascii_fold remove_ent_test_first 1 st0 in
   Inv ascii_fold st0 ∧ ents st1 = [] ∧ ¬ Inv ascii_fold st1) ∧
  (remove_worldspawn_stays_indexed remove_ent_and_guard = false ∧
   remove_still_listed_stays_indexed remove_ent_and_guard = false ∧
   ¬ Inv ascii_fold (v_run ascii_fold remove_ent_and_guard 0 init)).
Proof. exact listops_refutations. Qed.

Theorem c07_remove_ent_cached_flag_refuted :
  remove_worldspawn_stays_indexed remove_ent_cached_flag = false ∧
  remove_still_listed_stays_indexed remove_ent_cached_flag = false ∧
  remove_unlists_and_unindexes remove_ent_cached_flag = false.
Proof. exact remove_cached_flag_refuted. Qed.

(** Entity.clear: today's step list passes; without `del self['targetname']` before the dict is emptied the entity
    keeps its old name in by_target (computed witness on a reachable state). *)
Example c07_clear_today_ok : clear_ok clear_today = true ∧ (ascii_fold nodeid ≠ cn ∧ ascii_fold nodeid ≠ tn).
Proof. split; [reflexivity|split; by vm_compute]. Qed.
Theorem c07_clear_forgets_targetname_refuted :
  clear_reindexes_before_emptying clear_forgets_targetname = false ∧ clear_keeps_the_classname clear_forgets_targetname = true ∧
  let st0 := run ascii_fold [CreateEnt [97]%N [(tn, [120]%N)]] init in
  let r := clear_pg ascii_fold clear_forgets_targetname 1 st0 in
  Inv ascii_fold st0 ∧ r.2 = 0 ∧ keys_of r.1 1 = [(cn, inull)] ∧ ¬ Inv ascii_fold r.1.
Proof. exact clear_forgets_targetname_refuted. Qed.

(** The hypotheses are satisfiable: ASCII lower-casing. *)
Example c07_ascii_fold_ok :
  ascii_fold [] = [] ∧ ascii_fold cn = cn ∧ ascii_fold tn = tn ∧ ascii_fold ws = ws.
Proof. repeat split. Qed.
Example c07_ascii_fold_idem : ∀ s, ascii_fold (ascii_fold s) = ascii_fold s.
Proof.
  intros s. unfold ascii_fold. rewrite map_map. apply map_ext. intros c. unfold ascii_lower.
  destruct ((65 <=? c) && (c <=? 90))%N eqn:E; [|by rewrite E].
  apply andb_true_iff in E as [E1 E2]. apply N.leb_le in E1, E2.
  assert (((65 <=? c + 32) && (c + 32 <=? 90))%N = false) as ->; [|done].
  apply andb_false_iff. right. apply N.leb_gt. lia.
Qed.

(** Not vacuous: a history in which a mixed-case class and name are set, changed and the entity removed. *)
Example c07_history_example :
  let st := run ascii_fold [CreateEnt [70;117]%N [(tn, [65;98]%N)]; SetItem 1 cn [97]%N; Pop 1 tn; RemoveEnt 1] init in
  ents st = [] ∧ elements (ix_get (by_class st) ws) = [0] ∧ elements (ix_get (by_target st) None) = [0].
Proof. vm_compute. done. Qed.

(** Round 4: the hypotheses of [c07_property] are satisfiable — today's programs pass every obligation and today's census
    is covered; a non-trivial history as written ends in the state of the model. *)
Example c07_property_today_ok :
  programs_ok programs_today = true ∧
  census_covered census_today = true ∧ census_covered census_with_an_unmodelled_writer = false ∧
  let ops := [CreateEnt [70;117]%N [(tn, [65;98]%N)]; SetItem 1 cn [97]%N; Pop 1 tn; MakeUnique 1 [120]%N] in
  let st := run_w ascii_fold programs_today ops (init_w ascii_fold programs_today) in
  ops_dom ascii_fold ops (init_w ascii_fold programs_today) ∧
  ents st = [1] ∧ keys_of st 1 = [(cn, [97]%N); (tn, [120]%N)] ∧
  elements (ix_get (by_target st) (Some [120]%N)) = [1] ∧ elements (ix_get (by_class st) [97]%N) = [1] ∧
  elements (ix_get (by_class st) [102;117]%N) = [].
Proof. split; [reflexivity|]. split; [reflexivity|]. split; [reflexivity|]. split; [vm_compute; tauto|]. vm_compute. done. Qed.
Example c07_glue_today_ok :
  vmf_init_ok vmf_init_today = true ∧ parse_spawn_ok parse_spawn_today = true ∧ parse_ent_ok glue_ent_today = true ∧
  create_ent_ok create_ent_today = true ∧ einit_ok einit_today = true ∧ copy_ok copy_today = true ∧
  pop_ok pop_today = true ∧ mu_ok mu_today = true.
Proof. exact glue_today_ok. Qed.
(** Faulty glue, refuted by computed witnesses: a constructor that does not file the worldspawn under no name; parse
    re-assigning the spawn before the placeholder is taken out of the indexes (the placeholder stays listed under
    'worldspawn'); pop through `self._keys.pop(k)` (the entity keeps its old name in by_target); a constructor that
    fills the key dict directly (two spellings of one key survive); make_unique looking a candidate up un-folded (a
    name taken in another letter case is handed out again - not a C07 violation, the indexes stay consistent). *)
Theorem c07_vmf_init_forgets_target_refuted :
  vmf_init_containers_first vmf_init_forgets_target = true ∧ vmf_init_spawn_ok vmf_init_forgets_target = false ∧
  ¬ Inv ascii_fold (g_run ascii_fold vmf_init_forgets_target env0 blank).
Proof. exact vmf_init_forgets_target_refuted. Qed.
Theorem c07_parse_spawn_assign_first_refuted :
  parse_drops_the_placeholder parse_spawn_assign_first = false ∧ Inv ascii_fold init ∧
  ¬ Inv ascii_fold (g_run ascii_fold parse_spawn_assign_first (GE [] []) init).
Proof. exact parse_spawn_assign_first_refuted. Qed.
Theorem c07_pop_direct_refuted :
  pop_deletes_through_delitem pop_direct = false ∧
  let st0 := run ascii_fold [CreateEnt [97]%N [(tn, [120]%N)]] init in
  let r := pop_item_sh ascii_fold pop_direct 1 tn st0 in
  Inv ascii_fold st0 ∧ r.2 = 0 ∧ keys_of r.1 1 = [(cn, [97]%N)] ∧ ¬ Inv ascii_fold r.1.
Proof. exact pop_direct_refuted. Qed.
Theorem c07_entity_init_direct_refuted :
  einit_ok einit_direct = false ∧
  ¬ Inv ascii_fold (new_ent_sh ascii_fold einit_direct [([65]%N, [120]%N); ([97]%N, [121]%N)] init).
Proof. exact einit_direct_refuted. Qed.
Theorem c07_make_unique_unfolded_candidate_differs :
  mu_loop_ok mu_unfolded_cand = false ∧
  let st0 := run ascii_fold [CreateEnt [97]%N [(tn, [88]%N)]; CreateEnt [97]%N [(tn, [88;49]%N)]; CreateEnt [97]%N [(tn, [88]%N)]] init in
  kv_find ascii_fold tn (keys_of (make_unique_sh ascii_fold mu_unfolded_cand 3 [] st0).1 3) = Some [88;49]%N ∧
  kv_find ascii_fold tn (keys_of (make_unique ascii_fold 3 [] st0).1 3) = Some [88;50]%N.
Proof. exact mu_unfolded_cand_differs. Qed.

(** Round 4: case folding by table.  [str.casefold] works code point by code point; the correspondence instantiates the
    model with [table_fold tab], ASCII lower-casing extended by the table [code point ↦ chr(c).casefold()] that CPython
    gives for the non-ASCII code points of the batch.  For every such table the folding satisfies the hypotheses of all
    the theorems above; idempotence holds when the images are their own folding (a boolean the check evaluates). *)
Theorem c07_table_fold_ok : ∀ tab, tab_non_ascii tab = true →
  table_fold tab [] = [] ∧ table_fold tab cn = cn ∧ table_fold tab tn = tn ∧ table_fold tab ws = ws ∧
  (∀ b i, table_fold tab (b ++ dec i) = table_fold tab b ++ dec i) ∧
  (table_fold tab nodeid ≠ cn ∧ table_fold tab nodeid ≠ tn).
Proof.
  intros tab Ht. destruct (table_fold_ok tab Ht) as (H1 & H2 & H3 & H4 & H5). repeat split; try done; by apply table_fold_nodeid.
Qed.
Theorem c07_table_fold_idem : ∀ tab, tab_non_ascii tab = true → tab_closed tab = true →
  ∀ s, table_fold tab (table_fold tab s) = table_fold tab s.
Proof. exact table_fold_idem. Qed.
(** Round 5 (consolidation): the whole property with hypotheses on GENERATED objects only.  For every casefold table [tab]
    (computed from CPython for the strings of a run), every census list and every record of programs read off vmf.py:
    four booleans — [tab_non_ascii], [tab_closed], [census_covered], [programs_ok], each evaluated by the kernel on every
    run — give both conclusions of [c07_property] for the folding [table_fold tab]; all seven hypotheses about the
    folding are discharged by [c07_table_fold_ok] / [c07_table_fold_idem].  What remains outside: the domain predicates
    [fn_dom] / [ops_dom] (operations refer to existing objects of this map; add_ent is not given the worldspawn), and
    that [table_fold tab] is str.casefold on the strings used (checked against CPython per batch). *)
Theorem c07_property_generated_only : ∀ tab (census : list string) (P : programs),
  tab_non_ascii tab = true → tab_closed tab = true → census_covered census = true → programs_ok P = true →
  let fold := table_fold tab in
  (∀ s, s ∈ census → ∃ f, fname_of s = Some f ∧
     ∀ a st, fn_dom f a st → fn_w fold P f a st = fn_model fold f a st ∧ (Inv fold st → Inv fold (fn_w fold P f a st).1)) ∧
  (∀ ops, ops_dom fold ops (init_w fold P) →
     let st := run_w fold P ops (init_w fold P) in
     Inv fold st ∧
     (∀ k e, e ∈ ix_get (by_class st) k ↔ present st e ∧ cls_of fold st e = k) ∧
     (∀ k e, e ∈ ix_get (by_target st) k ↔ present st e ∧ tgt_of fold st e = k) ∧
     (∀ name e, e ∈ (search_sh fold (pg_search P) name st).1 ↔ search_spec fold name st e) ∧
     cls_of fold st (spawn st) = ws ∧ spawn st ∈ ix_get (by_class st) ws).
Proof.
  intros tab census P Ht Hc Hcen HP. destruct (c07_table_fold_ok tab Ht) as (H1 & H2 & H3 & H4 & H5 & H6).
  exact (c07_property (table_fold tab) H1 H2 H3 H4 (c07_table_fold_idem tab Ht Hc) H5 H6 census P Hcen HP).
Qed.
Example c07_property_generated_only_today :
  tab_non_ascii tab_example = true ∧ tab_closed tab_example = true ∧
  census_covered census_today = true ∧ programs_ok programs_today = true.
Proof. repeat split; reflexivity. Qed.

Example c07_table_fold_example : tab_non_ascii tab_example = true ∧ tab_closed tab_example = true ∧
  tab_closed [(7838, [223]); (223, [115; 115])]%N = false ∧ table_fold tab_example [83; 223; 304]%N = [115; 115; 115; 105; 775]%N.
Proof. exact tab_example_ok. Qed.

(** Round 4: how often VMF.search yields an entity (multiplicity; the set-level theorems above say *which* entities).
    [search_count] runs the same generated program as [search_sh] and counts the yields of one entity (a set is
    iterated once per `yield from`, every member once).  For every program that passes the shape obligations and
    [search_once_ok] (no part is yielded twice on any path), in every state satisfying the invariant: the empty query
    yields nothing; a `prefix*` query yields each matching entity exactly once; an exact query yields an entity once
    if its name matches plus once if its class matches — never more than twice, and twice exactly when both match. *)
Theorem c07_search_multiplicity : ∀ fold, (∀ s, fold (fold s) = fold s) → ∀ sh name e st,
  search_shape_ok sh = true → search_once_ok sh = true → Inv fold st →
  search_count fold sh name e st =
    (if bool_decide (name = []) then 0
     else if ends_star (fold name) then b2n (bool_decide (e ∈ named fold (is_prefix (removelast (fold name))) true st))
     else b2n (bool_decide (e ∈ ix_get (by_target st) (Some (fold name)))) + b2n (bool_decide (e ∈ ix_get (by_class st) (fold name)))) ∧
  search_count fold sh name e st ≤ 2.
Proof.
  intros fold Hi sh name e st H1 H2 HI. split; [exact (search_count_spec fold Hi sh name e st H1 H2 HI)|].
  exact (search_count_le2 fold Hi sh name e st H1 H2 HI).
Qed.
Example c07_search_multiplicity_examples :
  search_once_ok search_shape_today = true ∧
  search_shape_ok search_shape_class_twice = true ∧ search_once_ok search_shape_class_twice = false ∧
  let st := run ascii_fold [CreateEnt [97]%N [(tn, [65]%N)]] init in
  search_count ascii_fold search_shape_today [97]%N 1 st = 2 ∧ search_count ascii_fold search_shape_class_twice [97]%N 1 st = 3.
Proof. split; [exact search_today_once|exact search_count_examples]. Qed.
