(** C14 — DMX export/parse preserves the element graph (binary form, type codes, KeyValues1 bridge).
    Only statements here; proofs are in Fmt/DmxCodesProofs.v, Fmt/DmxBinLemmas.v, Fmt/DmxBinProofs.v, Fmt/DmxKv1Proofs.v.
    Every theorem is generic in the configuration that translate/c14_dmx.py regenerates from dmx.py
    (Gen/DmxCodes_gen.v: [gen_cfg], [gen_kv1]); the check discharges the boolean premises for the generated
    instance on every run. *)
From Coq Require Import NArith ZArith QArith Qabs List Bool.
From SV Require Import Bin.Struct Fmt.DmxCodes Fmt.DmxCodesProofs Fmt.DmxBin Fmt.DmxBinProofs Fmt.DmxKv1 Fmt.DmxKv1Proofs
  Fmt.DmxScalar Fmt.DmxScalarProofs Fmt.DmxTyped Fmt.DmxTypedProofs Text.Str Text.Escape Text.Tokenizer Text.TokGen Fmt.DmxKv2 Fmt.DmxKv2Proofs Fmt.DmxKv2Nested Fmt.DmxKv2NestedProofs Fmt.DmxKv2Inst Num.Dec6 Fmt.DmxValText Fmt.DmxValTextProofs Fmt.DmxHeader Fmt.DmxHeaderProofs Fmt.DmxMembers Fmt.DmxMembersProofs Fmt.DmxMembersParse Fmt.DmxMembersParseProofs Fmt.DmxMembersKv2 Fmt.DmxMembersKv2Proofs Fmt.DmxKv1Sel Fmt.DmxKv1SelProofs Fmt.DmxKv2Graph Fmt.DmxKv2GraphProofs Fmt.DmxKv2GraphUnique Fmt.DmxKv2GraphFuel Fmt.DmxKv2GraphCull Fmt.DmxKv2GraphLink Fmt.DmxKv2GraphWhole Fmt.DmxPropertyBin Fmt.DmxPropertyKv2 Fmt.DmxKv2GraphIso Fmt.DmxKv2GraphCullIds Gen.DmxCodes_gen.
Import ListNotations.

(** The premises of the theorems below, for the configuration generated from today's source.  The check proves
    [c14_instance_premises = true] part by part (named instance obligations) on every run. *)
Definition c14_instance_premises : bool :=
  bin_cfg_ok gen_cfg && kv1_cfg_ok gen_kv1 && scalar_cfg_ok gen_scalar && sizes_match_formats gen_scalar gen_cfg &&
  rtable_ok gen_ref_scalar && rtable_ok gen_ref_array &&
  kv2_tables_ok gen_tables && kv2_opts_ok gen_kv2_opts && vtnames_ok gen_tables gen_fold gen_vtnames &&
  float_text_cfg_ok gen_float_fmt && vec_text_components_ok gen_vec_text_written gen_vec_text_read &&
  color_text_ok gen_color_text_written gen_color_text_read &&
  hdr_bin_ok gen_hdr && hdr_kv2_ok gen_hdr && hdr_modes_ok gen_hdr && cnt_cfg_ok gen_cnt &&
  kv1_sel_ok gen_kv1_reserved_sel gen_kv1_dup_sel && root_rule_ok gen_rootcfg && gen_kv2_name_line_always && id_written_ok gen_kv2_id_written.

(** The boolean hypotheses of [c14_property_binary] and [c14_property_kv2] (round 4) for the objects generated from today's
    source; the check proves both [= true] on every run (instance obligations [property_binary_premises_hold_today],
    [property_kv2_premises_hold_today]). *)
Definition c14_property_binary_premises : bool :=
  bin_cfg_ok gen_cfg && scalar_cfg_ok gen_scalar && sizes_match_formats gen_scalar gen_cfg && cnt_cfg_ok gen_cnt.
Definition c14_property_kv2_premises : bool :=
  kv2_tables_ok gen_tables && kv2_opts_ok gen_kv2_opts && vtnames_ok gen_tables gen_fold gen_vtnames && root_rule_ok gen_rootcfg.

(** The attribute type byte: encode then decode gives back the value type and the scalar/array flag, for all 14
    types and both shapes. *)
Theorem type_code_roundtrip : forall cfg, codes_ok cfg = true ->
  forall t arr, exists b, encode_code cfg t arr = Some b /\ (b < 256)%N /\ decode_code cfg b = Some (t, arr).
Proof. exact type_code_roundtrip_gen. Qed.

(** With the pinned tree's decode test ([>= ARRAY_OFFSET]) a scalar MATRIX (code 14) does not decode. *)
Theorem type_code_roundtrip_refuted_on_pinned_tree :
  encode_code pinned_cfg TMatrix false = Some 14%N /\ decode_code pinned_cfg 14%N = None.
Proof. exact type_code_roundtrip_pinned_refuted. Qed.

Theorem pinned_tree_fails_named_conditions :
  scalar_codes_not_split pinned_cfg = false /\ encodings_ok pinned_cfg = false /\ stub_ok pinned_cfg = false.
Proof. exact pinned_cfg_conditions. Qed.

(** Binary format, every encoding version (0-5: string table absent / 16-bit / 32-bit counts and indexes, element
    names and scalar strings inline or in the table): parsing the exported body of any expressible document gives
    back the document — element types, names, UUIDs, attribute names and order, value types, scalar/array shape,
    values (bit patterns), references by index (sharing, cycles), NULL and stub references with their UUID text.
    [cenc]/[cdec] are the text codecs; [expressible] asks, per string, that the codec round-trips it without a NUL,
    that counts and indexes fit their field, that references are in range and fixed-width values have their size. *)
Theorem dmx_bin_roundtrip :
  forall (cenc : enc -> str -> bytes) (cdec : enc -> bytes -> option str) (cfg : dmxcfg) (v : N) (d : doc),
    bin_cfg_ok cfg = true -> expressible cenc cdec cfg v d ->
    parse_bin cdec cfg v (export_bin cenc cfg v d) = Some d.
Proof. exact dmx_bin_roundtrip_gen. Qed.

(** Trailing bytes after the body do not matter. *)
Theorem dmx_bin_roundtrip_trailing :
  forall (cenc : enc -> str -> bytes) (cdec : enc -> bytes -> option str) (cfg : dmxcfg) (v : N) (d : doc) (rest : bytes),
    bin_cfg_ok cfg = true -> expressible cenc cdec cfg v d ->
    parse_bin cdec cfg v (export_bin cenc cfg v d ++ rest) = Some d.
Proof. exact dmx_bin_roundtrip_rest. Qed.

(** The premises are satisfiable: a two-element document with a self reference, NULL, a stub, scalar and array
    strings, a 64-byte matrix, an int array and binary blobs is expressible in versions 5 and 1. *)
Theorem dmx_bin_expressible_example :
  expressible idenc iddec good_cfg 5 ex_doc /\ expressible idenc iddec good_cfg 1 ex_doc /\ length ex_doc = 2%nat.
Proof. exact expressible_example. Qed.

(** The stub condition is necessary: writing only the index -2 (pinned tree) loses an expressible document. *)
Theorem dmx_bin_stub_without_uuid_refuted :
  exists d, parse_bin iddec bad_stub_cfg 5 (export_bin idenc bad_stub_cfg 5 d) <> Some d.
Proof. exact stub_without_uuid_refuted. Qed.

(** KeyValues1 bridge: converting any well-formed Keyvalues tree (only the top node may be a nameless root) to
    elements and back returns the same tree (real names, values, order, inline vs nested, reserved names, duplicates,
    mixed blocks/leaves). *)
Theorem kv1_bridge_roundtrip : forall (fold : kstr -> kstr) (cfg : kv1cfg),
  kv1_cfg_ok cfg = true -> fold_ok fold cfg ->
  forall t, wf_kv t = true -> to_kv1 fold cfg (from_kv1 fold cfg t) = Some t.
Proof. exact kv1_bridge_roundtrip_gen. Qed.

(** A nameless root nested in a block is merged into the parent (Keyvalues.append): excluded by [wf_kv]. *)
Theorem kv1_nested_root_flattened :
  to_kv1 (fun s => s) sample_cfg (from_kv1 (fun s => s) sample_cfg (KBlock (Some [66]%N) [KBlock None [KLeaf [97]%N [98]%N]]))
  = Some (KBlock (Some [66]%N) [KLeaf [97]%N [98]%N]).
Proof. exact kv1_nested_root_is_flattened. Qed.

Theorem kv1_bridge_premises_satisfiable : kv1_cfg_ok sample_cfg = true /\ fold_ok (fun s => s) sample_cfg.
Proof. exact kv1_premises_satisfiable. Qed.

(** * Fixed-width value codecs (TYPE_CONVERT[t, BINARY] / TYPE_CONVERT[BINARY, t]) *)

(** TIME: for binary64 division and multiplication [fdiv]/[fmul] that meet the standard model of rounding at the
    operands used (relative error at most 2^-53 for [k / S] and [(k / S) * S]), every 32-bit tick count [k] survives
    [round((k / S) * S)]: a tick-exact time is written as exactly its tick count, whatever the positive scale [S]. *)
Theorem time_roundtrip : forall (fmul fdiv : Q -> Q -> Q) (S : Z), (0 < S)%Z ->
  std_model_on_ticks fmul fdiv S ->
  forall k, int32_ok k = true -> q_round_he (fmul (fdiv (inject_Z k) (inject_Z S)) (inject_Z S)) = k.
Proof. exact time_ticks_exact. Qed.

(** The hypothesis is satisfiable (exact arithmetic), and the executable binary64 rounding [rn64] meets it and the
    conclusion on a computed grid of 2069 tick counts. *)
Theorem time_roundtrip_premise_satisfiable :
  std_model_on_ticks Qmult Qdiv 10000 /\ (forallb std_model_check tick_grid = true).
Proof. split; [exact std_model_exact|exact std_model_rn64_grid]. Qed.

(** The executable model of binary64 round-to-nearest-even, [rn64] (compared with CPython's float [*] and [/] on every
    run), meets the standard model at every rational: |rn64 x - x| <= 2^-53 |x|. *)
Theorem binary64_rounding_error : forall x : Q, (Qabs (rn64 x - x) <= u53 * Qabs x)%Q.
Proof. exact rn64_error. Qed.

(** Hence TIME needs no hypothesis about floating point inside the model: with [fmul64] / [fdiv64] (= [rn64] of the exact
    product / quotient) every 32-bit tick count survives [round((k / S) * S)], for every positive scale [S]. *)
Theorem time_roundtrip_binary64 : forall S : Z, (0 < S)%Z -> forall k, int32_ok k = true ->
  q_round_he (fmul64 (fdiv64 (inject_Z k) (inject_Z S)) (inject_Z S)) = k.
Proof. exact time_ticks_exact_rn64. Qed.

(** [int()] instead of [round()] is refuted by a computed witness: 3 / 10000.0 is written as 2 ticks. *)
Theorem time_truncation_loses_a_tick :
  q_round RTrunc (fmul64 (fdiv64 3 10000) 10000) = 2%Z /\ q_round RNearestEven (fmul64 (fdiv64 3 10000) 10000) = 3%Z.
Proof. exact time_truncation_refuted. Qed.

(** Every fixed-width value representable in its wire type (int32, binary32 patterns, booleans, tick-exact times,
    colour bytes, vectors, angles in [0, 360), quaternions, the 3x3 part of a matrix) is packed by the generated
    struct format into exactly [calcsize] bytes and unpacked to the same value — for every configuration meeting
    the named conditions, with CPython's struct as modelled in Bin/Struct.v. *)
Theorem scalar_codec_roundtrip :
  forall (fmul fdiv : Q -> Q -> Q) (anorm : N -> N) (cfg : scalarcfg),
    scalar_cfg_ok cfg = true -> std_model_on_ticks fmul fdiv (sc_time_div cfg) ->
    (forall b, (b < ANGLE_360)%N -> anorm b = b) ->
    forall t v, sval_rep fdiv cfg t v ->
    exists bs, encode_sval fmul cfg t v = Some bs /\ length bs = calcsize (wire_kinds t) /\
               decode_sval fdiv anorm cfg t bs = Some v.
Proof. exact scalar_codec_roundtrip_gen. Qed.

(** The same with binary64 arithmetic as modelled by [rn64]: only the FrozenAngle normalisation stays a hypothesis. *)
Theorem scalar_codec_roundtrip_binary64 :
  forall (anorm : N -> N) (cfg : scalarcfg),
    scalar_cfg_ok cfg = true -> (forall b, (b < ANGLE_360)%N -> anorm b = b) ->
    forall t v, sval_rep fdiv64 cfg t v ->
    exists bs, encode_sval fmul64 cfg t v = Some bs /\ length bs = calcsize (wire_kinds t) /\
               decode_sval fdiv64 anorm cfg t bs = Some v.
Proof. exact scalar_codec_roundtrip_rn64. Qed.

Theorem scalar_codec_premises_satisfiable :
  (scalar_cfg_ok pinned_scalar = true) /\ (sizes_match_formats pinned_scalar pinned_cfg = true).
Proof. exact scalar_cfg_example. Qed.

(** The conditions are necessary: a truncating TIME codec and a matrix reader that ignores the padding column
    fail their named condition and lose a representable value. *)
Theorem scalar_truncating_cfg_refuted :
  (time_rounds_to_nearest trunc_scalar = false) /\
  (let t := fdiv64 3 10000 in
   match encode_sval fmul64 trunc_scalar TTime (SvTime t) with
   | Some bs => decode_sval fdiv64 (fun b => b) trunc_scalar TTime bs
   | None => None
   end = Some (SvTime (fdiv64 2 10000))).
Proof. exact truncating_cfg_refuted. Qed.

Theorem scalar_matrix_unpadded_read_refuted :
  (mat_cells_read_where_written bad_mat_scalar = false) /\
  mat_unpack (sc_mat_unpack bad_mat_scalar) (mat_pack (sc_mat_pack bad_mat_scalar) [1;2;3;4;5;6;7;8;9]%N) <> [1;2;3;4;5;6;7;8;9]%N.
Proof. exact matrix_unpadded_read_refuted. Qed.

(** * Binary DMX with typed values *)

(** Packing every fixed-width value of a typed document ([lower_doc]: TYPE_CONVERT[t, BINARY] per item, as
    [attr.iter_binary()] does) and unpacking ([lift_doc]: TYPE_CONVERT[BINARY, t]) gives the document back, and every
    packed item has exactly the size the SIZES table promises the reader ([sizes_match_formats]). *)
Theorem typed_values_roundtrip :
  forall (fmul fdiv : Q -> Q -> Q) (anorm : N -> N) (scfg : scalarcfg) (cfg : dmxcfg),
    scalar_cfg_ok scfg = true -> sizes_match_formats scfg cfg = true ->
    std_model_on_ticks fmul fdiv (sc_time_div scfg) -> (forall b, (b < ANGLE_360)%N -> anorm b = b) ->
    forall td, tdoc_rep fdiv scfg td ->
    exists d, lower_doc fmul scfg td = Some d /\ lift_doc fdiv anorm scfg d = Some td /\ doc_sized cfg d.
Proof. exact typed_lift_lower. Qed.

(** The binary round trip with values instead of wire bytes: export the packed document in any version that can
    express it, parse, unpack — the typed document comes back (integers, binary32 patterns, booleans, tick-exact
    times, colours, vectors, angles in [0, 360), quaternions, matrices; strings, blobs and references as before). *)
Theorem dmx_bin_typed_roundtrip :
  forall (fmul fdiv : Q -> Q -> Q) (anorm : N -> N) (scfg : scalarcfg) (cfg : dmxcfg),
    scalar_cfg_ok scfg = true -> sizes_match_formats scfg cfg = true ->
    std_model_on_ticks fmul fdiv (sc_time_div scfg) -> (forall b, (b < ANGLE_360)%N -> anorm b = b) ->
    forall (cenc : enc -> DmxBin.str -> bytes) (cdec : enc -> bytes -> option DmxBin.str) (v : N) (td : tdoc) (d : doc),
    bin_cfg_ok cfg = true -> tdoc_rep fdiv scfg td -> lower_doc fmul scfg td = Some d -> expressible cenc cdec cfg v d ->
    match parse_bin cdec cfg v (export_bin cenc cfg v d) with Some d' => lift_doc fdiv anorm scfg d' | None => None end = Some td.
Proof. exact dmx_bin_typed_roundtrip_gen. Qed.

Theorem typed_premises_satisfiable :
  tdoc_rep fdiv64 pinned_scalar ex_tdoc /\
  match lower_doc fmul64 pinned_scalar ex_tdoc with
  | Some [e] => match nth 3 (eattrs e) {| aname := []; adata := VBin (Array []) |} with
                | {| adata := VFix TMatrix (Scalar b) |} => length b = 64%nat
                | _ => False
                end
  | _ => False
  end.
Proof. exact typed_example. Qed.

(** * KeyValues2 *)

(** How [_export_kv2] writes an element value: a decision table (if / elif / else chain over is_null, is_stub,
    uuid-in-roots) that meets the named condition decides exactly as the format needs — NULL as the empty
    reference, stubs and top-level elements by UUID reference, the rest inline — and two such tables agree. *)
Theorem kv2_reference_decision : forall t, rtable_ok t = true ->
  forall is_null is_stub in_roots, decide t is_null is_stub in_roots = Some (ref_spec is_null is_stub in_roots).
Proof. exact rtable_ok_sound. Qed.
Theorem kv2_reference_sites_agree : forall a b, rtables_agree a b = true ->
  forall is_null is_stub in_roots, decide a is_null is_stub in_roots = decide b is_null is_stub in_roots.
Proof. exact rtables_agree_sound. Qed.
(** Dropping [or child.is_stub] at one site is refuted: a non-root stub would be written inline. *)
Theorem kv2_stub_written_inline_refuted :
  (rtable_ok no_stub_rtable = false) /\ (rtables_agree pinned_rtable no_stub_rtable = false) /\
  decide no_stub_rtable false true false = Some AInline.
Proof. exact stub_inline_refuted. Qed.

(** The tokenizer (the real [_get_token] model of C02) run over the text the flat-layout writer emits gives exactly
    the writer's tokens, in order, then EOF: quoted escaped names and values come back as the strings (C02's
    [quoted_embedding]), [CR LF] as one NEWLINE, braces / brackets / commas as themselves, leading tabs vanish. *)
Theorem kv2_tokens_roundtrip : forall (T : tables) (o : opts) (fold : str -> str) (vtnames : list str),
  kv2_tables_ok T = true -> kv2_opts_ok o = true -> vtnames_ok T fold vtnames = true ->
  forall d, doc_ok T vtnames d = true -> tokenize T o (render_doc T d) = Some (toks_of (lex_doc d)).
Proof. exact kv2_tokens_roundtrip_gen. Qed.

(** KeyValues2, flat layout, at the level of the text: parsing the exported text of any document (elements with
    type, id, name; attributes with any name, a type keyword, scalar or array shape, value strings in order, NULL and
    UUID references, empty arrays) gives back the document. *)
Theorem kv2_flat_roundtrip : forall (T : tables) (o : opts) (fold : str -> str) (vtnames : list str),
  kv2_tables_ok T = true -> kv2_opts_ok o = true -> vtnames_ok T fold vtnames = true ->
  forall d, doc_ok T vtnames d = true -> parse_text T o fold vtnames (render_doc T d) = Some d.
Proof. exact kv2_flat_roundtrip_gen. Qed.

(** The fix-up pass: replacing element references by the UUID text of their target and resolving UUID texts against
    the ids of the parsed elements (unknown ids stay stubs) are inverse on every graph with pairwise distinct ids —
    sharing, self references and cycles, NULL and stub references are kept as such. *)
Theorem kv2_link_flatten : forall g, graph_ok g = true -> link (flatten g) = Some g.
Proof. exact link_flatten. Qed.

(** Text and graph together, flat layout: export, tokenize, parse, link gives back the graph. *)
Theorem kv2_flat_graph_roundtrip : forall (T : tables) (o : opts) (fold : str -> str) (vtnames : list str),
  kv2_tables_ok T = true -> kv2_opts_ok o = true -> vtnames_ok T fold vtnames = true ->
  forall g, graph_ok g = true -> doc_ok T vtnames (flatten g) = true ->
  match parse_text T o fold vtnames (render_doc T (flatten g)) with Some d => link d | None => None end = Some g.
Proof. exact kv2_flat_graph_roundtrip_gen. Qed.

Theorem kv2_graph_premises_satisfiable :
  graph_ok ex_gdoc && doc_ok pinned_tables pinned_vtnames (flatten ex_gdoc) = true.
Proof. exact kv2_graph_example. Qed.

(** KeyValues2, nested layout (the default), at the level of the text: elements used once are written as inline
    blocks inside the attribute or element array that holds them, to any depth.  Parsing the exported text with the
    full recursion of [_parse_kv2_element] gives back the tree of blocks, provided no *inline* element has an
    attribute type keyword (any casing, with or without [_array], or [elementid]) as its type name: [ndoc_ok] asks
    [type_is_keyword ty = false] of inline elements only — the writer puts the others at the top level. *)
Theorem kv2_nested_roundtrip : forall (T : tables) (o : opts) (fold : str -> str) (vtnames : list str),
  kv2_tables_ok T = true -> kv2_opts_ok o = true -> vtnames_ok T fold vtnames = true ->
  forall d, ndoc_ok T fold vtnames d = true -> parsen_text T o fold vtnames (rendern_doc T d) = Some d.
Proof. exact kv2_nested_roundtrip_gen. Qed.

Theorem kv2_nested_premises_satisfiable : ndoc_ok pinned_tables (fun s => s) pinned_vtnames ex_ndoc = true.
Proof. exact kv2_nested_example. Qed.

(** The carve-out is real (the repaired defect): an inline element of type "element" inside an element array is read
    as a UUID reference, one of type "int" in a scalar attribute as a typed attribute; neither text parses. *)
Theorem kv2_inline_keyword_type_refuted :
  let bad1 := [NElem [84] None [] [NAttr [97] s_element true [NInline (NElem s_element None [] [])]]]%N in
  let bad2 := [NElem [84] None [] [NAttr [97] s_element false [NInline (NElem [105;110;116] None [] [])]]]%N in
  (ndoc_ok pinned_tables (fun s => s) pinned_vtnames bad1 = false) /\
  (parsen_text pinned_tables pinned_kv2_opts (fun s => s) pinned_vtnames (rendern_doc pinned_tables bad1) = None) /\
  (ndoc_ok pinned_tables (fun s => s) pinned_vtnames bad2 = false) /\
  (parsen_text pinned_tables pinned_kv2_opts (fun s => s) pinned_vtnames (rendern_doc pinned_tables bad2) = None).
Proof. exact kv2_inline_keyword_refuted. Qed.

Theorem kv2_premises_satisfiable :
  kv2_tables_ok pinned_tables && kv2_opts_ok pinned_kv2_opts && vtnames_ok pinned_tables (fun s => s) pinned_vtnames &&
  doc_ok pinned_tables pinned_vtnames ex_kdoc = true.
Proof. exact kv2_premises_example. Qed.
(** A name written without escape_text that contains a quote does not re-tokenise. *)
Theorem kv2_unescaped_name_refuted :
  tokenize pinned_tables pinned_kv2_opts (render_lex pinned_tables [([], LRaw [97; 34; 98]); ([], LNl)])
  <> Some (toks_of [([], LRaw [97; 34; 98]); ([], LNl)]).
Proof. exact kv2_raw_name_refuted. Qed.

(** * The value strings of KeyValues2 *)

(** FLOAT and every component of VEC2 / VEC3 / VEC4 / ANGLE / QUATERNION are written by [_fmt_float]: the decimal the
    text denotes is the binary64 value rounded half-even at six places (C05's exact model of ['%.6f'], Num/Dec6.v),
    i.e. within 5e-7 of the value — "to 6 decimals in text".  [num_den x] is 10^6 |x| as an exact fraction. *)
Theorem kv2_float_text_six_decimals : forall (c : fmt_cfg) (x : dyadic),
  scaled_value (fmt_parts c x) = scaled6 x /\
  (2 * Z.abs (Z.of_N (scaled6 x) * Z.of_N (snd (num_den x)) - Z.of_N (fst (num_den x))) <= Z.of_N (snd (num_den x)))%Z.
Proof. exact float_text_value_gen. Qed.

(** A vector text — the component texts joined by single spaces — splits ([str.split()], any whitespace set that
    contains the space and no character of a decimal) into exactly the component texts, in order and number. *)
Theorem kv2_vector_text_splits : forall (is_ws : N -> bool) (c : fmt_cfg) (xs : list dyadic),
  is_ws SPC = true -> (forall ch, dec_char ch = true -> is_ws ch = false) ->
  parse_parts is_ws (length xs) (vec_text c xs) = Some (map (format6 c) xs).
Proof. exact vec_text_splits_gen. Qed.

(** INTEGER: [int(str(n)) = n] for every integer; COLOR: the four components come back. *)
Theorem kv2_int_text_roundtrip : forall z : Z, parse_int (int_text z) = Some z.
Proof. exact int_text_roundtrip_gen. Qed.
Theorem kv2_color_text_roundtrip : forall (is_ws : N -> bool) (r g b a : N),
  is_ws SPC = true -> (forall ch, dec_char ch = true -> is_ws ch = false) ->
  parse_color is_ws (color_text r g b a) = Some (Z.of_N r, Z.of_N g, Z.of_N b, Z.of_N a).
Proof. exact color_text_roundtrip_gen. Qed.

(** BINARY: upper-case hex pairs separated by single spaces parse back ([bytes.fromhex] skips whitespace between bytes). *)
Theorem kv2_hex_text_roundtrip : forall (is_ws : N -> bool),
  is_ws SPC = true -> (forall c, hex_char c = true -> is_ws c = false) ->
  forall bs, Forall (fun b => (b < 256)%N) bs -> parse_hex is_ws (hex_text bs) = Some bs.
Proof. exact hex_text_roundtrip_gen. Qed.

Theorem kv2_value_text_examples :
  (float_text dmx_float_cfg {| dneg := false; dm := 1451; de := (-1)%Z |} = [55; 50; 53; 46; 53]%N) /\
  (float_text dmx_float_cfg {| dneg := true; dm := 0; de := 0%Z |} = [45; 48]%N) /\
  (float_text dmx_float_cfg {| dneg := false; dm := 1; de := (-30)%Z |} = [48]%N) /\
  (float_text_cfg_ok dmx_float_cfg = true).
Proof. exact float_text_examples. Qed.
(** without the separator the components cannot be told apart *)
Theorem kv2_vector_text_needs_separator :
  let xs := [{| dneg := false; dm := 1; de := 0%Z |}; {| dneg := false; dm := 2; de := 0%Z |}] in
  parse_parts (fun c => (c =? 32)%N) 2 (concat (map (format6 dmx_float_cfg) xs)) = None.
Proof. exact vec_text_needs_separator. Qed.

(** * The three unicode modes *)

(** In every mode ('ascii', 'format' = marked with [unicode_] in the header, 'silent' = UTF-8 without marker, to be read
    with [unicode=True]) [Element.parse] decodes strings with the codec the exporter encoded them with, for the binary
    and the KeyValues2 form — for every configuration of marker / codec choices meeting the two named conditions.
    This is what instantiates the codec parameters [cenc] / [cdec] of [dmx_bin_roundtrip] consistently. *)
Theorem unicode_mode_codec_agreement : forall c, hdr_bin_ok c = true -> hdr_kv2_ok c = true ->
  forall m, reader_bin_utf8 c m = hb_utf8 c m /\ reader_kv2_utf8 c m = hk_utf8 c m.
Proof. exact codec_agreement_gen. Qed.
Theorem unicode_mode_premises_satisfiable : hdr_bin_ok pinned_hdr && hdr_kv2_ok pinned_hdr && hdr_modes_ok pinned_hdr = true.
Proof. exact hdr_example. Qed.
(** A writer that forgets the marker in 'format' mode is refuted: the reader would decode UTF-8 data as ASCII. *)
Theorem unicode_marker_forgotten_refuted :
  (hdr_bin_ok unmarked_hdr = false) /\ (reader_bin_utf8 unmarked_hdr UFormat = false) /\ (hb_utf8 unmarked_hdr UFormat = true).
Proof. exact hdr_unmarked_refuted. Qed.

(** * The element's dict of members below the binary document (round 3)

    [Fmt/DmxBin.v] gives an element a name and a list of attribute records.  The implementation holds one ordered dict,
    keyed by the casefolded attribute name, in which the name is the member keyed "name" — removable through the public
    mapping API (clear, del, pop, popitem) and re-addable anywhere (the name setter, an attribute assigned as 'NAME').
    [export_binary] writes a count and then one record per member its loop does not skip; count expression and skip
    tests are read from the source ([cntcfg]). *)

(** The count written is the number of records written, for every dict with pairwise distinct keys — with or without
    the "name" member, wherever it sits.  ([cnt_cfg_ok]: the count is len(elem) - ('name' in elem._members) or the number
    of members keyed other than "name"; both loops skip exactly the key "name"; Element.name reads that member, "" if
    missing.) *)
Theorem attr_count_is_records_written : forall c m, cnt_cfg_ok c = true -> keys_nodup m ->
  count_written c m = Z.of_nat (length (records (cc_write_filter c) m)).
Proof. exact count_is_records. Qed.

(** Every operation of the mapping API (clear, del, pop, popitem, the name setter, item assignment, setdefault — for any
    casefold function) keeps the keys pairwise distinct; hence so does every history on a fresh element. *)
Theorem element_api_keeps_keys_distinct : forall fold m op, keys_nodup m -> keys_nodup (apply_op fold m op).
Proof. exact apply_op_keys_nodup. Qed.
Theorem element_api_history_keys_distinct : forall fold ops name, keys_nodup (run_ops fold ops (init_members name)).
Proof. exact history_keys_nodup. Qed.

(** For every API history on a fresh element the count written equals the records written. *)
Theorem attr_count_is_records_after_any_history : forall c fold ops name, cnt_cfg_ok c = true ->
  let m := run_ops fold ops (init_members name) in
  count_written c m = Z.of_nat (length (records (cc_write_filter c) m)).
Proof. exact history_count_is_records. Qed.

(** The bytes written from the real dicts are the bytes of the document they denote (name = the "name" member or "",
    attributes = the other members in dict order) ... *)
Theorem members_export_is_document_export :
  forall (cenc : enc -> str -> bytes) (cfg : dmxcfg) (cc : cntcfg), cnt_cfg_ok cc = true ->
  forall v rd, Forall (fun r => keys_nodup (r_members r)) rd ->
    export_raw cenc cfg cc v rd = export_bin cenc cfg v (map (abstract cc) rd).
Proof. exact export_raw_is_export_bin. Qed.

(** ... and parse back to it (composition with [dmx_bin_roundtrip]), versions 0-5. *)
Theorem dmx_bin_members_roundtrip :
  forall (cenc : enc -> str -> bytes) (cdec : enc -> bytes -> option str) (cfg : dmxcfg) (cc : cntcfg), cnt_cfg_ok cc = true ->
  forall v rd, bin_cfg_ok cfg = true -> Forall (fun r => keys_nodup (r_members r)) rd ->
    expressible cenc cdec cfg v (map (abstract cc) rd) ->
    parse_bin cdec cfg v (export_raw cenc cfg cc v rd) = Some (map (abstract cc) rd).
Proof. exact members_bin_roundtrip. Qed.

(** Satisfiable: the configuration of the repaired tree, and a two-element graph whose root was cleared and refilled
    (no "name" member) and whose child had its name popped and set again (name member last), versions 5 and 1. *)
Theorem members_premises_satisfiable :
  cnt_cfg_ok good_cnt = true /\
  map (fun r => (has_key s_name (r_members r), length (r_members r))) hist_rdoc = [(false, 2%nat); (true, 2%nat)] /\
  (forall v, v = 5%N \/ v = 1%N ->
     parse_bin iddec good_cfg v (export_raw idenc good_cfg good_cnt v hist_rdoc) = Some (map (abstract good_cnt) hist_rdoc)).
Proof. split; [exact good_cnt_ok | split; [exact (proj1 hist_rdoc_shape) | exact members_roundtrip_example]]. Qed.

(** [len(elem) - 1] (the class of seeded fault c14_3) fails exactly [count_expr_ok]: after "clear, then assign" the count
    is one less than the records, the exported graph is not read back; untouched elements are written as before. *)
Theorem attr_count_minus_one_refuted :
  count_expr_ok minus_one_cnt = false /\ write_filter_ok minus_one_cnt = true /\ collect_filter_ok minus_one_cnt = true /\
  name_getter_ok minus_one_cnt = true /\
  (let m := run_ops (fun s => s) hist_ops (init_members [110]%N) in
   count_written minus_one_cnt m = 1%Z /\ length (records (cc_write_filter minus_one_cnt) m) = 2%nat) /\
  parse_bin iddec good_cfg 5 (export_raw idenc good_cfg minus_one_cnt 5 hist_rdoc) <> Some (map (abstract minus_one_cnt) hist_rdoc) /\
  (forall name, count_written minus_one_cnt (init_members name) = 0%Z).
Proof. exact count_minus_one_refuted. Qed.

(** A writing loop that tests the attribute's case-preserved name instead of the dict key (the defect class repaired
    in round 1): after [elem['NAME'] = 'x'] the only member is keyed "name", the count is 0, one record is written. *)
Theorem attr_loop_on_real_name_refuted :
  write_filter_ok real_name_cnt = false /\ count_expr_ok real_name_cnt = true /\
  (let m := run_ops ascii_lower [OSet [78; 65; 77; 69]%N (VStr (Scalar [120]%N))] (init_members [110]%N) in
   map fst m = [s_name] /\ count_written real_name_cnt m = 0%Z /\ length (records (cc_write_filter real_name_cnt) m) = 1%nat).
Proof. exact write_filter_on_real_name_refuted. Qed.

(** * The dict the readers build (round 3)

    [Element(name, type, uuid)] starts with the member keyed "name"; parse_bin and _parse_kv2_element store every record
    read by [elem._members[KEY] = Attribute(attr_name, ...)].  The mapping API looks [name.casefold()] up, so KEY must be
    the casefolded name; which expression KEY is at each of the three sites is read from the source ([parsecfg]). *)

(** Built from a document element whose folded attribute names are pairwise distinct and not "name": the name member,
    then one member per record under its casefolded name, in order. *)
Theorem reader_dict_shape : forall fold e, elem_names_ok fold e ->
  parsed_members fold KFolded e =
  (s_name, {| aname := s_name; adata := VStr (Scalar (ename e)) |}) :: map (fun a => (fold (aname a), a)) (eattrs e).
Proof. exact parsed_members_shape. Qed.

(** It is keyed by the casefolded names (the invariant [elem[name]], [in], [del] rely on), keys pairwise distinct, ... *)
Theorem reader_dict_keyed_by_casefolded_names : forall fold e, fold s_name = s_name -> elem_names_ok fold e ->
  keyed_by_fold fold (parsed_members fold KFolded e) /\ keys_nodup (parsed_members fold KFolded e).
Proof. exact parsed_members_keyed. Qed.

(** ... [elem[a.name]] finds every attribute [a] that was read, ... *)
Theorem reader_dict_lookup_finds_every_attribute : forall fold e a, elem_names_ok fold e -> In a (eattrs e) ->
  lookup fold (parsed_members fold KFolded e) (aname a) = Some a.
Proof. exact parsed_lookup. Qed.

(** ... and the element denotes the document element it was built from (name, attributes in order). *)
Theorem reader_dict_denotes_the_document_element : forall fold cc e, name_getter_ok cc = true -> elem_names_ok fold e ->
  abstract cc (parsed_relem fold KFolded e) = e.
Proof. exact parsed_abstract. Qed.

(** Every operation of the mapping API keeps the dict keyed by the casefolded names ([fold "name" = "name"]: a run-time
    obligation for str.casefold); hence so does every history on a fresh element. *)
Theorem element_api_keeps_dict_keyed : forall fold m op, fold s_name = s_name -> keyed_by_fold fold m -> keyed_by_fold fold (apply_op fold m op).
Proof. exact apply_op_keyed. Qed.
Theorem element_api_history_dict_keyed : forall fold ops name, fold s_name = s_name -> keyed_by_fold fold (run_ops fold ops (init_members name)).
Proof. exact history_keyed. Qed.

(** Composition (binary, versions 0-5): export the real dicts, parse the bytes, build the dicts — each is the canonical
    form of the dict exported: the name member (or "" if it was missing) first, every other member under its key, in order. *)
Theorem dmx_bin_members_reader_roundtrip :
  forall (cenc : enc -> str -> bytes) (cdec : enc -> bytes -> option str) (cfg : dmxcfg) (cc : cntcfg) (fold : str -> str),
  cnt_cfg_ok cc = true -> bin_cfg_ok cfg = true ->
  forall v rd, Forall (fun r => keys_nodup (r_members r)) rd -> Forall (fun r => keyed_by_fold fold (r_members r)) rd ->
    expressible cenc cdec cfg v (map (abstract cc) rd) ->
    exists d, parse_bin cdec cfg v (export_raw cenc cfg cc v rd) = Some d /\
              map (parsed_members fold KFolded) d = map (fun r => canonical cc (r_members r)) rd.
Proof. exact members_bin_reader_roundtrip. Qed.

(** A reader that stores a record under the name as written fails [parse_keys_ok]: the attribute "Ab" is in the dict
    but [elem["Ab"]] does not find it; with the casefolded key both "Ab" and "aB" find it. *)
Theorem reader_key_as_written_refuted :
  parse_keys_ok {| pk_bin := KAsWritten; pk_kv2_attr := KFolded; pk_kv2_inline := KFolded; pk_init_key := s_name; pk_init_name := s_name |} = false /\
  lookup ascii_lower (parsed_members ascii_lower KAsWritten ab_elem) [65; 98]%N = None /\
  keyed_by_foldb ascii_lower (parsed_members ascii_lower KAsWritten ab_elem) = false /\
  lookup ascii_lower (parsed_members ascii_lower KFolded ab_elem) [65; 98]%N = Some (int_attr [65; 98]%N 5) /\
  lookup ascii_lower (parsed_members ascii_lower KFolded ab_elem) [97; 66]%N = Some (int_attr [65; 98]%N 5) /\
  keyed_by_foldb ascii_lower (parsed_members ascii_lower KFolded ab_elem) = true.
Proof. exact key_as_written_refuted. Qed.
Theorem reader_dict_premises_satisfiable : parse_keys_ok good_parse && init_member_ok good_parse = true /\ elem_names_ok ascii_lower ab_elem.
Proof. split; [exact good_parse_ok | exact names_ok_example]. Qed.

(** * KeyValues2 at the level of the dict (round 3)

    [_export_kv2] writes the line ["name" "string" <Element.name>] and then one record per member its loop keeps (skip
    test [attr.name == 'name']: the case-preserved name, read from the source); [_parse_kv2_element] sends a record that
    passes its name test to the [name] setter and stores every other record under KEY. *)

(** What the reader builds from what the writer wrote for a dict keyed by the casefolded names: a name member holding
    Element.name, then every member keyed other than "name" under its key, in order — for either name test and every
    skip test that skips only the member keyed "name" ([kv2_filter_ok]). *)
Theorem kv2_dict_read_of_written : forall fold t cc f (m : members) block_name,
  fold s_name = s_name -> name_getter_ok cc = true -> kv2_filter_ok f = true ->
  keys_nodup m -> keyed_by_fold fold m -> name_is_string m ->
  exists an, adata an = VStr (Scalar (rname cc m)) /\ fold (aname an) = s_name /\
    kv2_read fold t KFolded block_name (kv2_written cc f m) = (s_name, an) :: records (FKeyIs s_name) m.
Proof. exact kv2_read_written. Qed.

(** Hence the element read denotes the element written: same name, same attribute records in the same order ... *)
Theorem kv2_dict_roundtrip : forall fold t cc f (r : relem) block_name,
  fold s_name = s_name -> name_getter_ok cc = true -> kv2_filter_ok f = true ->
  keys_nodup (r_members r) -> keyed_by_fold fold (r_members r) -> name_is_string (r_members r) ->
  abstract cc {| r_type := r_type r; r_uuid := r_uuid r; r_members := kv2_read fold t KFolded block_name (kv2_written cc f (r_members r)) |}
  = abstract cc r.
Proof. exact kv2_members_roundtrip. Qed.

(** ... for every history of the mapping API on a fresh element that leaves the name member, if any, a string. *)
Theorem kv2_dict_roundtrip_after_any_history : forall fold t cc f ops name ty uu block_name,
  fold s_name = s_name -> name_getter_ok cc = true -> kv2_filter_ok f = true ->
  let m := run_ops fold ops (init_members name) in
  name_is_string m ->
  abstract cc {| r_type := ty; r_uuid := uu; r_members := kv2_read fold t KFolded block_name (kv2_written cc f m) |}
  = abstract cc {| r_type := ty; r_uuid := uu; r_members := m |}.
Proof. exact kv2_members_roundtrip_after_history. Qed.

(** [clear(); elem['NAME'] = 'x'; elem['Ab'] = 5]: with the skip test of _export_kv2 the member spelled NAME is written as a
    record too and the reader stores it under "name" again: spelling kept; with the dict-key test of export_binary, or with
    a casefolding name test in the reader, it comes back spelled "name".  All denote the same element. *)
Theorem kv2_dict_name_spelling_example :
  map fst kv2_hist_m = [s_name; [97; 98]%N] /\
  name_is_string kv2_hist_m /\
  option_map aname (mget s_name (kv2_read ascii_lower TExact KFolded [] (kv2_written good_cnt (FRealNameIs s_name) kv2_hist_m))) = Some name_upper /\
  option_map aname (mget s_name (kv2_read ascii_lower TExact KFolded [] (kv2_written good_cnt (FKeyIs s_name) kv2_hist_m))) = Some s_name /\
  option_map aname (mget s_name (kv2_read ascii_lower TFolded KFolded [] (kv2_written good_cnt (FRealNameIs s_name) kv2_hist_m))) = Some s_name /\
  map fst (kv2_read ascii_lower TExact KFolded [] (kv2_written good_cnt (FRealNameIs s_name) kv2_hist_m)) = [s_name; [97; 98]%N].
Proof. exact kv2_name_spelling_example. Qed.

(** A loop that skips a member keyed otherwise fails [kv2_filter_ok] and loses that attribute. *)
Theorem kv2_dict_skip_of_another_key_refuted :
  kv2_filter_ok (FKeyIs [97; 98]%N) = false /\ kv2_filter_ok (FRealNameIs s_name) = true /\ kv2_filter_ok (FKeyIs s_name) = true /\
  map fst (kv2_read ascii_lower TExact KFolded [] (kv2_written good_cnt (FKeyIs [97; 98]%N) kv2_hist_m)) = [s_name].
Proof. exact kv2_skip_other_key_refuted. Qed.

(** * from_kv1: which name of a leaf its two tests read (round 3)

    [from_kv1_sel] is from_kv1 with the name read by the reserved-name test and by the duplicate-leaf test as parameters
    (casefolded [child.name] / case-preserved [child.real_name]; read from the source).  With both on the casefolded name
    it is [from_kv1], so the bridge theorem holds for it. *)
Theorem kv1_bridge_roundtrip_by_name_selection : forall fold cfg rs ds,
  kv1_cfg_ok cfg = true -> fold_ok fold cfg -> kv1_sel_ok rs ds = true ->
  forall t, wf_kv t = true -> to_kv1 fold cfg (from_kv1_sel fold cfg rs ds t) = Some t.
Proof. exact kv1_bridge_roundtrip_sel. Qed.

(** The reserved-name test on the case-preserved name (the class of seeded fault c14_4): block "Entity" { "Name" "Fred" }
    — the leaf is inlined, overwrites the element's own name, and the block comes back named "Fred". *)
Theorem kv1_reserved_test_on_real_name_is_refuted :
  kv1_cfg_ok spelled_cfg = true /\ wf_kv entity_tree = true /\
  to_kv1 kv_lower spelled_cfg (from_kv1_sel kv_lower spelled_cfg NFolded NFolded entity_tree) = Some entity_tree /\
  to_kv1 kv_lower spelled_cfg (from_kv1_sel kv_lower spelled_cfg NReal NFolded entity_tree)
  = Some (KBlock (Some [70; 114; 101; 100]%N) [KLeaf [78; 97; 109; 101]%N [70; 114; 101; 100]%N]).
Proof. exact kv1_reserved_test_on_real_name_refuted. Qed.

(** The duplicate test on the case-preserved name: "Key" and "KEY" are both inlined under one dict key, one is lost. *)
Theorem kv1_duplicate_test_on_real_name_is_refuted :
  to_kv1 kv_lower spelled_cfg (from_kv1_sel kv_lower spelled_cfg NFolded NFolded dup_tree) = Some dup_tree /\
  to_kv1 kv_lower spelled_cfg (from_kv1_sel kv_lower spelled_cfg NFolded NReal dup_tree) = Some (KBlock (Some [66]%N) [KLeaf [75; 69; 89]%N [50]%N]).
Proof. exact kv1_duplicate_test_on_real_name_refuted. Qed.

(** * The nested KeyValues2 layout, graph to graph (round 4)

    [export_kv2] counts the uses of every element, makes the exported element, every element used more than once and every
    element whose type is an attribute type keyword a root (a top-level block referred to by UUID) and writes the others
    inline where they are used.  The rule is a generated object ([rootcfg], read from the source); [nest_doc] is the
    graph -> tree of blocks step, [unnest] what the reader registers for a tree of blocks. *)

(** A root rule meeting [root_rule_ok] decides exactly: flat layout, or used twice or more (the exported element
    counts once for itself), or a keyword type, or the exported element. *)
Theorem kv2_root_rule : forall fold vtnames c, root_rule_ok c = true -> forall flat g j,
  is_root fold vtnames c flat g j =
  flat || Nat.leb 2 (occ g j + (if Nat.eqb j 0 then 1 else 0)) || type_is_keyword fold vtnames (ge_type (nth j g dflt_gelem)) || Nat.eqb j 0.
Proof. exact root_rule_spec. Qed.

(** Hence an element written inline is referred to at most once in the whole graph, is not the exported element and
    has no keyword type. *)
Theorem kv2_non_root_used_at_most_once : forall fold vtnames c, root_rule_ok c = true -> forall flat g j,
  is_root fold vtnames c flat g j = false ->
  (occ g j <= 1)%nat /\ j <> 0%nat /\ type_is_keyword fold vtnames (ge_type (nth j g dflt_gelem)) = false /\ flat = false.
Proof. exact non_root_used_at_most_once. Qed.

(** Nothing is invented: for any root predicate, every block of the tree is, read back, an element of the graph — type,
    id, name, attributes in order, every element value naming the id of its target (NULL and stubs as such). *)
Theorem kv2_nest_only_graph_elements : forall g isroot d, nest_doc g isroot false = Some d ->
  forall k, In k (unnest d) -> exists i, (i < length g)%nat /\ k = flat_elem (ids g) (nth i g dflt_gelem).
Proof. exact nest_only_graph_elements. Qed.

(** Every element reachable from the exported one is written (cycles included: a cycle always passes through a root). *)
Theorem kv2_nest_complete : forall g isroot d, isroot 0%nat = true -> g <> [] -> refs_in_range g -> nest_doc g isroot false = Some d ->
  forall j, reach g j -> In (flat_elem (ids g) (nth j g dflt_gelem)) (unnest d).
Proof. exact nest_complete. Qed.

(** A block written inline is never a root: references by id go to top-level blocks (or stubs) only, so leaving the id
    of inline blocks out ([cull_uuid]) loses no reference. *)
Theorem kv2_inline_blocks_are_not_roots : forall g isroot f i, Forall (fun j => isroot j = false) (List.tl (blocks g isroot f i)).
Proof. exact inline_blocks_not_roots. Qed.

(** The graph the fix-up pass builds ([link]) written out again with references by id is the document that was read, for
    every document: [link d] is determined by [d] up to the numbering of its elements (the converse of [kv2_link_flatten]). *)
Theorem kv2_flatten_link : forall d g, link d = Some g -> flatten g = d.
Proof. exact flatten_link. Qed.

(** [cull_uuid]: the tree written is the tree written without the option, with the id of every inline block left out; top-level
    blocks keep theirs.  With [kv2_inline_blocks_are_not_roots] no reference names a block without id. *)
Theorem kv2_cull_uuid_erases_inline_ids_only : forall g isroot,
  nest_doc g isroot true = option_map (map (erase_elem true)) (nest_doc g isroot false).
Proof. exact nest_doc_cull. Qed.

(** The writer's recursion ends: below a root no chain of inline blocks is longer than the number of elements (the blocks of
    different levels are different elements), so the tree of blocks exists. *)
Theorem kv2_nest_total : forall g fold vtnames c, root_rule_ok c = true -> graph_ok g = true ->
  exists d, nest_doc g (is_root fold vtnames c false g) false = Some d.
Proof. exact nest_total. Qed.

(** Sharing: with the root rule no element is written twice (an element that is not a root has one holder; the blocks are
    counted level by level below the roots). *)
Theorem kv2_nest_written_once : forall g fold vtnames c, root_rule_ok c = true -> graph_ok g = true ->
  forall d, nest_doc g (is_root fold vtnames c false g) false = Some d -> written_once d = true.
Proof. exact nest_written_once. Qed.

(** The whole step: what the reader registers is a permutation of the flat document of the graph, the exported element first. *)
Theorem kv2_nest_is_flatten_permuted : forall g fold vtnames c, root_rule_ok c = true -> graph_ok g = true ->
  forall d, g <> [] -> (forall j, (j < length g)%nat -> reach g j) -> nest_doc g (is_root fold vtnames c false g) false = Some d ->
  Permutation.Permutation (unnest d) (flatten g) /\ exists rest, unnest d = flat_elem (ids g) (nth 0 g dflt_gelem) :: rest.
Proof. exact nest_is_flatten_permuted. Qed.

(** The tree of blocks is one the text can carry ([ndoc_ok], the premise of [kv2_nested_roundtrip]): no inline block has a
    keyword type — because such elements are roots. *)
Theorem kv2_nest_carried_by_text : forall g T fold vtnames c, root_rule_ok c = true -> doc_ok T vtnames (flatten g) = true ->
  forall d, g <> [] -> nest_doc g (is_root fold vtnames c false g) false = Some d -> ndoc_ok T fold vtnames d = true.
Proof. exact nest_ndoc_ok. Qed.

(** Example (sharing, a self reference, a cycle through an inline block, depth 2, a stub, NULL): two top-level blocks, four
    elements, each once. *)
Theorem kv2_nest_example :
  graph_ok ex_graph = true /\ root_rule_ok pinned_rootcfg = true /\
  (match nest_doc ex_graph (ex_isroot pinned_rootcfg ex_graph) false with
   | Some d => (length d =? 2)%nat && (length (unnest d) =? 4)%nat && written_once d && ndoc_ok pinned_tables (fun s => s) pinned_vtnames d
   | None => false
   end) = true.
Proof. exact ex_graph_nested. Qed.

(** [count > 2] instead of [count > 1] fails [root_rule_ok]; an element used twice is then written inline twice and the
    reader gets two elements for one (refutation witness for the class "threshold of the use count"). *)
Theorem kv2_late_root_rule_refuted :
  root_rule_ok late_rootcfg = false /\
  (match nest_doc ex_shared (ex_isroot late_rootcfg ex_shared) false with
   | Some d => (length (unnest d) =? 3)%nat && negb (written_once d)
   | None => false
   end) = true /\
  (match nest_doc ex_shared (ex_isroot pinned_rootcfg ex_shared) false with
   | Some d => (length (unnest d) =? 2)%nat && written_once d
   | None => false
   end) = true.
Proof. exact late_root_rule_refuted. Qed.

(** An inline block starts with the name of the attribute that holds it: without its name line an element with an empty
    name comes back named after the attribute (the class of seeded fault c14_6; obligation [kv2_name_line_written_for_every_element]). *)
Theorem kv2_nameless_inline_block_takes_attribute_name_refuted :
  parsen_tokens (fun s => s) pinned_vtnames nameless_inline_tokens =
  Some [NElem [84%N] None [] [NAttr [99%N] s_element false [NInline (NElem [67%N] None [99%N] [])]]].
Proof. exact nameless_inline_block_takes_attribute_name. Qed.

(** * The whole property, one statement per encoding (round 4) *)

(** Binary (versions 0-5).  For every codec pair, every configuration meeting the named conditions and every angle
    normalisation that is the identity below 360: take the real dicts [rd] of the elements (keys pairwise distinct and
    casefolded: every history of the mapping API, theorems 49 and 64) whose values are the packed form of the typed
    values [td] (representable in their wire types), expressible in version [v].  The bytes [export_binary] writes from
    the dicts parse to a document that (1) unpacks to exactly [td] — types, names, UUIDs, attribute names with their
    casing, order, value types, shapes, values, references by index (sharing, cycles), NULL, stubs — and (2) gives the
    reader dicts that are the canonical form of the dicts exported. *)
Theorem c14_property_binary :
  forall (cenc : enc -> DmxBin.str -> bytes) (cdec : enc -> bytes -> option DmxBin.str) (cfg : dmxcfg) (scfg : scalarcfg) (cc : cntcfg)
         (fold : DmxBin.str -> DmxBin.str) (anorm : N -> N),
    bin_cfg_ok cfg = true -> scalar_cfg_ok scfg = true -> sizes_match_formats scfg cfg = true -> cnt_cfg_ok cc = true ->
    (forall b, (b < ANGLE_360)%N -> anorm b = b) ->
    forall (v : N) (rd : rdoc) (td : tdoc),
      Forall (fun r => keys_nodup (r_members r)) rd -> Forall (fun r => keyed_by_fold fold (r_members r)) rd ->
      tdoc_rep fdiv64 scfg td -> lower_doc fmul64 scfg td = Some (map (abstract cc) rd) ->
      expressible cenc cdec cfg v (map (abstract cc) rd) ->
      exists d, parse_bin cdec cfg v (export_raw cenc cfg cc v rd) = Some d /\
                lift_doc fdiv64 anorm scfg d = Some td /\
                map (parsed_members fold KFolded) d = map (fun r => canonical cc (r_members r)) rd.
Proof. exact c14_property_binary_gen. Qed.

Theorem c14_property_binary_premises_satisfiable :
  bin_cfg_ok good_cfg = true /\ scalar_cfg_ok pinned_scalar = true /\ sizes_match_formats pinned_scalar good_cfg = true /\
  cnt_cfg_ok good_cnt = true /\
  Forall (fun r => keys_nodup (r_members r)) hist_rdoc /\ Forall (fun r => keyed_by_fold (fun s => s) (r_members r)) hist_rdoc /\
  tdoc_rep fdiv64 pinned_scalar hist_tdoc /\ lower_doc fmul64 pinned_scalar hist_tdoc = Some (map (abstract good_cnt) hist_rdoc) /\
  expressible idenc iddec good_cfg 5 (map (abstract good_cnt) hist_rdoc).
Proof. exact c14_property_binary_example. Qed.

(** KeyValues2.  For all tokenizer tables / options / casefold / keyword list / root rule meeting the named conditions and
    every element graph [g] (ids pairwise distinct, references in range, stub ids not element ids; strings the format can
    carry: [doc_ok]; every element reachable from the exported one): flat layout — the exported text, tokenized, parsed and
    linked is [g]; nested layout — the tree of blocks [d] the root rule gives is parsed back from its text, contains every
    element exactly once (sharing, cycles: by reference to a top-level block), the exported one first, and the elements
    the reader registers are, up to order, the flat document of [g], whose references resolve to [g]; the graph [g'] the fix-up
    pass builds from them has that document as its flat document — [g'] and [g] are the same graph up to the order in which
    the elements are listed. *)
Theorem c14_property_kv2 :
  forall (T : tables) (o : opts) (fold : Str.str -> Str.str) (vtnames : list Str.str) (c : rootcfg),
    kv2_tables_ok T = true -> kv2_opts_ok o = true -> vtnames_ok T fold vtnames = true -> root_rule_ok c = true ->
    forall g : gdoc, graph_ok g = true -> doc_ok T vtnames (flatten g) = true -> g <> [] -> (forall j, (j < length g)%nat -> reach g j) ->
      match parse_text T o fold vtnames (render_doc T (flatten g)) with Some d => link d | None => None end = Some g /\
      exists d, nest_doc g (is_root fold vtnames c false g) false = Some d /\
        parsen_text T o fold vtnames (rendern_doc T d) = Some d /\
        written_once d = true /\
        Permutation.Permutation (unnest d) (flatten g) /\
        (exists rest, unnest d = flat_elem (ids g) (nth 0 g dflt_gelem) :: rest) /\
        (exists g', link (unnest d) = Some g' /\ flatten g' = unnest d) /\
        link (flatten g) = Some g.
Proof. exact c14_property_kv2_gen. Qed.

Theorem c14_property_kv2_premises_satisfiable :
  kv2_tables_ok pinned_tables && kv2_opts_ok pinned_kv2_opts && vtnames_ok pinned_tables (fun s => s) pinned_vtnames &&
  root_rule_ok pinned_rootcfg && graph_ok ex_graph && doc_ok pinned_tables pinned_vtnames (flatten ex_graph) = true /\
  (forall j, (j < length ex_graph)%nat -> reach ex_graph j).
Proof. exact c14_property_kv2_example. Qed.

(** * "Isomorphic graph" with the isomorphism written out (round 5) *)

(** Two graphs (ids pairwise distinct, references in range, stub ids not element ids) whose flat documents are permutations
    of each other are isomorphic: the renumbering by id [by_id g g'] (index [i] of [g] goes to the index in [g'] of the
    element with the same id) is injective, keeps the number of elements, and element [by_id i] of [g'] is element [i] of
    [g] with every element reference [j] replaced by [by_id j] — type, id, name, attribute names with their casing, order,
    types, shapes and strings equal, NULL and stubs as such, sharing and cycles carried by the renumbered references. *)
Theorem kv2_permuted_flat_documents_are_isomorphic : forall g g' : gdoc, graph_ok g = true -> graph_ok g' = true ->
  Permutation.Permutation (flatten g') (flatten g) -> graph_iso (by_id g g') g g'.
Proof. exact perm_graph_iso. Qed.

(** [graph_iso] leaves no freedom besides the numbering: an isomorphism that is the identity on indexes relates equal graphs. *)
Theorem kv2_graph_iso_identity : forall g g' : gdoc, graph_iso (fun i => i) g g' -> g' = g.
Proof. exact graph_iso_identity. Qed.

(** What the fix-up pass of [parse_kv2] builds is a graph whenever no id was registered twice: every resolved reference is
    in range and an id that stays a stub is not the id of a registered element. *)
Theorem kv2_fixup_builds_a_graph : forall d g0, link d = Some g0 -> NoDup (map id_text d) -> graph_ok g0 = true.
Proof. exact link_graph_ok. Qed.

(** The whole property for the nested layout with the isomorphism explicit.  Same hypotheses as [c14_property_kv2]: the
    tree of blocks [d] the root rule gives is parsed back from its text; the fix-up pass builds a graph [g'] from the
    elements registered for it; [g'] is isomorphic to the exported graph [g] by the renumbering by id, and the isomorphism
    maps the exported element to the element [Element.parse] returns (the first one). *)
Theorem c14_property_kv2_iso :
  forall (T : tables) (o : opts) (fold : Str.str -> Str.str) (vtnames : list Str.str) (c : rootcfg),
    kv2_tables_ok T = true -> kv2_opts_ok o = true -> vtnames_ok T fold vtnames = true -> root_rule_ok c = true ->
    forall g : gdoc, graph_ok g = true -> doc_ok T vtnames (flatten g) = true -> g <> [] -> (forall j, (j < length g)%nat -> reach g j) ->
      exists d g',
        nest_doc g (is_root fold vtnames c false g) false = Some d /\
        parsen_text T o fold vtnames (rendern_doc T d) = Some d /\
        link (unnest d) = Some g' /\ graph_ok g' = true /\
        graph_iso (by_id g g') g g' /\ by_id g g' 0%nat = 0%nat.
Proof. exact c14_property_kv2_iso_gen. Qed.

(** Example: read back from the nested layout, the elements of [ex_graph] are listed in the order of the blocks; the
    renumbering is 0, 1, 2, 3 -> 0, 3, 1, 2 (not the identity), and what is read is a graph. *)
Theorem kv2_iso_example :
  match nest_doc ex_graph (ex_isroot pinned_rootcfg ex_graph) false with
  | Some d => match link (unnest d) with
              | Some g' => (map (by_id ex_graph g') [0; 1; 2; 3]%nat, graph_ok g', negb (Nat.eqb (by_id ex_graph g' 1%nat) 1%nat))
              | None => ([], false, false)
              end
  | None => ([], false, false)
  end = ([0; 3; 1; 2]%nat, true, true).
Proof. exact iso_example. Qed.

(** The executable test of [graph_iso] the check runs (kernel-evaluated) on the graph the real [Element.parse] returns for every
    nested-layout case of the correspondence: when it answers [true] the two graphs are isomorphic by that renumbering. *)
Theorem kv2_graph_iso_test_sound : forall s g g', graph_iso_b s g g' = true -> graph_iso s g g'.
Proof. exact graph_iso_b_sound. Qed.

(** * [cull_uuid]: what the option loses (round 5) *)

(** The tree of blocks written with [cull_uuid] does not depend on the ids of the elements written inline: for any root
    predicate, two graphs with the same types, names and attributes (references included) element by element and the same
    ids for the roots have the same culled export. *)
Theorem kv2_culled_export_ignores_inline_ids : forall (isroot : nat -> bool) (g g2 : gdoc),
  differs_in_inline_ids isroot g g2 -> nest_doc g isroot true = nest_doc g2 isroot true.
Proof. exact culled_export_ignores_inline_ids. Qed.

(** Hence it is the erasure of the unculled tree of any of these graphs: the reader, which gives every block without id
    line a fresh UUID, returns one of them (that step — a fresh UUID per id-less block — is not modelled; the text
    correspondence and the oracle compare the structure). *)
Theorem kv2_culled_export_is_erasure_of_either : forall (isroot : nat -> bool) (g g2 : gdoc),
  differs_in_inline_ids isroot g g2 ->
  nest_doc g isroot true = option_map (map (erase_elem true)) (nest_doc g2 isroot false).
Proof. exact culled_export_is_erasure_of_either. Qed.

(** Example: [ex_graph] with other ids for its two inline elements has the same culled text and another unculled text. *)
Theorem kv2_culled_export_example :
  differs_in_inline_ids (ex_isroot pinned_rootcfg ex_graph) ex_graph ex_graph_relabelled /\
  (let r := ex_isroot pinned_rootcfg ex_graph in
   map r [0; 1; 2; 3]%nat = [true; true; false; false] /\
   ondoc_same (nest_doc ex_graph r true) (nest_doc ex_graph_relabelled r true) = true /\
   ondoc_same (nest_doc ex_graph r false) (nest_doc ex_graph_relabelled r false) = false /\
   match nest_doc ex_graph r true with Some d => negb (str_eqb (rendern_doc pinned_tables d) []) | None => false end = true).
Proof. exact (conj ex_graph_relabelled_differs culled_export_example). Qed.
