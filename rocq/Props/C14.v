(** C14 — DMX export/parse preserves the element graph (binary form, type codes, KeyValues1 bridge).
    Only statements here; proofs are in Fmt/DmxCodesProofs.v, Fmt/DmxBinLemmas.v, Fmt/DmxBinProofs.v, Fmt/DmxKv1Proofs.v.
    Every theorem is generic in the configuration that translate/c14_dmx.py regenerates from dmx.py
    (Gen/DmxCodes_gen.v: [gen_cfg], [gen_kv1]); the check discharges the boolean premises for the generated
    instance on every run. *)
From Coq Require Import NArith ZArith List Bool.
From SV Require Import Fmt.DmxCodes Fmt.DmxCodesProofs Fmt.DmxBin Fmt.DmxBinProofs Fmt.DmxKv1 Fmt.DmxKv1Proofs Gen.DmxCodes_gen.
Import ListNotations.

(** The premises of the theorems below, for the configuration generated from today's source.  The check proves
    [c14_instance_premises = true] part by part (named instance obligations) on every run. *)
Definition c14_instance_premises : bool := bin_cfg_ok gen_cfg && kv1_cfg_ok gen_kv1.

(** The attribute type byte: encode then decode gives back the value type and the scalar/array flag, for all 14
    types and both shapes. *)
Theorem type_code_roundtrip : forall cfg, codes_ok cfg = true ->
  forall t arr, exists b, encode_code cfg t arr = Some b /\ (b < 256)%N /\ decode_code cfg b = Some (t, arr).
Proof. exact type_code_roundtrip_gen. Qed.

(** With the pinned tree's decode test ([>= ARRAY_OFFSET]) a scalar MATRIX (code 14) does not decode. *)
Theorem type_code_roundtrip_refuted_on_pinned_tree :
  encode_code pinned_cfg TMatrix false = Some 14%N /\ decode_code pinned_cfg 14%N = None.
Proof. exact type_code_roundtrip_pinned_refuted. Qed.

Theorem pinned_tree_fails_named_conditions :
  scalar_codes_not_split pinned_cfg = false /\ encodings_ok pinned_cfg = false /\ stub_ok pinned_cfg = false.
Proof. exact pinned_cfg_conditions. Qed.

(** Binary format, every encoding version (0-5: string table absent / 16-bit / 32-bit counts and indexes, element
    names and scalar strings inline or in the table): parsing the exported body of any expressible document gives
    back the document — element types, names, UUIDs, attribute names and order, value types, scalar/array shape,
    values (bit patterns), references by index (sharing, cycles), NULL and stub references with their UUID text.
    [cenc]/[cdec] are the text codecs; [expressible] asks, per string, that the codec round-trips it without a NUL,
    that counts and indexes fit their field, that references are in range and fixed-width values have their size. *)
Theorem dmx_bin_roundtrip :
  forall (cenc : enc -> str -> bytes) (cdec : enc -> bytes -> option str) (cfg : dmxcfg) (v : N) (d : doc),
    bin_cfg_ok cfg = true -> expressible cenc cdec cfg v d ->
    parse_bin cdec cfg v (export_bin cenc cfg v d) = Some d.
Proof. exact dmx_bin_roundtrip_gen. Qed.

(** Trailing bytes after the body do not matter. *)
Theorem dmx_bin_roundtrip_trailing :
  forall (cenc : enc -> str -> bytes) (cdec : enc -> bytes -> option str) (cfg : dmxcfg) (v : N) (d : doc) (rest : bytes),
    bin_cfg_ok cfg = true -> expressible cenc cdec cfg v d ->
    parse_bin cdec cfg v (export_bin cenc cfg v d ++ rest) = Some d.
Proof. exact dmx_bin_roundtrip_rest. Qed.

(** The premises are satisfiable: a two-element document with a self reference, NULL, a stub, scalar and array
    strings, a 64-byte matrix, an int array and binary blobs is expressible in versions 5 and 1. *)
Theorem dmx_bin_expressible_example :
  expressible idenc iddec good_cfg 5 ex_doc /\ expressible idenc iddec good_cfg 1 ex_doc /\ length ex_doc = 2%nat.
Proof. exact expressible_example. Qed.

(** The stub condition is necessary: writing only the index -2 (pinned tree) loses an expressible document. *)
Theorem dmx_bin_stub_without_uuid_refuted :
  exists d, parse_bin iddec bad_stub_cfg 5 (export_bin idenc bad_stub_cfg 5 d) <> Some d.
Proof. exact stub_without_uuid_refuted. Qed.

(** KeyValues1 bridge: converting any well-formed Keyvalues tree (only the top node may be a nameless root) to
    elements and back returns the same tree (real names, values, order, inline vs nested, reserved names, duplicates,
    mixed blocks/leaves). *)
Theorem kv1_bridge_roundtrip : forall (fold : kstr -> kstr) (cfg : kv1cfg),
  kv1_cfg_ok cfg = true -> fold_ok fold cfg ->
  forall t, wf_kv t = true -> to_kv1 fold cfg (from_kv1 fold cfg t) = Some t.
Proof. exact kv1_bridge_roundtrip_gen. Qed.

(** A nameless root nested in a block is merged into the parent (Keyvalues.append): excluded by [wf_kv]. *)
Theorem kv1_nested_root_flattened :
  to_kv1 (fun s => s) sample_cfg (from_kv1 (fun s => s) sample_cfg (KBlock (Some [66]%N) [KBlock None [KLeaf [97]%N [98]%N]]))
  = Some (KBlock (Some [66]%N) [KLeaf [97]%N [98]%N]).
Proof. exact kv1_nested_root_is_flattened. Qed.

Theorem kv1_bridge_premises_satisfiable : kv1_cfg_ok sample_cfg = true /\ fold_ok (fun s => s) sample_cfg.
Proof. exact kv1_premises_satisfiable. Qed.
