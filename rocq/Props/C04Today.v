(** C04 — today's generated objects satisfy the hypotheses of [c04_property] (the atan2 specification aside): the dispatch
    table, the Gauss-Jordan program, the in-place census and the in-place method table regenerated from math.py pass the five
    acceptance tests, so [c04_statement] holds of them for every atan2 that meets its specification.  (The same facts are
    discharged as named instance obligations by the check, which also names the part that fails under a fault.) *)
From Coq Require Import Reals List.
From SV Require Import Rot.RotBase Rot.RotEuler Rot.RotDispatch Rot.RotInplace Rot.RotMethods Rot.RotGJ Rot.RotGJTotal
  Rot.RotProperty Rot.RotState Rot.RotPivot Gen.RotState_gen Gen.RotPivot_gen Gen.RotDispatch_gen Gen.RotInverse_gen Gen.RotInplace_gen Gen.RotMethods_gen Props.C04.

Example c04_property_hypotheses_today :
  table_ok dispatch_table = true /\ gj_prog_ok inverse_prog = true /\ gj_total_ok inverse_prog = true /\
  census_ok inplace_census = true /\ methods_ok method_table = true.
Proof. repeat split; vm_compute; reflexivity. Qed.

Theorem c04_property_today : forall atan2, atan2_spec atan2 ->
  c04_statement atan2 dispatch_table inverse_prog inplace_census method_table.
Proof.
  intros atan2 A. destruct c04_property_hypotheses_today as (T & P1 & P2 & C & Mo).
  exact (c04_property atan2 dispatch_table inverse_prog inplace_census method_table A T P1 P2 C Mo).
Qed.

(** Round 5: today's census of process state is accepted too, hence the statement holds of every call of a history. *)
Example c04_state_census_today_ok : state_ok state_census_today = true.
Proof. vm_compute; reflexivity. Qed.

Theorem c04_property_histories_today : forall atan2, atan2_spec atan2 ->
  c04_statement atan2 dispatch_table inverse_prog inplace_census method_table /\ c04_history_statement state_census_today.
Proof.
  intros atan2 A. destruct c04_property_hypotheses_today as (T & P1 & P2 & C & Mo).
  exact (c04_property_histories atan2 dispatch_table inverse_prog inplace_census method_table state_census_today A T P1 P2 C Mo
           c04_state_census_today_ok).
Qed.

(** Round 5: the pivot searches of today's inverse() have an accepted shape. *)
Example c04_pivot_shapes_today_ok : pv_shapes_ok pivot_shapes_today = true.
Proof. vm_compute; reflexivity. Qed.
