(** C11 — every BSP lump writer is the inverse of its reader; values that do not fit are rejected.
    Only statements here; proofs are in Bin/StructProofs.v, Bin/RLEProofs.v, Bin/FindInsertProofs.v and
    Fmt/BspFormatsProofs.v.  The theorems about formats are generic in the objects generated from bsp.py
    (Gen/BspFormats_gen.v); the check discharges their boolean premises for today's source by vm_compute. *)
From Coq Require Import List String NArith ZArith Bool.
From SV Require Import Bin.LE Bin.Struct Bin.StructProofs Bin.RLE Bin.RLEProofs Bin.FindInsert Bin.FindInsertProofs
  Fmt.BspFormatsSpec Fmt.BspFormatsProofs Fmt.BspVisRow Fmt.BspVisRowProofs Fmt.BspTexStrings Fmt.BspTexStringsProofs
  Fmt.BspRecords Fmt.BspRecordsProofs Fmt.VmfText Fmt.BspEntLump Fmt.BspEntLumpProofs Fmt.BspDedup Fmt.BspDedupProofs Fmt.BspFlagSplit Fmt.BspFlagSplitProofs
  Fmt.BspOverlayRec Fmt.BspOverlayRecProofs Fmt.BspWorklist Fmt.BspWorklistProofs Fmt.BspPhys Fmt.BspPhysProofs Bin.BspDeferred Bin.BspDeferredProofs Fmt.BspSpriteDict Fmt.BspSpriteDictProofs Fmt.BspSaveOrder Fmt.BspSaveOrderProofs Fmt.BspPropVersion Fmt.BspPropVersionProofs Fmt.BspSaveCommit Fmt.BspSaveCommitProofs.
Import ListNotations.

(** * struct: unpack inverts pack for every format and every fitting record *)
Theorem c11_unpack_pack : forall f vs, wf_fmt f = true -> fits f vs = true ->
  exists bs, pack f vs = Some bs /\ unpack f bs = Some vs.
Proof. exact unpack_pack. Qed.

(** pack only succeeds when every integer is inside its field: out-of-range integers raise. *)
Theorem c11_pack_rejects : forall f vs bs, pack f vs = Some bs -> ints_ok f vs = true.
Proof. exact pack_rejects. Qed.
Theorem c11_pack_out_of_range_is_error : forall s w z pre post vs1 vs2,
  in_range s w z = false -> nvalues pre = List.length vs1 ->
  pack (pre ++ KInt s w :: post) (vs1 ++ VInt z :: vs2) = None.
Proof. exact pack_out_of_range_is_error. Qed.

(** Ns: short names are padded and come back after rstrip; long ones are silently cut (so need a guard). *)
Theorem c11_s_roundtrip : forall n l, all_bytes l = true -> (List.length l <= n)%nat -> last l 1%N <> 0%N ->
  exists bs, pack [KBytes n] [VBytes l] = Some bs /\
             option_map (map (fun v => match v with VBytes b => rstrip0 b | _ => [] end)) (unpack [KBytes n] bs) = Some [l].
Proof. exact s_roundtrip. Qed.
Theorem c11_s_truncation_loses : forall n l, all_bytes l = true -> (n < List.length l)%nat ->
  exists bs, pack [KBytes n] [VBytes l] = Some bs /\ unpack [KBytes n] bs = Some [VBytes (firstn n l)].
Proof. exact s_truncation_loses. Qed.
Theorem c11_ns_guarded_no_truncation : forall name width lo hi l,
  ns_ok (name, width, Some (lo, hi)) = true -> all_bytes l = true -> (List.length l <= hi)%nat ->
  pack [KBytes width] [VBytes l] = Some (l ++ repeat 0%N (width - List.length l)).
Proof. exact ns_guarded_no_truncation. Qed.

(** * Per-lump record formats: reader and writer use one layout, in every BSP layout table *)
Theorem c11_lump_formats_agree : forall layouts n appl ralts walts,
  stream_ok layouts (n, appl, ralts, walts) = true ->
  forall lname lay, In (lname, lay) layouts -> applies appl lname = true ->
  forall ra wa, In ra ralts -> In wa walts ->
  exists r w, alt_fmt lay ra = Some r /\ alt_fmt lay wa = Some w /\ r = w /\ roundtrips r w.
Proof. exact lump_formats_agree. Qed.

(** The FULL record of a lump (all fields, both sides' orders compared, every layout table it applies to): if the field
    orders generated from the reader and from the writer pass [record_ok], both sides name the same attribute(s) in every
    position, the struct format has exactly that many values, all alternatives of both sides use that one format, and for
    any assignment of values to the labels that fits the format, what is written is read back under the same labels. *)
Theorem c11_record_roundtrip : forall layouts sts name sname lays rs ws,
  record_ok layouts sts (name, sname, lays, rs, ws) = true ->
  rs = ws /\
  forall lname, In lname lays ->
  exists lay f n appl ralts walts,
    stream_named sname sts = Some (n, appl, ralts, walts) /\ In (lname, lay) layouts /\
    record_fmt layouts sts sname lname = Some f /\ wf_fmt f = true /\ nvalues f = List.length rs /\
    (forall ra, In ra ralts -> alt_fmt lay ra = Some f) /\ (forall wa, In wa walts -> alt_fmt lay wa = Some f) /\
    forall field : slot -> value, fits f (map field ws) = true ->
      exists bs, pack f (map field ws) = Some bs /\ List.length bs = calcsize f /\ unpack f bs = Some (map field rs).
Proof. exact record_roundtrip. Qed.

(** Attributes that share one integer ([hi << k | lo], read back by [>> k] and [& ((1 << k) - 1)]). *)
Theorem c11_bitpack_roundtrip : forall k hi lo, (lo < 2 ^ k)%N ->
  bit_hi k (bitpack k hi lo) = hi /\ bit_lo k (bitpack k hi lo) = lo.
Proof. exact bitpack_roundtrip. Qed.
Theorem c11_overlay_bits_roundtrip : forall rs rm ws maxf, overlay_bits_ok (rs, rm, ws) maxf = true ->
  forall order cnt, (cnt <= maxf)%nat ->
  let x := bitpack (N.of_nat ws) order (N.of_nat cnt) in
  bit_hi (N.of_nat rs) x = order /\ bit_lo (N.of_nat rm) x = N.of_nat cnt.
Proof. exact overlay_bits_roundtrip. Qed.
Theorem c11_face_prim_bits_roundtrip : forall rmask rflag wmax wflag, face_prim_bits_ok (rmask, rflag, wmax, wflag) = true ->
  forall cnt (flag : bool), (cnt <= wmax)%N ->
  let x := N.lor cnt (if flag then wflag else 0%N) in
  N.land x rmask = cnt /\ (negb (N.land x rflag =? 0)%N) = flag.
Proof. exact face_prim_bits_roundtrip. Qed.

(** Static props: for a version whose ladder passes prop_ok, both sides use one record of the declared size. *)
Theorem c11_prop_layout_agree : forall name size rd wr, prop_ok (name, size, rd, wr) = true ->
  exists r w, strs_fmt rd = Some r /\ strs_fmt wr = Some w /\ r = w /\ calcsize w = size /\ roundtrips r w.
Proof. exact prop_layout_agree. Qed.

(** Overlays: for every admissible face count the writer's block has the reader's size and field offsets. *)
Theorem c11_overlay_formats : forall reader head tail count wmax rmax faces,
  overlay_ok reader head tail count wmax rmax faces = true ->
  exists r h t, parse_fmt reader = Some r /\ parse_fmt head = Some h /\ strs_fmt tail = Some t /\
    r = overlay_reader_fmt h t count /\ (wmax <= count)%nat /\
    forall n, (n <= wmax)%nat -> exists s f, In (n, s) faces /\ parse_fmt s = Some f /\
       (h ++ f ++ t = overlay_writer_fmt h t count n /\ calcsize (h ++ f ++ t) = calcsize r).
Proof. exact overlay_formats. Qed.

(** Detail props: each instantiable class is written by its own branch with codes read back as that class. *)
Theorem c11_detail_kind_dispatch : forall h tests rd, dispatch_ok h tests rd = true ->
  forall c, In c (concrete h) ->
  exists codes, writer_branch h tests c = Some (c, codes) /\ codes <> [] /\
                forall code, In code codes -> assoc_nat code rd = Some c.
Proof. exact detail_kind_dispatch. Qed.

(** * Visibility run-length coding *)
Theorem c11_rle_roundtrip : forall d, rle_decode None 0 (rle_encode d) = Some d.
Proof. exact rle_roundtrip. Qed.
Theorem c11_rle_roundtrip_in_lump : forall pre d rest,
  rle_decode (Some (List.length d)) (List.length pre) (pre ++ rle_encode d ++ flat_map rle_encode rest) = Some d.
Proof. exact rle_roundtrip_in_lump. Qed.

(** The row size: an expression of the translated language that passes the decision procedure [rowsize_ok]
    (one more byte per eight clusters, right on 0..7) is ceil(n/8) for EVERY cluster count. *)
Theorem c11_vis_row_size_all_counts : forall e, rowsize_ok e = true ->
  forall n : nat, reval e (Z.of_nat n) = Z.of_nat (ceil8 n).
Proof. exact rowsize_is_ceil8. Qed.
Theorem c11_vis_row_size_shr3_plus1_refuted :
  rowsize_ok (RAdd (RShr RVar 3) (RConst 1)) = false /\
  reval (RAdd (RShr RVar 3) (RConst 1)) 8 = 2%Z /\ ceil8Z 8 = 1%Z /\
  firstn 3 (rowsize_witnesses (RAdd (RShr RVar 3) (RConst 1))) = [0; 8; 16]%Z.
Proof. exact rowsize_shr3_plus1_refuted. Qed.
(** The visibility lump: rows of the length the writer insists on, written back to back after any header, are all
    read back through their stored offsets by a reader that decodes [er(count)] bytes per row. *)
Theorem c11_visibility_roundtrip : forall er ew (n : nat) hdr rows,
  rowsize_ok er = true -> rowsize_ok ew = true ->
  Forall (fun r => Z.of_nat (List.length r) = reval ew (Z.of_nat n)) rows ->
  map (fun off => rle_decode (Some (Z.to_nat (reval er (Z.of_nat n)))) off (hdr ++ flat_map rle_encode rows))
      (vis_offsets (List.length hdr) rows) = map Some rows.
Proof. exact visibility_roundtrip. Qed.

(** * Texture name string table: every name is read back at its stored offset, whatever storage was shared *)
Theorem c11_texdata_strings_roundtrip : forall ss sa maxlen win names data offs,
  texcfg_ok (ss, sa, maxlen, win) = true ->
  Forall (fun s => nul_free s = true /\ (List.length s <= maxlen)%nat) names ->
  tex_write ss sa names = (data, offs) ->
  map (tex_read win data) offs = map Some names.
Proof. exact texdata_strings_roundtrip. Qed.
Theorem c11_texdata_search_without_terminator_refuted :
  tex_write [] [0%N] [[65; 66]; [65]]%N = ([65; 66; 0]%N, [0; 0]%nat) /\
  tex_read 128 [65; 66; 0]%N 0 = Some [65; 66]%N.
Proof. exact texdata_search_without_terminator_refuted. Qed.

(** * Entity lump (text layer): with a template that escapes keys, values and the text fields of outputs, every list of
    well-formed entities (keyvalues and outputs, either separator) is read back exactly by the token loop of the reader.
    [float_ok] / [int_ok] stand for Python's float() / int() accepting the delay / times text. *)
Theorem c11_ent_lump_roundtrip : forall float_ok int_ok c sep ents, entcfg_ok c = true -> (sep = ESC \/ sep = COMMA) ->
  forallb (forallb (item_wf float_ok int_ok sep)) ents = true ->
  ent_read float_ok int_ok (write_ents c sep ents) = Some ents.
Proof. exact ent_lump_roundtrip. Qed.
Theorem c11_ent_raw_key_refuted :
  ent_read ok_all ok_all (write_ents (Raw, EscML, EscS, [EscS; EscS; EscML; Raw; Raw]) ESC [[IKV [97; 34; 98] [120]]])%N = None /\
  ent_read ok_all ok_all (write_ents (Raw, EscML, EscS, [EscS; EscS; EscML; Raw; Raw]) ESC [[IKV [97; 92; 110; 98] [120]]])%N
    = Some [[IKV [97; 10; 98] [120]]]%N.
Proof. exact ent_raw_key_refuted. Qed.

(** * Index builders *)
Theorem c11_find_or_insert_sound : forall l ks s' is, fi_run (fi_init l) ks = (s', is) ->
  Forall2 (fun k i => nth_error (items s') i = Some k) ks is /\ exists ext, items s' = l ++ ext.
Proof. exact fi_sound. Qed.
Theorem c11_find_or_extend_sound : forall subs keys keys' is, fe_run true keys subs = (keys', is) ->
  Forall2 (fun sub i => slice keys' i (List.length sub) = sub) subs is /\ exists ext, keys' = keys ++ ext.
Proof. exact fe_run_sound. Qed.
Theorem c11_find_or_extend_unbounded_refuted :
  let '(keys', is) := fe_run false [] [[1; 2]; [2; 3]]%N in
  keys' = [1; 2]%N /\ is = [0; 1]%nat /\ slice keys' 1 2 = [2]%N.
Proof. exact fe_unbounded_refuted. Qed.

(** * De-duplicating index tables with their key functions (find_or_insert(table, key), the texdata dict of the texinfo writer)
    The table for an arbitrary item type and key: if equal keys imply that the stored item stands for the requested one
    (any reflexive relation [R]), every request -- for every initial table and every sequence of requests -- is answered by
    an index that holds such an item, and the initial table is kept as a prefix. *)
Theorem c11_dedup_table_sound : forall (A K : Type) (key : A -> K) (keq : K -> K -> bool) (R : A -> A -> Prop),
  (forall a b, keq a b = true <-> a = b) -> (forall x, R x x) ->
  forall l xs, (forall x y, In x (l ++ xs) -> In y (l ++ xs) -> key y = key x -> R y x) ->
  forall s' is, dd_run key keq (dd_init key l) xs = (s', is) ->
  Forall2 (fun x i => exists y, nth_error (fst s') i = Some y /\ R y x) xs is /\ exists ext, fst s' = l ++ ext.
Proof. exact dedup_table_sound. Qed.
(** Generic over the key read from the source: if the key passes [key_determines] for the attributes of the item class
    (identity, whole value, or every attribute read untransformed or under a transformation that is injective on the values in
    use), then for objects of that class -- identity determines the object, [tr ""] is no transformation -- the record read
    back through the index handed out for an object is that object's record. *)
Theorem c11_dedup_key_roundtrip : forall admitted fields k tr l xs,
  key_determines admitted fields k = true ->
  (forall v, tr ""%string v = v) ->
  (forall o, In o (l ++ xs) -> map fst (snd o) = fields) ->
  (forall o o', In o (l ++ xs) -> In o' (l ++ xs) -> fst o = fst o' -> o = o') ->
  (forall t, In t admitted -> forall o o' f v v', In o (l ++ xs) -> In o' (l ++ xs) ->
     assoc_f f (snd o) = Some v -> assoc_f f (snd o') = Some v' -> tr t v = tr t v' -> v = v') ->
  forall s' is, dd_run (key_sem tr k) keyval_eqb (dd_init (key_sem tr k) l) xs = (s', is) ->
  Forall2 (fun o i => read_back (fst s') i = Some (snd o)) xs is /\ exists ext, fst s' = l ++ ext.
Proof. exact dedup_key_roundtrip. Qed.
(** A key that reads only the material name fails [key_determines] (also when casefold is admitted: the other attributes are
    not read); two records with one name and different sizes then share index 0 and the second is read back with the size of
    the first.  With the identity key each gets its own record and a repeated object its old index. *)
Theorem c11_dedup_key_by_name_refuted :
  key_determines [] td_fields (KFields [("mat", "casefold")])%string = false /\
  key_determines ["casefold"%string] td_fields (KFields [("mat", "casefold")])%string = false /\
  (let '(s, is) := dd_run (key_sem (fun _ v => v) (KFields [("mat", "casefold")]%string)) keyval_eqb
                          (dd_init (key_sem (fun _ v => v) (KFields [("mat", "casefold")]%string)) []) [td_a; td_b] in
   is = [0; 0]%nat /\ read_back (fst s) 0 = Some (snd td_a) /\ snd td_a <> snd td_b) /\
  (let '(s, is) := dd_run (key_sem (fun _ v => v) KIdentity) keyval_eqb
                          (dd_init (key_sem (fun _ v => v) KIdentity) []) [td_a; td_b; td_a] in
   is = [0; 1; 0]%nat /\ read_back (fst s) 1 = Some (snd td_b)) /\
  key_determines [] td_fields KIdentity = true /\
  key_determines [] td_fields (KFields [("width", ""); ("mat", "")])%string = true.
Proof. exact dedup_key_by_name_refuted. Qed.

(** * Helper properties that split one integer over several fields (StaticPropFlags.value_prim / value_sec)
    Generic over the parts (shift, optional mask) read from the writer's helper properties and the shifts read from the
    reader: if they pass [split_ok] (sorted parts tile the bits: every masked part reaches exactly to the next one, the last
    is unmasked; reader shifts = writer shifts), EVERY value is put together again from the stored parts.  (That the last,
    unmasked part fits its field is struct's range check: c11_pack_rejects.) *)
Theorem c11_flag_split_roundtrip : forall parts shifts, split_ok parts shifts = true ->
  forall v, split_read (split_write v parts) shifts = v.
Proof. exact split_roundtrip. Qed.
(** The secondary part masked to one byte fails [split_ok]; 0x10001 is read back as 1. *)
Theorem c11_flag_split_masked_high_part_refuted :
  split_ok [(0, Some 255); (8, Some 255)]%N [0; 8]%N = false /\
  split_read (split_write 65537 [(0, Some 255); (8, Some 255)]%N) [0; 8]%N = 1%N /\
  split_ok [(0, Some 255); (8, None)]%N [0; 8]%N = true /\
  split_read (split_write 65537 [(0, Some 255); (8, None)]%N) [0; 8]%N = 65537%N.
Proof. exact split_masked_high_part_refuted. Qed.

(** * A boolean stored as one of two integer codes (DetailPropShape.is_cross in the detail type) *)
Theorem c11_bool_code_roundtrip : forall c, bool_code_ok c = true -> forall b, bool_code_read c (bool_code_write c b) = b.
Proof. exact bool_code_roundtrip. Qed.
Theorem c11_bool_code_swapped_refuted :
  bool_code_ok (2, 3, 3)%N = false /\ bool_code_read (2, 3, 3)%N (bool_code_write (2, 3, 3)%N true) = false.
Proof. exact bool_code_swapped_refuted. Qed.

(** * A cross reference through the file: table with key -> index -> integer field of the referring record -> reader's
    table look-up.  Composes c11_dedup_key_roundtrip with c11_unpack_pack: if the key passes [key_determines] and every
    index handed out fits the field (else struct raises, c11_pack_rejects), the record found through the unpacked index is
    the record of the object referred to -- for every initial table and every sequence of referred objects. *)
Theorem c11_reference_roundtrip : forall admitted fields k tr l xs sg w,
  key_determines admitted fields k = true ->
  (forall v, tr ""%string v = v) ->
  (forall o, In o (l ++ xs) -> map fst (snd o) = fields) ->
  (forall o o', In o (l ++ xs) -> In o' (l ++ xs) -> fst o = fst o' -> o = o') ->
  (forall t, In t admitted -> forall o o' f v v', In o (l ++ xs) -> In o' (l ++ xs) ->
     assoc_f f (snd o) = Some v -> assoc_f f (snd o') = Some v' -> tr t v = tr t v' -> v = v') ->
  (0 < w)%nat ->
  forall s' is, dd_run (key_sem tr k) keyval_eqb (dd_init (key_sem tr k) l) xs = (s', is) ->
  Forall (fun i => in_range sg w (Z.of_nat i) = true) is ->
  Forall2 (fun o i => exists bs, pack [KInt sg w] [VInt (Z.of_nat i)] = Some bs /\
                                 exists z, unpack [KInt sg w] bs = Some [VInt z] /\ read_back (fst s') (Z.to_nat z) = Some (snd o)) xs is.
Proof. exact reference_roundtrip. Qed.

(** * The main overlay record: 3 values, the face array, 22 floats -- taken apart by position by the reader, written by four
    pack calls.  If the labels generated from the source agree ([overlay_rec_ok]), then for ANY assignment of values to
    labels and any list of at most [count] faces the block (padding seen as zero integers; sizes: c11_overlay_formats) is
    read back position by position. *)
Theorem c11_overlay_record_roundtrip : forall reader count rh rf rt wh wf wt,
  overlay_rec_ok reader count (rh, rf, rt, (wh, wf, wt)) = true ->
  rh = wh /\ rf = wf /\ rt = wt /\
  exists r, parse_fmt reader = Some r /\ wf_fmt r = true /\ nvalues r = (List.length rh + count + List.length rt)%nat /\
    forall (field : slot -> value) (faces : list Z), (List.length faces <= count)%nat ->
      List.length (overlay_values field wh wt faces count) = nvalues r /\
      (fits r (overlay_values field wh wt faces count) = true ->
       exists bs, pack r (overlay_values field wh wt faces count) = Some bs /\ List.length bs = calcsize r /\
                  unpack r bs = Some (overlay_values field rh rt faces count)).
Proof. exact overlay_record_roundtrip. Qed.
Theorem c11_overlay_record_swapped_refuted :
  overlay_rec_ok "<ihH2i1f" 2 ([["id"]; ["a"]; ["b"]], ["faces"], [["u"]], ([["id"]; ["b"]; ["a"]], ["faces"], [["u"]]))%string = false /\
  overlay_rec_ok "<ihH2i1f" 2 ([["id"]; ["a"]; ["b"]], ["faces"], [["u"]], ([["id"]; ["a"]; ["b"]], ["faces"], [["u"]]))%string = true.
Proof. exact overlay_record_swapped_refuted. Qed.

(** The bytes of several pack calls written one after the other are the bytes of one pack with the concatenated format
    (the overlay writer yields four, the texdata writer two). *)
Theorem c11_pack_app : forall f1 v1 f2 v2, List.length v1 = nvalues f1 ->
  pack (f1 ++ f2) (v1 ++ v2) = match pack f1 v1, pack f2 v2 with Some a, Some b => Some (a ++ b) | _, _ => None end.
Proof. exact pack_app. Qed.

(** [4 * k] pad bytes are what [k] zero integers pack to: the writer's partially filled face array is, byte for byte, the
    reader's full array with zeros behind the faces. *)
Theorem c11_overlay_writer_block_is_reader_block : forall h t count (fs : list Z) hv tv,
  (List.length fs <= count)%nat -> List.length hv = nvalues h ->
  pack (overlay_writer_fmt h t count (List.length fs)) (hv ++ map VInt fs ++ tv) =
  pack (overlay_reader_fmt h t count) (hv ++ map VInt fs ++ repeat (VInt 0) (count - List.length fs) ++ tv).
Proof. exact overlay_writer_block_is_reader_block. Qed.

(** Whole overlay block from the two obligations about today's source ([overlay_ok]: formats for every face count;
    [overlay_rec_ok]: labels): for every face count the writer admits and every assignment of values to labels, the bytes
    of the writer's four pack calls are the reader's block, and the reader's unpack returns every attribute from its own
    position, the faces in order and zeros behind them. *)
Theorem c11_overlay_block_roundtrip : forall reader head tail count wmax rmax ffmts rh rf rt wh wf wt,
  overlay_ok reader head tail count wmax rmax ffmts = true ->
  overlay_rec_ok reader count (rh, rf, rt, (wh, wf, wt)) = true ->
  exists r h t, parse_fmt reader = Some r /\ parse_fmt head = Some h /\ strs_fmt tail = Some t /\
  forall (field : slot -> value) (faces : list Z), (List.length faces <= wmax)%nat -> List.length wh = nvalues h ->
    exists s f, In (List.length faces, s) ffmts /\ parse_fmt s = Some f /\
      pack (h ++ f ++ t) (map field wh ++ map VInt faces ++ map field wt) = pack r (overlay_values field wh wt faces count) /\
      (fits r (overlay_values field wh wt faces count) = true ->
       exists bs, pack (h ++ f ++ t) (map field wh ++ map VInt faces ++ map field wt) = Some bs /\
                  List.length bs = calcsize r /\ unpack r bs = Some (overlay_values field rh rt faces count)).
Proof. exact overlay_block_roundtrip. Qed.

(** * Round 4: loops that serialise an index table while references are turned into indexes of that same table *)
(** [_lmp_write_nodes]: [for node in nodes] over the LIVE list, the body appends the children it does not know yet.  When the
    loop ends there is exactly one record per table entry (record [i] is the record of object [i]), no object has two
    indexes, the listed roots kept their positions, every index stored in a record resolves - the way the reader resolves
    it - to the object referred to, and the table holds exactly the objects reachable from the roots. *)
Theorem c11_worklist_closure : forall kids roots fuel s s' out, wl_inv s -> items s = roots -> wl_live kids fuel s 0 [] = (s', out, true) ->
  map fst out = items s' /\ NoDup (items s') /\ (exists ext, items s' = roots ++ ext) /\
  (forall i o idx, nth_error out i = Some (o, idx) ->
     nth_error (items s') i = Some o /\ Forall2 (fun k j => resolve out j = Some k) (kids o) idx) /\
  (forall o, In o (items s') <-> reach kids roots o).
Proof. exact wl_live_closure. Qed.
(** ... and it does end: if the reachable objects are among finitely many ([U]), [S |U|] steps suffice.  ([find_or_insert]
    over a list without repetitions satisfies [wl_inv].) *)
Theorem c11_worklist_total : forall kids roots U, (forall o, reach kids roots o -> In o U) ->
  forall s, wl_inv s -> items s = roots ->
  exists s' out, wl_live kids (S (List.length U)) s 0 [] = (s', out, true) /\
    map fst out = items s' /\ NoDup (items s') /\ (exists ext, items s' = roots ++ ext) /\
    (forall i o idx, nth_error out i = Some (o, idx) ->
       nth_error (items s') i = Some o /\ Forall2 (fun k j => resolve out j = Some k) (kids o) idx) /\
    (forall o, In o (items s') <-> reach kids roots o).
Proof. exact wl_live_total. Qed.
Theorem c11_worklist_init : forall l, NoDup l -> wl_inv (fi_init l).
Proof. exact fi_init_wl_inv. Qed.
(** The snapshot loop ([for node in list(nodes)]): object 0 refers to the unlisted object 1; index 1 is stored, record 1 is
    never written. *)
Theorem c11_worklist_snapshot_refuted :
  let '(s', out) := wl_snap kids01 [0%N] (fi_init [0%N]) [] in
  items s' = [0%N; 1%N] /\ out = [(0%N, [1%nat])] /\ resolve out 1%nat = None /\
  wl_live kids01 3%nat (fi_init [0%N]) 0 [] = (s', [(0%N, [1%nat]); (1%N, [])], true).
Proof. exact wl_snapshot_refuted. Qed.
(** Generic over the loop shapes read from the source: an entry that passes [wl_entry_ok] (nothing added after the loop;
    live iteration, or a snapshot whose body adds nothing) denotes a loop after which every table entry has its record at
    its own index and every reference turned into an index of this table resolves to the object referred to. *)
Theorem c11_index_table_loop_closure : forall fn tbl k inside after kids fuel s s' out,
  wl_entry_ok (fn, tbl, k, inside, after) = true -> wl_inv s -> wl_exec k inside kids fuel s = (s', out, true) ->
  map fst out = items s' /\ NoDup (items s') /\ (exists ext, items s' = items s ++ ext) /\
  forall i o idx, nth_error out i = Some (o, idx) ->
    nth_error (items s') i = Some o /\ Forall2 (fun r j => resolve out j = Some r) (if inside then kids o else []) idx.
Proof. exact wl_entry_closure. Qed.
Theorem c11_index_table_loop_snapshot_refuted :
  wl_entry_ok (""%string, ""%string, ISnapshot, true, false) = false /\
  let '(s', out, _) := wl_exec ISnapshot true kids01 3%nat (fi_init [0%N]) in
  (List.length out = 1 /\ List.length (items s') = 2)%nat.
Proof. exact wl_entry_snapshot_with_adds_refuted. Qed.
(** save() rebuilds the lumps in the order of LUMP_REBUILD_ORDER: every writer that appends to the list of another view
    runs strictly before the writer of that view. *)
Theorem c11_rebuild_order_sound : forall order edges, order_ok order edges = true ->
  forall a b, In (a, b) edges -> exists i j, pos_of a order = Some i /\ pos_of b order = Some j /\ (i < j)%nat.
Proof. exact order_ok_sound. Qed.

(** * Round 4: the PHYSCOLLIDE lump of the brush models *)
(** Generic over the configuration read from [_lmp_write_bmodels] / [_lmp_read_bmodels] (order of the four header values on
    either side, sentinel written / compared with, order of the two variable-length sections, NUL terminator / stripping): if
    it passes [phys_cfg_ok], EVERY list of physics blocks the format can hold (index other than the sentinel, numbers
    within 32 bits, text not ending in NUL) is written and read back unchanged: model index, every solid byte for byte,
    the keyvalues text. *)
Theorem c11_physcollide_roundtrip : forall wo ro ws rs wseg rseg term strip, phys_cfg_ok (wo, ro, ws, rs, wseg, rseg, term, strip) = true ->
  forall bl, forallb (block_wf ws) bl = true ->
  exists bs, write_blocks wo ws bl = Some bs /\ read_blocks (S (List.length bl)) ro rs strip bs = Some bl.
Proof. exact phys_roundtrip. Qed.
(** Reader takes the number of solids where the writer put the text length: rejected by [phys_cfg_ok]; the block
    (index 1, one solid of two bytes, text "A") is not read back.  The agreeing configuration passes and the block is well-formed. *)
Theorem c11_physcollide_swapped_header_refuted :
  phys_cfg_ok ([HIndex; HSize; HKvLen; HCount], [HIndex; HSize; HCount; HKvLen], (-1)%Z, (-1)%Z, [SSolids; SKvs], [SSolids; SKvs], true, true) = false /\
  match write_blocks [HIndex; HSize; HKvLen; HCount] (-1)%Z [phys_block] with
  | Some bs => read_blocks 2 [HIndex; HSize; HCount; HKvLen] (-1)%Z true bs <> Some [phys_block]
  | None => False
  end /\
  phys_cfg_ok ([HIndex; HSize; HKvLen; HCount], [HIndex; HSize; HKvLen; HCount], (-1)%Z, (-1)%Z, [SSolids; SKvs], [SSolids; SKvs], true, true) = true /\
  forallb (block_wf (-1)%Z) [phys_block] = true.
Proof. exact phys_swapped_header_refuted. Qed.

(** * Round 4: DeferredWrites (the offset table of the visibility lump, the lump directory of save()) *)
(** Slots reserved while the file is written front to back, set later, filled in at the end: if no key is deferred twice,
    every call succeeds ([drun] = the KeyError / size checks of [set_data]) and every deferred key is set at least once, the
    resulting file is the file of a two-pass writer - the same calls with every slot holding the value set LAST for its
    key; every other byte is where the sequential writes put it. *)
Theorem c11_deferred_writes_two_pass : forall ops s, NoDup (defer_keys ops) -> drun dempty ops = Some s ->
  (forall k, In k (defer_keys ops) -> last_set ops k <> None) ->
  dwhole ops = Some (render (final_value ops) ops).
Proof. exact dw_two_pass. Qed.
(** A slot that never got its value is an error (ValueError), not a file with zeros in it. *)
Theorem c11_deferred_unset_slot_is_error : dwhole [DWrite [1%N]; DDefer 0 4; DWrite [2%N]] = None.
Proof. exact dw_unset_slot_is_error. Qed.

(** * Round 4: the sprite dictionary of the detail-prop lump *)
(** Generic over the slots read from both sides: if [sprite_dict_ok], every class that goes through the dictionary has the
    same attribute component in every slot on both sides, one well-formed format with exactly that many values, and for
    ANY assignment of values to the components that fits the format the entry is read back slot by slot. *)
Theorem c11_sprite_dict_roundtrip : forall wf rf entries, sprite_dict_ok (wf, rf) entries = true ->
  forall c w r, In (c, w, r) entries ->
  w = r /\ exists f, parse_fmt wf = Some f /\ parse_fmt rf = Some f /\ nvalues f = List.length w /\
  forall field : string -> value, fits f (map field w) = true ->
    exists bs, pack f (map field w) = Some bs /\ unpack f bs = Some (map field r).
Proof. exact sprite_dict_roundtrip. Qed.
Theorem c11_sprite_dict_swapped_refuted :
  sprite_dict_ok ("<8f", "<8f")%string [("S", ["a.0"; "a.1"; "b.0"; "b.1"], ["b.0"; "b.1"; "a.0"; "a.1"])]%string = false /\
  sprite_dict_ok ("<4f", "<4f")%string [("S", ["a.0"; "a.1"; "b.0"; "b.1"], ["a.0"; "a.1"; "b.0"; "b.1"])]%string = true.
Proof. exact sprite_dict_swapped_refuted. Qed.

(** * Round 4: references across lumps - the whole save() pass *)
(** save() as a sequence of work-list writers over one table per lump ([msave]).  If every reference goes to the writer's
    own lump or to a lump rebuilt later ([forward]), then after all writers ran: the lists only grew, lists of lumps outside
    the order are untouched, and for every lump of the order every list entry has exactly one record at its own index and
    every index stored in a record resolves - in the FINAL list of its target lump - to the object referred to. *)
Theorem c11_save_closure : forall refs fuel order T R T' R', NoDup order -> forward refs order -> tinv T ->
  msave refs fuel order T R = (T', R', true) ->
  tinv T' /\ text T T' /\ (forall M, ~ In M order -> T' M = T M /\ R' M = R M) /\
  forall L, In L order -> map fst (R' L) = items (T' L) /\ Forall (rec_ok refs L T') (R' L).
Proof. exact msave_closure. Qed.
(** Composed with the objects read from the source: LUMP_REBUILD_ORDER and the (writer, owner) append edges pass [order_ok];
    then for ANY reference structure that stays within those edges (lumps identified with their positions in the order) and
    any initial lists the closure statement holds for every lump. *)
Theorem c11_save_cross_reference_closure : forall refs order edges fuel T R T' R',
  order_ok order edges = true -> respects refs order edges -> tinv T ->
  msave refs fuel (seq 0 (List.length order)) T R = (T', R', true) ->
  forall L, (L < List.length order)%nat -> map fst (R' L) = items (T' L) /\ Forall (rec_ok refs L T') (R' L).
Proof. exact save_cross_reference_closure. Qed.
(** A reference to a lump rebuilt EARLIER: lump 0 is written first (empty), then object 5 of lump 1 refers to the unlisted
    object 9 of lump 0 - it is appended to list 0 and gets index 0, but list 0 has no record. *)
Theorem c11_save_backward_reference_refuted :
  let T0 : tables := fun L => if Nat.eqb L 1 then fi_init [5%N] else fi_init [] in
  let '(T', R', ok) := msave refs_back 5 [0; 1]%nat T0 (fun _ => []) in
  ok = true /\ items (T' 0%nat) = [9%N] /\ R' 0%nat = [] /\ R' 1%nat = [(5%N, [(0, 0)]%nat)].
Proof. exact msave_backward_refuted. Qed.

(** * Round 5: the static-prop format is chosen by the READER of an earlier file and used by the WRITER of the next *)
(** Generic over the tables generated from [_lmp_read_props] / [_lmp_write_props] (for every BSP version, header number,
    record size and format named beforehand: what the reader of an empty lump records, what the reader of a lump with records
    records / decodes with, what the writer writes in and which header number it sets).  A fresh object reads a file whose
    static-prop lump is EMPTY; props are assigned; the object saves (the records have the size of the format written in, the
    header number is the one the writer sets, else the one of the file); a fresh object reads that file.  If the tables pass
    [pv_from_empty_ok]: whatever format [st] the first reader settled on, the writer writes in a format [w] and the second
    reader records [w], decodes with [w], and runs the same field ladder. *)
Theorem c11_prop_version_from_empty_lump : forall c, pv_from_empty_ok c = true ->
  forall bv h, In bv (c_bsp c) -> In h pv_hdrs ->
  forall st, read_empty c bv h 0%N = Some (Some st) ->
  exists r w lw h' sz, write_props c st h = Some (Some (r, w, lw, h')) /\ size_of c w = Some sz /\
                       read_sized c bv h' sz 0%N = Some (Some (w, w, lw)).
Proof. exact from_empty_stable. Qed.
(** ... and there is no third outcome: the empty lump is rejected with an error, or a format is recorded. *)
Theorem c11_prop_version_empty_lump_total : forall c, pv_from_empty_ok c = true ->
  forall bv h, In bv (c_bsp c) -> In h pv_hdrs ->
  read_empty c bv h 0%N = Some None \/ exists st, read_empty c bv h 0%N = Some (Some st).
Proof. exact from_empty_total. Qed.
(** Props assigned to an object that NEVER read the lump (no format recorded), whatever header number the opened file has:
    the writer falls back to a format [w] and the fresh reader of the saved file records and decodes with [w]. *)
Theorem c11_prop_version_never_read : forall c, pv_never_read_ok c = true ->
  forall bv h, In bv (c_bsp c) -> In h pv_hdrs ->
  exists r w lw h' sz, write_props c 0%N h = Some (Some (r, w, lw, h')) /\ size_of c w = Some sz /\
                       read_sized c bv h' sz 0%N = Some (Some (w, w, lw)).
Proof. exact never_read_stable. Qed.
(** The caller names the format [m]: it is the format written, under its own header number; a fresh reader settles on a format
    [d] with the header number and the record size of [m], records what it decodes with and - if [d] is [m] - runs the writer's
    ladder; named to the reader, [m] is believed, also by the reader of an empty lump.  (Two members may share the pair: the file
    cannot say which it holds.) *)
Theorem c11_prop_version_named : forall c, pv_named_ok c = true ->
  forall bv m, In bv (c_bsp c) -> (1 <= m <= N.of_nat (List.length (c_members c)))%N ->
  exists lw h sz d ld,
    hdr_of c m = Some h /\ size_of c m = Some sz /\ write_props c m h = Some (Some (m, m, lw, h)) /\
    read_sized c bv h sz 0%N = Some (Some (d, d, ld)) /\ (d = m -> ld = lw) /\ hdr_of c d = Some h /\ size_of c d = Some sz /\
    read_sized c bv h sz m = Some (Some (m, m, lw)) /\ read_empty c bv h m = Some (Some m).
Proof. exact named_detected. Qed.
(** When no other member has the (header number, record size) of [m], the fresh reader finds [m] itself. *)
Theorem c11_prop_version_detected : forall c, pv_named_ok c = true ->
  forall bv m, In bv (c_bsp c) -> (1 <= m <= N.of_nat (List.length (c_members c)))%N -> unique_pair c m = true ->
  exists lw h sz, hdr_of c m = Some h /\ size_of c m = Some sz /\ write_props c m h = Some (Some (m, m, lw, h)) /\
                  read_sized c bv h sz 0%N = Some (Some (m, m, lw)).
Proof. exact named_detected_unique. Qed.
(** The guess for an empty lump stops at the FIRST member with the header number while files with records of that size are
    read as the second: written in format 1 (ladder 11), decoded as format 2 (ladder 7).  The last-match guess passes. *)
Theorem c11_prop_version_first_match_refuted :
  hist_from_empty_ok pv_first_match_cfg 20 11 = false /\
  hist_from_empty pv_first_match_cfg 20 11 = Some (Some (1, 11, Some (2, 2, 7)))%N /\
  hist_from_empty_ok pv_last_match_cfg 20 11 = true.
Proof. exact first_match_refuted. Qed.
(** The writer falls back to format 1 (header number 5, 60 bytes) but leaves the header number of the opened file (10): the
    fresh reader raises.  A writer that sets the header number passes. *)
Theorem c11_prop_version_header_left_refuted :
  hist_never_read_ok pv_header_left_cfg 20 10 = false /\
  hist_never_read pv_header_left_cfg 20 10 = Some (1, 5, None)%N /\
  hist_never_read_ok pv_header_set_cfg 20 10 = true.
Proof. exact header_left_refuted. Qed.

(** The three histories in one statement, for tables that pass [pv_ok] (discharged for today's tables on every run as
    [prop_format_tables_pass]): whatever was read before - an empty lump, nothing at all, or a format named by the caller -, the
    format the props are written in is the format a fresh reader of the saved file decodes them with.  Together with
    [c11_prop_layout_agree] (for every format the reader's and the writer's field ladders agree and have the declared size)
    this is "static props in every supported format version" for every history that leads to the writer. *)
Theorem c11_static_prop_format_property : forall c, pv_ok c = true ->
  forall bv, In bv (c_bsp c) ->
  (forall h, In h pv_hdrs -> read_empty c bv h 0%N = Some None \/
                             exists st, read_empty c bv h 0%N = Some (Some st) /\ found_again c bv h st) /\
  (forall h, In h pv_hdrs -> found_again c bv h 0%N) /\
  (forall m, (1 <= m <= N.of_nat (List.length (c_members c)))%N ->
     exists h sz lw, hdr_of c m = Some h /\ size_of c m = Some sz /\ read_empty c bv h m = Some (Some m) /\
                     write_props c m h = Some (Some (m, m, lw, h)) /\ read_sized c bv h sz m = Some (Some (m, m, lw)) /\
                     (unique_pair c m = true -> read_sized c bv h sz 0%N = Some (Some (m, m, lw)))).
Proof. exact pv_property. Qed.

(** * Round 5: what save() leaves behind when a writer rejects a value *)
(** Generic over the event list read from the rebuild loop of [save()] (the view leaves the cache / a point that can raise / the
    bytes are stored in the lump): if it passes [commit_ok], then whichever raising point raises, the view is still in the cache
    when save() gives up and nothing was stored - the caller can repair the value and save again -, and when nothing raises the
    view has left the cache and its bytes are in the lump. *)
Theorem c11_rejected_save_keeps_the_view : forall evs, commit_ok evs = true ->
  (forall k, let '(s, finished) := sc_run evs (Some k) sc_init in finished = false -> cached s = true /\ stored s = false) /\
  (let '(s, finished) := sc_run evs None sc_init in finished = true /\ cached s = false /\ stored s = true).
Proof. exact commit_ok_sound. Qed.
(** The view is popped from the cache before its writer runs: a writer that raises leaves it neither in the cache nor in the lump
    (the next save() writes an empty lump without any error).  Dropping it after the last raising point passes. *)
Theorem c11_rejected_save_pop_first_refuted :
  commit_ok [EvDrop; EvRaise; EvStore] = false /\
  sc_run [EvDrop; EvRaise; EvStore] (Some 0%nat) sc_init = ({| cached := false; stored := false |}, false) /\
  commit_ok [EvRaise; EvDrop; EvStore] = true.
Proof. exact commit_pop_first_refuted. Qed.
