(** C10 — saving an unmodified BSP is lossless whichever lump views were looked at.
    Only statements here; the model is SM/LazyLumps.v, the proofs are in SM/LazyLumpsProofs.v.

    The theorems hold for EVERY dependency graph [g] with [order_consistent g = true]; the instance
    obligation [order_consistent bsp_graph = true] for the graph generated from today's bsp.py
    (Gen/BspGraph_gen.v) is discharged by the check on every run (vm_compute; reflexivity).
    [rd] / [wr] are the per-view lump codecs; "the writer inverts the reader on the lumps of this file"
    ([codec_ok], [wr_len_ok]; that is property C11) is a visible hypothesis. *)
From Coq Require Import List Arith.
From SV Require Import SM.LazyLumps SM.LazyLumpsProofs.
Import ListNotations.

Section C10.
  Variables D P : Type.
  Variable empty : D.
  Variable rd : nat -> list D -> P.
  Variable wr : nat -> P -> list D.
  Variable g : graph.

  Notation state := (state D P).
  Notation run := (run D P empty rd g).
  Notation get := (get D P empty rd g).
  Notation save := (save D P empty rd wr g).
  Notation fresh := (fresh D P).
  Notation codec_ok := (codec_ok D P rd wr g).
  Notation wr_len_ok := (wr_len_ok D P rd wr g).
  Notation same_content := (same_content D P rd g).

  (** If no view was looked at, saving leaves every lump byte-identical (no condition on the graph). *)
  Theorem c10_nothing_viewed_identity : forall s : state, fresh s -> save s = s.
  Proof. exact (save_fresh_id D P empty rd wr g). Qed.

  (** Looking at a view always succeeds (the reader nesting is bounded by the number of views). *)
  Theorem c10_get_total : order_consistent g = true ->
    forall (s0 : state) accs v, fresh s0 -> v < nviews g -> exists p, cache (get v (run accs s0)) v = Some p.
  Proof. exact (get_total D P empty rd wr g). Qed.

  (** Merely looking never empties or changes a lump: after ANY sequence of accesses every view still denotes
      the content parsed from the original file (cleared raw data is always matched by a cached value), and
      lumps without a structured view are untouched. *)
  Theorem c10_view_look_preserves : order_consistent g = true ->
    forall (s0 : state) accs, fresh s0 ->
    let s := run accs s0 in
    (forall v, v < nviews g -> denote D P rd g s v = denote D P rd g s0 v) /\
    (forall l, ~ owned g l -> raw s l = raw s0 l).
  Proof. exact (view_look_preserves D P empty rd wr g). Qed.

  (** Main statement: for ALL access sequences (any subset of views, any order, repetitions), after save the
      cache is empty, every view parses to the same content as before, every lump without a view is
      byte-identical. *)
  Theorem c10_save_lossless : order_consistent g = true ->
    forall (s0 : state) accs, fresh s0 -> wr_len_ok s0 -> codec_ok s0 ->
    let s' := save (run accs s0) in fresh s' /\ same_content s' s0.
  Proof. exact (save_lossless D P empty rd wr g). Qed.

  (** Lumps of views outside any dependency-closed set containing the accessed views stay byte-identical. *)
  Theorem c10_save_untouched_exact : order_consistent g = true ->
    forall (s0 : state) accs (R : nat -> Prop), fresh s0 -> wr_len_ok s0 ->
    (forall v d, v < nviews g -> R v -> In d (v_rdeps (decl g v) ++ v_wdeps (decl g v)) -> R d) ->
    (forall v, In v accs -> R v) ->
    let s' := save (run accs s0) in
    forall v l, v < nviews g -> ~ R v -> In l (own g v) -> raw s' l = raw s0 l.
  Proof. exact (save_untouched_exact D P empty rd wr g). Qed.

  (** Saving the result again changes nothing. *)
  Theorem c10_save_idempotent : order_consistent g = true ->
    forall (s0 : state) accs, fresh s0 -> wr_len_ok s0 ->
    let s' := save (run accs s0) in save s' = s'.
  Proof. exact (save_idempotent D P empty rd wr g). Qed.

  (** Any number of look/save cycles, each with its own access sequence. *)
  Theorem c10_cycles_lossless : order_consistent g = true ->
    forall cs (s0 : state), fresh s0 -> wr_len_ok s0 -> codec_ok s0 ->
    let s' := run_cycles D P empty rd wr g cs s0 in fresh s' /\ same_content s' s0.
  Proof. exact (cycles_lossless D P empty rd wr g). Qed.
End C10.

(** The hypotheses are satisfiable (a consistent graph with reader and writer dependencies, identity codec). *)
Theorem c10_hypotheses_satisfiable :
  order_consistent g_ok = true /\ fresh nat (list nat) ex_s0 /\
  wr_len_ok nat (list nat) ex_rd ex_wr g_ok ex_s0 /\ codec_ok nat (list nat) ex_rd ex_wr g_ok ex_s0.
Proof. exact (conj g_ok_consistent ex_hyps). Qed.

(** Each clause of [order_consistent] is necessary: closed counterexamples (lump 0 = b''). *)
Theorem c10_self_dependent_writer_refuted :
  let s' := save nat (list nat) 0 ex_rd ex_wr g_self (run nat (list nat) 0 ex_rd g_self [0] ex_s0) in
  order_consistent g_self = false /\ raw ex_s0 0 = 1 /\ raw s' 0 = 0 /\ cache s' 0 = Some [0].
Proof. exact self_dependent_writer_refuted. Qed.

Theorem c10_rebuild_order_refuted :
  let s' := save nat (list nat) 0 ex_rd ex_wr g_order (run nat (list nat) 0 ex_rd g_order [1] ex_s0) in
  order_consistent g_order = false /\ raw ex_s0 0 = 1 /\ raw s' 0 = 0 /\ cache s' 0 = Some [1].
Proof. exact rebuild_order_refuted. Qed.

Theorem c10_cleared_lump_not_rewritten_refuted :
  let s' := save nat (list nat) 0 ex_rd ex_wr g_unstored (run nat (list nat) 0 ex_rd g_unstored [0] ex_s0) in
  order_consistent g_unstored = false /\ raw ex_s0 1 = 2 /\ raw s' 1 = 0.
Proof. exact cleared_lump_not_rewritten_refuted. Qed.

Theorem c10_shared_lump_refuted :
  let s' := save nat (list nat) 0 ex_rd ex_wr g_shared (run nat (list nat) 0 ex_rd g_shared [0; 1] ex_s0) in
  order_consistent g_shared = false /\ raw ex_s0 7 = 8 /\ raw s' 7 = 0.
Proof. exact shared_lump_refuted. Qed.
