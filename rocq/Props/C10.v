(** C10 — saving an unmodified BSP is lossless whichever lump views were looked at.
    Only statements here; the model is SM/LazyLumps.v, the proofs are in SM/LazyLumpsProofs.v.

    The theorems hold for EVERY dependency graph [g] with [order_consistent g = true] and every statement
    order of __get__ / loop shape of save [sh] with [shape_ok sh = true]; the instance obligations
    [order_consistent bsp_graph = true] and [shape_ok bsp_shape = true] for the graph and the shape generated
    from today's bsp.py (Gen/BspGraph_gen.v) are discharged by the check on every run (vm_compute; reflexivity).
    [rd] / [wr] are the per-view lump codecs; [rd] returns [None] when the reader raises, and access sequences
    may contain looks that raise (the caller catches the exception and goes on).  "The writer inverts the reader
    on the lumps of this file" ([codec_ok], [wr_len_ok]; that is property C11) is a visible hypothesis.
    [save] returns a flag: [false] when a look inside a writer raised (BSP.save raises, no file is written). *)
From Coq Require Import List Arith.
From Coq Require Import NArith.
From SV Require Import SM.LazyLumps SM.LazyLumpsProofs SM.LazyLumpsAppend SM.LazyLumpsCond SM.LazyLumpsSide SM.LazyLumpsMut Fmt.BspContainer Fmt.BspContainerProofs.
From SV Require Bin.FindInsert.
Import ListNotations.

Section C10.
  Variables D P : Type.
  Variable empty : D.
  Variable rd : nat -> list D -> option P.
  Variable wr : nat -> P -> list D.
  Variable g : graph.
  Variable sh : shape.

  Notation state := (state D P).
  Notation run := (run D P empty rd g sh).
  Notation get := (get D P empty rd g sh).
  Notation save := (save D P empty rd wr g sh).
  Notation fresh := (fresh D P).
  Notation codec_ok := (codec_ok D P rd wr g).
  Notation wr_len_ok := (wr_len_ok D P rd wr g).
  Notation writers_can_look := (writers_can_look D P rd g).
  Notation same_content := (same_content D P rd g).
  Notation denote := (denote D P rd g).

  (** If no view was looked at, saving leaves every lump byte-identical (no condition on graph or shape). *)
  Theorem c10_nothing_viewed_identity : forall s : state, fresh s -> save s = (true, s).
  Proof. exact (save_fresh_id D P empty rd wr g sh). Qed.

  (** A look either succeeds, and then the view is cached with what its reader makes of the file's lumps, or
      raises, and then only because the reader of this view or of a view later in the rebuild order rejects the
      file's data (the reader nesting is bounded by the number of views: fuel is never the reason). *)
  Theorem c10_get_total : order_consistent g = true -> shape_ok sh = true ->
    forall (s0 : state) accs v, fresh s0 -> v < nviews g ->
    let r := get v (run accs s0) in
    (fst r = true -> exists p, cache (snd r) v = Some p /\ rd v (own_data D P g s0 v) = Some p) /\
    (fst r = false -> exists e, v <= e /\ e < nviews g /\ rd e (own_data D P g s0 e) = None) /\
    ((forall e, v <= e -> e < nviews g -> rd e (own_data D P g s0 e) <> None) -> fst r = true).
  Proof. exact (get_total D P empty rd wr g sh). Qed.

  (** A look that raises is the identity as far as the property can see: after ANY access sequence, a failing
      look leaves the view uncached and its lumps untouched, every view denotes what it denoted, lumps without
      a view are unchanged. *)
  Theorem c10_failed_get_is_identity : order_consistent g = true -> shape_ok sh = true ->
    forall (s0 : state) accs v, fresh s0 -> v < nviews g ->
    let s := run accs s0 in let r := get v s in fst r = false ->
    cache (snd r) v = None /\ (forall l, In l (own g v) -> raw (snd r) l = raw s l) /\
    (forall w, w < nviews g -> denote (snd r) w = denote s w) /\
    (forall l, ~ owned g l -> raw (snd r) l = raw s l).
  Proof. exact (failed_get_is_identity D P empty rd wr g sh). Qed.

  (** ... and literally the identity for a view whose reader looks at no other view (needs only the statement
      order of __get__: no graph condition, any state). *)
  Theorem c10_failed_get_leaf_identity : sh_early_main sh = false -> sh_early_extra sh = false ->
    forall v (s : state), v_rdeps (decl g v) = [] -> fst (get v s) = false -> snd (get v s) = s.
  Proof. intros E1 E2. exact (failed_get_leaf_identity D P empty rd g sh E1 E2 (nviews g)). Qed.

  (** Merely looking never empties or changes a lump: after ANY sequence of accesses (successful or raising)
      every view still denotes the content parsed from the original file (cleared raw data is always matched by
      a cached value), and lumps without a structured view are untouched. *)
  Theorem c10_view_look_preserves : order_consistent g = true -> shape_ok sh = true ->
    forall (s0 : state) accs, fresh s0 ->
    let s := run accs s0 in
    (forall v, v < nviews g -> denote s v = denote s0 v) /\
    (forall l, ~ owned g l -> raw s l = raw s0 l).
  Proof. exact (view_look_preserves D P empty rd wr g sh). Qed.

  (** Main statement: for ALL access sequences (any subset of views, any order, repetitions, looks that raise),
      if save completes the cache is empty, every view parses to the same content as before (or is rejected
      exactly as before), every lump without a view is byte-identical; and save does complete when every view a
      writer looks at can be parsed whenever the writer's own view could. *)
  Theorem c10_save_lossless : order_consistent g = true -> shape_ok sh = true ->
    forall (s0 : state) accs, fresh s0 -> wr_len_ok s0 -> codec_ok s0 ->
    let r := save (run accs s0) in
    (fst r = true -> fresh (snd r) /\ same_content (snd r) s0) /\ (writers_can_look s0 -> fst r = true).
  Proof. exact (save_lossless D P empty rd wr g sh). Qed.

  (** [writers_can_look] is a consequence of a decidable condition on the graph alone (an instance obligation for
      today's bsp.py): every view a writer looks at is among the views the reader of the same view looks at. *)
  Theorem c10_writers_can_look_from_graph :
    wdeps_within_rdeps g = true -> forall s0 : state, writers_can_look s0.
  Proof. exact (writers_can_look_from_graph D P rd g). Qed.

  (** Lumps of views outside any dependency-closed set containing the accessed views stay byte-identical. *)
  Theorem c10_save_untouched_exact : order_consistent g = true -> shape_ok sh = true ->
    forall (s0 : state) accs (R : nat -> Prop), fresh s0 -> wr_len_ok s0 ->
    (forall v d, v < nviews g -> R v -> In d (v_rdeps (decl g v) ++ v_wdeps (decl g v)) -> R d) ->
    (forall v, In v accs -> R v) ->
    let r := save (run accs s0) in fst r = true ->
    forall v l, v < nviews g -> ~ R v -> In l (own g v) -> raw (snd r) l = raw s0 l.
  Proof. exact (save_untouched_exact D P empty rd wr g sh). Qed.

  (** Saving the result again changes nothing. *)
  Theorem c10_save_idempotent : order_consistent g = true -> shape_ok sh = true ->
    forall (s0 : state) accs, fresh s0 -> wr_len_ok s0 ->
    let r := save (run accs s0) in fst r = true -> save (snd r) = (true, snd r).
  Proof. exact (save_idempotent D P empty rd wr g sh). Qed.

  (** Any number of look/save cycles, each with its own access sequence. *)
  Theorem c10_cycles_lossless : order_consistent g = true -> shape_ok sh = true ->
    forall cs (s0 : state), fresh s0 -> wr_len_ok s0 -> codec_ok s0 ->
    let r := run_cycles D P empty rd wr g sh cs s0 in fst r = true -> fresh (snd r) /\ same_content (snd r) s0.
  Proof. exact (cycles_lossless D P empty rd wr g sh). Qed.
End C10.

(** The hypotheses are satisfiable (a consistent graph with reader and writer dependencies, identity codec whose
    reader rejects lumps starting with 99), also on a file where a look raises. *)
Theorem c10_hypotheses_satisfiable :
  order_consistent g_ok = true /\ shape_ok std_shape = true /\ fresh nat (list nat) ex_s0 /\
  wr_len_ok nat (list nat) ex_rd ex_wr g_ok ex_s0 /\ codec_ok nat (list nat) ex_rd ex_wr g_ok ex_s0 /\
  writers_can_look nat (list nat) ex_rd g_ok ex_s0.
Proof. exact (conj g_ok_consistent (conj eq_refl ex_hyps)). Qed.

Theorem c10_failing_look_example :
  let q := get nat (list nat) 0 ex_rd g_part std_shape 0 ex_bad in
  let r := save nat (list nat) 0 ex_rd ex_wr g_part std_shape (snd q) in
  order_consistent g_part = true /\
  fst q = false /\ map (cache (snd q)) [0; 1; 2] = [None; Some [2; 6]; None] /\
  map (raw (snd q)) [0; 1; 2; 3; 5] = [1; 0; 99; 4; 0] /\
  fst r = true /\ map (raw (snd r)) [0; 1; 2; 3; 5] = [1; 2; 99; 4; 6] /\ map (cache (snd r)) [0; 1; 2] = [None; None; None].
Proof. exact g_part_failing_look. Qed.

(** Each clause of [order_consistent] is necessary: closed counterexamples (lump 0 = b''). *)
Theorem c10_self_dependent_writer_refuted :
  let r := save nat (list nat) 0 ex_rd ex_wr g_self std_shape (run nat (list nat) 0 ex_rd g_self std_shape [0] ex_s0) in
  order_consistent g_self = false /\ raw ex_s0 0 = 1 /\ fst r = true /\ raw (snd r) 0 = 0 /\ cache (snd r) 0 = Some [0].
Proof. exact self_dependent_writer_refuted. Qed.

Theorem c10_rebuild_order_refuted :
  let r := save nat (list nat) 0 ex_rd ex_wr g_order std_shape (run nat (list nat) 0 ex_rd g_order std_shape [1] ex_s0) in
  order_consistent g_order = false /\ raw ex_s0 0 = 1 /\ fst r = true /\ raw (snd r) 0 = 0 /\ cache (snd r) 0 = Some [1].
Proof. exact rebuild_order_refuted. Qed.

Theorem c10_cleared_lump_not_rewritten_refuted :
  let r := save nat (list nat) 0 ex_rd ex_wr g_unstored std_shape (run nat (list nat) 0 ex_rd g_unstored std_shape [0] ex_s0) in
  order_consistent g_unstored = false /\ raw ex_s0 1 = 2 /\ fst r = true /\ raw (snd r) 1 = 0.
Proof. exact cleared_lump_not_rewritten_refuted. Qed.

Theorem c10_shared_lump_refuted :
  let r := save nat (list nat) 0 ex_rd ex_wr g_shared std_shape (run nat (list nat) 0 ex_rd g_shared std_shape [0; 1] ex_s0) in
  order_consistent g_shared = false /\ raw ex_s0 7 = 8 /\ fst r = true /\ raw (snd r) 7 = 0.
Proof. exact shared_lump_refuted. Qed.

(** Each flag of [shape] is harmful even on an order-consistent graph. *)
(** seeded fault class c10_2: __get__ empties the main lump before the reader has run; a look that raises loses it. *)
Theorem c10_clear_before_parse_refuted :
  let sh := mkShape true false false in
  let q := get nat (list nat) 0 ex_rd g_one sh 0 ex_bad in
  let r := save nat (list nat) 0 ex_rd ex_wr g_one sh (snd q) in
  order_consistent g_one = true /\ shape_ok sh = false /\ raw ex_bad 2 = 99 /\
  fst q = false /\ cache (snd q) 0 = None /\ fst r = true /\ raw (snd r) 2 = 0 /\ raw (snd r) 3 = 4.
Proof. exact clear_before_parse_refuted. Qed.

Theorem c10_clear_extra_before_parse_refuted :
  let sh := mkShape false true false in
  let r := save nat (list nat) 0 ex_rd ex_wr g_one sh (run nat (list nat) 0 ex_rd g_one sh [0] ex_s0) in
  order_consistent g_one = true /\ shape_ok sh = false /\ raw ex_s0 3 = 4 /\ fst r = true /\ raw (snd r) 3 = 0.
Proof. exact clear_extra_before_parse_refuted. Qed.

(** seeded fault class c10_1: save walks a snapshot of the cached views; a view first parsed by a writer is never
    written back (with the standard shape the same history is lossless: last conjunct). *)
Theorem c10_snapshot_save_refuted :
  let sh := mkShape false false true in
  let r := save nat (list nat) 0 ex_rd ex_wr g_wdep sh (run nat (list nat) 0 ex_rd g_wdep sh [0] ex_s0) in
  order_consistent g_wdep = true /\ shape_ok sh = false /\ raw ex_s0 1 = 2 /\
  fst r = true /\ raw (snd r) 1 = 0 /\ cache (snd r) 1 = Some [2] /\
  raw (snd (save nat (list nat) 0 ex_rd ex_wr g_wdep std_shape (run nat (list nat) 0 ex_rd g_wdep std_shape [0] ex_s0))) 1 = 2.
Proof. exact snapshot_save_refuted. Qed.

(** ---------------------------------------------------------------------------------------------------------
    Conditional stores (round 3, fault class of seeded c10_4).  A writer whose store of an owned lump may be skipped for
    some values is [wrc : nat -> P -> list (option D)] ([None] = skipped: the lump keeps what it holds); [save_c] is
    BSP.save with such writers (SM/LazyLumpsCond.v).  Instance obligation of the check: today's writers store no
    lump that a view clears conditionally, so [save] is the model of today's BSP.save. *)
Section C10Cond.
  Variables D P : Type.
  Variable empty : D.
  Variable rd : nat -> list D -> option P.
  Variable wrc : nat -> P -> list (option D).
  Variable g : graph.
  Variable sh : shape.

  (** A skipped store of a lump that a view clears is a store of b'': for every order-consistent graph, every shape and
      every access sequence, saving with skipped stores is exactly saving with the writer that stores b'' instead
      (every lump of a cached view is b'' when its writer runs, and looks only ever empty lumps). *)
  Theorem c10_skipped_store_of_cleared_lump_stores_empty : order_consistent g = true ->
    forall (s0 : state D P) accs, fresh D P s0 ->
    save_c D P empty rd wrc g sh (run D P empty rd g sh accs s0)
    = save D P empty rd (wr_fill D P empty wrc) g sh (run D P empty rd g sh accs s0).
  Proof. exact (save_c_eq_save D P empty rd wrc g sh). Qed.

  (** Hence saving with conditional stores is lossless exactly when the writer that stores b'' for a skipped store inverts
      the reader: the reader must make of b'' the very value for which the store is skipped. *)
  Theorem c10_conditional_store_lossless : order_consistent g = true -> shape_ok sh = true ->
    forall (s0 : state D P) accs, fresh D P s0 ->
    wr_len_ok D P rd (wr_fill D P empty wrc) g s0 -> codec_ok D P rd (wr_fill D P empty wrc) g s0 ->
    let r := save_c D P empty rd wrc g sh (run D P empty rd g sh accs s0) in
    (fst r = true -> fresh D P (snd r) /\ same_content D P rd g (snd r) s0) /\
    (writers_can_look D P rd g s0 -> fst r = true).
  Proof. exact (cond_save_lossless D P empty rd wrc g sh). Qed.
End C10Cond.

(** seeded fault class c10_4: the store of the auxiliary lump is skipped when all its values are zero, but the reader's
    default for an absent lump is (9, 0): the values (0, 0) come back as (9, 0) although every graph condition holds
    (what fails is [codec_ok] of the filled writer); one non-zero value and the same history is lossless. *)
Theorem c10_conditional_store_refuted :
  let rd := cx_rd [9; 0] in
  let s0 := cx_file [0; 0] in
  let r := save_c (list nat) (list (list nat)) [] rd cx_wrc g_aux std_shape (run (list nat) (list (list nat)) [] rd g_aux std_shape [0] s0) in
  order_consistent g_aux = true /\
  denote (list nat) (list (list nat)) rd g_aux s0 0 = Some [[7]; [0; 0]] /\
  fst r = true /\ raw (snd r) 2 = [7] /\ raw (snd r) 3 = [] /\
  denote (list nat) (list (list nat)) rd g_aux (snd r) 0 = Some [[7]; [9; 0]] /\
  rd 0 (wr_fill (list nat) (list (list nat)) [] cx_wrc 0 [[7]; [0; 0]]) <> Some [[7]; [0; 0]] /\
  raw (snd (save_c (list nat) (list (list nat)) [] rd cx_wrc g_aux std_shape
              (run (list nat) (list (list nat)) [] rd g_aux std_shape [0] (cx_file [0; 4])))) 3 = [0; 4].
Proof. exact conditional_store_refuted. Qed.

(** Non-vacuity: with the default (0, 0) the hypotheses hold on a file for which the store IS skipped; the lump comes
    back empty, the view parses to the same content (the OVERLAY_SYSTEM_LEVELS half of the seeded change). *)
Theorem c10_conditional_store_hypotheses_satisfiable :
  let rd := cx_rd [0; 0] in
  let s0 := cx_file [0; 0] in
  let r := save_c (list nat) (list (list nat)) [] rd cx_wrc g_aux std_shape (run (list nat) (list (list nat)) [] rd g_aux std_shape [0] s0) in
  fresh (list nat) (list (list nat)) s0 /\
  wr_len_ok (list nat) (list (list nat)) rd (wr_fill (list nat) (list (list nat)) [] cx_wrc) g_aux s0 /\
  codec_ok (list nat) (list (list nat)) rd (wr_fill (list nat) (list (list nat)) [] cx_wrc) g_aux s0 /\
  cx_wrc 0 [[7]; [0; 0]] = [Some [7]; None] /\ raw (snd r) 3 = [] /\
  denote (list nat) (list (list nat)) rd g_aux (snd r) 0 = denote (list nat) (list (list nat)) rd g_aux s0 0.
Proof. exact cond_hyps_satisfiable. Qed.

(** ---------------------------------------------------------------------------------------------------------
    Writers that store a lump NO view owns (SM/LazyLumpsSide.v): _write_faces_common rewrites FACEIDS, a lump the faces
    reader reads raw and the property wants back byte-identical.  [seqv] is pointwise equality of states. *)
Section C10Side.
  Variables D P : Type.
  Variable empty : D.
  Variable rd : nat -> list D -> option P.
  Variable wr : nat -> P -> list D.
  Variable wside : nat -> P -> list (nat * D).
  Variable g : graph.
  Variable sh : shape.

  (** If, on the values parsed from this file, every store outside the writer's own view goes to an unowned lump and
      puts there what the file holds ([side_ok]), saving with those stores is saving without them: same completion
      flag, every lump and every cache entry equal, for all access sequences. *)
  Theorem c10_store_outside_view_is_invisible : order_consistent g = true -> shape_ok sh = true ->
    forall s0 : state D P, wr_len_ok D P rd wr g s0 -> side_ok D P rd wside g s0 -> fresh D P s0 -> forall accs,
    fst (save_s D P empty rd wr wside g sh (run D P empty rd g sh accs s0)) = fst (save D P empty rd wr g sh (run D P empty rd g sh accs s0)) /\
    seqv D P (snd (save_s D P empty rd wr wside g sh (run D P empty rd g sh accs s0))) (snd (save D P empty rd wr g sh (run D P empty rd g sh accs s0))).
  Proof. exact (side_save_equiv D P empty rd wr wside g sh). Qed.

  (** ... and therefore lossless under the hypotheses of the main theorem. *)
  Theorem c10_store_outside_view_lossless : order_consistent g = true -> shape_ok sh = true ->
    forall s0 : state D P, wr_len_ok D P rd wr g s0 -> side_ok D P rd wside g s0 -> fresh D P s0 -> codec_ok D P rd wr g s0 ->
    forall accs, let r := save_s D P empty rd wr wside g sh (run D P empty rd g sh accs s0) in
    (fst r = true -> fresh D P (snd r) /\ same_content D P rd g (snd r) s0) /\
    (writers_can_look D P rd g s0 -> fst r = true).
  Proof. exact (side_save_lossless D P empty rd wr wside g sh). Qed.
End C10Side.

(** [side_ok] is necessary (the defects repaired by fixes b7b21cf and 81886b6): a writer that fabricates ids for a file
    with an empty FACEIDS lump, or pads a short one with zeros, changes the lump that has no view although every graph
    condition holds; the writer that stores the ids as read (and nothing when there are none) does not. *)
Theorem c10_store_outside_view_fabricated_refuted :
  raw (snd (save_s (list nat) (list nat) nil sx_rd sx_wr (sx_pad nil) g_side std_shape
              (run (list nat) (list nat) nil sx_rd g_side std_shape (0 :: nil) (sx_file nil)))) 5 = 0 :: 0 :: nil /\
  raw (snd (save_s (list nat) (list nat) nil sx_rd sx_wr (sx_pad (100 :: nil)) g_side std_shape
              (run (list nat) (list nat) nil sx_rd g_side std_shape (0 :: nil) (sx_file (100 :: nil))))) 5 = 100 :: 0 :: nil /\
  raw (snd (save_s (list nat) (list nat) nil sx_rd sx_wr (sx_asread nil) g_side std_shape
              (run (list nat) (list nat) nil sx_rd g_side std_shape (0 :: nil) (sx_file nil)))) 5 = nil /\
  ~ side_ok (list nat) (list nat) sx_rd (sx_pad (100 :: nil)) g_side (sx_file (100 :: nil)).
Proof. exact side_store_fabricated_refuted. Qed.

(** Non-vacuity: all hypotheses hold for the as-read writer on a file with ids; the lump comes back as it was. *)
Theorem c10_store_outside_view_hypotheses_satisfiable :
  let s0 := sx_file (100 :: nil) in
  let r := save_s (list nat) (list nat) nil sx_rd sx_wr (sx_asread (100 :: nil)) g_side std_shape
             (run (list nat) (list nat) nil sx_rd g_side std_shape (0 :: nil) s0) in
  order_consistent g_side = true /\ fresh (list nat) (list nat) s0 /\
  wr_len_ok (list nat) (list nat) sx_rd sx_wr g_side s0 /\ codec_ok (list nat) (list nat) sx_rd sx_wr g_side s0 /\
  side_ok (list nat) (list nat) sx_rd (sx_asread (100 :: nil)) g_side s0 /\
  raw (snd r) 5 = 100 :: nil /\ raw (snd r) 2 = 7 :: 8 :: nil.
Proof. exact side_store_hyps_satisfiable. Qed.

(** ---------------------------------------------------------------------------------------------------------
    Readers that change, in place, objects of a view they look at (SM/LazyLumpsMut.v): _lmp_read_bmodels takes the
    "model" key out of the brush entities of the cached ents view, _lmp_write_bmodels puts it back before it
    serialises.  [getf_m] / [save_m]: the reader of [v] applies [mut v d] to the cached value of every [d] in [mdeps v]
    once its own parse has succeeded ([early = false]; [early = true]: before it can still raise), the writer of [v]
    applies [unmut v d] after it looked at its dependencies.  [R None s' s]: same lumps, same cached views, and the
    cached value of [x] in [s'] is that of [s] changed by the cached view that mutates [x], if any. *)
Section C10Mut.
  Variables D P : Type.
  Variable empty : D.
  Variable rd : nat -> list D -> option P.
  Variable wr : nat -> P -> list D.
  Variable g : graph.
  Variable sh : shape.
  Variable mdeps : nat -> list nat.
  Variable mut unmut : nat -> nat -> P -> P.
  Variable early : bool.

  (** If the change is made only after the reader's parse succeeded, every mutated view is looked at by the reader and
      by the writer of the mutating view, no two views change the same view and the writer's undo restores the values
      parsed from this file, then saving completes exactly when it does without the changes and leaves the same lumps
      and the same cache, for all access sequences (looks that raise included). *)
  Theorem c10_hidden_mutation_undone_is_invisible : order_consistent g = true -> shape_ok sh = true -> early = false ->
    (forall v d, In d (mdeps v) -> In d (v_rdeps (decl g v)) /\ In d (v_wdeps (decl g v))) ->
    (forall v w x, In x (mdeps v) -> In x (mdeps w) -> v = w) ->
    forall s0 : state D P,
    (forall v d p, In d (mdeps v) -> d < nviews g -> rd d (own_data D P g s0 d) = Some p -> unmut v d (mut v d p) = p) ->
    wr_len_ok D P rd wr g s0 -> fresh D P s0 -> forall accs,
    fst (save_m D P empty rd wr g sh mdeps mut unmut early (run_m D P empty rd g sh mdeps mut early accs s0))
    = fst (save D P empty rd wr g sh (run D P empty rd g sh accs s0)) /\
    (fst (save D P empty rd wr g sh (run D P empty rd g sh accs s0)) = true ->
     R D P mdeps mut None (snd (save_m D P empty rd wr g sh mdeps mut unmut early (run_m D P empty rd g sh mdeps mut early accs s0)))
       (snd (save D P empty rd wr g sh (run D P empty rd g sh accs s0)))).
  Proof. exact (mut_save_equiv D P empty rd wr g sh mdeps mut unmut early). Qed.

  (** ... and therefore lossless under the hypotheses of the main theorem. *)
  Theorem c10_hidden_mutation_lossless : order_consistent g = true -> shape_ok sh = true -> early = false ->
    (forall v d, In d (mdeps v) -> In d (v_rdeps (decl g v)) /\ In d (v_wdeps (decl g v))) ->
    (forall v w x, In x (mdeps v) -> In x (mdeps w) -> v = w) ->
    forall s0 : state D P,
    (forall v d p, In d (mdeps v) -> d < nviews g -> rd d (own_data D P g s0 d) = Some p -> unmut v d (mut v d p) = p) ->
    wr_len_ok D P rd wr g s0 -> fresh D P s0 -> codec_ok D P rd wr g s0 -> forall accs,
    let r := save_m D P empty rd wr g sh mdeps mut unmut early (run_m D P empty rd g sh mdeps mut early accs s0) in
    (fst r = true -> fresh D P (snd r) /\ same_content D P rd g (snd r) s0) /\
    (writers_can_look D P rd g s0 -> fst r = true).
  Proof. exact (mut_save_lossless D P empty rd wr g sh mdeps mut unmut early). Qed.
End C10Mut.

(** Non-vacuity: on the example graph (view 0 = bmodels looks at and mutates view 1 = ents) the hypotheses hold and the
    history "look at bmodels, look at ents, save" is lossless although the user saw the entities without the key. *)
Theorem c10_hidden_mutation_hypotheses_satisfiable :
  order_consistent g_mut = true /\
  (forall v d, In d (mx_mdeps v) -> In d (v_rdeps (decl g_mut v)) /\ In d (v_wdeps (decl g_mut v))) /\
  (forall v w x, In x (mx_mdeps v) -> In x (mx_mdeps w) -> v = w) /\
  (forall v d p, In d (mx_mdeps v) -> d < nviews g_mut -> mx_rd false d (own_data (list nat) (list nat) g_mut mx_file d) = Some p ->
     mx_unmut v d (mx_mut v d p) = p) /\
  cache (run_m (list nat) (list nat) nil (mx_rd false) g_mut std_shape mx_mdeps mx_mut false (0 :: 1 :: nil) mx_file) 1 = Some (7 :: nil) /\
  fst (save_m (list nat) (list nat) nil (mx_rd false) mx_wr g_mut std_shape mx_mdeps mx_mut mx_unmut false
         (run_m (list nat) (list nat) nil (mx_rd false) g_mut std_shape mx_mdeps mx_mut false (0 :: 1 :: nil) mx_file)) = true /\
  raw (snd (save_m (list nat) (list nat) nil (mx_rd false) mx_wr g_mut std_shape mx_mdeps mx_mut mx_unmut false
         (run_m (list nat) (list nat) nil (mx_rd false) g_mut std_shape mx_mdeps mx_mut false (0 :: 1 :: nil) mx_file))) 1 = 9 :: 7 :: nil /\
  raw (snd (save_m (list nat) (list nat) nil (mx_rd false) mx_wr g_mut std_shape mx_mdeps mx_mut mx_unmut false
         (run_m (list nat) (list nat) nil (mx_rd false) g_mut std_shape mx_mdeps mx_mut false (0 :: 1 :: nil) mx_file))) 0 = 5 :: nil.
Proof. exact mut_example_lossless. Qed.

(** [early = false] is necessary (the defect repaired by fix 477021c): the reader of view 0 raises on this file AFTER
    it changed the entities; the look fails, nothing is cached for view 0, its writer never runs, and save writes the
    entity lump without the key ([7] instead of [9; 7]).  With [early = false] the same history is lossless. *)
Theorem c10_hidden_mutation_before_raise_refuted :
  fst (get_m (list nat) (list nat) nil (mx_rd true) g_mut std_shape mx_mdeps mx_mut true 0 mx_file) = false /\
  cache (run_m (list nat) (list nat) nil (mx_rd true) g_mut std_shape mx_mdeps mx_mut true (0 :: nil) mx_file) 0 = None /\
  cache (run_m (list nat) (list nat) nil (mx_rd true) g_mut std_shape mx_mdeps mx_mut true (0 :: nil) mx_file) 1 = Some (7 :: nil) /\
  fst (save_m (list nat) (list nat) nil (mx_rd true) mx_wr g_mut std_shape mx_mdeps mx_mut mx_unmut true
         (run_m (list nat) (list nat) nil (mx_rd true) g_mut std_shape mx_mdeps mx_mut true (0 :: nil) mx_file)) = true /\
  raw (snd (save_m (list nat) (list nat) nil (mx_rd true) mx_wr g_mut std_shape mx_mdeps mx_mut mx_unmut true
         (run_m (list nat) (list nat) nil (mx_rd true) g_mut std_shape mx_mdeps mx_mut true (0 :: nil) mx_file))) 1 = 7 :: nil /\
  raw (snd (save_m (list nat) (list nat) nil (mx_rd true) mx_wr g_mut std_shape mx_mdeps mx_mut mx_unmut false
         (run_m (list nat) (list nat) nil (mx_rd true) g_mut std_shape mx_mdeps mx_mut false (0 :: nil) mx_file))) 1 = 9 :: 7 :: nil.
Proof. exact mut_before_raise_refuted. Qed.

(** The undo is necessary: a writer that leaves its reader's change in place loses the key. *)
Theorem c10_hidden_mutation_not_undone_refuted :
  raw (snd (save_m (list nat) (list nat) nil (mx_rd false) mx_wr g_mut std_shape mx_mdeps mx_mut (fun _ _ p => p) false
         (run_m (list nat) (list nat) nil (mx_rd false) g_mut std_shape mx_mdeps mx_mut false (0 :: nil) mx_file))) 1 = 7 :: nil.
Proof. exact mut_not_undone_refuted. Qed.

(** ---------------------------------------------------------------------------------------------------------
    The file container (Fmt/BspContainer.v): header, lump table in either field order, map revision, payload
    placement in write order, game-lump directory with absolute offsets and the dummy trailing entry, LZMA as an
    inverse pair.  [layout_ok bsp_layout] and [bsp_layout = std_layout] are instance obligations of the check. *)

(** Reading what was written gives back the container: version, field order, map revision, every lump's version,
    compressed flag and (decompressed) data, every game lump's id, flags, version and (decompressed) data. *)
Theorem c10_container_roundtrip : forall compress decompress : list N -> list N,
  (forall d, decompress (compress d) = d) ->
  forall (L : layout) (c : container), layout_ok L = true -> wf compress L c = true ->
  read decompress L (write compress L c) = Some c.
Proof. exact container_roundtrip. Qed.

(** Payload placement: the segment of every lump of the write order lies exactly at the offset and with the length the
    table records for it, whatever surrounds the body. *)
Theorem c10_container_payload_placement : forall (compress : list N -> list N) (L : layout) (c : container) order pos k pre post,
  In k order -> N.to_nat pos = length pre ->
  let off := offset_of compress L c pos order k in
  slice off (len (segment compress L c off k)) (pre ++ body compress L c pos order ++ post) = segment compress L c off k.
Proof. exact body_slice. Qed.

(** Non-vacuity: the standard layout is fine and a container with L4D2 field order, an LZMA lump, a pakfile and a
    compressed last game lump is well-formed (and round-trips by the theorem). *)
Theorem c10_container_hypotheses_satisfiable :
  layout_ok std_layout = true /\ wf ex_compress std_layout ex_container = true /\
  (forall d, ex_decompress (ex_compress d) = d) /\
  read ex_decompress std_layout (write ex_compress std_layout ex_container) = Some ex_container.
Proof. exact (conj std_layout_ok (conj ex_container_wf (conj ex_lzma_inverse ex_container_roundtrip))). Qed.

(** The non-range conditions of [wf] are necessary (closed witnesses). *)
Theorem c10_container_compressed_empty_lump_refuted :
  wf ex_compress std_layout ex_comp_empty = false /\
  option_map (fun c => nth 1 (c_lumps c) lump0) (read ex_decompress std_layout (write ex_compress std_layout ex_comp_empty))
  = Some (mkL 0 [93%N] false).
Proof. exact compressed_empty_lump_refuted. Qed.

Theorem c10_container_compressed_pakfile_refuted :
  wf ex_compress std_layout ex_comp_pak = false /\
  option_map (fun c => nth 40 (c_lumps c) lump0) (read ex_decompress std_layout (write ex_compress std_layout ex_comp_pak))
  = Some (mkL 0 [80%N; 75%N] false).
Proof. exact compressed_pakfile_refuted. Qed.

Theorem c10_container_game_lump_version_refuted :
  wf ex_compress std_layout ex_game_ver = false /\
  option_map (fun c => nth 35 (c_lumps c) lump0) (read ex_decompress std_layout (write ex_compress std_layout ex_game_ver))
  = Some (mkL 0 [] false).
Proof. exact game_lump_version_refuted. Qed.

Theorem c10_container_l4d2_first_version_refuted :
  let f := write ex_compress std_layout ex_l4d2_ver in
  wf ex_compress std_layout ex_l4d2_ver = false /\ c_l4d2 ex_l4d2_ver = true /\
  andb (N.eqb (get32 f 4) (l4d2_version std_layout)) (N.eqb (get32 f 8) 0) = false.
Proof. exact l4d2_first_version_refuted. Qed.

(** ---------------------------------------------------------------------------------------------------------
    Writers that append to a view they look at (instance obligation: writers only read or append).  In the lazy-lump
    model a writer leaves the cached value of a dependency unchanged; that is what [find_or_insert] (C11's model
    Bin/FindInsert.v) does whenever every requested item is already in the table, which is the case for values
    parsed from the file (each reference was resolved from that table). *)
Theorem c10_appending_writer_is_a_read_on_parsed_values : forall (l ks : list N), (forall k, In k ks -> In k l) ->
  FindInsert.items (fst (FindInsert.fi_run (FindInsert.fi_init l) ks)) = l.
Proof. exact find_or_insert_noop_on_parsed. Qed.

(** The hypothesis cannot be dropped: a missing item is appended (the dummy-edge vertex before fix dae40a3). *)
Theorem c10_appending_writer_missing_item_refuted :
  FindInsert.items (fst (FindInsert.fi_run (FindInsert.fi_init [5; 6]%N) [6; 7]%N)) = [5; 6; 7]%N.
Proof. exact append_when_missing. Qed.

(** ---------------------------------------------------------------------------------------------------------
    Round 4.  The premise "every writer inverts its reader on the values the file holds", one per view, and the whole
    property as one statement with every hypothesis visible (SM/LazyLumpsCodec.v).  The per-view premises are what
    property C11 is about; the check discharges them from the objects C11's translators generate from today's
    bsp.py (instance obligations [codec[<views>]:...], listed per view in the evidence), and for the texture-name
    view the step from the generated object to the premise is proved here. *)
From SV Require Import SM.LazyLumpsCodec Fmt.BspTexStrings.
Close Scope N_scope.

Theorem c10_codec_premise_per_view : forall (D P : Type) (rd : nat -> list D -> option P) (wr : nat -> P -> list D)
    (g : graph) (s0 : state D P),
  (forall v, v < nviews g -> codec_ok_at D P rd wr g s0 v) <-> (codec_ok D P rd wr g s0 /\ wr_len_ok D P rd wr g s0).
Proof. exact codec_ok_per_view. Qed.

(** The property: graph / statement-order / writers-look conditions (decidable: instance obligations), a file just read,
    one codec premise per view |- with no look every lump is identical; for every access sequence save completes,
    the cache is empty, every view parses to the same content, lumps without a view and lumps of views outside the
    dependency closure of the looks are byte-identical, and saving again changes nothing. *)
Theorem c10_property : forall (D P : Type) (empty : D) (rd : nat -> list D -> option P) (wr : nat -> P -> list D)
    (g : graph) (sh : shape),
  order_consistent g = true -> shape_ok sh = true -> wdeps_within_rdeps g = true ->
  forall s0 : state D P, fresh D P s0 ->
  (forall v, v < nviews g -> codec_ok_at D P rd wr g s0 v) ->
  (save D P empty rd wr g sh s0 = (true, s0)) /\
  forall accs,
    let r := save D P empty rd wr g sh (run D P empty rd g sh accs s0) in
    fst r = true /\ fresh D P (snd r) /\ same_content D P rd g (snd r) s0 /\
    save D P empty rd wr g sh (snd r) = (true, snd r) /\
    (forall R : nat -> Prop,
       (forall v d, v < nviews g -> R v -> In d (v_rdeps (decl g v) ++ v_wdeps (decl g v)) -> R d) ->
       (forall v, In v accs -> R v) ->
       forall v l, v < nviews g -> ~ R v -> In l (own g v) -> raw (snd r) l = raw s0 l).
Proof. exact property_per_view. Qed.

(** Non-vacuity: the example graph of theorem 11 with its codec satisfies every hypothesis of [c10_property]. *)
Theorem c10_property_hypotheses_satisfiable :
  order_consistent g_ok = true /\ shape_ok std_shape = true /\ wdeps_within_rdeps g_ok = true /\
  fresh nat (list nat) ex_s0 /\ (forall v, v < nviews g_ok -> codec_ok_at nat (list nat) ex_rd ex_wr g_ok ex_s0 v).
Proof. exact property_hyps_example. Qed.

(** Texture names (lumps TEXDATA_STRING_DATA + TEXDATA_STRING_TABLE): for every configuration [c] read off
    [_lmp_write_textures] / [_lmp_read_textures] that passes [texcfg_ok] (search pattern and appended bytes are
    name + NUL, the writer's guard is below the reader's window: C11's obligations) and [texcfg_window_is_guard]
    (every name the reader can return passes the writer's guard), the codec premise holds for EVERY content of the two
    lumps: what the reader returns is written so that it reads back equal, whatever storage the pool search shared. *)
Theorem c10_textures_codec_premise : forall c, texcfg_ok c = true -> texcfg_window_is_guard c = true ->
  forall ds names, tex_view_rd c ds = Some names ->
  tex_view_rd c (tex_view_wr c names) = Some names /\ length (tex_view_wr c names) = 2.
Proof. exact tex_view_codec. Qed.

(** ... hence [codec_ok_at] at the position of the texture-name view in any graph, for every file. *)
Theorem c10_textures_codec_ok_at : forall (P : Type) (inj : list (list N) -> P) (prj : P -> list (list N))
    (rd : nat -> list tdatum -> option P) (wr : nat -> P -> list tdatum) (g : graph) c v,
  texcfg_ok c = true -> texcfg_window_is_guard c = true ->
  (forall x, prj (inj x) = x) ->
  (forall ds, rd v ds = option_map inj (tex_view_rd c ds)) -> (forall p, wr v p = tex_view_wr c (prj p)) ->
  length (own g v) = 2 ->
  forall s0, codec_ok_at tdatum P rd wr g s0 v.
Proof. exact tex_view_codec_ok_at. Qed.

(** Seeded fault c10_5 in closed form: the string pool searched for the bare name.  A file holding "AB" and "A" (each
    stored in full) is read as ["AB"; "A"]; what the writer makes of that reads back as ["AB"; "AB"]. *)
Theorem c10_textures_bare_search_refuted :
  let c := ([], [0%N], 127, 128) in
  let file := [TBytes [65; 66; 0; 65; 0]%N; TOffs [0; 3]] in
  texcfg_ok c = false /\ texcfg_window_is_guard c = true /\
  tex_view_rd c file = Some [[65; 66]; [65]]%N /\
  tex_view_wr c [[65; 66]; [65]]%N = [TBytes [65; 66; 0]%N; TOffs [0; 0]] /\
  tex_view_rd c (tex_view_wr c [[65; 66]; [65]]%N) = Some [[65; 66]; [65; 66]]%N.
Proof. exact tex_view_codec_bare_search_refuted. Qed.

(** Views that are a plain array of fixed [struct] records (PLANES, VERTEXES, CUBEMAPS: one lump, the reader is
    [iter_unpack fmt], the writer packs every record with the same format; SM/LazyLumpsRecCodec.v).  The direction C10
    needs and C11 does not state: whatever [unpack] returns for a string of bytes fits the format. *)
From SV Require Import Bin.Struct SM.LazyLumpsRecCodec Fmt.BspFormatsSpec.
Close Scope N_scope.

Theorem c10_unpack_returns_fitting_values : forall f bs vs, wf_fmt f = true -> all_bytes bs = true ->
  unpack f bs = Some vs -> fits f vs = true.
Proof. exact unpack_fits. Qed.

(** The codec premise of such a view for EVERY content of its lump, from the well-formedness of the format alone. *)
Theorem c10_record_array_codec_premise : forall f, wf_fmt f = true -> 0 < calcsize f ->
  forall data recs, all_bytes data = true -> rec_view_rd f [data] = Some recs ->
  rec_view_rd f (rec_view_wr f recs) = Some recs /\ length (rec_view_wr f recs) = 1.
Proof. exact rec_view_codec. Qed.

(** ... and from the object C11 generates from bsp.py: a stream of Gen/BspFormats_gen.v that passes [rec_stream_ok_in] in a
    layout table (all reading and writing alternatives denote one well-formed format of positive size: an instance
    obligation per view and layout) gives the premise for ANY pairing of a reading and a writing alternative. *)
Theorem c10_record_array_codec_from_generated_stream : forall lay n appl ralts walts ra wa fr fw,
  rec_stream_ok_in lay (n, appl, ralts, walts) = true -> In ra ralts -> In wa walts ->
  alt_fmt lay ra = Some fr -> alt_fmt lay wa = Some fw ->
  forall data recs, all_bytes data = true -> rec_view_rd fr [data] = Some recs ->
  rec_view_rd fr (rec_view_wr fw recs) = Some recs /\ length (rec_view_wr fw recs) = 1.
Proof. exact rec_view_codec_generated. Qed.

(** Non-vacuity (two plane records [<ffffi] are read and written back byte-identically) and the nearby wrong shape (a
    writer that packs the last field as a short writes records the reader rejects). *)
Theorem c10_record_array_example_and_other_format_refuted :
  (wf_fmt fmt_plane = true /\ calcsize fmt_plane = 20 /\ all_bytes ex_planes = true /\
   option_map (@length _) (rec_view_rd fmt_plane [ex_planes]) = Some 2 /\
   option_map (rec_view_wr fmt_plane) (rec_view_rd fmt_plane [ex_planes]) = Some [ex_planes]) /\
  (let wr_short := [KFloat; KFloat; KFloat; KFloat; KInt true 2] in
   match rec_view_rd fmt_plane [ex_planes] with
   | Some recs => rec_view_rd fmt_plane (rec_view_wr wr_short recs) = None
   | None => False
   end).
Proof. exact (conj rec_view_codec_example rec_view_other_writer_format_refuted). Qed.

(** ---------------------------------------------------------------------------------------------------------------
    Round 5: what BSP.save leaves behind when it raises half-way (a writer looks at a view that cannot be parsed) and
    the caller carries on.  [save_a restore]: the rebuild loop with an [except] clause around the writer call;
    [restore = true] (fix c8f05ec, generated flag [bsp_save_restores_on_abort]) puts the popped value back into the
    cache before the exception propagates, [restore = false] is the plain loop. *)
Section C10Abort.
  Variables D P : Type.
  Variable empty : D.
  Variable rd : nat -> list D -> option P.
  Variable wr : nat -> P -> list D.
  Variable g : graph.
  Variable sh : shape.

  (** The except clause changes nothing unless the save raises: the completion flag is the same, a save that completes is
      the plain save (so every theorem above about [save] is about [save_a]), and without the clause [save_a] is [save]. *)
  Theorem c10_except_clause_matters_only_when_save_raises : forall restore (s : state D P),
    fst (save_a D P empty rd wr g sh restore s) = fst (save D P empty rd wr g sh s) /\
    (fst (save D P empty rd wr g sh s) = true -> save_a D P empty rd wr g sh restore s = save D P empty rd wr g sh s) /\
    save_a D P empty rd wr g sh false s = save D P empty rd wr g sh s.
  Proof. exact (save_a_summary D P empty rd wr g sh). Qed.

  (** With the clause, a save that raises loses nothing: after ANY access sequence (looks that raise included) and a save
      that may or may not complete, every view still denotes what its reader makes of the file's lumps and lumps without
      a view are untouched. *)
  Theorem c10_aborted_save_keeps_content : order_consistent g = true -> shape_ok sh = true ->
    forall (s0 : state D P) accs, fresh D P s0 -> wr_len_ok D P rd wr g s0 -> codec_ok D P rd wr g s0 ->
    let r := save_a D P empty rd wr g sh true (run D P empty rd g sh accs s0) in
    (forall v, v < nviews g -> denote D P rd g (snd r) v = rd v (own_data D P g s0 v)) /\
    (forall l, ~ owned g l -> raw (snd r) l = raw s0 l).
  Proof. exact (aborted_save_keeps_content D P empty rd wr g sh). Qed.

  (** ... and the caller can carry on: after a save that may have raised half-way, ANY further looks (raising ones included)
      and a save that completes are lossless with respect to the ORIGINAL file: the cache is empty, every view parses to the
      same content (or is rejected as before), lumps without a view are byte-identical. *)
  Theorem c10_retry_after_aborted_save_lossless : order_consistent g = true -> shape_ok sh = true ->
    forall (s0 : state D P) accs accs2, fresh D P s0 -> wr_len_ok D P rd wr g s0 -> codec_ok D P rd wr g s0 ->
    let r := save_a D P empty rd wr g sh true (run D P empty rd g sh accs s0) in
    let r2 := save_a D P empty rd wr g sh true (run D P empty rd g sh accs2 (snd r)) in
    fst r2 = true -> fresh D P (snd r2) /\ same_content D P rd g (snd r2) s0.
  Proof. exact (retry_after_aborted_save_lossless D P empty rd wr g sh). Qed.
End C10Abort.

(** Without the clause (the pinned tree before fix c8f05ec): the writer of view 0 looks at view 1, which cannot be parsed;
    the reader of view 0 does not.  Look at view 0, save (raises), save again: the second save completes and writes lump 0
    empty.  With the clause the view is cached again and the second save raises like the first. *)
Theorem c10_aborted_save_drops_view_refuted :
  let s := run nat (list nat) 0 ex_rd g_wabort std_shape [0] ex_bad in
  let r := save_a nat (list nat) 0 ex_rd ex_wr g_wabort std_shape false s in
  let r2 := save_a nat (list nat) 0 ex_rd ex_wr g_wabort std_shape false (snd r) in
  let q := save_a nat (list nat) 0 ex_rd ex_wr g_wabort std_shape true s in
  let q2 := save_a nat (list nat) 0 ex_rd ex_wr g_wabort std_shape true (snd q) in
  order_consistent g_wabort = true /\ raw ex_bad 0 = 1 /\ cache s 0 = Some [1] /\
  fst r = false /\ cache (snd r) 0 = None /\ raw (snd r) 0 = 0 /\ fst r2 = true /\ raw (snd r2) 0 = 0 /\
  fst q = false /\ cache (snd q) 0 = Some [1] /\ fst q2 = false /\ cache (snd q2) 0 = Some [1].
Proof. exact aborted_save_drops_view_refuted. Qed.

(** Header versions of lumps (round 5, after fix 11d408c: the static-prop writer sets the game lump's header version).  They are
    cells of the file no look touches.  If every store a writer makes into a header puts there the number the file holds (the
    writer stores the number the reader recorded for this object: generated list [bsp_version_stores], obligations
    [writers_store_only_the_header_version_the_reader_recorded], [recorded_version_has_the_header_number_of_the_file]), look + save
    leaves every lump version as it was. *)
Theorem c10_header_version_store_of_recorded_number_is_invisible : forall (V : Type) (stores : list (nat * V)) (hver : nat -> V),
  (forall p, In p stores -> snd p = hver (fst p)) -> forall l, save_versions stores hver l = hver l.
Proof. exact save_versions_recorded_identity. Qed.

(** A writer that stores another number (7 for a lightmapped layout whose header says 10) changes the header. *)
Theorem c10_header_version_store_of_other_number_refuted :
  save_versions [(65, 7)] (fun l => if Nat.eqb l 65 then 10 else 0) 65 = 7 /\
  save_versions [(65, 10)] (fun l => if Nat.eqb l 65 then 10 else 0) 65 = 10.
Proof. exact save_versions_other_number_refuted. Qed.
