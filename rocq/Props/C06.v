(** C06 — VMF export/parse round trip is a fixed point and loses no map content.
    The whole-map statement is decomposed into five obligation families (DESIGN.md section 6, C06); each theorem below
    is generic over the objects generated from vmf.py (Gen/Vmf*_gen.v); the check discharges the instance
    obligations ([strings_escaped_in fn kv_sites = true], [keys_read_for fn written_keys read_keys = true],
    [named_array_ok gen_disp_size name disp_arrays = true], [mode_eqb gen_entity_parse_mode InOrder = true], ...)
    in the kernel on every run.  Only statements here; proofs are in Fmt/VmfTextProofs.v. *)
From Coq Require Import NArith ZArith List String Bool.
From SV Require Import KV.KvBase KV.KvLex KV.KvParse KV.KvSym KV.KvRoundtrip.
From SV Require Import Fmt.VmfText Fmt.VmfTextProofs Fmt.VmfBlocks Fmt.VmfBlocksProofs Fmt.VmfFields Fmt.VmfFieldsProofs.
From SV Require Import Fmt.VmfNum Fmt.VmfNumProofs Fmt.VmfGuard Fmt.VmfGuardProofs.
From SV Require Import Fmt.VmfLite Fmt.VmfLiteProofs Fmt.VmfFlags Fmt.VmfFlagsProofs Fmt.VmfTok Fmt.VmfTokProofs Fmt.VmfPlane Fmt.VmfPlaneProofs.
From SV Require Import Fmt.VmfIds Fmt.VmfIdsProofs Fmt.VmfTree Fmt.VmfTreeProofs Fmt.VmfSets Fmt.VmfSetsProofs Fmt.VmfViewport Fmt.VmfViewportProofs Fmt.VmfWholeProofs.
From SV Require Import Fmt.VmfAlias Fmt.VmfAliasProofs.
From SV Require Import Gen.VmfTemplates_gen Gen.VmfKeys_gen Gen.VmfDispSizes_gen Gen.VmfOrder_gen Gen.VmfProg_gen Gen.VmfFieldsCfg_gen Gen.VmfNumFmt_gen Gen.VmfLite_gen Gen.VmfFlags_gen.
Import ListNotations.

(** 1. Strings survive.  escape_text is inverted by the tokenizer's quoted-string scanner, for every string
    (quotes, backslashes, LF, CR included), in both escape modes. *)
Theorem c06_scanner_inverts_escape : forall ml s acc rest,
  hs acc false (escape ml s ++ rest) = hs (rev s ++ acc) false rest.
Proof. exact hs_escape. Qed.

(** A quoted field made of plain literal text, escaped string fields and numbers scans back to the concatenation
    of its field values, whatever the string fields contain. *)
Theorem c06_quoted_field_roundtrip : forall (e : env) segs rest,
  forallb seg_ok segs = true -> num_fields_plain e segs ->
  scan_quoted (render_field e segs ++ DQ :: rest) = Some (value_field e segs, rest).
Proof. exact quoted_field_roundtrip. Qed.

(** Every keyvalue line written by a writer method all of whose sites pass the generated check re-reads as
    (key value, field value): nothing a string field can contain breaks or alters the line. *)
Theorem c06_writer_strings_survive : forall fn (sites : list kvsite),
  strings_escaped_in fn sites = true ->
  forall s, In s sites -> ks_fn s = fn ->
  forall (e : env) rest, num_fields_plain e (ks_key s ++ ks_val s) ->
  scan_kv (render_kv e (ks_key s) (ks_val s) ++ rest)
  = Some (value_field e (ks_key s), value_field e (ks_val s), rest).
Proof. exact writer_strings_survive. Qed.

(** The class condition is necessary: a raw (unescaped) string field that holds a double quote or a backslash does
    not re-read (the pinned tree wrote materials, key names, fixup variable names and logicalpos this way). *)
Theorem c06_raw_string_refuted :
  exists e : env, scan_kv (render_kv e (ks_key raw_site) (ks_val raw_site) ++ [LF])
                  <> Some (value_field e (ks_key raw_site), value_field e (ks_val raw_site), [LF]).
Proof. exact raw_string_refuted. Qed.
Theorem c06_raw_backslash_refuted :
  exists e : env, scan_kv (render_kv e (ks_key raw_site) (ks_val raw_site) ++ [LF]) = None.
Proof. exact raw_backslash_refuted. Qed.

(** 2. Keys agree: every key, key prefix and block name a writer method writes is looked up by a parse method in
    the same block (case-insensitively; both tables are generated in lower case). *)
Theorem c06_written_keys_are_read : forall fn (W : list wkey) (R : list rkey),
  keys_read_for fn W R = true ->
  forall w, In w W -> wk_fn w = fn -> exists r, In r R /\ covers r w = true.
Proof. exact keys_read_sound. Qed.
Theorem c06_covers_meaning : forall r w, covers r w = true ->
  rk_block r = wk_block w /\
  (if rk_prefix r then String.prefix (rk_key r) (wk_key w) = true
   else wk_prefix w = false /\ rk_key r = wk_key w).
Proof. exact covers_spec. Qed.

(** 3. Array shapes agree: for power 1..4, row y of every displacement array the writer produces holds exactly the
    vertices size*y .. the reader indexes for that row, with exactly the number of values the reader insists on (for
    every alternative of the element expression); as many rows are written as a row has entries (all vertices, resp.
    all quads, are written), and never more rows than the reader can index. *)
Theorem c06_disp_rows_agree : forall (sz : Z -> Z) (l : list disp_array),
  disp_shapes_ok sz l = true ->
  forall a p, In a l -> In p powers ->
  (da_rows a (sz p) <= sz p /\
  (forall ar, In ar (da_arity a) -> da_rows a (sz p) * ar = da_rcols a p (sz p)) /\
  forall y, 0 <= y < da_rows a (sz p) ->
  forall ar, In ar (da_arity a) ->
    (da_hi a (sz p) y - da_lo a (sz p) y) * ar = da_rcols a p (sz p)
    /\ da_lo a (sz p) y = sz p * y /\ da_hi a (sz p) y <= sz p * sz p)%Z.
Proof. exact disp_shapes_sound. Qed.

(** 4. Numbers: correctly rounded decimal output denotes a number within half a unit of the last place.
    '%.6f' (format_float, Vec, UVAxis): within 5e-7 absolutely; '%g' (rotation, delay, multiblend): within 5e-6
    relatively (six significant digits).  x = m/dd is any rational, in particular any finite double. *)
Theorem c06_round_half_even_error : forall n d, (0 < d -> 2 * Z.abs (round_he n d * d - n) <= d)%Z.
Proof. exact round_he_error. Qed.
Theorem c06_format6_error : forall m dd, (0 < dd ->
  let r := round_he (m * 10^6) dd in 2 * Z.abs (r * dd - m * 10^6) <= dd)%Z.
Proof. exact format6_error. Qed.
Theorem c06_g6_error : forall m dd sn sd, (0 < dd -> 0 < sn -> 0 < sd ->
  10^5 * (sn * dd) <= Z.abs m * sd ->
  let r := round_he (m * sd) (dd * sn) in
  2 * 10^5 * Z.abs (r * (dd * sn) - m * sd) <= Z.abs m * sd)%Z.
Proof. exact g6_error. Qed.

(** 5. Order: reading the top-level entity/hidden blocks in file order gives back the entity list, so the second
    export equals the first; the two-pass reader of the pinned tree does not. *)
Theorem c06_entity_order_preserved : forall l, parse_ents InOrder (export_ents l) = l.
Proof. exact entity_order_in_order. Qed.
Theorem c06_entity_order_fixed_point : forall l, export_ents (parse_ents InOrder (export_ents l)) = export_ents l.
Proof. exact entity_order_fixed_point. Qed.
Theorem c06_entity_order_two_pass_refuted :
  exists l, export_ents (parse_ents TwoPass (export_ents l)) <> export_ents l.
Proof. exact entity_order_two_pass_refuted. Qed.

(** replaceNN: written with at least two digits, read from the last two characters: exact for indexes 1..99, and
    not beyond (a limit of the format as written, reported as a limitation). *)
Theorem c06_fixup_index_roundtrip : forall n, (1 <= n <= 99)%N -> index_roundtrip 2 2 n = true.
Proof. exact fixup_index_roundtrip_1_99. Qed.
Theorem c06_fixup_index_100_refuted : index_roundtrip 2 2 100 = false.
Proof. exact fixup_index_100_refuted. Qed.

(** 6. Composition into blocks (round 2).  Every export method is a write program generated from vmf.py
    (Gen/VmfProg_gen.v: keyvalue lines, blocks, optional hidden wrappers, conditionals, loops, calls with the indentation
    they pass).  For every program table that passes the generated check [table_ok], every method of the table, every
    environment (field values of any content, outcome of every condition, any number of loop iterations and callees,
    recursively) whose numeric fields are plain, and every call depth: the text the method writes is parsed by the
    KeyValues1 model of C01 (tokenizer + Keyvalues.parse, rocq/KV; for every parser configuration P accepted by C01's
    [pcfg_ok] -- the check discharges [pcfg_ok gen_parsecfg] for today's parser sites) into exactly the tree the writer was given -- the
    key and value of every line and the child blocks, in order.  [doc_names_ok]: no key contains LF/CR (format limit of
    Keyvalues.parse). *)
Theorem c06_block_text_parses : forall nums tbl (P : parsecfg), table_ok nums tbl = true -> pcfg_ok P = true ->
  forall fuel fn e text kvs flag_on, env_ok nums e ->
  run (fun_lookup tbl) fuel (fun_lookup tbl fn) [] e = Some (text, kvs) -> doc_names_ok kvs = true ->
  parse_kv P vmf_E flag_on text = POk kvs.
Proof. exact table_text_parses. Qed.

(** ... for any function table, not only an association list *)
Theorem c06_program_text_parses : forall nums funs, (forall fn, prog_ok nums (funs fn) = true) ->
  forall (P : parsecfg) fuel p e text kvs flag_on, pcfg_ok P = true -> prog_ok nums p = true -> env_ok nums e ->
  run funs fuel p [] e = Some (text, kvs) -> doc_names_ok kvs = true ->
  parse_kv P vmf_E flag_on text = POk kvs.
Proof. exact program_text_parses. Qed.

(** The class condition of [prog_ok] is necessary at this level too: a line with a raw string value does not parse
    back to the tree the writer was given. *)
Theorem c06_raw_line_refuted :
  exists e, forall fuel text kvs, run (fun _ => PEnd) (S fuel) raw_prog [] e = Some (text, kvs) ->
    parse_kv ref_pcfg vmf_E (fun _ => false) text <> POk kvs.
Proof. exact raw_line_refuted. Qed.

(** 7. Field-level glue between the tree and the objects (round 2).
    Row keys: if the generated reader configuration (how Side._iter_disp_row recognises a key and takes its index)
    passes [rows_recognised] for the first n rows of the written prefix, then it reads the index y from the key the
    writer produces for every y < n (n = 17 covers power 4; by 3. never more than size <= 17 rows are written). *)
Theorem c06_row_keys_read : forall r p n, rows_recognised r p n = true ->
  forall y, (y < N.of_nat n)%N -> read_row r (row_key p y) = Some y.
Proof. exact rows_recognised_sound. Qed.
Theorem c06_one_digit_row_reader_refuted :
  rows_recognised one_digit_rowreader ROW 17 = false /\ read_row one_digit_rowreader (row_key ROW 10) = None
  /\ rows_recognised one_digit_rowreader ROW 9 = true.
Proof. exact one_digit_rowreader_refuted. Qed.

(** Round 5 (seeded/c06_8): a reader that looks the key up in a table precomputed for 2**4 rows does not know row16. *)
Theorem c06_table_of_16_row_names_refuted :
  rows_recognised table16_rowreader ROW 17 = false /\ read_row table16_rowreader (row_key ROW 16) = None
  /\ rows_recognised table16_rowreader ROW 16 = true /\ rows_recognised table16_rowreader ROW 9 = true.
Proof. exact table16_rowreader_refuted. Qed.

(** Output values: as_keyvalue joins target, input, parameter, delay, times with ESC or with commas; parse chooses
    the separator by the presence of ESC, demands five fields and re-joins extra commas into the parameter.  Exact
    for every output none of whose fields contains ESC and, in the comma form, whose fields other than the parameter
    contain no comma; both conditions are necessary. *)
Theorem c06_output_value_roundtrip : forall o, outv_ok o = true -> out_parse (out_join o) = Some o.
Proof. exact out_roundtrip. Qed.
Theorem c06_output_comma_in_target_refuted :
  let o := mk_outv [97; 44; 98] [105] [] [48] [49] true in out_parse (out_join o) <> Some o.
Proof. exact out_comma_in_target_refuted. Qed.
Theorem c06_output_esc_in_comma_form_refuted :
  let o := mk_outv [97] [105] [27] [48] [49] true in out_parse (out_join o) = None.
Proof. exact out_esc_in_comma_form_refuted. Qed.

(** instance:name;command -- [is_inst] stands for name.casefold().startswith('instance:') (Unicode case folding is
    external; assumed only to accept the literal lower-case prefix). *)
Theorem c06_instance_name_roundtrip : forall is_inst : list N -> bool,
  (forall x, is_inst (inst_prefix ++ x)%list = true) ->
  forall i cmd, i <> [] -> has SEMI i = false ->
  parse_name is_inst (exp_name (Some i) cmd) = Some (Some i, cmd).
Proof. exact name_roundtrip_instance. Qed.
Theorem c06_plain_name_roundtrip : forall (is_inst : list N -> bool) cmd, is_inst cmd = false ->
  parse_name is_inst (exp_name None cmd) = Some (None, cmd).
Proof. exact name_roundtrip_plain. Qed.

(** Fixups: the line  "replaceNN" "$var value"  re-reads as (var, value, NN) for indexes 1..99 and variable names that
    are non-empty, contain no space and do not start with '$'; EntityFixup.__init__ keeps distinct positive indexes of
    distinctly named variables ([same_var] = equality of casefolded names, external); hence up to 99 such fixups survive export and parse with their indexes. *)
Theorem c06_fixup_line_roundtrip : forall f, fixup_ok f = true -> parse_fixup_line 2 (fixup_line 2 f) = f.
Proof. exact fixup_line_roundtrip. Qed.
Theorem c06_fixups_roundtrip : forall (same_var : list N -> list N -> bool) l, fixups_ok l = true ->
  vars_fresh same_var [] l = true ->
  fix_init same_var (map (parse_fixup_line 2) (map (fixup_line 2) l)) = l.
Proof. exact fixups_roundtrip. Qed.
Theorem c06_fixup_space_in_name_refuted :
  parse_fixup_line 2 (fixup_line 2 ([97; 32; 98], [118], 1%N)) <> ([97; 32; 98], [118], 1%N).
Proof. exact fixup_space_in_name_refuted. Qed.

(** 8. Numbers per field (round 3).  Gen/VmfNumFmt_gen.v lists, for every number of every written keyvalue line, the
    formatter that writes each of its components (read from the interpolation and from format_float / the __str__
    methods of Vec, Angle, UVAxis, Vec4): str(int), '1'/'0', repr(float), '%.pf', '%.pg'.  A format that [meets] a precision
    class keeps every number -- x = m/d any rational, hence any finite double -- within that class: exactly, within 5e-7
    absolutely, or within six significant digits (5e-6 relatively).  The check discharges, for every (block, key, index)
    of the generated table, [field_meets block key index class num_fields] with the class the property demands of that
    field (six significant digits for face rotation, output delay, multiblend/alphablend; 5e-7 for coordinates and
    texture axes; exact for integers, flags and the numbers written by repr). *)
Theorem c06_format_keeps_class : forall f c, meets f c = true ->
  forall m d wn wd, (0 < d -> 0 < wd -> writes f m d wn wd -> within c m d wn wd)%Z.
Proof. exact meets_sound. Qed.
Theorem c06_number_field_within : forall b k i c l, field_meets b k i c l = true ->
  (exists f, In f l /\ nf_block f = b /\ nf_key f = k /\ nf_idx f = i) /\
  forall f, In f l -> nf_block f = b -> nf_key f = k -> nf_idx f = i ->
  forall x, In x (nf_fmts f) -> forall m d wn wd, (0 < d -> 0 < wd -> writes x m d wn wd -> within c m d wn wd)%Z.
Proof. exact field_meets_sound. Qed.
(** The table is tight: six decimals do not give six significant digits (1/30 -> 0.033333: an output delay written with
    format_float), six significant digits do not give 5e-7 (1234567.5 -> 1.23457e+06: a coordinate written with :g), five
    decimals / five digits are not enough, six decimals are not exact. *)
Theorem c06_six_decimals_not_six_digits : exists m d wn wd, (0 < d /\ 0 < wd /\ writes (FmtF 6) m d wn wd /\ ~ within PSig6 m d wn wd)%Z.
Proof. exact f6_not_sig6. Qed.
Theorem c06_six_digits_not_six_decimals : exists m d wn wd, (0 < d /\ 0 < wd /\ writes (FmtG 6) m d wn wd /\ ~ within PAbs6 m d wn wd)%Z.
Proof. exact g6_not_abs6. Qed.
Theorem c06_five_decimals_refuted : exists m d wn wd, (0 < d /\ 0 < wd /\ writes (FmtF 5) m d wn wd /\ ~ within PAbs6 m d wn wd)%Z.
Proof. exact f5_not_abs6. Qed.
Theorem c06_five_digits_refuted : exists m d wn wd, (0 < d /\ 0 < wd /\ writes (FmtG 5) m d wn wd /\ ~ within PSig6 m d wn wd)%Z.
Proof. exact g5_not_sig6. Qed.
Theorem c06_six_decimals_not_exact : exists m d wn wd, (0 < d /\ 0 < wd /\ writes (FmtF 6) m d wn wd /\ ~ within PExact m d wn wd)%Z.
Proof. exact f6_not_exact. Qed.

(** 9. Optional groups of displacement arrays (round 3).  The multiblend arrays are written only under a guard; the reader
    leaves the vertex defaults when they are absent.  If the generated group passes [optgroup_ok primary] -- the guard is
    "some vertex has a truthy member m", m is the member carried by the array named [primary] and m is falsy in a fresh
    vertex -- then that member survives export and parse for every list of vertices ([get]/[truthy]/[dflt]: any vertex
    type whose falsy members equal the default's).  The other members of the group are lost when the guard member is
    default everywhere (limit of the representation, accepted by the comparison), and a guard on another member loses
    the primary one. *)
Theorem c06_optional_group_roundtrip : forall (vert val : Type) (get : string -> vert -> val) (truthy : string -> vert -> bool)
    (dflt : vert) primary g,
  optgroup_ok primary g = true ->
  (forall m, In m (og_falsy_default g) -> forall v, truthy m v = false -> get m v = get m dflt) ->
  exists m, assoc primary (og_arrays g) = Some m /\
    forall vs, map (get m) (parse_group vert dflt (List.length vs) (export_group vert truthy m vs)) = map (get m) vs.
Proof. exact group_roundtrip. Qed.
Theorem c06_unguarded_member_lost :
  exists vs, map (ex_get "alpha") (parse_group _ (0, 0)%Z (List.length vs) (export_group _ ex_truthy "blend" vs)) <> map (ex_get "alpha") vs.
Proof. exact unguarded_member_lost. Qed.
Theorem c06_guard_on_other_member_refuted :
  exists vs, map (ex_get "blend") (parse_group _ (0, 0)%Z (List.length vs) (export_group _ ex_truthy "alpha" vs)) <> map (ex_get "blend") vs.
Proof. exact guard_on_other_member_refuted. Qed.

(** 10. The object level (round 3, "vmf_lite").  Gen/VmfLite_gen.v lists, per class of the object graph (Camera, Cordon,
    VisGroup, EntityGroup, Solid, Side incl. dispinfo and point_data, Entity, VMF), the written lines with the attributes each
    value is computed from, and the looked-up keys with the attributes each value flows into (data flow through locals,
    containers and the constructor).  [lite_paired c]: every written literal key is looked up in the same block and flows into
    exactly the attributes it was computed from; keys of one block are distinct.  [lite_attrs_written c]: every attribute the
    reader fills is written.  For a paired class the text the reader finds under the key of a line is that line's text, it
    is stored into the line's attributes only, a one-attribute line gives the attribute its value back when the field codec
    inverts (the per-field theorems above), and changing the object elsewhere does not change what is found (no cross-talk).
    [enc] is any function of the entry and of the values of its attributes. *)
Theorem c06_lite_paired_meaning : forall c, lite_paired c = true ->
  forall w, In w (lc_written c) -> le_dyn w = false -> le_attrs w <> [] ->
  exists r, In r (lc_read c) /\ le_block r = le_block w /\ le_key r = le_key w /\ le_dyn r = false /\
            forall a, In a (le_attrs w) <-> In a (le_attrs r).
Proof. exact lite_paired_sound. Qed.
Theorem c06_lite_scalar_roundtrip : forall (V T : Type) (enc : lentry -> list V -> T) c, lite_paired c = true ->
  forall w a, In w (lc_written c) -> le_dyn w = false -> le_attrs w = [a] ->
  exists r, In r (lc_read c) /\ le_dyn r = false /\ (forall a', In a' (le_attrs r) <-> a' = a) /\
    forall (o : obj V) (dec : T -> V), (forall v, dec (enc w [v]) = v) ->
      option_map dec (llookup T (le_block r) (le_key r) (export_lines V T enc c o)) = Some (o a).
Proof. exact lite_scalar_roundtrip. Qed.
Theorem c06_lite_no_crosstalk : forall (V T : Type) (enc : lentry -> list V -> T) c, lite_paired c = true ->
  forall w, In w (lc_written c) -> le_dyn w = false ->
  forall (o o' : obj V), (forall a, In a (le_attrs w) -> o a = o' a) ->
    llookup T (le_block w) (le_key w) (export_lines V T enc c o) = llookup T (le_block w) (le_key w) (export_lines V T enc c o').
Proof. exact lite_no_crosstalk. Qed.
Theorem c06_lite_no_attribute_forgotten : forall c, lite_attrs_written c = true ->
  forall a, (exists r, In r (lc_read c) /\ In a (le_attrs r)) \/ In a (lc_kids_read c) ->
  (exists w, In w (lc_written c) /\ In a (le_attrs w)) \/ In a (lc_kids_written c).
Proof. exact lite_attrs_written_sound. Qed.
(** Swapped reader keys, a forgotten line, a key written twice in one block: each is rejected and does lose content. *)
Theorem c06_lite_swapped_keys_refuted : lite_paired ex_swapped = false /\
  exists r, find_entry "side" "uaxis" (lc_read ex_swapped) = Some r /\ le_attrs r = ["vaxis"]%string /\
    forall o : obj nat, llookup nat "side" "uaxis" (export_lines nat nat ex_enc ex_swapped o) = Some (o "uaxis"%string).
Proof. exact lite_swapped_refuted. Qed.
Theorem c06_lite_forgotten_line_refuted : lite_paired ex_forgotten = true /\ lite_attrs_written ex_forgotten = false /\
  forall o : obj nat, llookup nat "side" "vaxis" (export_lines nat nat ex_enc ex_forgotten o) = None.
Proof. exact lite_forgotten_refuted. Qed.
Theorem c06_lite_duplicate_key_refuted : lite_paired ex_duplicate = false /\
  forall o : obj nat, llookup nat "side" "uaxis" (export_lines nat nat ex_enc ex_duplicate o) = Some (o "uaxis"%string).
Proof. exact lite_duplicate_key_refuted. Qed.

(** 11. Displacement flags (round 3).  Gen/VmfFlags_gen.v holds what the lines "flags" and "subdiv" contain for each of
    the 16 values of DispFlag (the writer's two interpolated expressions, evaluated on every value), the table the reader
    indexes with the number under "flags", and the bit it sets when "subdiv" is true.  If the generated objects pass
    [flags_tables_ok], every flag value survives export and parse. *)
Theorem c06_disp_flags_roundtrip : forall written t2c sub n, flags_tables_ok written t2c sub n = true ->
  forall f, (N.to_nat f < n)%nat ->
  exists p, flags_write written f = Some p /\ flags_read t2c sub p = Some f.
Proof. exact flags_roundtrip. Qed.
Theorem c06_disp_flags_not_inverse_refuted : flags_tables_ok ex_written_bad ex_t2c 8 8 = false /\
  exists p, flags_write ex_written_bad 7 = Some p /\ flags_read ex_t2c 8 p = Some 6%N.
Proof. exact flags_not_inverse_refuted. Qed.

(** 12. The text of number groups (round 3).  Three number tokens (non-empty, no white space, no brackets: what number
    formatting produces) joined by spaces, bare or wrapped in one pair of brackets of any of the four kinds -- how Vec and Angle
    values are written by every line template -- are taken apart by math.parse_vec_str (strip, drop one bracket at each
    end, split()) into the same three tokens; "[x y z offset] scale" is taken apart by UVAxis.parse (split(), lstrip('['),
    rstrip(']')) into its five tokens in order.  The models parse_vec / uv_parse / uv_text / join_sp are tied to the code by
    correspondence on every run. *)
Theorem c06_vec_text_roundtrip : forall x y z o c, tok_ok x = true -> tok_ok y = true -> tok_ok z = true -> tk_wrap_ok o c = true ->
  parse_vec (tk_wrap o c (vec_text x y z)) = Some (x, y, z).
Proof. exact vec_text_roundtrip. Qed.
Theorem c06_uvaxis_text_roundtrip : forall a b c d e, forallb tok_ok [a; b; c; d; e] = true ->
  uv_parse (uv_text [a; b; c; d; e]) = Some [a; b; c; d; e].
Proof. exact uv_text_roundtrip. Qed.
Theorem c06_vec_token_with_space_refuted : parse_vec (vec_text [49; 32; 50] [51] [52])%N <> Some ([49; 32; 50], [51], [52])%N.
Proof. exact vec_token_with_space_refuted. Qed.

(** 13. The plane triple (round 3).  "(v1) (v2) (v3)" with three texts free of parentheses is taken apart by
    value[1:-1].split(") (") into the three texts (each then goes through parse_vec_str, section 12).  Tied by
    correspondence with Side.parse / Side.export on every run. *)
Theorem c06_plane_text_roundtrip : forall a b c, no_paren a = true -> no_paren b = true -> no_paren c = true ->
  plane_parse (plane_text a b c) = Some (a, b, c).
Proof. exact plane_text_roundtrip. Qed.
Theorem c06_plane_paren_in_part_refuted : plane_parse (plane_text [49; 41; 32; 40; 50] [51] [52])%N = None.
Proof. exact plane_paren_in_part_refuted. Qed.

(** 14. IDs are preserved when asked (round 4).  Gen/VmfIds_gen.v holds, read from vmf.py: the class every ID-manager
    attribute of a VMF gets under preserve_ids and otherwise (VMF.__init__ executed in both worlds), the get_id method of
    each such class as a decision list over the requested ID (one entry per path; comparisons with constants, and one
    opaque condition whose outcome the obligations quantify over), and the constructor sites that ask a manager.
    A decision list that passes [nid_ok] hands back every natural number it is asked for; one that fails it renumbers some
    natural number; [kind_ok] is the obligation per kind of ID (entity, solid, face, group, visgroup, node). *)
Theorem c06_preserving_manager_keeps_every_id : forall p, nid_ok p = true -> forall d o, (0 <= d)%Z -> id_get p o d = AKeep.
Proof. exact nid_ok_sound. Qed.
Theorem c06_manager_check_is_complete : forall p, nid_ok p = false -> exists d o, (0 <= d)%Z /\ id_get p o d = AOther.
Proof. exact nid_ok_complete. Qed.
Theorem c06_manager_comparisons_meaning : forall o d c k, guard_le o (le_of d) (GCmp c k) = cmp_sem c d k.
Proof. exact guard_le_cmp. Qed.
Theorem c06_ids_preserved_per_kind : forall classes mans sites attr, kind_ok classes mans sites attr = true ->
  exists m p, In m mans /\ im_attr m = attr /\ assoc_s (im_preserve m) classes = Some p /\
    (forall d o, (0 <= d)%Z -> id_get p o d = AKeep) /\
    (exists s, In s sites /\ is_manager s = attr) /\
    (forall s, In s sites -> is_manager s = attr -> is_stores_result s = true).
Proof. exact kind_ok_sound. Qed.
Theorem c06_manager_positive_only_refuted : nid_ok ex_positive_only = false /\ id_get ex_positive_only true 0 = AOther /\
  id_get ex_positive_only true 1 = AKeep.
Proof. exact positive_only_refuted. Qed.
Theorem c06_ordinary_manager_not_preserving : nid_ok ex_idman = false /\ id_get ex_idman true 5 = AOther /\ id_get ex_idman false 5 = AKeep.
Proof. exact idman_not_preserving. Qed.
Example c06_null_manager_example : nid_ok ex_nullid = true /\ id_get ex_nullid true 0 = AKeep /\ id_get ex_nullid true (-1) = AOther.
Proof. exact ex_nullid_ok. Qed.

(** 15. The whole object tree (round 4): composition of the per-class tables over the containment tree
    VMF > Entity > Solid > Side (the dispinfo lines belong to Side's table).  An object is a node with its class, one value
    per scalar attribute of the class, and child objects tagged with the attribute that holds them.  [export_t] writes the
    lines of the class table and recursively the children held in exported attributes; [parse_t] reads every scalar line
    through the reader's entry for the same key and recursively the child blocks the reader builds objects from.  For every
    class table, every well-formed tree (classes paired -- the obligations [fields_paired:<Class>]; children in attributes
    that are exported and filled -- the obligations [containment_edge:<Class>.<attr>]) and field codecs that invert (the
    string / number / flag / output / fixup theorems above; for the ID lines under preserve_ids: section 14, get_id hands back
    the number read), parsing the export gives the object back, at any depth and width; hence the second export is the first. *)
Theorem c06_tree_roundtrip : forall (V T : Type) (dflt : V) (enc : lentry -> list V -> T) (dec : lentry -> T -> V) (tbl : list liteclass),
  codecs_invert V T enc dec tbl ->
  forall x : otree V, wf V tbl x -> parse_t V T dflt dec tbl (export_t V T dflt enc tbl x) = x.
Proof. exact tree_roundtrip. Qed.
Theorem c06_tree_fixed_point : forall (V T : Type) (dflt : V) (enc : lentry -> list V -> T) (dec : lentry -> T -> V) (tbl : list liteclass),
  codecs_invert V T enc dec tbl ->
  forall x : otree V, wf V tbl x ->
    export_t V T dflt enc tbl (parse_t V T dflt dec tbl (export_t V T dflt enc tbl x)) = export_t V T dflt enc tbl x.
Proof. exact tree_fixed_point. Qed.
Theorem c06_containment_edge_meaning : forall tbl p a c, edge_ok tbl ((p, a), c) = true ->
  exists lp lcc, cls_of tbl p = Some lp /\ cls_of tbl c = Some lcc /\ lite_paired lp = true /\ lite_paired lcc = true /\
    In a (lc_kids_written lp) /\ In a (lc_kids_read lp).
Proof. exact edge_ok_sound. Qed.
Theorem c06_tree_children_not_read_refuted :
  parse_t nat nat 0%nat tree_ex_dec [ex_solid_deaf; ex_side] (export_t nat nat 0%nat tree_ex_enc [ex_solid_deaf; ex_side] ex_tree)
    = ONode nat "" "Solid" [("id"%string, 0%nat)] [] /\
  chain_ok [ex_solid_deaf; ex_side] [(("Solid", "sides"), "Side")]%string ["Solid"; "Side"]%string = false.
Proof. exact tree_children_not_read_refuted. Qed.
Example c06_tree_example : wf nat [ex_solid; ex_side] ex_tree /\
  parse_t nat nat 0%nat tree_ex_dec [ex_solid; ex_side] (export_t nat nat 0%nat tree_ex_enc [ex_solid; ex_side] ex_tree) = ex_tree.
Proof. split; [exact ex_tree_wf | exact (proj1 tree_example)]. Qed.

(** 16. Membership sets (round 4).  Visgroup and group membership are Python sets: their iteration order depends on the
    history of insertions and removals.  Gen/VmfSets_gen.v lists every loop of an export method over a set-typed attribute
    with whether it iterates [sorted(...)]; the obligation [membership_lines_in_canonical_order] is [member_loops_ok].
    Written in canonical order, the lines do not depend on the iteration order (so the set re-parsed from them is written
    identically the second time) and are exactly the elements of the set; written in iteration order they do depend on it. *)
Theorem c06_membership_lines_canonical : forall s1 s2 : list Z, NoDup s1 -> NoDup s2 -> same_set s1 s2 ->
  write_members true s1 = write_members true s2.
Proof. exact members_canonical. Qed.
Theorem c06_membership_lines_content : forall s : list Z, same_set (write_members true s) s.
Proof. exact members_content. Qed.
Theorem c06_membership_iteration_order_refuted : same_set [8; 1]%Z [1; 8]%Z /\
  write_members false [8; 1]%Z <> write_members false [1; 8]%Z /\ write_members true [8; 1]%Z = write_members true [1; 8]%Z.
Proof. exact members_iteration_order_refuted. Qed.

(** 17. The planar axis of a 2D viewport (round 4).  Gen/VmfViewport_gen.v holds the three slots the writer's template
    fills for each axis (marker constant, u, v), the tiers of marker values the reader tries in order and the table from the
    chosen axis to the axes of u and v.  If they pass [vp_ok], a 2D viewport whose u and v are not marker values re-reads as
    itself -- a zero coordinate included, which the pinned tree (zero accepted as a marker alongside +-65536) lost. *)
Theorem c06_viewport_axis_roundtrip : forall tiers tbl inv, vp_ok tiers tbl inv = true ->
  forall t1 r, tiers = t1 :: r ->
  forall a u v, in_tier t1 u = false -> in_tier t1 v = false ->
  vp_read tiers inv (vp_write tbl a u v) = Some (a, u, v).
Proof. exact vp_roundtrip. Qed.
Theorem c06_viewport_zero_marker_refuted : vp_ok ex_tiers_zero_first ex_tbl ex_inv = false /\ vp_read ex_tiers_zero_first ex_inv (vp_write ex_tbl AY 0 5) = None.
Proof. exact vp_zero_marker_refuted. Qed.
Theorem c06_viewport_marker_as_coordinate_refuted : vp_read ex_tiers ex_inv (vp_write ex_tbl AX 65536 5) = None.
Proof. exact vp_marker_as_coordinate_refuted. Qed.
Example c06_viewport_example : vp_ok ex_tiers ex_tbl ex_inv = true /\ vp_read ex_tiers ex_inv (vp_write ex_tbl AY 0 5) = Some (AY, 0%Z, 5%Z).
Proof. exact vp_example. Qed.

(** 18. The property in one statement (round 4), with its hypotheses visible.  For ANY generated objects -- write programs
    [progs], parser sites [P], object-level class table [ctbl], ID-manager classes / attributes / sites, membership loops,
    viewport tables -- that pass the named Boolean obligations the check discharges in the kernel on every run for today's
    vmf.py, and field codecs that invert (the per-field theorems of sections 1-13):
    (text)   every export program's text parses into exactly the tree of keys, values and child blocks the writer was given;
    (tree)   every well-formed object tree is given back by parse-after-export, and the second export equals the first;
    (ids)    under preserve_ids every manager hands back every natural number, for each of the listed kinds of ID;
    (sets)   membership lines do not depend on the iteration order of the set;
    (views)  the planar axis and the two coordinates of a 2D viewport survive.
    What connects (text) and (tree) -- that the blocks and lines of [export_t] are the blocks and lines of the write programs --
    is the generated tables themselves (both are read from the same export methods; obligation
    [tie:program_sites_match_template_sites]); it is not a theorem. *)
Theorem c06_property :
  forall nums progs (P : parsecfg) (ctbl : list liteclass) classes mans sites (kinds : list string) loops tiers vtbl vinv
         (V T : Type) (dflt : V) (enc : lentry -> list V -> T) (dec : lentry -> T -> V),
  table_ok nums progs = true -> pcfg_ok P = true ->
  codecs_invert V T enc dec ctbl ->
  (forall k, In k kinds -> kind_ok classes mans sites k = true) ->
  member_loops_ok loops = true ->
  vp_ok tiers vtbl vinv = true ->
  (forall fuel fn e text kvs flag_on, env_ok nums e ->
     run (fun_lookup progs) fuel (fun_lookup progs fn) [] e = Some (text, kvs) -> doc_names_ok kvs = true ->
     parse_kv P vmf_E flag_on text = POk kvs)
  /\ (forall x : otree V, wf V ctbl x ->
        parse_t V T dflt dec ctbl (export_t V T dflt enc ctbl x) = x /\
        export_t V T dflt enc ctbl (parse_t V T dflt dec ctbl (export_t V T dflt enc ctbl x)) = export_t V T dflt enc ctbl x)
  /\ (forall k, In k kinds -> exists m p, In m mans /\ im_attr m = k /\ assoc_s (im_preserve m) classes = Some p /\
        forall d o, (0 <= d)%Z -> id_get p o d = AKeep)
  /\ (forall l, In l loops -> ml_sorted l = true) /\
     (forall s1 s2 : list Z, NoDup s1 -> NoDup s2 -> same_set s1 s2 -> write_members true s1 = write_members true s2)
  /\ (forall t1 r, tiers = t1 :: r -> forall a u v, in_tier t1 u = false -> in_tier t1 v = false ->
        vp_read tiers vinv (vp_write vtbl a u v) = Some (a, u, v)).
Proof. exact whole_property. Qed.

(** Round 5.  Histories: content added to a map AFTER it was made (parse, then add_brush, then export).  The public adders work on
    [VMF.brushes], the writer reads [VMF.spawn.solids]: the two must be one object.  Gen/VmfAlias_gen.v holds, for every function
    that hands out a map and every alias pair the constructor establishes, the reference expressions the two access paths hold
    at every return (symbolic execution over object identities).  [alias_same] is a sound and complete decision procedure. *)
Theorem c06_alias_check_sound : forall a b, alias_same a b = true -> forall w, reval w a = reval w b.
Proof. exact alias_same_sound. Qed.

Theorem c06_alias_check_complete : forall a b, alias_same a b = false -> exists w, reval w a <> reval w b.
Proof. exact alias_same_complete. Qed.

(** What is appended through the first path is read through the second. *)
Theorem c06_alias_added_content_is_written : forall a b, alias_same a b = true ->
  forall (X : Type) w (h : heap X) x, add_then_read w a b h x = (h (reval w b) ++ [x])%list.
Proof. exact alias_add_then_read. Qed.

(** The generated table: every maker, every pair. *)
Theorem c06_alias_table_meaning : forall fns pairs t, alias_table_ok fns pairs t = true ->
  forall fn p, In fn fns -> In p pairs ->
  exists row, In row t /\ ar_fn row = fn /\ ar_left row = fst p /\ ar_right row = snd p /\
              (forall w, reval w (ar_l row) = reval w (ar_r row)) /\
              (forall (X : Type) w (h : heap X) x, add_then_read w (ar_l row) (ar_r row) h x = (h (reval w (ar_r row)) ++ [x])%list).
Proof. exact alias_table_meaning. Qed.

(** [brushes = spawn.solids or []] (seeded/c06_7): on a map without world brushes the adders fill a list nobody writes. *)
Theorem c06_alias_or_empty_refuted : forall x f, x <> f ->
  alias_same (RIteT (RLoc x) (RLoc x) (RLoc f)) (RLoc x) = false /\
  forall (X : Type) (h : heap X) v, add_then_read (fun _ => false) (RIteT (RLoc x) (RLoc x) (RLoc f)) (RLoc x) h v = h x.
Proof. exact alias_or_fresh_refuted. Qed.

(** [list(x)], [x[:]], a comprehension, [x.copy()]: a new object in every world. *)
Theorem c06_alias_copy_refuted : forall x f, x <> f -> alias_same (RLoc f) (RLoc x) = false.
Proof. exact alias_copy_refuted. Qed.

(** The property with histories: [c06_property] for the round trip of the map as it is, and for every maker of a map and every
    alias pair the identity that makes later additions part of what is written. *)
Theorem c06_property_with_histories :
  forall nums progs (P : parsecfg) (ctbl : list liteclass) classes mans sites (kinds : list string) loops tiers vtbl vinv
         (V T : Type) (dflt : V) (enc : lentry -> list V -> T) (dec : lentry -> T -> V) makers apairs atbl,
  table_ok nums progs = true -> pcfg_ok P = true ->
  codecs_invert V T enc dec ctbl ->
  (forall k, In k kinds -> kind_ok classes mans sites k = true) ->
  member_loops_ok loops = true ->
  vp_ok tiers vtbl vinv = true ->
  alias_table_ok makers apairs atbl = true ->
  ((forall fuel fn e text kvs flag_on, env_ok nums e ->
     run (fun_lookup progs) fuel (fun_lookup progs fn) [] e = Some (text, kvs) -> doc_names_ok kvs = true ->
     parse_kv P vmf_E flag_on text = POk kvs)
  /\ (forall x : otree V, wf V ctbl x ->
        parse_t V T dflt dec ctbl (export_t V T dflt enc ctbl x) = x /\
        export_t V T dflt enc ctbl (parse_t V T dflt dec ctbl (export_t V T dflt enc ctbl x)) = export_t V T dflt enc ctbl x)
  /\ (forall k, In k kinds -> exists m p, In m mans /\ im_attr m = k /\ assoc_s (im_preserve m) classes = Some p /\
        forall d o, (0 <= d)%Z -> id_get p o d = AKeep)
  /\ (forall l, In l loops -> ml_sorted l = true) /\
     (forall s1 s2 : list Z, NoDup s1 -> NoDup s2 -> same_set s1 s2 -> write_members true s1 = write_members true s2)
  /\ (forall t1 r, tiers = t1 :: r -> forall a u v, in_tier t1 u = false -> in_tier t1 v = false ->
        vp_read tiers vinv (vp_write vtbl a u v) = Some (a, u, v)))
  /\ (forall fn p, In fn makers -> In p apairs ->
        exists row, In row atbl /\ ar_fn row = fn /\ ar_left row = fst p /\ ar_right row = snd p /\
          (forall w, reval w (ar_l row) = reval w (ar_r row)) /\
          (forall (X : Type) w (h : heap X) x, add_then_read w (ar_l row) (ar_r row) h x = (h (reval w (ar_r row)) ++ [x])%list)).
Proof.
  intros nums progs P ctbl classes mans sites kinds loops tiers vtbl vinv V T dflt enc dec makers apairs atbl
         H1 H2 H3 H4 H5 H6 H7.
  split.
  - exact (whole_property nums progs P ctbl classes mans sites kinds loops tiers vtbl vinv V T dflt enc dec H1 H2 H3 H4 H5 H6).
  - exact (alias_table_meaning makers apairs atbl H7).
Qed.
