(** C08 — IDs handed out inside one VMF are unique per kind and never reused while live.
    Only statements here; proofs are in SM/IdManProofs.v, SM/IdManSpecProofs.v, SM/IdLifeProofs.v,
    SM/IdWorldProofs.v and SM/IdNodeProofs.v. *)
From stdpp Require Import gmap sets.
From Coq Require Import ZArith.
From SV Require Import SM.IdMan SM.IdManProofs SM.IdManSpec SM.IdManSpecProofs SM.IdLife SM.IdLifeProofs
  SM.IdWorld SM.IdWorldProofs SM.IdNode SM.IdNodeProofs SM.IdFixupHist SM.IdFixupHistProofs SM.IdNest SM.IdNestProofs SM.IdNodeMaps SM.IdNodeMapsProofs SM.IdCtor SM.IdCtorProofs SM.IdAllProofs Gen.IdSites_gen.
Open Scope Z_scope.

(** Release discipline read from the source census (Gen/IdSites_gen.v). *)
Definition kind_eqb (a b : kind) : bool :=
  match a, b with
  | KEnt, KEnt | KSolid, KSolid | KFace, KFace | KGroup, KGroup | KVis, KVis | KNode, KNode => true
  | _, _ => false
  end.
Definition release_on_remove (k : kind) : bool :=
  existsb (λ '(k', s, _), kind_eqb k k' && match s with SDel => false | _ => true end) release_sites.
Definition all_id_stores_from_get_id : bool := forallb snd id_stores.
(** Each class releases and acquires only in the manager of its own kind. *)
Definition class_kind_consistent : bool := forallb snd class_kind_sites.

(** Every constructor call and nested copy() inside the copy() methods and collapse_one that produces an object
    of kind [k] takes the ID from the destination map (and there is at least one such site). *)
Definition copy_to_dest (k : kind) : bool :=
  forallb (λ '(k', _, ok), implb (kind_eqb k k') ok) copy_sites &&
  existsb (λ '(k', _, _), kind_eqb k k') copy_sites.
(** remove_ent releases the nav-node ID of an entity that keeps its 'nodeid' key. *)
Definition node_release_on_remove : bool :=
  existsb (λ '(k, s, _), kind_eqb k KNode && match s with SRemoveFromMap => true | _ => false end) release_sites.

(** Round 3: every place that can put a key into an entity's keyvalue dictionary goes through Entity.__setitem__
    (which registers a 'nodeid' value with the map's node_id manager and stores the ID it was given) or cannot
    concern the 'nodeid' key.  [node_copy_registers]: the same for the sites on the constructor / copy() path. *)
Definition keys_writes_registered : bool :=
  forallb (λ '(_, _, _, ok), ok) keys_write_sites && node_setitem_registers.
Definition node_copy_registers : bool :=
  forallb (λ '(_, _, c, ok), match c with KwCtor => ok | _ => true end) keys_write_sites.

(** Round 3: every place that can put a value into the index table of an EntityFixup is one of the modelled
    operations (constructor's accepting store, __setitem__'s lowest-unused-index store, index-preserving duplicate). *)
Definition fixup_writes_modelled : bool := forallb (λ '(_, _, _, ok), ok) fixup_write_sites.

(** Round 4: the steps of VMF.parse that touch entity / brush / face IDs, read off its body in source order
    (Gen/IdSites_gen.v), as a program of SM/IdNest.v. *)
Definition parse_program : list pstep :=
  List.map (λ g, match g with GPPlaceholder => PPlaceholder | GPWorld => PWorld | GPDropPlaceholder => PDropPlaceholder
                            | GPEntities => PEntities | GPReleasePlaceholder => PReleasePlaceholder end) parse_steps.
(** VMF.parse itself releases no ID (the placeholder's ID is given back by its destructor, once). *)
Definition parse_releases_nothing : bool := prog_ok parse_program.

(** Round 5: the constructor of every ID-bearing class as a step list of SM/IdCtor.v (attrs classes: the generated __init__ field by
    field, validators, __attrs_post_init__), with the shape of its destructor (releases self.id at all / only under an ownership flag). *)
Definition ctor_step_of (g : ctor_step) : cstep :=
  match g with GCStoreRaw => CStoreRaw | GCMayRaise => CMayRaise | GCRegister => CRegister | GCSetOwned => CSetOwned end.
Definition ctor_models : list (list cstep * bool * bool) :=
  List.map (λ r : kind * String.string * list ctor_step * bool * bool, (List.map ctor_step_of r.1.1.2, r.1.2, r.2)) ctor_classes.
Definition ctor_model_of (k : kind) : list (list cstep * bool * bool) :=
  List.map (λ r : kind * String.string * list ctor_step * bool * bool, (List.map ctor_step_of r.1.1.2, r.1.2, r.2))
           (List.filter (λ r : kind * String.string * list ctor_step * bool * bool, kind_eqb k r.1.1.1.1) ctor_classes).
(** At no point where a constructor can raise does [self.id] hold an ID that the object has not registered while the destructor
    would release it; a completed object holds a registered ID. *)
Definition constructors_fail_safely : bool := ctors_ok ctor_models.
(** copy.copy() of an object whose class has a releasing destructor goes through copy() (hence the constructor): no object comes into
    being with the fields -- ID, ownership flag -- of another one. *)
Definition copy_module_copies_are_real_copies : bool := forallb snd shallow_copy_sites.
Definition constructor_fails_safely (k : kind) : bool := ctors_ok (ctor_model_of k) && negb (Nat.eqb (length (ctor_model_of k)) 0).

(** The allocator scan always terminates (pigeonhole on the used set). *)
Theorem c08_get_id_total : ∀ d s, is_Some (get_id d s).
Proof. exact get_id_total. Qed.

(** Every ID handed out is positive and not in use; the allocator invariant is kept. *)
Theorem c08_get_id_fresh : ∀ d s i s', Inv s → get_id d s = Some (i, s') →
  0 < i ∧ i ∉ used s ∧ used s' = {[i]} ∪ used s ∧ Inv s'.
Proof. exact get_id_fresh. Qed.

Theorem c08_discard_keeps_invariant : ∀ e s, Inv s → Inv (discard e s).
Proof. exact discard_inv. Qed.
(** ... which needs the positivity guard on lowering the hint: *)
Theorem c08_discard_unguarded_refuted : fst <$> get_id (-1) (discard_g false (-1) init) = Some (-1).
Proof. exact discard_unguarded_refuted. Qed.

(** Lifecycle: for every kind whose only release sites are destructors, after EVERY history of creation with
    arbitrary desired IDs, removal from the map, re-adding and garbage collection, the objects that still
    exist have pairwise distinct, positive IDs. *)
Theorem c08_live_ids_unique : ∀ k es, release_on_remove k = false →
  let w := lrun (release_on_remove k) es in NoDup (live_ids w) ∧ (∀ i, i ∈ live_ids w → 0 < i).
Proof. intros k es ->. exact (live_ids_nodup_pos es). Qed.

(** The hypothesis is necessary: with a release on removal there is a history with a duplicate in the map. *)
Theorem c08_release_on_remove_refuted : has_dup (map_ids (lrun true double_release_history)) = true.
Proof. exact live_ids_nodup_refuted_with_release_on_remove. Qed.

(** replaceNN indexes of one entity's fixups: distinct and positive after construction from any list,
    provided the constructor tests positivity, and kept by every set/delete. *)
Theorem c08_fixup_init : ∀ l, FxInv (fx_init true true l).
Proof. exact fx_init_inv. Qed.
Theorem c08_fixup_set : ∀ v f, FxInv f → FxInv (fx_set v f).
Proof. exact fx_set_inv. Qed.
Theorem c08_fixup_del : ∀ v f, FxInv f → FxInv (fx_del v f).
Proof. exact fx_del_inv. Qed.
Theorem c08_fixup_init_needs_positive_test : (fx_init false true [(7, 0)]).*2 = [0].
Proof. exact fx_init_refuted_without_positive_test. Qed.
Theorem c08_fixup_init_needs_deferral : (fx_init true false [(10, 2); (11, 2); (12, 1)]).*2 = [2; 1; 1].
Proof. exact fx_init_refuted_without_deferral. Qed.

(** ------------------------------------------------------------------------------------------------
    Round 2. *)

(** IDMan refines a plain finite set: from any state that satisfies the invariant, every sequence of
    get_id (any desired ID) / discard / remove / clear / __contains__ / __len__ yields exactly the results of the
    set-level specification (desired ID if positive and free, else the least free positive ID) started from the
    set of used IDs.  [search_pos] never shows. *)
Theorem c08_idman_refines_set : ∀ ops s, Inv s → run_res true s ops = spec_run (used s) ops.
Proof. exact idman_refines_set. Qed.
Theorem c08_idman_hint_unobservable : ∀ ops s1 s2, Inv s1 → Inv s2 → used s1 = used s2 →
  run_res true s1 ops = run_res true s2 ops.
Proof. exact hint_unobservable. Qed.
(** The states reachable in the code do satisfy it: [IDMan()] / [IDMan(existing)], and every operation keeps it. *)
Theorem c08_idman_init_from_inv : ∀ l, Inv (init_from l).
Proof. exact init_from_inv. Qed.
Theorem c08_idman_step_inv : ∀ s o, Inv s → Inv (step true s o).1.
Proof. exact step_inv. Qed.
(** A refused or absent desired ID yields the *least* free positive ID. *)
Theorem c08_get_id_least : ∀ d s i s', Inv s → get_id d s = Some (i, s') → ¬ (0 < d ∧ d ∉ used s) →
  ∀ j, 1 ≤ j < i → j ∈ used s.
Proof. exact get_id_least. Qed.
(** Without the invariant the hint is observable (so the invariant is what makes it an optimisation). *)
Theorem c08_idman_hint_needs_invariant :
  run_res true {| used := ∅; pos := 5 |} [Get (-1)] = [5] ∧ spec_run ∅ [Get (-1)] = [1].
Proof. exact hint_observable_without_invariant. Qed.

(** Several maps: for every kind whose IDs are released only by destructors and whose copies allocate in the
    destination map, after EVERY history of construction with arbitrary desired IDs, copy() within and across
    maps, removal, re-adding, destruction, VMF.parse of documents with arbitrary (colliding, missing,
    non-positive) IDs and collapse_one of instances, the existing objects belonging to one map have pairwise
    distinct, positive IDs. *)
Theorem c08_world_live_ids_unique : ∀ k es m, release_on_remove k = false → copy_to_dest k = true →
  let w := wrun (release_on_remove k) (copy_to_dest k) es in
  NoDup (live_ids_in m w) ∧ (∀ i, i ∈ live_ids_in m w → 0 < i).
Proof. intros k es m -> ->. exact (world_live_ids_nodup_pos es m). Qed.
(** ... in particular those the map lists (what export() writes). *)
Theorem c08_world_map_ids_unique : ∀ k es m, release_on_remove k = false → copy_to_dest k = true →
  let w := wrun (release_on_remove k) (copy_to_dest k) es in
  NoDup (map_ids_in m w) ∧ (∀ i, i ∈ map_ids_in m w → 0 < i).
Proof. intros k es m -> ->. exact (world_map_ids_nodup_pos es m). Qed.
(** Whatever copy() does with its map argument, IDs are unique per *issuing* manager. *)
Theorem c08_world_keys_unique : ∀ c es, let w := wrun false c es in
  NoDup (wkeys (wobjs w)) ∧ ∀ m i, (m, i) ∈ wkeys (wobjs w) → 0 < i.
Proof. exact wrun_keys_nodup. Qed.
(** parse / collapse are the folds of their constructor / copy calls. *)
Theorem c08_parse_is_creates : ∀ r c m ds w, wstep1 r c w (WParse m ds) = wrun_from r c w (WCreate m <$> ds).
Proof. exact wparse_unfold. Qed.
Theorem c08_collapse_is_copies : ∀ r c m ks w,
  wstep1 r c w (WCollapse ks m) = wrun_from r c w ((λ k, WCopy k m (-1)) <$> ks).
Proof. exact wcollapse_unfold. Qed.
(** Both hypotheses are necessary. *)
Theorem c08_copy_from_source_refuted : map_ids_in 1 (wrun false false xmap_copy_history) = [1; 2; 2].
Proof. exact copy_from_source_refuted. Qed.
Theorem c08_collapse_from_source_refuted :
  map_ids_in 1 (wrun false false [WParse 0 [7; 7; 0]; WParse 1 [3; 1]; WCollapse [0; 1; 2]%nat 1]) = [3; 1; 3; 4; 5].
Proof. exact collapse_from_source_refuted. Qed.
Theorem c08_world_release_on_remove_refuted :
  map_ids_in 0 (wrun true true [WCreate 0 (-1); WRemove 0; WCreate 0 (-1); WReAdd 0]) = [1; 1].
Proof. exact world_release_on_remove_refuted. Qed.
Example c08_parse_colliding_ids_renumbered :
  map_ids_in 0 (wrun false true [WParse 0 [5; 5; -1; 0; 1; 5; 2]]) = [5; 1; 2; 3; 4; 6; 7].
Proof. exact parse_colliding_ids. Qed.

(** Nav-node IDs ('nodeid' keyvalue): when remove_ent does not release the ID of an entity that keeps the key,
    the node IDs held by existing entities are pairwise distinct and positive after every history of
    construction / parse with any value, key assignment, key deletion, copy, removal, re-adding and destruction
    — for either shape of add_ent (re-allocating or not) and of the destructor (releasing or not) — provided
    (round 3) the keyvalues of a copy enter the new entity through __setitem__. *)
Theorem c08_node_ids_unique : ∀ es, node_release_on_remove = false →
  node_copy_registers = true →
  let w := nrun node_realloc_on_add node_release_on_remove node_release_in_del node_copy_registers es in
  NoDup (nids (nents w)) ∧ (∀ i, i ∈ nids (nents w) → 0 < i).
Proof. intros es -> ->. exact (node_ids_nodup_pos _ _ es). Qed.
(** The pinned tree's shape (remove_ent releases) is refuted, with and without the re-allocation in add_ent. *)
Theorem c08_node_release_on_remove_refuted :
  has_dup (nmap_ids (nents (nrun false true false true node_release_on_remove_history))) = true ∧
  has_dup (nmap_ids (nents (nrun true true false true [NCreate (Some 0); NRemove 0; NCreate (Some (-1)); NCreate (Some (-1)); NReAdd 0; NCreate (Some (-1))]))) = true.
Proof. exact node_release_on_remove_refuted. Qed.
(** Round 3: the second hypothesis is necessary.  A copy that takes the key dictionary of its source over without
    __setitem__ shares the node ID of its source; and once such a copy is dropped its destructor releases the ID
    the source still holds, so a later node receives it again. *)
Theorem c08_node_copy_unregistered_refuted :
  nids (nents (nrun false false true false [NCreate (Some 1); NCopy 0])) = [1; 1] ∧
  nids (nents (nrun false false true false
                 [NCreate (Some (-1)); NCopy 0; NRemove 1; NGc 1; NCreate (Some (-1))])) = [1; 1].
Proof. exact node_copy_unregistered_refuted. Qed.

(** Round 3.  replaceNN indexes over whole histories: after the constructor on ANY list (colliding, zero, negative
    indexes, repeated variables) and EVERY sequence of assignments (also setdefault/update), deletions (also pop),
    clear(), rebuilds from the table's own values (Entity.copy) and index-preserving duplicates (copy/deepcopy/
    pickle), the indexes of one entity are pairwise distinct and positive — with the constructor shape read from
    the source. *)
Theorem c08_fixup_history : ∀ l ops,
  fixup_init_requires_positive = true → fixup_init_defers_reinsertion = true →
  FxInv (fx_hist fixup_init_requires_positive fixup_init_defers_reinsertion l ops).
Proof. intros l ops -> ->. exact (fx_hist_inv l ops). Qed.
(** Entity.copy() keeps the numbering: rebuilding a table whose indexes are distinct and positive gives the table. *)
Theorem c08_fixup_rebuild_keeps_indexes : ∀ f, FxInv f → FxVars f → fx_init true true f = f.
Proof. exact fx_rebuild_id. Qed.
(** Both constructor properties are necessary for the history statement. *)
Theorem c08_fixup_history_needs_positive_test : (fx_hist false true [(7, 0)] [FSet 8; FRebuild]).*2 = [0; 1].
Proof. exact fx_hist_refuted_without_positive_test. Qed.
Theorem c08_fixup_history_needs_deferral :
  (fx_hist true false [(10, 1); (11, 1); (12, 2)] [FDel 10; FSet 13]).*2 = [2; 2; 1].
Proof. exact fx_hist_refuted_without_deferral. Qed.

(** Round 3.  Entity ⊃ Solid ⊃ Side as ONE world (SM/IdNest.v): an event on a top-level object (point entity, brush
    entity with its brushes and their faces, world brush) is the whole bundle of constructor / copy() / remove /
    re-add / destructor calls made for it and its parts.  After EVERY history of such events over any number of
    maps, in every map the existing entities have pairwise distinct positive IDs, and so have the existing
    brushes (world brushes and those of entities together) and the existing faces — with the release and copy
    discipline of the three kinds read from the source.  collapse_one is an event of this world: WHICH objects it copies
    (the listed world brushes of the instance map in list order, then its listed entities) is computed by the model. *)
Theorem c08_nested_world_unique : ∀ es m,
  release_on_remove KEnt = false → release_on_remove KSolid = false → release_on_remove KFace = false →
  copy_to_dest KEnt = true → copy_to_dest KSolid = true → copy_to_dest KFace = true →
  parse_releases_nothing = true →
  let w := trun (release_on_remove KEnt) (release_on_remove KSolid) (release_on_remove KFace)
                (copy_to_dest KEnt) (copy_to_dest KSolid) (copy_to_dest KFace) parse_program es in
  (NoDup (live_ids_in m (tE w)) ∧ ∀ i, i ∈ live_ids_in m (tE w) → 0 < i) ∧
  (NoDup (live_ids_in m (tS w)) ∧ ∀ i, i ∈ live_ids_in m (tS w) → 0 < i) ∧
  (NoDup (live_ids_in m (tF w)) ∧ ∀ i, i ∈ live_ids_in m (tF w) → 0 < i).
Proof. intros es m -> -> -> -> -> -> Hp. exact (trun_unique parse_program es m Hp). Qed.
(** Round 4.  The same for EVERY parse program without an explicit release step, whatever the order of its steps and the
    time at which the placeholder worldspawn dies: histories may contain VMF.parse of any document (world block, world
    brushes and entity blocks with arbitrary, colliding, missing IDs; hidden objects) into any map, followed and preceded by
    any other events -- parse-then-allocate included. *)
Theorem c08_parse_any_program_unique : ∀ prog es m, prog_ok prog = true →
  let w := trun false false false true true true prog es in
  (NoDup (live_ids_in m (tE w)) ∧ ∀ i, i ∈ live_ids_in m (tE w) → 0 < i) ∧
  (NoDup (live_ids_in m (tS w)) ∧ ∀ i, i ∈ live_ids_in m (tS w) → 0 < i) ∧
  (NoDup (live_ids_in m (tF w)) ∧ ∀ i, i ∈ live_ids_in m (tF w) → 0 < i).
Proof. exact trun_unique. Qed.
(** The premise is necessary: when parse hands the placeholder's ID back itself before the world block is parsed, the
    destructor of the placeholder releases it a second time while the worldspawn holds it.  A Hammer-saved document (world
    id 1, an entity with id 2, an entity without id): entity IDs 1, 2, 1; an empty map with world id 1 followed by one
    create_ent: 1, 1. *)
Theorem c08_parse_early_release_refuted :
  let w := trun false false false true true true prog_early_release [TParse 0 hammer_doc] in
  live_ids_in 0 (tE w) = [1; 2; 1] ∧
  live_ids_in 0 (tE (trun false false false true true true prog_early_release
     [TParse 0 {| pd_world := 1; pd_brushes := []; pd_ents := [] |}; TCreateEnt 0 (-1) []])) = [1; 1].
Proof. exact parse_early_release_refuted. Qed.
(** With the pinned tree's program, VMF.parse is: the constructor's worldspawn; the bundles of the world brushes in file
    order; the worldspawn entity; the destructor of the placeholder (the object with the index the constructor's worldspawn
    got); the bundles of the entity blocks in file order. *)
Theorem c08_parse_is_events : ∀ r1 r2 r3 c1 c2 c3 w m d,
  tparse r1 r2 r3 c1 c2 c3 prog_std w m d =
  let w1 := tstep r1 r2 r3 c1 c2 c3 prog_std w (TCreateSpawn m) in
  let w2 := fold_left (λ w (b : bool * (Z * list Z)), tcreate_h r1 r2 r3 c1 c2 c3 w m None [b.2] true b.1) (pd_brushes d) w1 in
  let w3 := tcreate r1 r2 r3 c1 c2 c3 w2 m (Some (pd_world d)) [] false in
  let w4 := tstep r1 r2 r3 c1 c2 c3 prog_std w3 (TDestroy (length (ttops w))) in
  fold_left (λ w (e : bool * (Z * list (Z * list Z))), tcreate_h r1 r2 r3 c1 c2 c3 w m (Some e.2.1) e.2.2 true e.1) (pd_ents d) w4.
Proof. exact tparse_is_events. Qed.
(** The hypotheses are satisfiable and the statement is not vacuous: the Hammer-saved document, then one create_ent. *)
Example c08_parse_hammer_doc :
  let w := trun false false false true true true prog_std [TParse 0 hammer_doc; TCreateEnt 0 (-1) []] in
  live_ids_in 0 (tE w) = [2; 1; 3; 4] ∧ live_ids_in 0 (tS w) = [1] ∧ live_ids_in 0 (tF w) = [1; 2].
Proof. vm_compute. done. Qed.
(** When Entity.copy() does not pass the map down to its brushes: brushes 1, 2, 2 and faces 1, 2, 2 in one map. *)
Theorem c08_nested_copy_from_source_refuted :
  let w := trun false false false true false false prog_std nested_copy_history in
  live_ids_in 1 (tE w) = [1] ∧ live_ids_in 1 (tS w) = [1; 2; 2] ∧ live_ids_in 1 (tF w) = [1; 2; 2].
Proof. exact nested_copy_from_source_refuted. Qed.
(** collapse_one (visgroups kept) as one event is the fold of the copy() bundles of the instance map's visible listed
    brushes, then its listed entities; without visgroups the copies are in addition made visible. *)
Theorem c08_nested_collapse_is_copies : ∀ r1 r2 r3 c1 c2 c3 pg w s m, s ≠ m →
  tstep r1 r2 r3 c1 c2 c3 pg w (TCollapse s m true) =
  fold_left (tstep r1 r2 r3 c1 c2 c3 pg) ((λ t, TCopy t m (-1) true) <$> tcollapse_sources w s true) w.
Proof. exact tcollapse_is_copies. Qed.

(** Round 3.  Nav-node IDs over several maps (SM/IdNodeMaps.v): after every history of construction / parse with any
    'nodeid' value in any map, key assignment, deletion, removal, re-adding, destruction, copy within and ACROSS maps,
    reservations by Instance.fixup_key and collapse_one of node entities into another map (copy every entity, then
    reserve-and-reassign every copied node ID), in every map the node IDs held by existing entities are pairwise
    distinct and positive — under the same two census premises as c08_node_ids_unique. *)
Theorem c08_node_maps_ids_unique : ∀ es m, node_release_on_remove = false → node_copy_registers = true →
  let w := mrun node_realloc_on_add node_release_on_remove node_release_in_del node_copy_registers es in
  NoDup (nids (nents (mmap w m))) ∧ (∀ i, i ∈ nids (nents (mmap w m)) → 0 < i).
Proof. intros es m -> ->. exact (node_maps_ids_nodup_pos _ _ es m). Qed.
(** Without registration a cross-map copy brings the source's ID into a map where it is taken already. *)
Theorem c08_node_maps_copy_unregistered_refuted :
  let w := mrun false false true false [MCreate 0 (Some 1); MCreate 1 (Some 1); MCopy 0 1] in
  nids (nents (mmap w 1)) = [1; 1].
Proof. exact node_maps_copy_unregistered_refuted. Qed.

(** Round 3.  The property in one statement.  The premises are exactly the census obligations the check discharges on
    every run: IDs of entities, brushes, faces, brush groups and visgroups are released only by destructors; every
    copy site allocates in the destination map; remove_ent keeps node IDs and copies register theirs; the fixup
    constructor tests positivity and defers re-insertion.  Then, for EVERY history of the nested world (entities with
    their brushes and faces, world brushes; creation with arbitrary desired IDs, copy within and across maps, removal,
    re-adding, destruction, collapse_one), of brush groups and of visgroups (IdWorld events incl. parse and collapse),
    of node entities over several maps, and of the fixup table of any one entity: within every map no two existing
    entities share an ID, no two brushes, no two faces, no two groups, no two visgroups, no two node IDs, no two
    replaceNN indexes of the entity — and all of them are positive. *)
Theorem c08_one_map_all_kinds : ∀ hn hg hv hm fl fo m,
  release_on_remove KEnt = false → release_on_remove KSolid = false → release_on_remove KFace = false →
  release_on_remove KGroup = false → release_on_remove KVis = false →
  copy_to_dest KEnt = true → copy_to_dest KSolid = true → copy_to_dest KFace = true →
  copy_to_dest KGroup = true → copy_to_dest KVis = true →
  node_release_on_remove = false → node_copy_registers = true →
  fixup_init_requires_positive = true → fixup_init_defers_reinsertion = true →
  parse_releases_nothing = true → constructors_fail_safely = true → copy_module_copies_are_real_copies = true →
  let wn := trun (release_on_remove KEnt) (release_on_remove KSolid) (release_on_remove KFace)
                 (copy_to_dest KEnt) (copy_to_dest KSolid) (copy_to_dest KFace) parse_program hn in
  (uniq_pos (live_ids_in m (tE wn)) ∧ uniq_pos (live_ids_in m (tS wn)) ∧ uniq_pos (live_ids_in m (tF wn)) ∧
   uniq_pos (live_ids_in m (wrun (release_on_remove KGroup) (copy_to_dest KGroup) hg)) ∧
   uniq_pos (live_ids_in m (wrun (release_on_remove KVis) (copy_to_dest KVis) hv)) ∧
   uniq_pos (nids (nents (mmap (mrun node_realloc_on_add node_release_on_remove node_release_in_del node_copy_registers hm) m))) ∧
   FxInv (fx_hist fixup_init_requires_positive fixup_init_defers_reinsertion fl fo)) ∧
  ∀ c hc, c ∈ ctor_models → uniq_pos (klive (krun c.1.1 c.1.2 c.2 (negb copy_module_copies_are_real_copies) hc)).
Proof. intros hn hg hv hm fl fo m -> -> -> -> -> -> -> -> -> -> -> -> -> -> Hp Hc Hr. rewrite Hr. exact (all_kinds_unique_r5 hn hg hv hm fl fo _ _ m parse_program ctor_models Hp Hc). Qed.

(** Round 5.  Constructors that FAIL.  For EVERY step list that passes [ctor_ok] -- in particular for the five read from the source when
    the obligation [constructors_fail_safely] holds -- after EVERY history of constructor calls with arbitrary desired IDs that run to
    completion or raise at any one of the points where they can raise (a converter or validator inside the attrs-generated __init__, a
    statement of a hand-written one), with the caller catching the exception and carrying on, and of destructor calls of complete and of
    half-built objects at any later time: the complete objects that still exist have pairwise distinct positive IDs, each handed out to
    that object by the manager. *)
Theorem c08_failed_constructors_unique : ∀ steps dr dg es, ctor_ok steps dr dg = true → copy_module_copies_are_real_copies = true →
  let w := krun steps dr dg (negb copy_module_copies_are_real_copies) es in
  NoDup (klive w) ∧ (∀ i, i ∈ klive w → 0 < i) ∧ ∀ o, o ∈ cobjs w → cdone o = true → hreg (ch o) = true ∧ is_Some (hid (ch o)).
Proof. intros steps dr dg es H ->. exact (failed_ctor_unique dr dg steps es H). Qed.
(** The premise is necessary.  An attrs class whose [id] field is followed by a field with a converter, [__attrs_post_init__] registering
    the ID, and a destructor that releases whatever [self.id] holds (seeded fault c08_8; the pinned tree's Solid with its visgroup_ids
    converter): brushes 1 and 2 exist, a constructor call that asks for 2 raises in the converter, the half-built object dies, the
    next brush is handed 2 again.  With the ownership flag, or without a releasing destructor, the same history is harmless. *)
Theorem c08_failed_constructor_refuted :
  klive (krun attrs_raw_then_convert true false false failed_ctor_history) = [1; 2; 2] ∧
  klive (krun attrs_guarded true true false failed_ctor_history) = [1; 2; 3] ∧
  klive (krun attrs_raw_then_convert false false false failed_ctor_history) = [1; 2; 3].
Proof. exact failed_ctor_refuted. Qed.
(** The second premise is necessary too: when copy.copy() is left to the default protocol, the copy of brush 1 is a second brush with ID 1;
    once the copy dies its destructor releases 1 (the flag was copied with the other fields) and the next brush is handed 1 while the
    original holds it.  The same history with a __copy__ that goes through copy(): 1, 2. *)
Theorem c08_shallow_copy_refuted :
  klive (krun attrs_guarded true true true [KNew (-1) None; KAlias 0]) = [1; 1] ∧
  klive (krun attrs_guarded true true true [KNew (-1) None; KAlias 0; KDel 1; KNew (-1) None]) = [1; 1] ∧
  klive (krun attrs_guarded true true false [KNew (-1) None; KAlias 0; KDel 1; KNew (-1) None]) = [1; 2].
Proof. exact shallow_alias_refuted. Qed.
Theorem c08_constructor_shapes :
  ctor_ok attrs_raw_then_convert true false = false ∧ ctor_ok attrs_raw_then_convert false false = true ∧
  ctor_ok attrs_guarded true true = true ∧ ctor_ok direct_register true false = true ∧
  ctor_ok [CSetOwned; CStoreRaw; CMayRaise; CRegister] true true = false ∧ ctor_ok [CStoreRaw; CMayRaise] false false = false.
Proof. exact shapes_ok. Qed.
