(** C08 — IDs handed out inside one VMF are unique per kind and never reused while live.
    Only statements here; proofs are in SM/IdManProofs.v and SM/IdLifeProofs.v. *)
From stdpp Require Import gmap sets.
From Coq Require Import ZArith.
From SV Require Import SM.IdMan SM.IdManProofs SM.IdLife SM.IdLifeProofs Gen.IdSites_gen.
Open Scope Z_scope.

(** Release discipline read from the source census (Gen/IdSites_gen.v). *)
Definition kind_eqb (a b : kind) : bool :=
  match a, b with
  | KEnt, KEnt | KSolid, KSolid | KFace, KFace | KGroup, KGroup | KVis, KVis | KNode, KNode => true
  | _, _ => false
  end.
Definition release_on_remove (k : kind) : bool :=
  existsb (λ '(k', s, _), kind_eqb k k' && match s with SDel => false | _ => true end) release_sites.
Definition all_id_stores_from_get_id : bool := forallb snd id_stores.
(** Each class releases and acquires only in the manager of its own kind. *)
Definition class_kind_consistent : bool := forallb snd class_kind_sites.

(** The allocator scan always terminates (pigeonhole on the used set). *)
Theorem c08_get_id_total : ∀ d s, is_Some (get_id d s).
Proof. exact get_id_total. Qed.

(** Every ID handed out is positive and not in use; the allocator invariant is kept. *)
Theorem c08_get_id_fresh : ∀ d s i s', Inv s → get_id d s = Some (i, s') →
  0 < i ∧ i ∉ used s ∧ used s' = {[i]} ∪ used s ∧ Inv s'.
Proof. exact get_id_fresh. Qed.

Theorem c08_discard_keeps_invariant : ∀ e s, Inv s → Inv (discard e s).
Proof. exact discard_inv. Qed.
(** ... which needs the positivity guard on lowering the hint: *)
Theorem c08_discard_unguarded_refuted : fst <$> get_id (-1) (discard_g false (-1) init) = Some (-1).
Proof. exact discard_unguarded_refuted. Qed.

(** Lifecycle: for every kind whose only release sites are destructors, after EVERY history of creation with
    arbitrary desired IDs, removal from the map, re-adding and garbage collection, the objects that still
    exist have pairwise distinct, positive IDs. *)
Theorem c08_live_ids_unique : ∀ k es, release_on_remove k = false →
  let w := lrun (release_on_remove k) es in NoDup (live_ids w) ∧ (∀ i, i ∈ live_ids w → 0 < i).
Proof. intros k es ->. exact (live_ids_nodup_pos es). Qed.

(** The hypothesis is necessary: with a release on removal there is a history with a duplicate in the map. *)
Theorem c08_release_on_remove_refuted : has_dup (map_ids (lrun true double_release_history)) = true.
Proof. exact live_ids_nodup_refuted_with_release_on_remove. Qed.

(** replaceNN indexes of one entity's fixups: distinct and positive after construction from any list,
    provided the constructor tests positivity, and kept by every set/delete. *)
Theorem c08_fixup_init : ∀ l, FxInv (fx_init true l).
Proof. exact fx_init_inv. Qed.
Theorem c08_fixup_set : ∀ v f, FxInv f → FxInv (fx_set v f).
Proof. exact fx_set_inv. Qed.
Theorem c08_fixup_del : ∀ v f, FxInv f → FxInv (fx_del v f).
Proof. exact fx_del_inv. Qed.
Theorem c08_fixup_init_needs_positive_test : (fx_init false [(7, 0)]).*2 = [0].
Proof. exact fx_init_refuted_without_positive_test. Qed.
