(** C19 — all filesystem backends resolve names alike; chains honour priority.
    Only statements here; the model is SM/FsChain.v, proofs are in SM/FsChainProofs.v.

    The theorems are generic over a [backend] record (lists of normalisation operations).  The records of today's
    source are regenerated into Gen/FsWalk_gen.v on every run and the premises [backend_keys_ok], [walk_ok] (and
    the chain parameters) are discharged for them by kernel-checked instance obligations in checks/c19.py. *)
From Coq Require Import List NArith Bool Permutation.
From SV Require Import SM.FsChain SM.FsChainProofs SM.FsChainRel SM.FsChainWitness SM.FsChainRaw SM.FsChainCompose SM.FsChainComplete SM.FsChainNorm SM.FsChainForms SM.FsChainFormsProofs SM.FsChainWhole SM.FsChainWholeProofs SM.FsChainRead SM.FsChainReadProofs SM.FsChainMixed SM.FsChainMixedProofs SM.FsChainAdd SM.FsChainAddProofs SM.FsChainWalkGen SM.FsChainNoise SM.FsChainNoiseRaw SM.FsChainProperty SM.FsChainPropertyProofs SM.FsState SM.FsStateProofs.
Import ListNotations.
Open Scope N_scope.

(** ** Lookup: every backend with recognised key functions implements one specification map. *)

(** Today's source: every query function converts the slashes, normalises the path and folds the case
    ([backend_keys_norm]).  Then two backends given the same files agree on _get_file, _file_exists and open_bin for
    *every* query string, and all equal the specification map (folded name -> last stored file) at the normalised
    query: redundant separators, "." and ".." segments, either slash and letter case are all insignificant. *)
Theorem c19_lookup_agree_all : forall b1 b2 fs q,
  backend_keys_norm b1 = true -> backend_keys_norm b2 = true -> clean_fs fs = true ->
  lookup b1 fs q = lookup b2 fs q
  /\ exists_ b1 fs q = exists_ b2 fs q
  /\ open_ b1 fs q = open_ b2 fs q
  /\ open_ b1 fs q = lookup b1 fs q
  /\ lookup b1 fs q = spec_lookup fs (normpath (slash q))
  /\ exists_ b1 fs q = match spec_lookup fs (normpath (slash q)) with Some _ => true | None => false end.
Proof. exact lookup_agree_all. Qed.

(** Any recognised form (with or without normpath, before or after the slash conversion): for every query, the file
    served is the specification's file for the query as that backend pre-normalises it. *)
Theorem c19_lookup_norm : forall b fs q,
  store_ops_ok (b_store b) = true -> key_ops_ok (b_get b) = true -> clean_fs fs = true ->
  lookup b fs q = spec_lookup fs (prenorm (norm_kind (b_get b)) q).
Proof. exact lookup_norm. Qed.

(** Hence backends of different recognised forms (the pinned tree: Virtual normalised on '/' only, Zip and VPK not at
    all) still agree on every query that normpath leaves alone, with either slash. *)
Theorem c19_lookup_agree : forall b1 b2 fs q,
  backend_keys_ok b1 = true -> backend_keys_ok b2 = true -> clean_fs fs = true -> stable q ->
  lookup b1 fs q = lookup b2 fs q
  /\ exists_ b1 fs q = exists_ b2 fs q
  /\ open_ b1 fs q = open_ b2 fs q
  /\ open_ b1 fs q = lookup b1 fs q
  /\ lookup b1 fs q = spec_lookup fs q.
Proof. exact lookup_agree. Qed.

(** ... but not on the others: the forms of the pinned tree disagree on "./x", and the pinned Virtual form
    distinguishes the two slashes (".\\x" is not found although "./x" is). *)
Theorem c19_lookup_unnormalised_refuted :
  let fs := [([120], [1])] in
  lookup pinned_virtual fs [46; 47; 120] = Some ([120], [1]) /\ lookup pinned_zip fs [46; 47; 120] = None
  /\ lookup pinned_vpk fs [46; 47; 120] = None /\ lookup pinned_virtual fs [46; 92; 120] = None
  /\ backend_keys_norm pinned_virtual = false /\ backend_keys_norm pinned_zip = false
  /\ backend_keys_norm fixed_virtual = true /\ lookup fixed_virtual fs [46; 92; 120] = Some ([120], [1]).
Proof. exact lookup_unnormalised_refuted. Qed.

(** Which spellings that identifies: normpath drops the empty segments (doubled and trailing slashes) and the "."
    segments of a relative path (".." segments are resolved too, shown by computation and correspondence only) ... *)
Theorem c19_normpath_noise : forall segs,
  segs <> [] -> forallb nosl segs = true -> no_dotdot segs = true ->
  is_prefix [SL] (join_with SL segs) = false -> denoise segs <> [] ->
  normpath (join_with SL segs) = join_with SL (denoise segs).
Proof. exact normpath_noise. Qed.
(** ... so two spellings with the same segments up to that noise, with either slash, are one name for every backend
    of today's form ("./sub//x/.", "sub\\x" and "sub/x"). *)
Theorem c19_lookup_noise_insensitive : forall b fs q q' segs segs',
  backend_keys_norm b = true -> clean_fs fs = true ->
  slash q = join_with SL segs -> slash q' = join_with SL segs' ->
  segs <> [] -> forallb nosl segs = true -> no_dotdot segs = true -> is_prefix [SL] (slash q) = false ->
  segs' <> [] -> forallb nosl segs' = true -> no_dotdot segs' = true -> is_prefix [SL] (slash q') = false ->
  denoise segs <> [] -> denoise segs = denoise segs' ->
  lookup b fs q = lookup b fs q' /\ exists_ b fs q = exists_ b fs q' /\ open_ b fs q = open_ b fs q'.
Proof. exact lookup_noise_insensitive. Qed.
Example c19_noise_example :
  let segs := [[46]; [115]; []; [120]; [46]] in
  join_with SL segs = [46; 47; 115; 47; 47; 120; 47; 46] /\ denoise segs = [[115]; [120]]
  /\ normpath (join_with SL segs) = [115; 47; 120]
  /\ normpath [115; 47; 46; 46; 47; 115; 47; 120] = [115; 47; 120].
Proof. exact noise_example. Qed.

(** Letter case and the two slash characters are insignificant in a query. *)
Theorem c19_lookup_case_slash_insensitive : forall fs q q', nkey q = nkey q' -> spec_lookup fs q = spec_lookup fs q'.
Proof. exact spec_lookup_variant. Qed.

(** A hit is a stored file whose folded name is the folded query; a miss means there is none. *)
Theorem c19_lookup_sound : forall fs q e, spec_lookup fs q = Some e -> In e fs /\ nkey (fst e) = nkey q.
Proof. exact spec_lookup_sound. Qed.
Theorem c19_lookup_complete : forall fs q, spec_lookup fs q = None -> forall e, In e fs -> nkey (fst e) <> nkey q.
Proof. exact spec_lookup_complete. Qed.

(** Clean stored names and their case/slash variants are left alone by normpath (the premise above is satisfiable). *)
Theorem c19_clean_normpath : forall s, clean s = true -> normpath s = s.
Proof. exact clean_normpath. Qed.

(** Without names differing only in case, the iteration order of the container is irrelevant. *)
Theorem c19_lookup_order_irrelevant : forall fs fs' q,
  Permutation fs fs' -> NoDup (map (fun e => nkey (fst e)) fs) -> spec_lookup fs q = spec_lookup fs' q.
Proof. exact spec_lookup_perm. Qed.

(** With case-duplicates the order decides the winner (carved out above; VPK iterates grouped by extension and
    folder, so its winner can differ from the insertion-ordered backends). *)
Theorem c19_lookup_order_matters_for_case_duplicates : exists fs fs' q,
  Permutation fs fs' /\ clean_fs fs = true /\ spec_lookup fs q <> spec_lookup fs' q.
Proof. exact order_matters_for_case_duplicates. Qed.

(** The directory backend (exact names) agrees with the others on exact-case names. *)
Theorem c19_raw_agree : forall fs e,
  clean_fs fs = true -> NoDup (map (fun e => nkey (fst e)) fs) -> In e fs ->
  raw_lookup fs (fst e) = Some e /\ spec_lookup fs (fst e) = Some e.
Proof. exact raw_lookup_agree. Qed.

(** The directory backend as translated (the name goes through [ops], then abspath): a query that - slashes converted,
    redundant parts removed - is the exact stored name finds that file in the directory backend and in every folding
    backend of today's form. *)
Theorem c19_raw_agrees_with_folded : forall b ops fs e q,
  backend_keys_norm b = true -> raw_ops_ok ops = true -> clean_fs fs = true ->
  NoDup (map (fun e => nkey (fst e)) fs) -> In e fs -> normpath (slash q) = fst e ->
  raw_lookup_ops ops fs q = Some e /\ lookup b fs q = Some e /\ exists_ b fs q = true /\ open_ b fs q = Some e.
Proof. exact raw_agrees_with_folded. Qed.
(** Its walk lists exactly the stored files below the normalised folder (the empty folder: all), and every listed
    name looks up to that file. *)
Theorem c19_raw_walk_exact : forall ops fs folder e,
  In e (raw_walk ops fs folder) <-> In e fs /\ path_prefix (raw_folder ops folder) (fst e).
Proof. exact raw_walk_exact. Qed.
Theorem c19_raw_walk_root : forall ops fs, raw_ops_ok ops = true -> raw_walk ops fs [] = fs.
Proof. exact raw_walk_root. Qed.
Theorem c19_raw_walk_lookup_closed : forall ops ops' fs folder e,
  raw_ops_ok ops = true -> clean_fs fs = true -> NoDup (map (fun e => nkey (fst e)) fs) ->
  In e (raw_walk ops' fs folder) -> raw_lookup_ops ops fs (fst e) = Some e.
Proof. exact raw_walk_lookup_closed. Qed.
(** Without the conversion (the pinned tree) a backslashed exact-case name is not found. *)
Example c19_raw_examples :
  let fs := [([115; 47; 120], [1]); ([116], [2])] in
  raw_ops_ok [OSlash] = true
  /\ raw_lookup_ops [OSlash] fs [115; 92; 120] = Some ([115; 47; 120], [1])
  /\ raw_lookup_ops [] fs [115; 92; 120] = None
  /\ raw_lookup_ops [OSlash] fs [46; 92; 115; 47; 47; 120] = Some ([115; 47; 120], [1])
  /\ raw_walk [OSlash] fs [46; 47; 115; 92] = [([115; 47; 120], [1])]
  /\ raw_walk [OSlash] fs [46] = fs.
Proof. exact raw_examples. Qed.

(** ** walk_folder *)

(** For the sound forms, walking a folder lists exactly the files located inside it ... *)
Theorem c19_walk_exact : forall b fs folder e,
  walk_ok b = true -> clean_fs fs = true ->
  (In e (walk b fs folder) <-> In e (entries b fs) /\ path_prefix (folder_key b folder) (nkey (fst e))).
Proof. exact walk_exact. Qed.

(** ... where the entries are exactly the files the specification map holds, ... *)
Theorem c19_entries_spec : forall b fs e,
  store_ops_ok (b_store b) = true -> clean_fs fs = true ->
  (In e (entries b fs) <-> spec_lookup fs (fst e) = Some e).
Proof. exact entries_spec. Qed.

(** ... the empty folder means all files, ... *)
Theorem c19_walk_empty_all : forall b fs, walk_ok b = true -> walk b fs [] = entries b fs.
Proof. exact walk_empty_all. Qed.

(** ... every listed name can be looked up and yields that file, and no name is listed twice. *)
Theorem c19_walk_lookup_closed : forall b fs folder e,
  walk_ok b = true -> key_ops_ok (b_get b) = true -> clean_fs fs = true ->
  In e (walk b fs folder) -> lookup b fs (fst e) = Some e.
Proof. exact walk_lookup_closed. Qed.
Theorem c19_walk_nodup : forall b fs folder,
  walk_ok b = true -> clean_fs fs = true -> NoDup (map (fun e => nkey (fst e)) (walk b fs folder)).
Proof. exact walk_nodup. Qed.

(** The forms of the pinned tree (as translated from it) are refuted: witnesses computed by the kernel.
    The repaired forms are [fixed_virtual] / [fixed_zipvpk] below. *)

(** String prefix without a folder boundary: walk_folder("mat") lists "materials/x". *)
Theorem c19_walk_plain_prefix_refuted :
  forall b, In b [pinned_virtual; pinned_zip; pinned_vpk] ->
  folder_plain_prefix b = true
  /\ In (s_materials_x, []) (walk b [(s_materials_x, [])] s_mat)
  /\ ~ path_prefix s_mat (nkey s_materials_x).
Proof. exact walk_plain_prefix_refuted. Qed.

(** VirtualFileSystem: the root folder normalises to "." and nothing but dot-files is listed. *)
Theorem c19_walk_virtual_root_refuted :
  folder_root_is_dot pinned_virtual = true /\ walk pinned_virtual [(s_materials_x, [])] [] = [].
Proof. exact walk_virtual_root_refuted. Qed.

(** VPKFileSystem (and VirtualFileSystem) compare case-sensitively: a file in "Mat" is not listed for "mat"
    although the lookup of "mat/x" finds it. *)
Theorem c19_walk_case_sensitive_refuted :
  forall b, In b [pinned_virtual; pinned_vpk] ->
  walk b [(s_Mat_x, [])] s_mat = [] /\ lookup b [(s_Mat_x, [])] (s_mat ++ [47; 120]) = Some (s_Mat_x, []).
Proof. exact walk_case_sensitive_refuted. Qed.

(** A loop over the container's own directory index ([VPK.fileinfos(folder=...)], which compares the directory names
    as stored) hides a folder stored with capitals; a loop over the container itself lists case-duplicates that the
    lookup cannot tell apart.  Both shapes are recognised by the translator and rejected by [walk_ok]. *)
Theorem c19_walk_prefilter_case_refuted :
  prefilter_case_sensitive prefilter_vpk = true /\ walk_ok prefilter_vpk = false
  /\ walk prefilter_vpk [(s_Mat_x, [])] s_mat = []
  /\ lookup prefilter_vpk [(s_Mat_x, [])] (s_mat ++ [47; 120]) = Some (s_Mat_x, [])
  /\ walk prefilter_vpk [(s_Mat_x, [])] [] = [(s_Mat_x, [])].
Proof. exact walk_prefilter_case_refuted. Qed.
Theorem c19_walk_container_duplicates_refuted :
  walk_ok container_vpk = false
  /\ walk container_vpk [(s_Mat_x, [1]); (s_mat ++ [47; 120], [2])] s_mat = [(s_Mat_x, [1]); (s_mat ++ [47; 120], [2])]
  /\ lookup container_vpk [(s_Mat_x, [1]); (s_mat ++ [47; 120], [2])] s_Mat_x = Some (s_mat ++ [47; 120], [2]).
Proof. exact walk_container_duplicates_refuted. Qed.

(** The repaired forms satisfy the premises (the theorems above are not vacuous). *)
Example c19_premises_satisfiable :
  walk_ok fixed_virtual = true /\ backend_keys_ok fixed_virtual = true
  /\ walk_ok fixed_zip = true /\ backend_keys_ok fixed_zip = true
  /\ clean_fs [(s_materials_x, [1]); (s_Mat_x, [2])] = true
  /\ walk fixed_virtual [(s_materials_x, [1]); (s_Mat_x, [2])] s_mat = [(s_Mat_x, [2])]
  /\ walk fixed_zip [(s_materials_x, [1]); (s_Mat_x, [2])] [] = [(s_materials_x, [1]); (s_Mat_x, [2])].
Proof. exact premises_satisfiable. Qed.

(** ** FileSystemChain *)

(** _get_file returns the file of the first member that has the name. *)
Theorem c19_chain_first_match : forall ms q f,
  chain_get ms q = Some f <->
  exists pre m post, ms = pre ++ m :: post /\ asks q m = Some f /\ Forall (fun m' => asks q m' = None) pre.
Proof. exact chain_first_match. Qed.
Theorem c19_chain_miss : forall ms q, chain_get ms q = None <-> Forall (fun m => asks q m = None) ms.
Proof. exact chain_get_none. Qed.

(** Priority insertion (index 0) shadows every existing member; plain insertion is shadowed by all of them. *)
Theorem c19_chain_priority_first : forall m ms q,
  chain_get (add_sys 0 true m ms) q = match asks q m with Some f => Some f | None => chain_get ms q end.
Proof. exact chain_priority_first. Qed.
Theorem c19_chain_append_last : forall i m ms q,
  chain_get (add_sys i false m ms) q = match chain_get ms q with Some f => Some f | None => asks q m end.
Proof. exact chain_append_last. Qed.

(** [add_sys] as translated (what each branch does with the new member): today's branches are the ones above; with
    the branches swapped a priority member would be consulted last (witness). *)
Theorem c19_chain_add_sys_today : forall priority m ms,
  add_sys2 (InsertAt 0) Append priority m ms = add_sys 0 priority m ms.
Proof. exact add_sys2_today. Qed.
Theorem c19_chain_add_sys_swapped_refuted :
  let m1 := member_of fixed_zip [([120], [1])] [] in
  let m2 := member_of fixed_zip [([120], [2])] [] in
  chain_get (add_sys2 Append (InsertAt 0) true m2 [m1]) [120] = Some ([120], [1])
  /\ chain_get (add_sys2 (InsertAt 0) Append true m2 [m1]) [120] = Some ([120], [2]).
Proof. exact add_sys2_swapped_refuted. Qed.

(** A subfolder-restricted member is asked for "<prefix>/<name>", an unrestricted one for the name ... *)
Theorem c19_chain_prefix_relative : forall p q,
  clean p = true -> is_prefix [SL] q = false -> full_name p q = slash p ++ SL :: slash q.
Proof. exact chain_prefix_relative. Qed.
Theorem c19_chain_no_prefix : forall q, full_name [] q = slash q.
Proof. exact chain_no_prefix. Qed.
(** ... so it serves [q] exactly when its file set holds "<prefix>/<q>" (up to case and slashes). *)
Theorem c19_chain_member_lookup : forall b fs p q,
  backend_keys_ok b = true -> clean_fs fs = true -> clean p = true -> is_prefix [SL] q = false ->
  normpath (slash p ++ SL :: slash q) = slash p ++ SL :: slash q ->
  chain_get [member_of b fs p] q = spec_lookup fs (p ++ SL :: q).
Proof. exact chain_member_lookup. Qed.

(** The de-duplicated walk lists each name once, only names some member lists, every such name, and keeps the
    entry of the first (highest-priority) member. *)
Theorem c19_chain_walk_dedup : forall rm dops ms folder,
  let key := fun x : str * file => apply_ops dops (fst x) in
  let rep := chain_walk_repeat rm ms folder in
  let res := chain_walk rm dops ms folder in
  NoDup (map key res)
  /\ (forall x, In x res -> In x rep)
  /\ (forall x, In x rep -> exists y, In y res /\ key y = key x)
  /\ (forall l1 x l2, rep = l1 ++ x :: l2 -> (forall y, In y l1 -> key y <> key x) -> In x res).
Proof. exact chain_walk_dedup. Qed.
Theorem c19_chain_walk_dedup_casefold : forall rm ms folder,
  NoDup (map (fun x : str * file => fold (fst x)) (chain_walk rm [OFold] ms folder)).
Proof. exact chain_walk_dedup_fold. Qed.

(** The names a (repaired) chain walk lists are relative to the member's prefix: for a clean stored name lying under
    the prefix up to case and slash kind, dropping the prefix's segments leaves [rest] with
    fold(prefix) "/" fold(rest) = fold(name) ... *)
Theorem c19_chain_walk_relative : forall orig p,
  clean_name orig = true -> clean (slash p) = true ->
  is_prefix (nkey p ++ [SL]) (nkey orig) = true ->
  nkey orig = nkey p ++ SL :: nkey (drop_segs orig p).
Proof. exact drop_segs_relative. Qed.
(** ... so asking the same member for the listed name asks for the key of the stored file. *)
Theorem c19_chain_walk_relative_lookup : forall orig p,
  clean_name orig = true -> clean (slash p) = true -> clean p = true ->
  is_prefix (nkey p ++ [SL]) (nkey orig) = true ->
  is_prefix [SL] (drop_segs orig p) = false ->
  nkey (full_name p (drop_segs orig p)) = nkey orig.
Proof. exact drop_segs_lookup_key. Qed.

(** os.path.relpath compares segments exactly: a member restricted to "Mat" that holds "mat/x" is listed by the
    pinned chain walk as "../mat/x" instead of "x" (dropping the prefix's segments gives "x"). *)
Theorem c19_chain_relpath_case_refuted :
  let m := member_of fixed_zip [([109; 97; 116; 47; 120], [])] [77; 97; 116] in
  map fst (chain_walk_repeat RelPath [m] []) = [[46; 46; 47; 109; 97; 116; 47; 120]]
  /\ map fst (chain_walk_repeat RelDropSegs [m] []) = [[120]].
Proof. exact chain_relpath_case_refuted. Qed.

(** A de-duplication that stores into a dict unconditionally lists each name once but with the File of the *last*
    member; the visited-set form lists the File the chain's lookup returns. *)
Theorem c19_chain_walk_overwrite_refuted :
  let m1 := member_of fixed_zip [([120], [1])] [] in
  let m2 := member_of fixed_zip [([120], [2])] [] in
  chain_walk_mode DedupOverwrite RelDropSegs [OFold] [m1; m2] [] = [([120], ([120], [2]))]
  /\ chain_get [m1; m2] [120] = Some ([120], [1])
  /\ chain_walk_mode DedupSkip RelDropSegs [OFold] [m1; m2] [] = [([120], ([120], [1]))].
Proof. exact chain_walk_overwrite_refuted. Qed.

(** ** Composition: the chain's walk and the chain's lookup tell the same story.
    For a chain (any list of members, i.e. any ordering / priority insertion) whose members are sound backends
    ([walk_ok], [backend_keys_ok]) over clean file sets with empty or clean prefixes, and an empty or clean folder:
    every (path, File) listed by the de-duplicated walk is exactly what [chain[path]] returns - the listed name can be
    looked up, and it yields the File of the first member that has the name. *)
Theorem c19_chain_walk_lookup_closed : forall dops ms folder x,
  dedup_ops_ok dops = true -> Forall sound_member ms -> okp folder ->
  In x (chain_walk RelDropSegs dops ms folder) ->
  chain_get ms (fst x) = Some (snd x).
Proof. exact chain_walk_lookup_closed. Qed.
Theorem c19_chain_walk_first_member : forall dops ms folder x,
  dedup_ops_ok dops = true -> Forall sound_member ms -> okp folder ->
  In x (chain_walk RelDropSegs dops ms folder) ->
  exists pre m post, ms = pre ++ m :: post /\ asks (fst x) m = Some (snd x) /\ Forall (fun m' => asks (fst x) m' = None) pre.
Proof. exact chain_walk_first_member. Qed.
(** What a restricted member lists for a folder: the surviving files whose folded name is prefix "/" rest with the folder
    a path prefix of rest (prefix and folder each empty or clean, either slash, any case). *)
Theorem c19_walk_member : forall b fs p folder e,
  walk_ok b = true -> clean_fs fs = true -> okp p -> okp folder ->
  (In e (walk b fs (full_name p folder)) <->
   In e (entries b fs) /\ exists R, under p (nkey (fst e)) R /\ path_prefix (nkey folder) R).
Proof. exact walk_member. Qed.
Example c19_compose_premises_satisfiable :
  okp [] /\ okp [109; 97; 116] /\ okp [77; 92; 120] /\ dedup_ops_ok [OFold] = true.
Proof. exact compose_premises_satisfiable. Qed.

(** ... and conversely the walk is complete: whatever the chain serves under a clean name lying inside the folder is
    listed (up to letter case) with the very File the lookup returns; the chain's lookup itself ignores case and
    slash kind of a clean name. *)
Theorem c19_chain_walk_complete : forall dops ms folder q f,
  dedup_ops_ok dops = true -> Forall sound_member ms -> okp folder ->
  clean_name q = true -> path_prefix (nkey folder) (nkey q) ->
  chain_get ms q = Some f ->
  exists x, In x (chain_walk RelDropSegs dops ms folder) /\ nkey (fst x) = nkey q /\ snd x = f.
Proof. exact chain_walk_complete. Qed.
Theorem c19_chain_get_variant : forall ms q q',
  Forall sound_member ms -> clean_name q = true -> clean_name q' = true -> nkey q = nkey q' ->
  chain_get ms q = chain_get ms q'.
Proof. exact chain_get_variant. Qed.

(** ** Round 3: every public lookup form; the bytes handed out. *)

(** [name in chain] ([_file_exists]): inherited from [FileSystem] it tries [_get_file]; an override that loops over the
    members, joins the caller's name with each member's own prefix (slashes converted or not, the join skipped for
    an empty prefix or not) and asks the member's own [_file_exists] answers exactly when [chain[name]] finds a file
    - for every chain: any ordering, restricted members that miss before members that hit.  [open_bin(name)],
    [open_str(name)], [chain[name]] and [iter(chain)] are only accepted by the translator as delegations to
    [_get_file] / [walk_folder('')] ([chain_open]). *)
Theorem c19_chain_exists_agrees : forall em ms q,
  exists_mode_ok em = true -> Forall xmember_ok ms ->
  chain_exists em ms q = is_some (chain_get (map x_base ms) q).
Proof. exact chain_exists_agrees. Qed.
(** Members built from backends of today's form satisfy the premise. *)
Theorem c19_chain_exists_agrees_backends : forall em ms q,
  exists_mode_ok em = true ->
  Forall (fun m => exists b fs p, m = xmember_of b fs p /\ backend_keys_norm b = true /\ clean_fs fs = true) ms ->
  chain_exists em ms q = is_some (chain_get (map x_base ms) q)
  /\ is_some (chain_open (map x_base ms) q) = is_some (chain_get (map x_base ms) q).
Proof. exact chain_exists_agrees_backends. Qed.
(** A loop that re-assigns the name it joins (seeded c19_3) asks the members after a restricted one for the wrong
    name: [chain["x"]] finds the file, ["x" in chain] says no. *)
Theorem c19_chain_exists_carried_name_refuted :
  exists_mode_ok (ExLoop true true [OSlash]) = false
  /\ chain_get (map x_base carry_witness) [120] = Some ([120], [1])
  /\ chain_exists (ExLoop true true [OSlash]) carry_witness [120] = false
  /\ chain_exists (ExLoop false true [OSlash]) carry_witness [120] = true
  /\ chain_exists ExViaGet carry_witness [120] = true
  /\ Forall xmember_ok carry_witness.
Proof. exact chain_exists_carried_refuted. Qed.

(** "Return the same bytes": what the VPK backend's [open_bin]/[open_str] read is an expression over the [FileInfo]
    (translated from the source).  One recognised as whole ([FileInfo.read()], or the preload only under a test that
    there is no rest) yields the stored bytes for every split between preload and rest and for both homes of the rest:
    preload only, directory tail, numbered archive, single-file VPK ... *)
Theorem c19_vpk_content_whole_all_placements : forall c limit in_dir data,
  cexpr_whole false c = true -> ceval c (vf_place limit in_dir data) = data.
Proof. exact ceval_whole_all_placements. Qed.
(** ... so the VPK backend returns, for every query string, the bytes every other backend of today's form returns. *)
Theorem c19_vpk_open_same_bytes : forall c limit in_dir b1 b2 fs q,
  cexpr_whole false c = true -> backend_keys_norm b1 = true -> backend_keys_norm b2 = true -> clean_fs fs = true ->
  open_bytes c limit in_dir b1 fs q = option_map snd (open_ b2 fs q)
  /\ open_bytes c limit in_dir b1 fs q = option_map snd (lookup b2 fs q).
Proof. exact open_bytes_same. Qed.
(** Reading the preload alone whenever the file lives in the directory file (seeded c19_4) drops the directory tail. *)
Theorem c19_vpk_preload_shortcut_refuted :
  let c := CIfDir CPreload CRead in
  cexpr_whole false c = false
  /\ ceval c (vf_place 2 true [1; 2; 3]) = [1; 2]
  /\ ceval c (vf_place 2 false [1; 2; 3]) = [1; 2; 3]
  /\ ceval c (vf_place 3 true [1; 2; 3]) = [1; 2; 3]
  /\ ceval CRead (vf_place 2 true [1; 2; 3]) = [1; 2; 3]
  /\ cexpr_whole false (CIfNoTail CPreload CRead) = true
  /\ open_bytes c 2 true fixed_zip [([120], [1; 2; 3])] [120] = Some [1; 2]
  /\ option_map snd (open_ fixed_zip [([120], [1; 2; 3])] [120]) = Some [1; 2; 3].
Proof. exact ceval_preload_shortcut_refuted. Qed.

(** ** Round 3: the chain sentence of the property as one statement over members of any kind. *)

(** [chain_spec] is written from the property text alone: the members in priority order as (files, subfolder); the
    first one whose files contain subfolder/name - up to letter case, either slash, redundant segments - gives the
    content.  Every public lookup form of a chain is that function: the File of [chain[q]] / [_get_file(q)], what
    [open_bin(q)] / [open_str(q)] resolve, the answer of [q in chain] / [_file_exists(q)] in every sound shape, and the
    bytes read from the handle - for every query string, every ordering of members of whatever backend kind (VPK
    members keeping the bytes in any placement, read through an expression recognised as whole), restricted members
    that miss before members that hit. *)
Theorem c19_chain_every_form_spec : forall em ms q,
  exists_mode_ok em = true -> Forall kmember_ok ms ->
  chain_get (map k_member ms) q = chain_spec (map k_spec ms) q
  /\ chain_open (map k_member ms) q = chain_spec (map k_spec ms) q
  /\ chain_exists em (map k_xmember ms) q = is_some (chain_spec (map k_spec ms) q)
  /\ chain_read ms q = option_map snd (chain_spec (map k_spec ms) q).
Proof. exact chain_every_form_spec. Qed.
(** Hence "all filesystem backends resolve names alike" holds through chains: two chains whose members hold the same
    files under the same subfolders in the same order answer every lookup form alike, whatever kind each member is
    and wherever a VPK member keeps the bytes. *)
Theorem c19_chain_backend_kind_unobservable : forall em1 em2 ms1 ms2 q,
  exists_mode_ok em1 = true -> exists_mode_ok em2 = true ->
  Forall kmember_ok ms1 -> Forall kmember_ok ms2 -> map k_spec ms1 = map k_spec ms2 ->
  chain_get (map k_member ms1) q = chain_get (map k_member ms2) q
  /\ chain_exists em1 (map k_xmember ms1) q = chain_exists em2 (map k_xmember ms2) q
  /\ chain_read ms1 q = chain_read ms2 q.
Proof. exact chain_backend_kind_unobservable. Qed.
(** The specification's two laws: the first member that has the name wins; a member that misses changes nothing. *)
Theorem c19_chain_spec_first : forall fs p r q e,
  spec_lookup fs (normpath (slash (pjoin p q))) = Some e -> chain_spec ((fs, p) :: r) q = Some e.
Proof. exact chain_spec_first. Qed.
Theorem c19_chain_spec_skip : forall fs p r q,
  spec_lookup fs (normpath (slash (pjoin p q))) = None -> chain_spec ((fs, p) :: r) q = chain_spec r q.
Proof. exact chain_spec_skip. Qed.
(** With the preload shortcut of seeded c19_4 the kind of a member is observable through a chain (the hypotheses of
    the theorem above are satisfiable: both witness chains without the shortcut are [kmember_ok]). *)
Theorem c19_chain_read_preload_shortcut_refuted :
  map k_spec [kw_zip; kw_mem] = map k_spec [kw_zip; kw_vpk (CIfDir CPreload CRead)]
  /\ chain_read [kw_zip; kw_mem] [120] = Some [1; 2; 3]
  /\ chain_read [kw_zip; kw_vpk (CIfDir CPreload CRead)] [120] = Some [1; 2]
  /\ chain_read [kw_zip; kw_vpk CRead] [120] = Some [1; 2; 3]
  /\ Forall kmember_ok [kw_zip; kw_mem] /\ Forall kmember_ok [kw_zip; kw_vpk CRead].
Proof. exact chain_read_preload_shortcut_refuted. Qed.

(** The walk of such a chain: every entry [walk_folder(folder)] lists (empty or clean folder and subfolders) is the
    specification's answer for the listed name - the name can be looked up in every form and reading it yields the
    listed file's bytes, i.e. those of the first member that has the name ... *)
Theorem c19_chain_walk_every_entry_spec : forall em dops ms folder x,
  exists_mode_ok em = true -> dedup_ops_ok dops = true -> Forall kmember_walk_ok ms -> okp folder ->
  In x (chain_walk RelDropSegs dops (map k_member ms) folder) ->
  chain_spec (map k_spec ms) (fst x) = Some (snd x)
  /\ chain_get (map k_member ms) (fst x) = Some (snd x)
  /\ chain_exists em (map k_xmember ms) (fst x) = true
  /\ chain_read ms (fst x) = Some (snd (snd x)).
Proof. exact chain_walk_every_entry_spec. Qed.
(** ... and whatever the specification serves under a clean name inside the folder is listed (up to letter case) with
    that very file; [iter(chain)] = [walk_folder('')] lists every clean name the chain serves. *)
Theorem c19_chain_walk_lists_spec : forall dops ms folder q f,
  dedup_ops_ok dops = true -> Forall kmember_walk_ok ms -> okp folder ->
  clean_name q = true -> path_prefix (nkey folder) (nkey q) ->
  chain_spec (map k_spec ms) q = Some f ->
  exists x, In x (chain_walk RelDropSegs dops (map k_member ms) folder) /\ nkey (fst x) = nkey q /\ snd x = f.
Proof. exact chain_walk_lists_spec. Qed.
Theorem c19_chain_iter_lists_spec : forall dops ms q f,
  dedup_ops_ok dops = true -> Forall kmember_walk_ok ms -> clean_name q = true ->
  chain_spec (map k_spec ms) q = Some f ->
  exists x, In x (chain_walk RelDropSegs dops (map k_member ms) []) /\ nkey (fst x) = nkey q /\ snd x = f.
Proof. exact chain_iter_lists_spec. Qed.

(** ** Round 3: the container's reader [FileInfo.read()] as translated from vpk.py. *)

(** A reader recognised as whole ([rexpr_whole]: the preload alone only where there is no rest; otherwise the preload
    followed by exactly the [arch_len] bytes at [offset] of the home the rest lives in - displacements 0 and 0, the
    directory block iff [arch_index is None]) returns the stored bytes for every split between preload and rest, both
    homes, and wherever in its home the rest lies ([before], [after] arbitrary). *)
Theorem c19_vpk_reader_whole_all_placements : forall e before after limit in_dir data,
  rexpr_whole None false e = true -> reval e (rfile_of before after limit in_dir data) = data.
Proof. exact reader_whole_all_placements. Qed.
(** The VPK backend's content expression evaluated over the translated reader: whole over whole hands out the stored
    bytes (so [c19_vpk_open_same_bytes], which takes [file.read()] as "preload ++ rest", applies to today's source). *)
Theorem c19_vpk_open_through_reader : forall rd c before after limit in_dir data,
  rexpr_whole None false rd = true -> cexpr_whole false c = true ->
  ceval_r rd c (rfile_of before after limit in_dir data) = data.
Proof. exact open_through_reader_all_placements. Qed.
(** A reader that slices the directory block one byte short is not recognised, and loses the last byte of a file whose
    rest is kept there - also through a backend that opens with [file.read()]. *)
Theorem c19_vpk_reader_short_refuted :
  rexpr_whole None false reader_today = true /\ rexpr_whole None false reader_short = false
  /\ reval reader_short (rfile_of [9] [8] 1 true [1; 2; 3]) = [1; 2]
  /\ reval reader_today (rfile_of [9] [8] 1 true [1; 2; 3]) = [1; 2; 3]
  /\ ceval_r reader_short CRead (rfile_of [9] [8] 1 true [1; 2; 3]) = [1; 2].
Proof.
  split; [exact reader_today_whole|]. destruct reader_short_refuted as [A [B [C _]]]. destruct open_through_short_reader_refuted as [D _].
  repeat split; assumption.
Qed.

(** ** Round 3: chains that also contain the directory backend (exact-case names). *)

(** Members are folding backends of any kind or directory backends ([MRaw ops fs p], [ops] = what reaches
    [_resolve_path]).  On every query that is exact for the directory members - for each of them the name it is asked
    for (subfolder joined with the query, slashes converted, redundant parts removed) is a stored name of it or matches
    none of its names even up to case - the chain's lookup is the specification [chain_spec] ... *)
Theorem c19_chain_with_directory_members_spec : forall ms q,
  Forall (mmember_ok q) ms -> mchain_get ms q = chain_spec (map m_spec ms) q.
Proof. exact mchain_get_spec. Qed.
(** ... so a directory member and a folding member holding the same files are interchangeable on such queries ... *)
Theorem c19_chain_directory_kind_unobservable : forall ms1 ms2 q,
  Forall (mmember_ok q) ms1 -> Forall (mmember_ok q) ms2 -> map m_spec ms1 = map m_spec ms2 ->
  mchain_get ms1 q = mchain_get ms2 q.
Proof. exact mchain_kind_unobservable. Qed.
(** ... and the premise is needed: asked for "a" a directory member holding "A" misses where a folding member hits
    ("for exact-case names" in the property text); asked for "A" both serve the file. *)
Theorem c19_chain_directory_case_refuted :
  map m_spec mixed_raw = map m_spec mixed_fold
  /\ mchain_get mixed_raw [97] = None /\ mchain_get mixed_fold [97] = Some ([65], [1])
  /\ mchain_get mixed_raw [65] = Some ([65], [1]) /\ mchain_get mixed_fold [65] = Some ([65], [1])
  /\ Forall (mmember_ok [65]) mixed_raw.
Proof. exact mchain_case_needs_exact_refuted. Qed.

(** ** Round 4: the glue around the anchored functions. *)

(** [add_sys] over a whole program.  Whatever the sequence of calls: when the method always inserts ([guard_ok]: no
    return before the insertion) - first for priority, last otherwise ([actions_ok]) - the chain is the priority
    members latest first followed by the others in the order they were added; every member that was added is mounted. *)
Theorem c19_chain_history_order : forall (A : Type) g (same : A -> A -> bool) prio plain (h : list (bool * A)),
  guard_ok g = true -> actions_ok prio plain = true ->
  build_chain g same prio plain h = priority_order h.
Proof. intros A. exact build_chain_priority_order. Qed.
Theorem c19_chain_history_mounts_all : forall (A : Type) g (same : A -> A -> bool) prio plain (h : list (bool * A)) m,
  guard_ok g = true -> actions_ok prio plain = true ->
  In m (map snd h) -> In m (build_chain g same prio plain h).
Proof. intros A. exact build_chain_mounts_all. Qed.
(** ... hence the chain sentence of the property for the chain a program ends up with: every lookup form is the
    specification applied to the members in priority order (members of any backend kind, any subfolders). *)
Theorem c19_chain_history_spec : forall g same prio plain em (h : list (bool * kmember)) q,
  guard_ok g = true -> actions_ok prio plain = true -> exists_mode_ok em = true ->
  Forall kmember_ok (map snd h) ->
  let ms := build_chain g same prio plain h in
  let sp := map k_spec (priority_order h) in
  chain_get (map k_member ms) q = chain_spec sp q
  /\ chain_open (map k_member ms) q = chain_spec sp q
  /\ chain_exists em (map k_xmember ms) q = is_some (chain_spec sp q)
  /\ chain_read ms q = option_map snd (chain_spec sp q).
Proof. exact chain_history_spec. Qed.
(** A guard `if (sys, prefix) in self.systems: return` (seeded c19_5) compares members the way [FileSystem.__eq__] does -
    kind and path label: a second archive mounted under the label of the first is dropped (its name is missing although
    a member that was added has it) and a priority re-add does not promote the member. *)
Theorem c19_chain_add_guard_refuted :
  chain_spec (map d_spec (priority_order hist_twins)) [121] = Some ([121], [2])
  /\ chain_spec (map d_spec (build_chain AddSkipMounted same_label (InsertAt 0) Append hist_twins)) [121] = None
  /\ chain_spec (map d_spec (build_chain AddAlways same_label (InsertAt 0) Append hist_twins)) [121] = Some ([121], [2])
  /\ chain_spec (map d_spec (priority_order hist_promote)) [120] = Some ([120], [2])
  /\ chain_spec (map d_spec (build_chain AddSkipMounted same_label (InsertAt 0) Append hist_promote)) [120] = Some ([120], [1]).
Proof. exact add_guard_skips_equal_refuted. Qed.

(** The names [RawFileSystem.walk_folder] lists, as translated ([raw_rel]): with the relative path of the joined file
    name the listing is [raw_walk] - every listed name is a stored name and [c19_raw_walk_exact] / [..._lookup_closed]
    speak about what is listed. *)
Theorem c19_raw_walk_lists_stored_names : forall r ops fs folder,
  raw_rel_ok r = true ->
  raw_walk_rel r ops fs folder = raw_walk ops fs folder /\ (forall e, In e (raw_walk_rel r ops fs folder) -> In e fs).
Proof.
  intros r ops fs folder H. split; [destruct r; [apply raw_walk_rel_file|discriminate]|].
  intros e. apply raw_walk_rel_lists_stored. exact H.
Qed.
(** Joining the directory's relative path with the file name afterwards (seeded c19_6) lists a root file "x" as "./x":
    not a stored name, and in a chain the de-duplicated walk lists the name twice. *)
Theorem c19_raw_walk_dirjoin_refuted :
  map fst (raw_walk_rel RawRelDirJoin [OSlash] rootfile []) = [[46; 47; 120]]
  /\ map fst (raw_walk_rel RawRelFile [OSlash] rootfile []) = [[120]]
  /\ map fst (chain_walk RelDropSegs [OFold] (chain_dir_mem RawRelDirJoin) []) = [[46; 47; 120]; [120]]
  /\ map fst (chain_walk RelDropSegs [OFold] (chain_dir_mem RawRelFile) []) = [[120]]
  /\ chain_get (chain_dir_mem RawRelDirJoin) [120] = Some ([120], [1]).
Proof. exact raw_rel_dirjoin_refuted. Qed.

(** The known finding case-duplicate-winner-vpk-differs cannot be repaired inside VPKFileSystem: "the file stored last
    wins" ([spec_lookup], what the in-memory and zip backends do) is not a function of any container that gives the
    same result for the two insertion orders of "a/x" and "A/x" - and VPK.write_dirfile sorts (the check confirms on
    every run that the two archives are byte-identical). *)
Theorem c19_case_duplicate_winner_needs_order : forall (C : Type) (container : list file -> C) (serve : C -> str -> option file),
  container [dup_a; dup_A] = container [dup_A; dup_a] ->
  ~ (forall fs q, serve (container fs) q = spec_lookup fs q).
Proof. intros C. exact winner_needs_order. Qed.

(** ** Round 4: the walk of chains that also contain directories. *)

(** What the chain needs from a member, for one folder ([walk_member_ok] = [lists_sound] /\ [lists_complete]): every file
    it lists below "prefix joined with folder" has a clean listed name inside the folder that the member, asked for it,
    answers with that very file; and every clean name inside the folder that the member serves is listed under a name
    with the same folded key.  From that interface alone: every (path, File) of the de-duplicated walk is what the
    chain's lookup returns for the path - the file of the first member that has the name. *)
Theorem c19_chain_walk_from_member_interface : forall dops ms folder x,
  dedup_ops_ok dops = true -> Forall (walk_member_ok folder) ms ->
  In x (chain_walk RelDropSegs dops ms folder) ->
  chain_get ms (fst x) = Some (snd x).
Proof. exact chain_walk_lookup_closed_gen. Qed.
(** Folding backends with a sound walk form satisfy the interface (empty or clean prefix and folder), and so does the
    directory backend as translated - listed names are the stored names, the folder goes through the translated
    operations - when the folder is exact for it ([folder_exact]: every stored file lying below prefix/folder up to
    letter case lies below it exactly). *)
Theorem c19_members_satisfy_walk_interface : forall m folder,
  okp folder -> gmember_ok folder m -> walk_member_ok folder m.
Proof. intros m folder Hf [H|H]; [apply sound_member_walk_ok|apply raw_member_walk_ok]; assumption. Qed.
(** Hence for chains of in-memory, zip, VPK *and directory* members in any order: the de-duplicated walk lists only
    what the lookup serves under the listed name. *)
Theorem c19_chain_walk_with_directory_members : forall dops ms folder x,
  dedup_ops_ok dops = true -> okp folder -> Forall (gmember_ok folder) ms ->
  In x (chain_walk RelDropSegs dops ms folder) ->
  chain_get ms (fst x) = Some (snd x).
Proof. exact chain_walk_lookup_closed_mixed. Qed.
(** The exactness premise is needed ("for exact-case names"): a directory holding "sub/x" in front of a zip holding
    "sub/x", walked as "Sub": the zip's file is listed, the lookup of the listed name returns the directory's. *)
Theorem c19_chain_walk_directory_folder_case_refuted :
  chain_walk RelDropSegs [OFold] dir_then_zip [83; 117; 98] = [(subx, (subx, [2]))]
  /\ chain_get dir_then_zip subx = Some (subx, [1])
  /\ chain_walk RelDropSegs [OFold] dir_then_zip [115; 117; 98] = [(subx, (subx, [1]))].
Proof. exact walk_dir_folder_case_refuted. Qed.
Example c19_chain_walk_mixed_premises_satisfiable : Forall (gmember_ok [115; 117; 98]) dir_then_zip /\ okp [115; 117; 98].
Proof. exact walk_mixed_premises_satisfiable. Qed.

(** ** Round 4: subfolder prefixes and folder arguments in any spelling. *)

(** [spells p p0]: [p] is relative, has no ".." segment, and its segments without the empty and "." ones are those of
    [p0], either slash ("d/", "./d", "d/.", "d\\.\\e//" ...).  Spellings of one path have one normal form, the name a
    member is asked for has the same normal form under either spelling of its prefix, and the chain drops the same
    number of segments from a listed path. *)
Theorem c19_spellings_one_normal_form : forall p p0 q q0,
  spells p p0 -> spells q q0 ->
  normpath (slash p) = normpath (slash p0)
  /\ normpath (slash (full_name p q)) = normpath (slash (full_name p0 q0))
  /\ (forall x, drop_segs x p = drop_segs x p0).
Proof.
  intros p p0 q q0 Hp Hq. split; [apply spells_normpath; exact Hp|]. split; [apply spells_full_name; assumption|].
  intros x. apply spells_drop_segs. exact Hp.
Qed.
(** Hence the composition for members of today's form (queries and the walk's folder go through normpath after the slash
    conversion: [backend_keys_norm], [walk_norm]) mounted under *any spelling* of an empty or clean subfolder and walked
    with any spelling of an empty or clean folder: every (path, File) listed is what the chain's lookup returns. *)
Theorem c19_chain_walk_any_spelling : forall dops ms f f0 x,
  dedup_ops_ok dops = true -> Forall (noisy_member f f0) ms ->
  In x (chain_walk RelDropSegs dops ms f) ->
  chain_get ms (fst x) = Some (snd x).
Proof. exact chain_walk_lookup_closed_noisy. Qed.
(** ... also with directory members among them (cleanly spelt, exact folder). *)
Theorem c19_chain_walk_any_member : forall dops ms f f0 x,
  dedup_ops_ok dops = true -> Forall (any_member f f0) ms ->
  In x (chain_walk RelDropSegs dops ms f) ->
  chain_get ms (fst x) = Some (snd x).
Proof. exact chain_walk_lookup_closed_all. Qed.
(** ... and with directory members under any spelling too (their exactness is asked of the clean spellings): the
    directory backend resolves names through normpath after the slash conversion as well. *)
Theorem c19_chain_walk_any_member_any_spelling : forall dops ms f f0 x,
  dedup_ops_ok dops = true -> Forall (any_member_spelt f f0) ms ->
  In x (chain_walk RelDropSegs dops ms f) ->
  chain_get ms (fst x) = Some (snd x).
Proof. exact chain_walk_lookup_closed_spelt. Qed.
Example c19_spelling_examples :
  spells [46; 47; 100] [100] /\ spells [100; 47] [100] /\ spells [100; 47; 46] [100]
  /\ spells [100; 92; 46; 92; 101; 47; 47] [100; 47; 101] /\ spells [46] [] /\ spells [46; 47] [] /\ spells [] []
  /\ ~ spells [100; 47; 46; 46] [].
Proof. exact spells_examples. Qed.

(** ** Round 4: the property as one statement. *)

(** [source_cfg] is everything the translator reads off filesys.py / vpk.py (three backend records, the VPK content
    expressions and reader, the directory backend's operations and listed-name shape, add_sys's guard and branch actions,
    the _file_exists mode, the de-duplication mode / key / relative-name mode); [source_ok] the conjunction of the named
    recognisers.  For every configuration that passes: [backends_agree] (sentence 1: same names, same bytes, case / slash
    kind / redundant segments insignificant, the directory for exact-case names), [walks_exact] (sentence 2: a walk lists
    exactly the files inside the folder, the empty folder all, every listed name looks up to that file) and
    [chains_honour_priority] (sentence 3: after any sequence of add_sys calls every lookup form is the specification over
    the members in priority order; the de-duplicated walk - members under any spelling of their subfolder, directories
    included - lists each name once, with the file the lookup returns).  The check instantiates it at today's generated
    configuration on every run. *)
Theorem c19_property : forall s, source_ok s = true -> property_holds s.
Proof. exact property_holds_for_every_ok_source. Qed.
Example c19_property_hypotheses_satisfiable : source_ok witness_cfg = true.
Proof. exact source_ok_satisfiable. Qed.

(** ** Round 5: programs, not single calls - what walks and lookups leave behind. *)

(** The theorems above describe one call.  They describe a history of calls if no call stores anything a later call
    reads.  translate/c19_state.py takes a census of every store the walk / lookup methods of filesys.py (and the reading
    side of vpk.py) make into [self], a class, a module-level container or a mutable default, and where the store stands
    relative to the [yield]s (Gen/FsState_gen.v); SM/FsState.v gives it a meaning.  A walk is a generator whose consumer
    takes all items ([None]) or n items and drops it ([Some n]: [break], [any()], [next(iter(fs))], an exception in the
    loop body, [close()]).  For code that stores nothing, and for code that stores a folder's listing only after its
    scan has finished, a complete walk lists the complete listing after any history of walks ... *)
Theorem c19_walk_history_irrelevant : forall (F : Type) (scan : str -> list F) (keyf : str -> str),
  (forall a b, keyf a = keyf b -> scan a = scan b) ->
  forall d h folder, d <> WalkMemoWhileYielding -> walk_after F scan keyf d h folder = scan folder.
Proof. exact walk_history_irrelevant. Qed.
(** ... and every walk of the history hands its consumer a prefix of the complete listing. *)
Theorem c19_walk_history_every_walk_is_a_prefix : forall (F : Type) (scan : str -> list F) (keyf : str -> str),
  (forall a b, keyf a = keyf b -> scan a = scan b) ->
  forall d h folder k, d <> WalkMemoWhileYielding ->
  fst (walk_step F scan keyf d (run_walks F scan keyf d [] h) folder k) = consume F k (scan folder).
Proof. exact walk_history_every_walk_is_a_prefix. Qed.
(** The memo that is registered before the scan and filled while the generator yields (seeded fault c19_7): one walk
    given up after its first item, and the complete walk of that folder lists one file of two. *)
Theorem c19_walk_memo_while_yielding_refuted :
  exists (scan : str -> list N) (h : list (str * option nat)) (folder : str),
    (forall a b : str, a = b -> scan a = scan b)
    /\ walk_after N scan (fun s => s) WalkMemoWhileYielding h folder <> scan folder
    /\ walk_after N scan (fun s => s) WalkMemoWhileYielding h folder = [1%N].
Proof. exact walk_memo_while_yielding_refuted. Qed.
(** A store with a [yield] still to come puts the code into the refuted class; no store at all into the stateless one. *)
Theorem c19_census_decides_discipline : forall stores,
  (no_stores stores = true -> discipline_of stores = WalkStateless)
  /\ (existsb is_before_yield stores = true -> discipline_of stores = WalkMemoWhileYielding).
Proof. exact (fun stores => conj (discipline_of_clean stores) (discipline_of_before_yield stores)). Qed.
(** For the backends of the model: with an empty census of the walk methods, after any history the complete walk is
    [walk b fs folder], the listing sentence 2 of the property is proved about. *)
Theorem c19_backend_walk_history : forall c b fs h folder,
  walk_keeps_no_state c = true ->
  walk_after file (walk b fs) (fun s => s) (discipline_of (cs_walk c)) h folder = walk b fs folder.
Proof. exact backend_walk_history. Qed.
(** Chains: with an empty census of the lookup methods, after any history of lookups, add_sys calls and direct edits of
    the public list [systems], a lookup is [chain_get] over the members then mounted. *)
Theorem c19_chain_lookup_history : forall c ms h q,
  lookups_keep_no_state c = true ->
  chain_lookup_after (lookup_discipline_of (cs_lookup c)) ms h q = chain_get (members_after ms h) q.
Proof. exact chain_lookup_history. Qed.
(** Lookups that remember the index of the member a name was found in (seeded fault c19_8): the name is in the second
    and third of three members, it is looked up, [systems.pop(0)], it is looked up again - the third member answers. *)
Theorem c19_chain_position_memo_refuted :
  let ms := [empty_member; has_x fileA; has_x fileB] in
  let h := [CLookup [120%N]; CEdit (@tl member)] in
  chain_lookup_after LookupRemembersPosition ms h [120%N] = Some fileB
  /\ chain_get (members_after ms h) [120%N] = Some fileA
  /\ chain_lookup_after LookupStateless ms h [120%N] = Some fileA.
Proof. exact chain_position_memo_refuted. Qed.
(** Through add_sys (which resets the positions) the same removal is answered correctly: the fault needs the edit of
    the public list. *)
Theorem c19_chain_position_memo_add_sys_resets :
  let ms := [empty_member; has_x fileA; has_x fileB] in
  let h := [CLookup [120%N]; CAddSys (@tl member)] in
  chain_lookup_after LookupRemembersPosition ms h [120%N] = chain_get (members_after ms h) [120%N].
Proof. exact chain_position_memo_add_sys_resets. Qed.

(** The property over programs: for every configuration the translators can produce - the code shapes ([source_ok], round
    4) and the census of stores ([state_ok]: every group empty) - the three sentences hold for every single call, and
    histories of walks / lookups / edits do not change what the calls answer. *)
Theorem c19_property_over_histories : forall s c,
  source_ok s = true -> state_ok c = true -> property_holds s /\ histories_irrelevant c.
Proof. exact property_holds_over_histories. Qed.
Example c19_property_over_histories_hypotheses_satisfiable :
  source_ok witness_cfg = true /\ state_ok witness_census = true.
Proof. exact (conj source_ok_satisfiable state_ok_satisfiable). Qed.
