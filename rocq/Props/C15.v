(** C15 — VTF save/read round trip: pixel codecs, mipmap table, bounds checks, mipmap generation.
    Only statements here; proofs are in Fmt/VtfPixelExprProofs.v, Fmt/VtfLayoutProofs.v, Fmt/VtfGenProofs.v.

    Pixel codecs.  A [codec] is what translate/c15_pixel.py reads out of _py_vtf_readwrite.py for one format
    (Gen/PixelCodecs_gen.v).  The theorems are generic in the codec; for every generated codec the check
    discharges the closed boolean premises [rt_ok codec_F spec_F = true] and [sf_ok codec_F canon_F = true]
    in the kernel (vm_compute).  The conclusions quantify over ALL pixels / ALL stored values whose components
    are bytes: 2^32 pixels, 2^(8*bpp) stored values - by proof (symbolic bit evaluation proved sound), not by
    enumeration. *)
From Coq Require Import ZArith NArith List Bool.
From SV Require Import Fmt.VtfPixelExpr Fmt.VtfPixelExprProofs Fmt.VtfLayout Fmt.VtfLayoutProofs.
From SV Require Import Gen.PixelCodecs_gen Gen.VtfLayout_gen Fmt.VtfGenProofs.
From SV Require Import Fmt.VtfFrameSM Fmt.VtfFrameSMProofs Gen.VtfFrameSM_gen.
From SV Require Import Fmt.VtfFrameRaise Fmt.VtfFrameRaiseProofs.
From SV Require Import Bin.Struct Fmt.VtfContainer Fmt.VtfContainerProofs Gen.VtfContainer_gen.
From SV Require Import Fmt.VtfSides Fmt.VtfSidesProofs.
From SV Require Import Fmt.VtfWholeFile Fmt.VtfWholeFileProofs Fmt.VtfSheetProofs.
From SV Require Import Fmt.VtfAccess Fmt.VtfAccessProofs Gen.VtfAccess_gen Fmt.VtfAccessGenProofs.
From SV Require Import Fmt.VtfBluescreen Fmt.VtfBluescreenProofs.
From SV Require Import Fmt.VtfFrameCodec Fmt.VtfFrameCodecProofs Fmt.VtfPixelsInFileProofs.
Import ListNotations.

(** ** Pixels *)
Open Scope N_scope.

(** Loading what was saved gives exactly the specified quantisation [q] of the input (for the 8-bit formats
    [q] is the identity on the used channels), every stored value is a legal byte, [bpp] bytes per pixel. *)
Theorem c15_load_of_save_is_quantisation : forall c q, rt_ok c q = true ->
  forall p, bytes p ->
    run (load_e c) (run (save_e c) p) = run q p
    /\ bytes (run (save_e c) p) /\ length (run (save_e c) p) = bpp c.
Proof. exact rt_sound. Qed.

(** Storing loaded pixels again changes nothing: save(load d) = canon d on every stored value (canon = identity
    except for the don't-care X bits), and save(load(save p)) = save p for every pixel. *)
Theorem c15_stored_fixpoint : forall c canon, sf_ok c canon = true ->
  (forall d, bytes d -> run (save_e c) (run (load_e c) d) = run canon d /\ bytes (run (load_e c) d))
  /\ (forall p, bytes p -> run (save_e c) (run (load_e c) (run (save_e c) p)) = run (save_e c) p).
Proof. exact sf_sound. Qed.

(** What the specification tuples mean, as functions on numbers. *)
Theorem c15_spec_565 : forall r g b a, run spec_565 [r; g; b; a] = [quant 5 r; quant 6 g; quant 5 b; 255].
Proof. exact run_spec_565. Qed.
Theorem c15_spec_4444 : forall r g b a, run spec_4444 [r; g; b; a] = [quant 4 r; quant 4 g; quant 4 b; quant 4 a].
Proof. exact run_spec_4444. Qed.
Theorem c15_spec_5551 : forall r g b a, run spec_5551 [r; g; b; a] = [quant 5 r; quant 5 g; quant 5 b; alpha1 a].
Proof. exact run_spec_5551. Qed.
Theorem c15_spec_x5551 : forall r g b a, run spec_x5551 [r; g; b; a] = [quant 5 r; quant 5 g; quant 5 b; 255].
Proof. exact run_spec_x5551. Qed.
Theorem c15_spec_i8 : forall r g b a, run spec_i8 [r; g; b; a] = [grey r g b; grey r g b; grey r g b; 255].
Proof. exact run_spec_i8. Qed.
Theorem c15_spec_ia88 : forall r g b a, run spec_ia88 [r; g; b; a] = [grey r g b; grey r g b; grey r g b; a].
Proof. exact run_spec_ia88. Qed.
Theorem c15_spec_rgba : forall r g b a, run spec_rgba [r; g; b; a] = [r; g; b; a].
Proof. exact run_spec_rgba. Qed.
Theorem c15_spec_rgb : forall r g b a, run spec_rgb [r; g; b; a] = [r; g; b; 255].
Proof. exact run_spec_rgb. Qed.
Theorem c15_spec_a8 : forall r g b a, run spec_a8 [r; g; b; a] = [0; 0; 0; a].
Proof. exact run_spec_a8. Qed.
Theorem c15_spec_uv88 : forall r g b a, run spec_uv88 [r; g; b; a] = [r; g; 0; 255].
Proof. exact run_spec_uv88. Qed.

(** [quant n] ("drop the LSBs, duplicate the MSBs into them") keeps the top n bits, is idempotent and stays a
    byte; the grey value is the floor of the mean and exact on grey input. Domain: all 256 bytes, n in 4,5,6,8. *)
Theorem c15_quant_facts : forall n, In n [4; 5; 6; 8] -> forall x, x < 256 ->
  N.shiftr (quant n x) (8 - n) = N.shiftr x (8 - n) /\ quant n (quant n x) = quant n x /\ quant n x < 256.
Proof. exact quant_facts. Qed.
Theorem c15_grey_is_floor_mean : forall r g b, 3 * grey r g b <= r + g + b < 3 * grey r g b + 3.
Proof. exact grey_is_floor_mean. Qed.
Theorem c15_grey_exact_on_grey : forall v, grey v v v = v.
Proof. exact grey_of_grey. Qed.

(** The premises are satisfiable (non-vacuity): the identity codec. *)
Example c15_rt_ok_inhabited : rt_ok {| bpp := 4; save_e := ident 4; load_e := ident 4 |} spec_rgba = true
                              /\ sf_ok {| bpp := 4; save_e := ident 4; load_e := ident 4 |} (ident 4) = true.
Proof. split; vm_compute; reflexivity. Qed.

(** Known defect of the pinned tree (recorded, not repaired): compress565 and decomp565 use opposite channel
    orders.  Stated about a verbatim copy of the pinned codec, so that it stays true after a repair.
    A round trip through RGB565/BGR565 is the quantisation with R and B exchanged ... *)
Theorem c15_565_pinned_swaps_r_and_b :
  rt_ok pinned_rgb565 spec_565_rb_swapped = true /\ rt_ok pinned_bgr565 spec_565_rb_swapped = true.
Proof. exact pinned_rgb565_swaps. Qed.
(** ... hence neither the documented quantisation nor a fixed point of storing again. *)
Theorem c15_565_pinned_refuted :
  exists p, bytes p /\ run (load_e pinned_rgb565) (run (save_e pinned_rgb565) p) <> run spec_565 p
            /\ run (load_e pinned_bgr565) (run (save_e pinned_bgr565) p) <> run spec_565 p
            /\ run (save_e pinned_rgb565) (run (load_e pinned_rgb565) (run (save_e pinned_rgb565) p)) <> run (save_e pinned_rgb565) p.
Proof. exact pinned_565_refuted. Qed.

(** ** Mipmap table (all power-of-two sizes 2^a x 2^b, by induction) *)
(** With the loop of [VTF.__init__] as read from the source and [mipmap_count] = number of levels created:
    the table has the levels 0..min(a,b), level i of size 2^(a-i) x 2^(b-i); the declared count equals the number
    of levels; and [save]/[read] walk exactly these levels with exactly these sizes. *)
Theorem c15_mip_table_consistent : forall cfg, mip_loop_ok cfg = true -> mip_count_ok cfg = true ->
  forall a b fuel, (Nat.min a b < fuel)%nat ->
    let '(created, last) := init_loop cfg fuel 0 (2 ^ N.of_nat a) (2 ^ N.of_nat b) in
    created = ideal_levels a b
    /\ declared_count cfg last = N.of_nat (length created)
    /\ read_levels (2 ^ N.of_nat a) (2 ^ N.of_nat b) (length created) = rev created.
Proof. exact mip_table_consistent. Qed.

Theorem c15_mip_levels_halved : forall a b i, (i < Nat.min a b)%nat ->
  2 * 2 ^ N.of_nat (a - S i) = 2 ^ N.of_nat (a - i) /\ 2 * 2 ^ N.of_nat (b - S i) = 2 ^ N.of_nat (b - i).
Proof. exact ideal_levels_halved. Qed.

(** Known defect of the pinned tree (recorded, not repaired): [mipmap_count] is the last index.  What does hold:
    every level below the declared count is written and read back with the right size; exactly the smallest
    level is dropped. *)
Theorem c15_mip_table_pinned : forall cfg, mip_loop_ok cfg = true -> count_delta cfg = 0 ->
  forall a b fuel, (Nat.min a b < fuel)%nat ->
    let '(created, last) := init_loop cfg fuel 0 (2 ^ N.of_nat a) (2 ^ N.of_nat b) in
    created = ideal_levels a b
    /\ declared_count cfg last = N.of_nat (Nat.min a b)
    /\ read_levels (2 ^ N.of_nat a) (2 ^ N.of_nat b) (Nat.min a b) = rev (removelast created).
Proof. exact mip_table_pinned. Qed.
(** 1 x 4: one level is created, zero are declared, nothing is read back. *)
Theorem c15_mip_table_pinned_refuted :
  let '(created, last) := init_loop pinned_mipcfg 8 0 1 4 in
  created = [(0, 1, 4)] /\ declared_count pinned_mipcfg last = 0 /\ read_levels 1 4 0 = [].
Proof. exact mip_table_pinned_refuted. Qed.

(** ** Bounds checks of pixel access *)
Open Scope Z_scope.
Theorem c15_pixel_index_in_bounds : forall ds, bounds_ok ds = true ->
  forall x y w h, rejects ds x y w h = false ->
    0 <= x < w /\ 0 <= y < h /\ 0 <= pixel_off x y w /\ pixel_off x y w + 4 <= 4 * w * h.
Proof. exact accepted_in_bounds. Qed.
(** instantiated with the rejection tests, offset formulas and access widths read from the source *)
Theorem c15_getitem_in_bounds : pixel_offsets_spec -> bounds_ok getitem_reject = true -> Z.leb getitem_span 4 = true ->
  forall x y w h, rejects getitem_reject x y w h = false ->
    0 <= x < w /\ 0 <= y < h /\ 0 <= getitem_off x y w h /\ getitem_off x y w h + getitem_span <= 4 * w * h.
Proof. exact gen_getitem_in_bounds. Qed.
Theorem c15_setitem_in_bounds : pixel_offsets_spec -> bounds_ok setitem_reject = true -> Z.leb setitem_span 4 = true ->
  forall x y w h, rejects setitem_reject x y w h = false ->
    0 <= x < w /\ 0 <= y < h /\ 0 <= setitem_off x y w h /\ setitem_off x y w h + setitem_span <= 4 * w * h.
Proof. exact gen_setitem_in_bounds. Qed.
(** The test of the pinned tree ([x > width or y > height]) lets x = width and negative x through. *)
Theorem c15_bounds_pinned_refuted :
  rejects pinned_bounds 2 1 2 2 = false /\ pixel_off 2 1 2 + 4 > 4 * 2 * 2
  /\ rejects pinned_bounds (-1) 0 2 2 = false /\ pixel_off (-1) 0 2 < 0.
Proof. exact pinned_bounds_refuted. Qed.

(** ** Generated mipmaps: scale_down reads the 2x2 parent block, inside the parent buffer, and the bilinear
    filter writes the floor of its mean (index arithmetic regenerated from the source). *)
Theorem c15_scale_down_block : scale_strides_spec -> forall w h x y, 0 < w -> 0 < h -> 0 <= x < w -> 0 <= y < h ->
    let sw := 2 * w in let sh := 2 * h in
    src_offsets gen_scalecfg sw sh w h x y
    = [texel_off sw (2 * x) (2 * y); texel_off sw (2 * x + 1) (2 * y);
       texel_off sw (2 * x) (2 * y + 1); texel_off sw (2 * x + 1) (2 * y + 1)]
    /\ Forall (fun o => 0 <= o /\ o + 4 <= 4 * sw * sh) (src_offsets gen_scalecfg sw sh w h x y).
Proof. exact gen_scale_down_block. Qed.
Theorem c15_bilinear_is_block_mean : scale_strides_spec -> terms_eqb bilinear_terms block_terms = true -> Z.eqb bilinear_div 4 = true ->
  forall src w h x y ch, 0 < w -> 0 < h -> 0 <= x < w -> 0 <= y < h ->
    let sw := 2 * w in let sh := 2 * h in
    bilinear gen_scalecfg bilinear_terms bilinear_div src sw sh w h x y ch
    = (src (texel_off sw (2 * x) (2 * y) + ch) + src (texel_off sw (2 * x + 1) (2 * y) + ch)
       + src (texel_off sw (2 * x) (2 * y + 1) + ch) + src (texel_off sw (2 * x + 1) (2 * y + 1) + ch)) / 4.
Proof. exact gen_bilinear_is_block_mean. Qed.

(** ** Life cycle of a frame: lazily read frames, cleared frames, compute_mipmaps() and save()
    A [Frame] is a pair (_data, _fileinfo).  The effect of every method of class Frame on the pair is computed from the
    source by translate/c15_frame.py (abstract interpretation of the method bodies) into tables; the check compares
    them with [ideal_load], [ideal_rescale] ... in the kernel.  [chaincfg] is what the translator reads from
    compute_mipmaps(), save() and rescale_from().  [final_chain] is the specification: for every mipmap level of one
    (frame, depth/side): the file's pixels while the level still has its file source, else its data, else (cleared)
    blank for level 0 and the scaled pixels WRITTEN for the level above. *)
Close Scope Z_scope.
Close Scope N_scope.
Theorem c15_save_writes_every_level : forall pix fbytes blank decode encode scale t_load t_rescale cfg,
  efftable_eqb t_load ideal_load = true -> efftable_eqb t_rescale ideal_rescale = true -> chain_ok cfg = true ->
  forall chain,
    save_chain pix fbytes blank decode encode scale t_load t_rescale cfg chain
    = map (fun p => Some (encode p)) (final_chain pix fbytes blank decode scale chain).
Proof. exact chain_written_gen. Qed.

(** A level that still has its file source is written as the (re-encoded) bytes of the file, whatever else is in the
    chain (cleared levels, levels regenerated by compute_mipmaps, loaded levels): frames are only regenerated when cleared. *)
Theorem c15_save_keeps_levels_with_a_file_source : forall pix fbytes blank decode encode scale t_load t_rescale cfg,
  efftable_eqb t_load ideal_load = true -> efftable_eqb t_rescale ideal_rescale = true -> chain_ok cfg = true ->
  forall chain m st b, nth_error chain m = Some st -> f_src st = Some b ->
    nth_error (save_chain pix fbytes blank decode encode scale t_load t_rescale cfg chain) m = Some (Some (encode (decode b))).
Proof. exact chain_keeps_file_levels_gen. Qed.

(** Composed with the codec theorems: if the file source of a level holds bytes that save() wrote in a format whose
    codec passes [sf_ok], a lazy read followed by save() writes exactly these bytes again. *)
Theorem c15_lazy_resave_keeps_bytes : forall c canon, sf_ok c canon = true ->
  forall t_load t_rescale cfg blank scale,
  efftable_eqb t_load ideal_load = true -> efftable_eqb t_rescale ideal_rescale = true -> chain_ok cfg = true ->
  forall chain m st p, nth_error chain m = Some st -> f_src st = Some (enc_frame c p) -> Forall bytes p ->
  nth_error (save_chain frame_pixels frame_pixels blank (dec_frame c) (enc_frame c) scale t_load t_rescale cfg chain) m
  = Some (Some (enc_frame c p)).
Proof. exact lazy_resave_keeps_bytes_gen. Qed.

(** What the user sees through frame[x, y] / load() / to_PIL() ([view]): reading does not change it; rescale_from()
    does not change it while the frame still has its file source; fill()/copy_from() replace it; __setitem__ edits it. *)
Theorem c15_view_unchanged_by_load : forall pix fbytes blank decode (st : fstate pix fbytes),
  view pix fbytes blank decode (load pix fbytes blank decode st) = view pix fbytes blank decode st.
Proof. exact view_load. Qed.
Theorem c15_view_rescale_with_source : forall pix fbytes blank decode scaled (st : fstate pix fbytes) b, f_src st = Some b ->
  view pix fbytes blank decode (rescale pix fbytes scaled st) = decode b.
Proof. exact view_rescale_with_source. Qed.
Theorem c15_view_setitem : forall pix fbytes blank decode modf (st : fstate pix fbytes),
  view pix fbytes blank decode (setitem pix fbytes blank decode modf st) = modf (view pix fbytes blank decode st).
Proof. exact view_setitem. Qed.
(** the generated tables, once they pass the comparison, are these operations *)
Theorem c15_frame_method_is_a_modelled_operation : forall pix fbytes t, like_a_modelled_op t = true ->
  forall blank decode newd scaled modf (st : fstate pix fbytes),
    let r := run_table pix fbytes t blank decode newd scaled modf st in
    r = load pix fbytes blank decode st \/ r = clear pix fbytes st \/ r = set_new pix fbytes newd st
    \/ r = rescale pix fbytes scaled st \/ r = setitem pix fbytes blank decode modf st \/ r = detach pix fbytes st.
Proof. exact modelled_op_cases. Qed.
Example c15_chain_ok_inhabited : chain_ok good_cfg = true
  /\ toy_save ideal_rescale good_cfg [lazy 1; lazy 2; cleared] = [Some 1; Some 2; Some 102].
Proof. split; reflexivity. Qed.

(** Defective shapes (toy instance: decode/encode identity, scaling adds 100).
    rescale_from() forgetting the file source: the stored level 1 (value 2) is written as the average of level 0. *)
Theorem c15_rescale_drops_source_refuted :
  efftable_eqb rescale_drops_source ideal_rescale = false
  /\ toy_save rescale_drops_source good_cfg [lazy 1; lazy 2] = [Some 1; Some 101].
Proof. exact rescale_drops_source_refuted. Qed.
(** rescale_from() not loading the larger frame (the tree before the repair): the cleared level 2 below a lazily read
    level 1 is made from the average of level 0 parked in level 1 (201), not from the stored level 1 (102). *)
Theorem c15_parent_not_loaded_refuted :
  chain_ok pinned_cfg = false
  /\ toy_save ideal_rescale pinned_cfg [lazy 1; lazy 2; cleared] = [Some 1; Some 2; Some 201].
Proof. exact parent_not_loaded_refuted. Qed.

(** ** Round 5: a call that is REJECTED (raises) and whose exception the caller catches.
    translate/c15_frame.py follows every method of Frame also along the paths that leave it by an exception (explicit raise,
    assert, import, every call that can raise; self.load() contributes the exits of load()) and emits, per abstract pre-state,
    the outcomes reached there ([gen_raise_tables]); [method_raises_cleanly] per method is an instance obligation of every run
    ("every store that changes what the frame shows comes after everything that can raise").
    Then: the frame shows the same pixels as before the call ... *)
Theorem c15_rejected_call_shows_the_same_pixels : forall ts name, method_raises_cleanly ts name = true ->
  forall pix fbytes blank decode newd scaled modf (st : fstate pix fbytes) o,
    In o (find_row (raise_table_of ts name) (present (f_data st)) (present (f_src st))) ->
    view pix fbytes blank decode (apply_outcome pix fbytes o blank decode newd scaled modf st) = view pix fbytes blank decode st.
Proof. exact rejected_call_shows_the_same_pixels_gen. Qed.
(** ... a level that still waits to be read from the file is saved as the (re-encoded) bytes of the file, whatever was
    rejected on it (wrong-length buffer, frame of another size, format without decoder, index out of range) ... *)
Theorem c15_rejected_call_on_lazy_level_then_save : forall pix fbytes blank decode encode scale t_load t_rescale cfg,
  efftable_eqb t_load ideal_load = true -> efftable_eqb t_rescale ideal_rescale = true -> chain_ok cfg = true ->
  forall ts name, method_raises_cleanly ts name = true ->
  forall (chain : list (fstate pix fbytes)) m st b newd scaled modf o,
    nth_error chain m = Some st -> f_src st = Some b ->
    In o (find_row (raise_table_of ts name) (present (f_data st)) true) ->
    nth_error (save_chain pix fbytes blank decode encode scale t_load t_rescale cfg
                 (upd chain m (apply_outcome pix fbytes o (blank m) decode newd scaled modf))) m
    = Some (Some (encode (decode b))).
Proof. exact rejected_call_on_lazy_level_then_save_gen. Qed.
(** ... and for any level in any state, save() writes for the WHOLE chain what it would have written without the call, or
    what it writes after an explicit load() of that level (a cleared level may have been given its blank pixels, as by
    every reading access: it is then no longer regenerated). *)
Theorem c15_rejected_call_then_save : forall pix fbytes blank decode encode scale t_load t_rescale cfg,
  efftable_eqb t_load ideal_load = true -> efftable_eqb t_rescale ideal_rescale = true -> chain_ok cfg = true ->
  forall ts name, method_raises_cleanly ts name = true ->
  forall (chain : list (fstate pix fbytes)) m newd scaled modf o,
    (forall st, nth_error chain m = Some st -> In o (find_row (raise_table_of ts name) (present (f_data st)) (present (f_src st)))) ->
    let after := upd chain m (apply_outcome pix fbytes o (blank m) decode newd scaled modf) in
    save_chain pix fbytes blank decode encode scale t_load t_rescale cfg after
      = save_chain pix fbytes blank decode encode scale t_load t_rescale cfg chain
    \/ save_chain pix fbytes blank decode encode scale t_load t_rescale cfg after
      = save_chain pix fbytes blank decode encode scale t_load t_rescale cfg (upd chain m (load pix fbytes (blank m) decode)).
Proof. exact rejected_call_then_save_gen. Qed.
(** Defective shapes.  copy_from() that forgets the file source in front of its validation (seeded fault c15_8): the
    exit of the size test is not clean, and on the toy chain the stored level 1 (value 2) is written as the average (101). *)
Theorem c15_copy_from_source_dropped_first_refuted :
  raise_table_ok raise_copy_from_source_dropped_first = false
  /\ In (DNoneV, false, SNoneV) (find_row raise_copy_from_source_dropped_first false true)
  /\ toy_after_raise (DNoneV, false, SNoneV) [lazy 1; lazy 2] = [Some 1; Some 101]
  /\ toy_save ideal_rescale good_cfg [lazy 1; lazy 2] = [Some 1; Some 2].
Proof. exact copy_from_source_dropped_first_refuted. Qed.
(** load() that forgets the file source before it reads the stream (the tree before the repair of round 5): after a failed
    read the level is written blank (0). *)
Theorem c15_load_source_dropped_first_refuted :
  raise_table_ok raise_load_source_dropped_first = false
  /\ toy_after_raise (DBlank, false, SNoneV) [lazy 1; lazy 2] = [Some 1; Some 0].
Proof. exact load_source_dropped_first_refuted. Qed.
Example c15_raise_tables_inhabited : method_raises_cleanly raise_example raise_example_name = true.
Proof. exact raise_tables_inhabited. Qed.

(** ** The container: header, resource directory, data blocks, frames (vtf.py: VTF.save / VTF.read) and the
    particle-sheet records.  Every struct.pack / struct.unpack site is regenerated from the source as a [site]
    (format strings and the ORDER of the fields on both sides); the check discharges [site_ok] for each of them. *)
Theorem c15_site_roundtrip : forall s, site_ok s = true ->
  forall vals, fits (fmt_of (w_fmt s)) vals = true ->
  exists bs, pack (fmt_of (w_fmt s)) vals = Some bs
             /\ List.length bs = calcsize (fmt_of (r_fmt s))
             /\ unpack (fmt_of (r_fmt s)) bs = Some vals
             /\ combine (r_fields s) vals = combine (w_fields s) vals
             /\ (r_len s = (-1)%Z \/ r_len s = Z.of_nat (List.length bs)).
Proof. exact site_roundtrip. Qed.
(** Consecutive blocks behind any prefix are found again at the running offsets: resource data, thumbnail, frames. *)
Theorem c15_blocks_at_offsets : forall (blocks : list (list N)) (pre post : list N),
  Forall2 (fun off b => slice (pre ++ List.concat blocks ++ post) off (List.length b) = b)
          (offsets (List.length pre) (map (@List.length N) blocks)) blocks.
Proof. exact blocks_at_offsets. Qed.
(** Frame ordering: reading the frames in the order they were written, with the same sizes, gives every frame its own bytes. *)
Theorem c15_frames_read_back : forall (frames : list (list N)) (pre : list N),
  Forall2 (fun off f => slice (pre ++ List.concat frames) off (List.length f) = f)
          (offsets (List.length pre) (map (@List.length N) frames)) frames.
Proof. exact frames_read_back. Qed.
(** A resource stored out of line: [length][data] at the offset recorded in the directory is read back. *)
Theorem c15_block_read_back : forall F (d pre post blk : list N),
  wf_fmt (f_len F) = true -> fits (f_len F) [VInt (Z.of_nat (List.length d))] = true ->
  block F d = Some blk -> read_block F (pre ++ blk ++ post) (List.length pre) = Some d.
Proof. exact block_read_back. Qed.
(** Texture coordinates of a particle sheet: four 32-bit float patterns in, the same patterns out. *)
Theorem c15_tex_roundtrip : forall S t, wf_fmt (s_tex S) = true -> fits (s_tex S) (map VFloat t) = true ->
  forall pre post, exists bs, pack_tex S t = Some bs /\ read_tex S (pre ++ bs ++ post) (List.length pre) = Some t.
Proof. exact tex_roundtrip. Qed.

(** ** Round 3 *)
(** Resource flags: for the generated flag expressions of the three directory-entry sites of save() and the flag test of
    read(), once they pass [flags_ok] (complete enumeration of the one-byte field): an out-of-line resource is stored with
    bit 0x02 cleared and nothing else changed, an inline one with the bit set; read() fetches the data block for the
    first and takes the value for the second; the stored flags are a fixpoint of saving again. *)
Theorem c15_resource_flags_roundtrip : forall c, flags_ok c = true -> forall f, (0 <= f < 256)%Z ->
  fl_eval (fl_offset c) f = clear2 f /\ fl_eval (fl_inline c) f = set2 f
  /\ ft_eval (fl_test c) (fl_eval (fl_offset c) f) = true /\ ft_eval (fl_test c) (fl_eval (fl_inline c) f) = false
  /\ (0 <= clear2 f < 256)%Z /\ (0 <= set2 f < 256)%Z
  /\ fl_eval (fl_offset c) (clear2 f) = clear2 f /\ fl_eval (fl_inline c) (set2 f) = set2 f.
Proof. exact flags_roundtrip. Qed.
Example c15_flags_ok_inhabited : flags_ok good_flagcfg = true.
Proof. exact flags_ok_inhabited. Qed.
(** the shape of seeded fault c15_4 (`res.flags & 0x02` for out-of-line entries): flags 0x40 are stored as 0, flags 0x42
    as 2, which read() takes for an inline value. *)
Theorem c15_masked_flags_refuted :
  flags_ok masked_flagcfg = false
  /\ fl_eval (fl_offset masked_flagcfg) 64 = 0%Z
  /\ ft_eval (fl_test masked_flagcfg) (fl_eval (fl_offset masked_flagcfg) 66) = false.
Proof. exact masked_flags_refuted. Qed.

(** Which sides a file contains.  [sidescfg] is read from VTF._depth_range and its callers: if save() asks for the side
    list of the version it WRITES (and stores a blank frame for a side the object lacks), save() and read() walk the same
    sides for every object version, written version, cubemap or volume. *)
Theorem c15_sides_agree : forall c, sides_ok c = true ->
  forall envmap object written depth, save_sides c envmap object written depth = read_sides c envmap written depth.
Proof. exact sides_agree. Qed.
(** Composition with the loop order and the block layout: every (frame, side, mipmap) that read() visits gets, at the
    offset read() records and with the size read() computes for the level, exactly the bytes save() produced for that
    key - for any object version and written version (save(version=...)), any number of frames, levels, sides, any
    contents, behind any prefix (header, resources, thumbnail). *)
Theorem c15_written_frames_read_back : forall c so ro, sides_ok c = true -> lorder_eqb so ro = true ->
  forall envmap object written depth mips frames (content : key -> list N) (size : nat -> nat) (pre : list N),
    (forall k, List.length (content k) = size (k_mip k)) ->
    Forall (fun ok => slice (pre ++ written_image so mips frames (save_sides c envmap object written depth) content)
                            (fst ok) (size (k_mip (snd ok))) = content (snd ok))
           (read_table ro mips frames (read_sides c envmap written depth) size (List.length pre)).
Proof. exact written_frames_read_back. Qed.
Theorem c15_good_order_covers : forall mips frames sides f s m, (f < frames)%nat -> In s sides -> (m < mips)%nat ->
  In {| k_frame := f; k_side := s; k_mip := m |} (walk good_order mips frames sides key0).
Proof. exact good_order_covers. Qed.
Example c15_sides_ok_inhabited : sides_ok good_sidescfg = true /\ sphere_rule_ok good_sidescfg = true
  /\ save_sides good_sidescfg true 4 5 1 = [0; 1; 2; 3; 4; 5]%nat /\ save_sides good_sidescfg true 5 4 1 = [0; 1; 2; 3; 4; 5; 6]%nat.
Proof. exact sides_ok_inhabited. Qed.
(** the tree before the round-3 repair (side list of the object's own version): a 7.4 cubemap with two frames written as
    7.5 - read() is handed the sphere map of frame 0 (toy byte 60) as side 0 of frame 1 *)
Theorem c15_object_version_sides_refuted :
  sides_ok pinned_sidescfg = false
  /\ nth_error (what_read_gets good_order good_order pinned_sidescfg 4 5 2) 6
     = Some ({| k_frame := 1; k_side := 0; k_mip := 0 |}, [60%N]).
Proof. exact object_version_sides_refuted. Qed.
(** the shape of seeded fault c15_3 (read() walks sides outside, frames inside): side 0 of frame 1 is handed the block of
    side 1 of frame 0 *)
Theorem c15_face_major_read_refuted :
  lorder_eqb good_order [VMipRev; VSide; VFrame] = false
  /\ nth_error (what_read_gets good_order [VMipRev; VSide; VFrame] good_sidescfg 5 5 2) 1
     = Some ({| k_frame := 1; k_side := 0; k_mip := 0 |}, [10%N]).
Proof. exact face_major_read_refuted. Qed.

(** ** Round 3: the whole file *)
(** The container as one statement (was: an executable model tied by correspondence only).  [encode_file] is the file as
    VTF.save lays it out, [decode_file] what VTF.read gets out of it; [F] are the record formats and [G] the flag
    expressions regenerated from the source ([fmts_wf F], [flags_ok G]: instance obligations).  For every file of version
    7.3 or later whose values fit their fields ([vfile_fits]: ids are 3 bytes and not a reserved id, flags a byte, values,
    offsets and lengths 32 bits, the 15 header values fit the header record): the reader gets the version, the header
    values with the real header size, the depth, every resource in order with bit 0x02 of the flags normalised (inline
    values exact, data blocks byte for byte), the particle sheet, and the offsets of the thumbnail and of the first
    frame - and these offsets are exactly where the thumbnail and the frames are. *)
Theorem c15_whole_file_73 : forall F G v low_size file,
  fmts_wf F = true -> flags_ok G = true -> (3 <= v_minor v)%Z -> vfile_fits F G v = true ->
  encode_file F G v = Some file ->
  decode_file F G low_size file
  = Some (v_minor v, set_header_size (v_header v) (hs73 F v), v_depth v, map norm (v_res v), v_sheet v, low_off73 F v, high_off73 F v)
  /\ exists pre, file = pre ++ v_low v ++ List.concat (v_high v) /\ List.length pre = low_off73 F v.
Proof. exact whole_file_73. Qed.
(** Before 7.3: no directory, 15 bytes of padding, the depth only in 7.2 (else it must be 1); read() computes the offsets
    from the header size it reads and the size of the thumbnail. *)
Theorem c15_whole_file_pre73 : forall F G v file,
  fmts_wf F = true -> (v_minor v < 3)%Z -> vfile_fits_old F v = true ->
  encode_file F G v = Some file ->
  decode_file F G (List.length (v_low v)) file
  = Some (v_minor v, set_header_size (v_header v) (hs_old F v), v_depth v, [], None, hs_old F v, (hs_old F v + List.length (v_low v))%nat)
  /\ exists pre, file = pre ++ v_low v ++ List.concat (v_high v) /\ List.length pre = hs_old F v.
Proof. exact whole_file_pre73. Qed.
(** Every fitting file can be written: the premise [encode_file F G v = Some file] above is not a restriction. *)
Theorem c15_encode_total_73 : forall F G v, fmts_wf F = true -> (3 <= v_minor v)%Z -> vfile_fits F G v = true ->
  exists file, encode_file F G v = Some file.
Proof. exact encode_total_73. Qed.
Theorem c15_encode_total_pre73 : forall F G v, fmts_wf F = true -> (v_minor v < 3)%Z -> vfile_fits_old F v = true ->
  exists file, encode_file F G v = Some file.
Proof. exact encode_total_pre73. Qed.
(** Container, side lists, loop order and block layout composed: a file whose image part is the frames in the order of
    save()'s loop nest over the sides of the version WRITTEN.  read() - walking its own loop nest over the sides of the
    version it finds, from the first-frame offset it decodes - finds for every (frame, side, mipmap) exactly the bytes
    save() produced for that key, the thumbnail at the decoded thumbnail offset, and the metadata as above. *)
Theorem c15_whole_file_with_frames_73 : forall F G v low_size file c so ro,
  fmts_wf F = true -> flags_ok G = true -> (3 <= v_minor v)%Z -> vfile_fits F G v = true ->
  sides_ok c = true -> lorder_eqb so ro = true ->
  forall envmap object depth mips frames (content : key -> list N) (size : nat -> nat),
    (forall k, List.length (content k) = size (k_mip k)) ->
    v_high v = map content (walk so mips frames (save_sides c envmap object (v_minor v) depth) key0) ->
    encode_file F G v = Some file ->
    decode_file F G low_size file
    = Some (v_minor v, set_header_size (v_header v) (hs73 F v), v_depth v, map norm (v_res v), v_sheet v, low_off73 F v, high_off73 F v)
    /\ slice file (low_off73 F v) (List.length (v_low v)) = v_low v
    /\ Forall (fun ok => slice file (fst ok) (size (k_mip (snd ok))) = content (snd ok))
              (read_table ro mips frames (read_sides c envmap (v_minor v) depth) size (high_off73 F v)).
Proof. exact whole_file_with_frames_73. Qed.
Theorem c15_whole_file_with_frames_pre73 : forall F G v file c so ro,
  fmts_wf F = true -> (v_minor v < 3)%Z -> vfile_fits_old F v = true ->
  sides_ok c = true -> lorder_eqb so ro = true ->
  forall envmap object depth mips frames (content : key -> list N) (size : nat -> nat),
    (forall k, List.length (content k) = size (k_mip k)) ->
    v_high v = map content (walk so mips frames (save_sides c envmap object (v_minor v) depth) key0) ->
    encode_file F G v = Some file ->
    decode_file F G (List.length (v_low v)) file
    = Some (v_minor v, set_header_size (v_header v) (hs_old F v), v_depth v, [], None, hs_old F v, (hs_old F v + List.length (v_low v))%nat)
    /\ slice file (hs_old F v) (List.length (v_low v)) = v_low v
    /\ Forall (fun ok => slice file (fst ok) (size (k_mip (snd ok))) = content (snd ok))
              (read_table ro mips frames (read_sides c envmap (v_minor v) depth) size (hs_old F v + List.length (v_low v))%nat).
Proof. exact whole_file_with_frames_pre73. Qed.
(** non-vacuity: the formats of the pinned tree are well formed, the example files (7.4 with an inline resource, a data
    resource, a sheet; 7.2) fit, are encoded (144 / 88 bytes) and decoded as stated *)
Example c15_whole_file_inhabited :
  fmts_wf std_fmts = true /\ vfile_fits std_fmts good_flagcfg (ex_file 4) = true /\ vfile_fits_old std_fmts (ex_file 2) = true
  /\ option_map (@List.length N) (encode_file std_fmts good_flagcfg (ex_file 4)) = Some 144%nat
  /\ option_map (@List.length N) (encode_file std_fmts good_flagcfg (ex_file 2)) = Some 88%nat
  /\ option_map (decode_file std_fmts good_flagcfg 2) (encode_file std_fmts good_flagcfg (ex_file 4))
     = Some (Some (4%Z, set_header_size ex_header 120, 1%Z,
                   [([67; 82; 67]%N, 66%Z, RInline 305419896); ([75; 86; 68]%N, 64%Z, RData [1; 2; 3; 4; 5]%N)],
                   Some [9; 8; 7]%N, 136%nat, 138%nat)).
Proof. exact whole_file_inhabited. Qed.
(** the shape of seeded fault c15_4 on a whole file: the data resource with flags 0x42 comes back as the inline value
    120 - the offset of its data block *)
Theorem c15_whole_file_masked_flags_refuted :
  flags_ok masked_flagcfg = false
  /\ option_map (fun r => match r with Some (_, _, _, res, _, _, _) => res | None => [] end)
       (option_map (decode_file std_fmts masked_flagcfg 2) (encode_file std_fmts masked_flagcfg (ex_file 4)))
     = Some [([67; 82; 67]%N, 66%Z, RInline 305419896); ([75; 86; 68]%N, 2%Z, RInline 120)].
Proof. exact whole_file_masked_flags_refuted. Qed.

(** ** Round 3: particle sheets, and where save() records its offsets *)
(** The particle-sheet resource (was: record-level theorems + correspondence).  [make_sheet] is SheetSequence.make_data,
    [read_sheet] SheetSequence.from_resource, over the four record formats regenerated from the source ([sfmts_wf]:
    instance obligation).  For sheet version 0 or 1, at most 64 sequences with distinct numbers 0..63, every value fitting
    its field ([sheet_fits]: four coordinates per frame for version 1, at least one for version 0, floats as 32-bit
    patterns): reading what was written gives the sequences back - numbers, clamp flags, total times, frame durations
    and texture coordinates, in order; version 0 stores the first coordinate only and the reader repeats it four times. *)
Theorem c15_sheet_roundtrip : forall S, wf_fmt (s_head S) = true -> wf_fmt (s_seq S) = true -> wf_fmt (s_dur S) = true -> wf_fmt (s_tex S) = true ->
  forall ver qs bs, sheet_fits S ver qs = true -> make_sheet S ver qs = Some bs ->
  read_sheet S bs = Some (ver, map (canon_seq ver) qs).
Proof. exact sheet_roundtrip. Qed.
(** ... and inside the whole file: the bytes [decode_file] hands to the sheet reader parse to the sequences *)
Theorem c15_whole_file_sheet_73 : forall F G S v low_size file ver qs sb,
  fmts_wf F = true -> flags_ok G = true -> (3 <= v_minor v)%Z -> vfile_fits F G v = true ->
  sfmts_wf S = true -> sheet_fits S ver qs = true -> make_sheet S ver qs = Some sb -> v_sheet v = Some sb ->
  encode_file F G v = Some file ->
  exists hdr res lo hi, decode_file F G low_size file = Some (v_minor v, hdr, v_depth v, res, Some sb, lo, hi)
                        /\ read_sheet S sb = Some (ver, map (canon_seq ver) qs).
Proof. exact whole_file_sheet_73. Qed.
Example c15_sheet_inhabited :
  sfmts_wf std_sfmts = true /\ sheet_fits std_sfmts 1 ex_sheet = true /\ sheet_fits std_sfmts 0 ex_sheet = true
  /\ option_map (read_sheet std_sfmts) (make_sheet std_sfmts 1 ex_sheet) = Some (Some (1%Z, ex_sheet))
  /\ option_map (read_sheet std_sfmts) (make_sheet std_sfmts 0 ex_sheet) = Some (Some (0%Z, map (canon_seq 0) ex_sheet))
  /\ map (canon_seq 0) ex_sheet <> ex_sheet.
Proof. exact sheet_inhabited. Qed.
(** The order of the file-writing events of save() (regenerated as [gen_save_events]; [save_events_ok] is an instance
    obligation): today's order passes; recording the thumbnail offset after the thumbnail was written, or a data-block
    offset after its length, does not. *)
Example c15_save_events_inhabited : save_events_ok good_save_events = true.
Proof. exact save_events_inhabited. Qed.
Theorem c15_late_offsets_refuted : low_high_ok late_low_events = false /\ set_then_block res_key late_block_events = false.
Proof. exact late_offsets_refuted. Qed.

(** ** Round 4: every pixel access path has the same address map ("every pixel access is bounds-checked")

    A frame's pixels are one flat array; [frame[x, y]], the buffer protocol ([memoryview(frame)], numpy), [to_PIL()],
    [to_tkinter()], the wx converters, the codecs and [scale_down] each have their own idea of rows and columns.
    translate/c15_access.py makes a census of EVERY use of [<frame>._data] in vtf.py (fail-closed) and regenerates, per
    site, what the site uses as number of rows, of columns and of bytes per pixel ([gen_paths]).  [path_ok] - rows = the
    frame's height, columns = its width, 4 bytes - is an instance obligation per site. *)
Open Scope Z_scope.
(** a path that passes accepts exactly [0,width) x [0,height) x [0,4) and addresses byte 4*(y*width + x) + c *)
Theorem c15_path_address_map : forall p, path_ok p = true ->
  forall w h f x y c,
    path_accepts p w h f x y c = inside w h x y c /\ path_off p w h f x y c = canon_off w x y c.
Proof. exact path_address_map. Qed.
(** that byte lies inside the array, and two coordinates of the frame never share a byte *)
Theorem c15_canon_in_buffer : forall w h x y c, inside w h x y c = true -> 0 <= canon_off w x y c < 4 * w * h.
Proof. exact canon_in_buffer. Qed.
Theorem c15_canon_injective : forall w h x y c x' y' c',
  inside w h x y c = true -> inside w h x' y' c' = true ->
  canon_off w x y c = canon_off w x' y' c' -> x = x' /\ y = y' /\ c = c'.
Proof. exact canon_injective. Qed.
(** an item path whose rejection test passes [bounds_exact] accepts EXACTLY the coordinates of the frame
    (round 1 proved "only"; a test that also rejects coordinates inside the frame now fails an obligation) *)
Theorem c15_item_accepts_exactly : forall ds, bounds_exact ds = true ->
  forall x y w h, rejects ds x y w h = false <-> (0 <= x < w /\ 0 <= y < h).
Proof. exact item_accepts_exactly. Qed.
(** the whole census, instantiated with the generated objects: written through one path and read through any other gives
    the value back at the same coordinate and leaves every other coordinate alone; a coordinate is accepted by one path
    iff it is accepted by every other and by frame[x, y] / frame[x, y] = p; all address the bytes of pixel_off; inside the array *)
Theorem c15_every_pixel_path_agrees :
  pixel_offsets_spec -> forallb path_ok gen_paths = true -> bounds_exact getitem_reject = true -> bounds_exact setitem_reject = true ->
  forall w h,
    (forall p q, In p gen_paths -> In q gen_paths -> forall f g (b : buf) x y c v,
        path_accepts p w h f x y c = path_accepts q w h g x y c
        /\ (path_accepts p w h f x y c = true ->
            bget (bset b (path_off p w h f x y c) v) (path_off q w h g x y c) = v
            /\ forall x' y' c', path_accepts q w h g x' y' c' = true -> (x', y', c') <> (x, y, c) ->
                 bget (bset b (path_off p w h f x y c) v) (path_off q w h g x' y' c') = bget b (path_off q w h g x' y' c')))
    /\ (forall p, In p gen_paths -> forall f x y c, 0 <= c < 4 ->
          (rejects getitem_reject x y w h = false <-> path_accepts p w h f x y c = true)
          /\ (rejects setitem_reject x y w h = false <-> path_accepts p w h f x y c = true)
          /\ path_off p w h f x y c = getitem_off x y w h + c
          /\ path_off p w h f x y c = setitem_off x y w h + c
          /\ (path_accepts p w h f x y c = true -> 0 <= path_off p w h f x y c < 4 * w * h)).
Proof. exact gen_every_pixel_path_agrees. Qed.
(** the shape of seeded fault c15_6 (rows and columns exchanged) on an 8x2 frame: the far corner is refused, a row below
    the frame is accepted, an accepted coordinate addresses another pixel *)
Theorem c15_transposed_path_refuted :
  path_ok transposed_path = false
  /\ inside 8 2 7 1 3 = true /\ path_accepts transposed_path 8 2 0 7 1 3 = false
  /\ inside 8 2 0 2 0 = false /\ path_accepts transposed_path 8 2 0 0 2 0 = true
  /\ path_accepts transposed_path 8 2 0 1 1 0 = true /\ path_off transposed_path 8 2 0 1 1 0 = canon_off 8 3 0 0
  /\ canon_off 8 1 1 0 <> canon_off 8 3 0 0.
Proof. exact transposed_path_refuted. Qed.
Example c15_path_ok_inhabited : path_ok good_path = true.
Proof. exact good_path_ok. Qed.
Theorem c15_rejecting_inside_refuted :
  bounds_exact [(BX, CLt, BZero); (BX, CGe, BWidth); (BY, CLt, BZero); (BY, CGe, BHeight); (BX, CGe, BHeight)] = false
  /\ rejects [(BX, CLt, BZero); (BX, CGe, BWidth); (BY, CLt, BZero); (BY, CGe, BHeight); (BX, CGe, BHeight)] 7 1 8 2 = true.
Proof. exact rejecting_inside_refuted. Qed.
(** every allocation of a pixel array ([_BLANK_PIXEL * n], [colour * n]) makes 4 * width * height bytes *)
Theorem c15_every_allocation_has_4wh_bytes :
  forallb (fun a => alloc_ok 4 (snd a)) gen_allocs = true ->
  forall a, In a gen_allocs -> forall w h f, prod_val (snd a) w h f = 4 * w * h.
Proof. exact gen_every_allocation_has_4wh_bytes. Qed.
Theorem c15_alloc_foreign_refuted : alloc_ok 1 [DW; DW] = false /\ prod_val [DW; DW] 8 2 0 <> 1 * 8 * 2.
Proof. exact alloc_foreign_refuted. Qed.
(** a whole pixel array is copied from another frame exactly when both have the same width and the same height *)
Theorem c15_every_frame_copy_is_between_equal_sizes :
  forallb (fun g => copy_guard_ok (snd g)) gen_copy_guards = true ->
  forall g, In g gen_copy_guards -> forall w h w' h', guard_rejects (snd g) w h w' h' = false <-> (w = w' /\ h = h').
Proof. exact gen_every_frame_copy_is_between_equal_sizes. Qed.
Theorem c15_copy_guard_width_only_refuted :
  copy_guard_ok [(GSelfW, GSrcW)] = false /\ guard_rejects [(GSelfW, GSrcW)] 8 2 8 4 = false.
Proof. exact copy_guard_width_only_refuted. Qed.

(** ** Round 4: the two keyed ("bluescreen") formats, until now only searched

    [save] stores a pixel whose alpha is below 128 as pure blue and any other pixel as its colour; [load] turns a stored
    pure blue into transparent black and anything else into the colour with alpha 255.  The per-pixel [if] statements are
    translated into [ETest] chains ([x < 128] = bit 7 clear, [x == c] = all eight bits agree: valid for bytes) and compared
    with the hand-written codec by [bs_ok] (instance obligation per format; [bgr] = stored as b, g, r). *)
Open Scope N_scope.
Theorem c15_bluescreen_load_of_save : forall bgr c, bs_ok bgr c = true ->
  forall r g b a, r < 256 -> g < 256 -> b < 256 -> a < 256 ->
    run (load_e c) (run (save_e c) [r; g; b; a]) = bluescreen_q r g b a
    /\ run (save_e c) [r; g; b; a] = in_order bgr (bluescreen_stored r g b a)
    /\ bytes (run (save_e c) [r; g; b; a]) /\ length (run (save_e c) [r; g; b; a]) = bpp c.
Proof. exact bs_load_of_save. Qed.
(** 8 bits per used channel: an opaque pixel (alpha >= 128) that is not the key colour keeps r, g, b exactly *)
Theorem c15_bluescreen_exact_on_opaque_non_blue : forall bgr c, bs_ok bgr c = true ->
  forall r g b a, r < 256 -> g < 256 -> b < 256 -> a < 256 -> 128 <= a -> (r, g, b) <> (0, 0, 255) ->
    run (load_e c) (run (save_e c) [r; g; b; a]) = [r; g; b; 255].
Proof. exact bs_exact_on_opaque_non_blue. Qed.
(** storing loaded pixels again changes nothing, for every three stored bytes; and a second round trip changes nothing *)
Theorem c15_bluescreen_stored_fixpoint : forall bgr c, bs_ok bgr c = true ->
  forall r g b, r < 256 -> g < 256 -> b < 256 ->
    run (save_e c) (run (load_e c) (in_order bgr [r; g; b])) = in_order bgr [r; g; b].
Proof. exact bs_stored_fixpoint. Qed.
Theorem c15_bluescreen_second_round_trip : forall bgr c, bs_ok bgr c = true ->
  forall r g b a, r < 256 -> g < 256 -> b < 256 -> a < 256 ->
    run (save_e c) (run (load_e c) (run (save_e c) [r; g; b; a])) = run (save_e c) [r; g; b; a].
Proof. exact bs_second_round_trip. Qed.
Example c15_bluescreen_inhabited : bs_ok false (bs_codec false) = true /\ bs_ok true (bs_codec true) = true /\ wf (bs_codec false) = true /\ wf (bs_codec true) = true.
Proof. exact bs_ok_inhabited. Qed.
(** the nearby wrong shape (alpha tested on bit 6) is not accepted and stores other bytes; and the documented behaviour is
    NOT the identity on an opaque pure-blue pixel: it comes back transparent black (the format cannot store it) *)
Theorem c15_bluescreen_wrong_bit_refuted :
  bs_ok false {| bpp := 3; save_e := bs_save_bit6; load_e := bs_load false |} = false
  /\ run bs_save_bit6 [1; 2; 3; 64] = [1; 2; 3] /\ bluescreen_stored 1 2 3 64 = [0; 0; 255]
  /\ run bs_save_bit6 [1; 2; 3; 128] = [0; 0; 255]
  /\ bluescreen_q 0 0 255 255 = [0; 0; 0; 0].
Proof. exact bs_wrong_bit_refuted. Qed.

(** ** Round 4: from one pixel to every frame of a file

    [encode_frame] / [decode_frame]: a frame is stored as the concatenation of its pixels' stored bytes (the only loop shape
    the codec translator accepts).  The per-pixel laws lifted to frames of any size, then composed with the container: *)
Theorem c15_frame_load_of_save : forall c q, rt_ok c q = true -> (0 < bpp c)%nat ->
  forall ps, Forall bytes ps ->
    decode_frame c (encode_frame c ps) = map (run q) ps
    /\ bytes (encode_frame c ps) /\ length (encode_frame c ps) = (bpp c * length ps)%nat.
Proof. exact frame_load_of_save. Qed.
Theorem c15_frame_stored_fixpoint : forall c q canon, rt_ok c q = true -> sf_ok c canon = true -> (0 < bpp c)%nat ->
  forall ps, Forall bytes ps ->
    encode_frame c (decode_frame c (encode_frame c ps)) = encode_frame c ps.
Proof. exact frame_stored_fixpoint. Qed.
(** 8 bits per used channel (identity specification): the whole frame comes back unchanged *)
Theorem c15_frame_exact : forall c, rt_ok c spec_rgba = true -> (0 < bpp c)%nat ->
  forall ps, Forall bytes ps -> Forall (fun p => length p = 4%nat) ps -> decode_frame c (encode_frame c ps) = ps.
Proof. exact frame_exact. Qed.
(** THE PIXEL HALF OF THE PROPERTY IN ONE STATEMENT.  Formats F, flag expressions G, side lists c, loop nests so/ro and the
    codec cd are the objects regenerated from the source; their boolean premises are instance obligations of every run.
    For any object version, written version, cubemap or volume, number of frames and levels, and any pixels: the file
    save() writes is decoded by read(), and for EVERY (frame, side/depth, mipmap) that read() visits, decoding the bytes it
    finds at the offset it computes gives, pixel by pixel, the documented quantisation [q] of the pixels that were saved
    (the identity on the used channels for the 8-bit formats: c15_spec_rgba ...). *)
Theorem c15_saved_pixels_read_back_73 : forall F G v low_size file c so ro cd q,
  fmts_wf F = true -> flags_ok G = true -> (3 <= v_minor v)%Z -> vfile_fits F G v = true ->
  sides_ok c = true -> lorder_eqb so ro = true ->
  rt_ok cd q = true -> (0 < bpp cd)%nat ->
  forall envmap object depth mips frames (pixels : key -> list (list N)) (npix : nat -> nat),
    (forall k, Forall bytes (pixels k)) -> (forall k, List.length (pixels k) = npix (k_mip k)) ->
    v_high v = map (fun k => encode_frame cd (pixels k)) (walk so mips frames (save_sides c envmap object (v_minor v) depth) key0) ->
    encode_file F G v = Some file ->
    (exists meta, decode_file F G low_size file = Some meta)
    /\ Forall (fun ok => decode_frame cd (slice file (fst ok) (bpp cd * npix (k_mip (snd ok)))) = map (run q) (pixels (snd ok)))
              (read_table ro mips frames (read_sides c envmap (v_minor v) depth) (fun m => (bpp cd * npix m)%nat) (high_off73 F v)).
Proof. exact saved_pixels_read_back_73. Qed.
Theorem c15_saved_pixels_read_back_pre73 : forall F G v file c so ro cd q,
  fmts_wf F = true -> (v_minor v < 3)%Z -> vfile_fits_old F v = true ->
  sides_ok c = true -> lorder_eqb so ro = true ->
  rt_ok cd q = true -> (0 < bpp cd)%nat ->
  forall envmap object depth mips frames (pixels : key -> list (list N)) (npix : nat -> nat),
    (forall k, Forall bytes (pixels k)) -> (forall k, List.length (pixels k) = npix (k_mip k)) ->
    v_high v = map (fun k => encode_frame cd (pixels k)) (walk so mips frames (save_sides c envmap object (v_minor v) depth) key0) ->
    encode_file F G v = Some file ->
    (exists meta, decode_file F G (List.length (v_low v)) file = Some meta)
    /\ Forall (fun ok => decode_frame cd (slice file (fst ok) (bpp cd * npix (k_mip (snd ok)))) = map (run q) (pixels (snd ok)))
              (read_table ro mips frames (read_sides c envmap (v_minor v) depth) (fun m => (bpp cd * npix m)%nat)
                          (hs_old F v + List.length (v_low v))%nat).
Proof. exact saved_pixels_read_back_pre73. Qed.
(** non-vacuity of the frame level: the identity codec on a frame of two pixels *)
Example c15_frame_inhabited :
  let c := {| bpp := 4; save_e := ident 4; load_e := ident 4 |} in
  rt_ok c spec_rgba = true /\ decode_frame c (encode_frame c [[1; 2; 3; 4]; [5; 6; 7; 8]]) = [[1; 2; 3; 4]; [5; 6; 7; 8]].
Proof. exact frame_inhabited. Qed.

(** ** Round 4: the frame table.  Every site of vtf.py that addresses [_frames] with a key (VTF.__init__, read, save,
    compute_mipmaps, get) is regenerated with the ROLE of each key element ([gen_key_sites]; roles from the loop that binds the
    name / the parameter it comes from); [key_ok] per site is an instance obligation. *)
Open Scope Z_scope.
Theorem c15_every_frame_key_agrees :
  forallb (fun k => key_ok (snd k)) gen_key_sites = true ->
  forall p q, In p gen_key_sites -> In q gen_key_sites ->
  forall f s m o o', key_of (snd p) f s m o = [f; s; m] /\ key_of (snd q) f s m o' = key_of (snd p) f s m o.
Proof. exact gen_every_frame_key_agrees. Qed.
Theorem c15_swapped_key_refuted : key_ok [KMip; KSide; KFrame] = false /\ key_of [KMip; KSide; KFrame] 0 0 1 0 = [1; 0; 0].
Proof. exact swapped_key_refuted. Qed.

(** VTF.clear_mipmaps(after=a): the comparison of its loop is regenerated ([gen_clear_after]); exactly the levels with index
    > a are erased (and regenerated from their parents by the chain theorem c15_save_writes_every_level), level a is kept *)
Theorem c15_clear_after_exact : forall c, clear_after_ok c = true -> forall after m, clears c after m = true <-> after < m.
Proof. exact clear_after_exact. Qed.
Theorem c15_clear_after_ge_refuted : clear_after_ok CGe = false /\ clears CGe 0 0 = true.
Proof. exact clear_after_ge_refuted. Qed.

(** ** Round 5: THE WHOLE PROPERTY IN ONE STATEMENT over the objects regenerated from the source on this run.
    [c15_generated_objects_ok cd q canon] (Fmt/VtfC15WholeProofs.v) is the conjunction of the boolean premises of the part
    theorems, instantiated with the generated record formats and flag expressions, side lists, loop nests, effect tables and
    exits by exception of the Frame methods, chain configuration, pixel paths, bounds tests and filter terms, and one generated
    codec [cd] with its specification [q] ([pixel_offsets_spec] and [scale_strides_spec] are the two facts about generated
    FORMULAS, universally quantified and therefore not booleans: the check discharges them by compiling their ring / lia proofs,
    obligations build:Fmt/VtfGenPixelOffsetIs4TimesYWidthPlusX.vo and build:Fmt/VtfGenScaleDownStridesSelectThe2x2ParentBlock.vo;
    the specification is the identity on the used channels for the formats with 8 bits per channel:
    c15_spec_rgba ...; the documented quantisation otherwise: c15_spec_565 ...) and canonical form [canon].  The check
    discharges it in the kernel for every writable format it has a specification for (instance obligations
    [all_premises_of_c15_property_hold_for_the_generated_objects_and_codec_<format>]; the two 565 formats are carved out by
    the known finding rgb565-rb-swap, the two bluescreen formats have their own theorems above).  Then, for files written by
    the model of save() with these objects: metadata, resources, sheet and thumbnail come back exactly and every frame's
    pixels are the specified quantisation (7.3+ and before); storing loaded pixels again changes nothing; save() writes for
    every mipmap level the file's bytes / the data / the average of the level above, and a rejected call in between changes
    this no more than load() does and leaves what the frame shows untouched; every pixel access path accepts exactly the
    coordinates of the frame and stays inside the array; generated mipmaps have halved sides and are block means.
    Semantic hypotheses that remain (visible inside the definitions): [vfile_fits] / [vfile_fits_old] (values fit their
    fields), the image part is the frames in save()'s loop order, pixels are bytes.  Trusted outside the statement: that
    [encode_file]/[decode_file] model VTF.save/VTF.read (tie: sites, flag trees, side lists, loop nests, event order,
    example files, two-way correspondence) and the classification done by the translators. *)
From SV Require Import Fmt.VtfC15WholeProofs.
Theorem c15_property : pixel_offsets_spec -> scale_strides_spec -> forall cd q canon, c15_generated_objects_ok cd q canon = true ->
  file_round_trip_73 cd q /\ file_round_trip_pre73 cd q /\ stored_again_unchanged cd
  /\ lifecycle_statement /\ access_statement /\ mipmap_statement.
Proof. exact whole_property. Qed.
