(** C13 — VPK archives return exactly what was last written, across reopen.
    Only statements here; proofs are in Fmt/VpkDirProofs.v, Fmt/VpkNameProofs.v and SM/VpkProofs.v. *)
From Coq Require Import List NArith Bool Permutation.
From SV Require Import Fmt.VpkDir Fmt.VpkDirProofs Fmt.VpkName Fmt.VpkNameSplit Fmt.VpkNameProofs SM.Vpk SM.VpkProofs.
From SV Require Import Fmt.VpkArchName Fmt.VpkArchNameProofs SM.VpkRefine Fmt.VpkDirV2.
From SV Require Import Fmt.VpkNameJoin Fmt.VpkNameJoinProofs SM.VpkPlaceTable SM.VpkPlaceTableProofs Fmt.VpkDirProg Fmt.VpkDirProgProofs Fmt.VpkDirRead Fmt.VpkDirReadProofs SM.VpkProperty SM.VpkGenMachine SM.VpkGenMachineProofs.
From SV Require Import Fmt.VpkNullStr Fmt.VpkNullStrProofs SM.VpkNested SM.VpkNestedProofs SM.VpkApi SM.VpkApiProofs SM.VpkNestedMap SM.VpkNestedMapProofs SM.VpkNestedSim SM.VpkNestedWf SM.VpkPlace SM.VpkPlaceProofs.
From SV Require Import SM.VpkWriteOrder SM.VpkWriteOrderProofs SM.VpkListing SM.VpkListingProofs.
Import ListNotations.
Open Scope N_scope.

(** What the theorems need of a configuration (checked on the instance generated from vpk.py). *)
Definition vcfg_ok (cf : vcfg) : bool :=
  dcfg_ok (v_dc cf) && (v_max_pre cf <=? 65535) && v_chk_idx cf && v_chk_name cf.

(** load_dirfile inverts write_dirfile: for every format instance with in-range constants, every grouped tree
    whose strings are representable (no NUL, not a single space) and whose archive indexes differ from the
    directory sentinel, and every footer: if write_dirfile does not raise (all fields fit), the bytes decode
    to the same entries in the same order (offset normalised to 0 where nothing is stored outside the tree)
    and the same footer. *)
Theorem c13_dirtree_roundtrip : forall c, dcfg_ok c = true -> forall t footer b,
  wf_tree c t -> enc_file c t footer = Some b ->
  dec_file c b = Some (nmap (flat_tree t), footer).
Proof. exact dirtree_roundtrip. Qed.

(** Grouping and sorting the table for writing neither loses nor invents an entry. *)
Theorem c13_tree_of_keeps_entries : forall tb, Permutation (flat_tree (tree_of tb)) tb.
Proof. exact tree_of_perm. Qed.

(** One FileInfo.write (when the checksum differs, otherwise the code does nothing): afterwards the file reads back
    exactly the data and verifies — for every placement: preload only, preload + directory tail (footer_data),
    preload + numbered archive, singular file; every dir_limit, every preload cap, every size. *)
Theorem c13_write_reads : forall crc cf st k i d ix,
  (crc d =? icrc i) = false ->
  let st' := do_write crc cf st k i d ix in
  exists i', alookup k (tbl st') = Some i' /\ read_info st' i' = d /\ verify_info crc st' i' = true.
Proof. exact write_reads. Qed.

(** write_dirfile followed by reopening in 'r' or 'a' mode: the call succeeds and the reopened archive has exactly
    the same files, each reading the same bytes with the same verify() result and checksum as before the save —
    wherever its data was placed.  Premises: distinct table keys, representable names, archive indexes below the
    directory sentinel (what new_file / write enforce), and write_dirfile not raising. *)
Theorem c13_save_reopen_reads : forall crc cf, dcfg_ok (v_dc cf) = true -> forall st st1 m,
  m <> MW -> NoDup (map fst (tbl st)) -> Forall (entry_wf (v_dc cf)) (tbl st) ->
  step crc cf st OSave = Some (st1, rOk) ->
  exists st2, step crc cf st1 (OReopen m) = Some (st2, rOk) /\ md st2 = m /\
    forall k, match alookup k (tbl st), alookup k (tbl st2) with
              | Some i, Some i2 => read_info st2 i2 = read_info st i
                                   /\ verify_info crc st2 i2 = verify_info crc st i /\ icrc i2 = icrc i
              | None, None => True
              | _, _ => False
              end.
Proof. exact save_reopen_reads. Qed.

(** Read-only archives reject every mutation: state unchanged, error result. *)
Theorem c13_readonly_rejects : forall crc cf st o,
  md st = MR -> mutating o = true ->
  exists c, step crc cf st o = Some (st, c) /\ (c = rReadOnly \/ c = rMissing).
Proof. exact readonly_rejects. Qed.

(** 'd/n.e', ('d', 'n.e') and ('d', 'n', 'e') resolve to the same entry, for every os.path.normpath. *)
Theorem c13_name_forms_agree : forall normpath s,
  let '(h, t) := split_path s in
  let '(n, e) := split_ext t [] in
  file_parts normpath (NPair h t) = file_parts normpath (NStr s)
  /\ ((e = [] -> rsplit1 46 n = None) -> file_parts normpath (NTriple h n e) = file_parts normpath (NStr s)).
Proof. exact name_forms_agree. Qed.

(** The carved-out name class is a real disagreement (known finding name-trailing-dot). *)
Theorem c13_name_forms_trailing_dot_refuted :
  let s := [97; 47; 98; 46; 99; 46] in
  file_parts posix_normpath (NStr s) = ([], [97], [98; 46; 99])
  /\ file_parts posix_normpath (NTriple [97] [98; 46; 99] []) = ([99], [97], [98]).
Proof. exact name_forms_trailing_dot_refuted. Qed.

(** Non-vacuity: a concrete history over all four placements runs in the model, write_dirfile succeeds, and the
    reopened archive reads back every file (computed with the real CRC-32). *)
Theorem c13_example_history_runs : example_history_ok = true.
Proof. exact example_history_ok_true. Qed.

(** The same over the split statement of _get_file_parts as read from the source (Gen/VpkPlace_gen.v g_ext_split):
    whenever it cuts at the last '.', the three forms agree ... *)
Theorem c13_name_forms_agree_k : forall normpath k, split_kind_ok k = true -> forall s,
  let '(h, t) := split_path s in
  let '(n, e) := split_ext t [] in
  file_parts_k normpath k (NPair h t) = file_parts_k normpath k (NStr s)
  /\ ((e = [] -> rsplit1 46 n = None) -> file_parts_k normpath k (NTriple h n e) = file_parts_k normpath k (NStr s)).
Proof. exact name_forms_agree_k. Qed.

(** ... and cutting at the first '.' (str.partition) makes 'a/b.c.d' and ('a', 'b.c', 'd') different files. *)
Theorem c13_name_forms_first_dot_refuted :
  let s := [97; 47; 98; 46; 99; 46; 100] in
  split_kind_ok (SplitFirst 46) = false
  /\ file_parts_k posix_normpath (SplitFirst 46) (NStr s) = ([99; 46; 100], [97], [98])
  /\ file_parts_k posix_normpath (SplitFirst 46) (NTriple [97] [98; 46; 99] [100]) = ([100], [97], [98; 46; 99]).
Proof. exact name_forms_first_dot_refuted. Qed.

(** ---- archive file names (Fmt/VpkArchName.v; the instance is Gen/VpkArchName_gen.v g_ncfg) ---- *)

(** The filename setter: [P ++ '_dir.vpk'] has directory prefix [P], and no other file name has a prefix. *)
Theorem c13_dir_prefix_exact : forall c, setter_ok c = true ->
  (forall P, dir_prefix_of c (P ++ n_suffix c) = Some P)
  /\ (forall f p, dir_prefix_of c f = Some p -> f = p ++ n_suffix c).
Proof. intros c H. split; [exact (dir_prefix_of_dir c H)|exact (dir_prefix_of_inv c H)]. Qed.

(** For every file name of a directory VPK and every index, FileInfo.write appends to exactly the file that FileInfo.read
    and FileInfo.verify open, namely get_arch_filename(prefix, index); and get_arch_filename(prefix) is the directory file. *)
Theorem c13_arch_names_coincide : forall c, ncfg_ok c = true -> forall f p i,
  dir_prefix_of c f = Some p ->
  site_name c f (n_writer c) i = Some (arch_filename c p (Some i))
  /\ Forall (fun r => site_name c f r i = Some (arch_filename c p (Some i))) (n_readers c)
  /\ arch_filename c p None = f.
Proof. exact arch_names_coincide. Qed.

(** Distinct indexes are distinct files, and none of them is the directory file (what SM/Vpk.v assumes by keeping the
    archives in a map from index to contents next to the directory file). *)
Theorem c13_arch_filename_inj : forall c, numbered_ok c = true -> forall p i j,
  arch_filename c p (Some i) = arch_filename c p (Some j) -> i = j.
Proof. exact arch_filename_inj. Qed.
Theorem c13_arch_filename_not_dir : forall c, numbered_ok c = true -> forall p i,
  arch_filename c p (Some i) <> arch_filename c p None.
Proof. exact arch_filename_not_dir. Qed.

(** Deriving the reader's prefix by character stripping (rstrip('_dir')) is refuted: 'world_dir.vpk' writes 'world_000.vpk'
    and reads 'worl_000.vpk'; the condition [ncfg_ok] rejects that configuration. *)
Theorem c13_arch_names_rstrip_refuted :
  let c := ex_ncfg reader_rstrip in
  let f := [119; 111; 114; 108; 100] ++ s_dir_vpk in
  ncfg_ok c = false
  /\ site_name c f (n_writer c) 0 = Some ([119; 111; 114; 108; 100; 95; 48; 48; 48] ++ s_vpk)
  /\ site_name c f reader_rstrip 0 = Some ([119; 111; 114; 108; 95; 48; 48; 48] ++ s_vpk).
Proof. exact arch_names_rstrip_refuted. Qed.

(** ---- the whole-history statement (SM/VpkRefine.v: invariant + induction over the operation list) ---- *)

(** [vpk_refines_map].  For every configuration that validates archive indexes and names (the generated one does:
    instance obligation), every sequence of new_file / add_file / FileInfo.write / del / write_dirfile / reopen('r'|'w'|'a')
    on a fresh archive, for every placement, dir_limit and size: if no write_dirfile raises struct.error ([run] is not
    [None]) and the data values of the history, together with the empty string, do not collide under the checksum
    (FileInfo.write skips a write whose checksum equals the stored one), then every operation returns the result code of the
    specification map, and afterwards the archive is in the same mode, lists exactly the names of the map, and every file
    reads back exactly the map's bytes and passes verify(). *)
Theorem c13_vpk_refines_map : forall crc cf, vcfg_ok cf = true -> forall ops st codes,
  collision_free crc ops ->
  run crc cf init ops = Some (st, codes) ->
  let '(s, scodes) := srun cf sinit ops in
  codes = scodes /\ md st = smd s /\ Permutation (map fst (tbl st)) (map fst (cur s)) /\
  forall k, match alookup k (tbl st), alookup k (cur s) with
            | Some i, Some d => read_info st i = d /\ verify_info crc st i = true
            | None, None => True
            | _, _ => False
            end.
Proof. exact vpk_refines_map. Qed.

(** The property's observation point: any history that leaves the archive writable, then write_dirfile, then reopening in
    'r' or 'a' mode: both succeed, and the reopened archive lists exactly the files that should exist, each reading back
    the bytes last written to it and verifying. *)
Theorem c13_history_save_reopen : forall crc cf, vcfg_ok cf = true -> forall ops m st codes,
  m <> MW -> collision_free crc ops ->
  run crc cf init (ops ++ [OSave; OReopen m]) = Some (st, codes) ->
  let '(s0, c0) := srun cf sinit ops in
  writable (smd s0) = true ->
  codes = c0 ++ [rOk; rOk] /\ md st = m /\ Permutation (map fst (tbl st)) (map fst (cur s0)) /\
  forall k, match alookup k (tbl st), alookup k (cur s0) with
            | Some i, Some d => read_info st i = d /\ verify_info crc st i = true
            | None, None => True
            | _, _ => False
            end.
Proof. exact vpk_history_save_reopen. Qed.

(** The collision premise is decidable on a concrete history ... *)
Theorem c13_collision_freeb_sound : forall crc ops, collision_freeb crc ops = true -> collision_free crc ops.
Proof. exact collision_freeb_sound. Qed.

(** ... and the premises are satisfiable: the example history (all four placements, an overwrite, save, reopen) with the
    real CRC-32. *)
Theorem c13_refines_premises_satisfiable :
  vcfg_okb ex_cfg = true /\ collision_freeb crc32 ex_ops = true
  /\ match run crc32 ex_cfg init ex_ops with Some _ => true | None => false end = true.
Proof. exact refines_example. Qed.

(** ---- version 2 directory files (read side; write_dirfile refuses them) ---- *)

(** The four extra header fields of version 2 are skipped and the entries preserved: a version-2 file with the tree and
    trailing bytes that write_dirfile produces decodes to the same entries and footer_data, whatever the fields hold. *)
Theorem c13_dirtree_roundtrip_v2 : forall c, dcfg_ok c = true -> forall t h1 h2 h3 h4 footer b,
  h1 < 4294967296 -> h2 < 4294967296 -> h3 < 4294967296 -> h4 < 4294967296 ->
  wf_tree c t -> enc_file_v2 c t h1 h2 h3 h4 footer = Some b ->
  dec_file_v c b = Some (2, nmap (flat_tree t), footer).
Proof. exact dirtree_roundtrip_v2. Qed.

(** The two-version decoder agrees with the version-1 decoder the other theorems are about. *)
Theorem c13_dec_file_v_extends_v1 : forall c bs es f, dec_file c bs = Some (es, f) -> dec_file_v c bs = Some (1, es, f).
Proof. exact dec_file_v_v1. Qed.

(** ---- the NUL-terminated strings of the tree (Fmt/VpkNullStr.v; the instance is Gen/VpkNullStr_gen.v g_ncodec) ---- *)

(** The reader shapes accepted by [reader_ok] (one byte at a time, or blocks of a positive size in a loop) take exactly the bytes
    up to the next NUL off the file, whatever their number, and fail exactly when there is none: they are [read_cstr], the reader
    the directory codec is defined with, on every input. *)
Theorem c13_nullstr_reader_shapes : forall r, reader_ok r = true -> forall bs, read_cstr_r r bs = read_cstr bs.
Proof. exact reader_ok_is_read_cstr. Qed.

(** If the translated description of _write_nullstring / iter_nullstr satisfies [ncodec_ok] (instance obligation), the two
    functions are the [write_cstr] / [next_str] of Fmt/VpkDir.v that c13_dirtree_roundtrip and the whole-history theorems use. *)
Theorem c13_nullstr_codec_is_model : forall k, ncodec_ok k = true ->
  (forall s, write_cstr_k k s = write_cstr s) /\ (forall bs, next_str_k k bs = next_str bs).
Proof. exact ncodec_ok_is_model. Qed.

(** Every representable tree string (no NUL, bytes < 256, not the single space) of ANY length is read back, followed by anything. *)
Theorem c13_nullstr_roundtrip : forall k, ncodec_ok k = true -> forall s rest, str_ok s = true ->
  next_str_k k (write_cstr_k k s ++ rest) = Some (Some s, rest).
Proof. exact nullstr_roundtrip. Qed.

(** A whole section: the generator yields exactly the strings written, in order, and leaves the file right after the terminator. *)
Theorem c13_nullstr_section_roundtrip : forall k, ncodec_ok k = true -> forall l rest, forallb str_ok l = true ->
  iter_nullstr_k k (write_section_k k l ++ rest) = Some (l, rest).
Proof. exact nullstr_section_roundtrip. Qed.

(** A reader that searches one block of n bytes only cannot read any NUL-free string of n or more bytes: for every block size
    there are names the writer accepts and the archive cannot be reopened with (seeded fault c13_4 is n = 256). *)
Theorem c13_nullstr_block_reader_refuted : forall n s rest,
  forallb (fun b => negb (b =? 0)) s = true -> (N.to_nat n <= length s)%nat ->
  read_cstr_r (RBlock n) (s ++ 0 :: rest) = None.
Proof. exact block_reader_refuted. Qed.

Theorem c13_nullstr_block_256_refuted :
  let s := repeat 97 256 in
  str_ok s = true /\ next_str (write_cstr s ++ [7]) = Some (Some s, [7])
  /\ next_str_k (ncodec_block 256) (write_cstr_k (ncodec_block 256) s ++ [7]) = None
  /\ ncodec_ok (ncodec_block 256) = false
  /\ next_str_k (ncodec_block 256) (write_cstr_k (ncodec_block 256) (repeat 97 255) ++ [7]) = Some (Some (repeat 97 255), [7]).
Proof. exact block_256_refuted. Qed.

(** Non-vacuity of [ncodec_ok]; a looping block reader is accepted. *)
Theorem c13_nullstr_premises_satisfiable : ncodec_ok ncodec_pinned = true
  /\ reader_ok (RBlockLoop 256) = true
  /\ iter_nullstr_k ncodec_pinned (write_section_k ncodec_pinned [[116; 120; 116]; []; repeat 101 300] ++ [1; 2])
     = Some ([[116; 120; 116]; []; repeat 101 300], [1; 2]).
Proof. exact ncodec_pinned_ok. Qed.

(** ---- the nested dicts _fileinfo[ext][folder][name] and the clean-up of VPK.__delitem__ (SM/VpkNested.v; Gen/VpkNested_gen.v g_del_prog) ---- *)

(** For every clean-up program that only ever pops empty dicts ([prog_safe]: complete enumeration of what its emptiness tests can
    observe; instance obligation on the program compiled from __delitem__) and every nested tree: the delete raises KeyError exactly
    when the flat table has no such file, and otherwise the files left are exactly those the flat delete [adel] of SM/Vpk.v leaves
    (same entries, same order) — no other file of the folder, the extension or the archive disappears. *)
Theorem c13_nested_delete_is_flat_delete : forall prog, prog_safe prog = true -> forall t k,
  match ndel prog t k with
  | Some t' => alookup k (flat_tree t) <> None /\ flat_tree t' = adel k (flat_tree t)
  | None => alookup k (flat_tree t) = None
  end.
Proof. exact ndel_is_adel. Qed.

(** The same on the nested dicts that hold a table of the state machine ([tree_of tb], the tree write_dirfile walks). *)
Theorem c13_nested_delete_on_table : forall prog, prog_safe prog = true -> forall tb k,
  match ndel prog (tree_of tb) k with
  | Some t' => alookup k tb <> None /\ Permutation (flat_tree t') (adel k tb)
  | None => alookup k tb = None
  end.
Proof. exact ndel_tree_of. Qed.

(** The pinned clean-up is accepted and leaves no empty dict behind. *)
Theorem c13_nested_delete_pinned_ok : prog_safe del_prog_pinned = true /\ prog_tidy del_prog_pinned = true.
Proof. exact del_prog_pinned_safe. Qed.

(** Testing the files dict a second time instead of the folders dict (seeded fault c13_3) is rejected by [prog_safe], and deleting
    a/x.t then also removes b/y.t. *)
Theorem c13_nested_delete_wrong_test_refuted :
  prog_safe del_prog_c13_3 = false
  /\ option_map (@flat_tree) (ndel del_prog_c13_3 ex_tree ([116], [97], [120])) = Some []
  /\ adel ([116], [97], [120]) (flat_tree ex_tree) = [(([116], [98], [121]), ex_info)]
  /\ option_map (@flat_tree) (ndel del_prog_pinned ex_tree ([116], [97], [120])) = Some [(([116], [98], [121]), ex_info)].
Proof. exact del_prog_c13_3_refuted. Qed.

(** ---- the API around the state machine: with-blocks, load_dirfile() on the same object (SM/VpkApi.v; Gen/VpkApi_gen.v g_exit_table) ---- *)

(** The whole-history statement over the extended operations.  For every table of what VPK.__exit__ does that is accepted by
    [exit_table_ok] (complete enumeration of "exception in flight or not" x "mode writable or not": write_dirfile() is called once when
    there is no exception and the mode is writable, never otherwise, and the exception is not swallowed; instance obligation on the
    table computed from the source), every sequence of the six operations, leaving a with-block normally or by an exception, and
    load_dirfile() called again on the same object, refines the specification map exactly as in c13_vpk_refines_map.
    [xrun] is [None] also when such a load_dirfile() fails half-way (it leaves the object emptied, which the model does not follow). *)
Theorem c13_api_refines_map : forall et crc cf, exit_table_ok et = true -> vcfg_ok cf = true -> forall xs st codes,
  collision_free crc (xplain xs) ->
  xrun et crc cf init xs = Some (st, codes) ->
  let '(s, scodes) := sxrun cf sinit xs in
  codes = scodes /\ md st = smd s /\ Permutation (map fst (tbl st)) (map fst (cur s)) /\
  forall k, match alookup k (tbl st), alookup k (cur s) with
            | Some i, Some d => read_info st i = d /\ verify_info crc st i = true
            | None, None => True
            | _, _ => False
            end.
Proof. exact vpk_api_refines_map. Qed.

(** `with VPK(path, mode='w'|'a') as v: ...` left normally, then the archive opened again for reading or appending: it lists exactly
    the files that should exist, each reading back the bytes last written to it and verifying. *)
Theorem c13_with_block_saves : forall et crc cf, exit_table_ok et = true -> vcfg_ok cf = true -> forall xs m st codes,
  m <> MW -> collision_free crc (xplain xs) ->
  xrun et crc cf init (xs ++ [XExit true; XOp (OReopen m)]) = Some (st, codes) ->
  let '(s0, c0) := sxrun cf sinit xs in
  writable (smd s0) = true ->
  codes = c0 ++ [rOk; rOk] /\ md st = m /\ Permutation (map fst (tbl st)) (map fst (cur s0)) /\
  forall k, match alookup k (tbl st), alookup k (cur s0) with
            | Some i, Some d => read_info st i = d /\ verify_info crc st i = true
            | None, None => True
            | _, _ => False
            end.
Proof. exact vpk_with_block_saves. Qed.

(** A block left by an exception writes nothing. *)
Theorem c13_with_block_exception_writes_nothing : forall et crc cf st, exit_table_ok et = true ->
  xstep et crc cf st (XExit false) = Some (st, rOk).
Proof. exact vpk_with_block_exception. Qed.

(** The pinned __exit__ is accepted; saving also while an exception is in flight, or never saving, is not. *)
Theorem c13_exit_tables_computed :
  exit_table_ok exit_table_pinned = true /\ exit_table_ok exit_table_always = false /\ exit_table_ok exit_table_never = false
  /\ mode_table_ok false true true = true.
Proof. exact exit_tables_computed. Qed.

(** ---- the nested dicts are a finite map (SM/VpkNestedMap.v; Gen/VpkNested_gen.v g_ins_ext / g_ins_dir / g_del_prog) ---- *)

(** The three laws of a finite map for lookup as __getitem__ / __contains__ do it (first entry with the key at each of the three
    levels), insertion as new_file does it and deletion as __delitem__ does it — for every tree (no well-formedness assumption), every
    description of the two get-or-create steps of new_file accepted by [goc_ok] (the dict found is reused, a missing one is created and
    stored) and every clean-up program accepted by [prog_safe]; both are instance obligations on what the translator reads from the
    source. *)
Theorem c13_nested_map_empty : forall k, nlookup [] k = None.
Proof. exact nlookup_nil. Qed.

Theorem c13_nested_map_lookup_after_new_file : forall g1 g2, goc_ok g1 = true -> goc_ok g2 = true -> forall t k i,
  exists t', nins g1 g2 t k i = Some t' /\ forall k', nlookup t' k' = if key_eqb k' k then Some i else nlookup t k'.
Proof. exact nlookup_nins. Qed.

Theorem c13_nested_map_lookup_after_delete : forall prog, prog_safe prog = true -> forall t k,
  match ndel prog t k with
  | Some t' => forall k', nlookup t' k' = if key_eqb k' k then None else nlookup t k'
  | None => nlookup t k = None
  end.
Proof. exact nlookup_ndel. Qed.

(** A fresh extension dict on every new_file loses the other files of the extension; a new folder dict that is not stored loses the
    file just added; both descriptions are rejected by [goc_ok]. *)
Theorem c13_nested_insert_refuted :
  goc_ok goc_pinned = true /\ goc_ok goc_always_new = false /\ goc_ok goc_forgets_store = false
  /\ option_map (fun t => nlookup t ([116], [97], [120])) (nins goc_always_new goc_pinned ex_t2 ([116], [99], [122]) ex_info) = Some None
  /\ option_map (fun t => nlookup t ([116], [97], [120])) (nins goc_pinned goc_pinned ex_t2 ([116], [99], [122]) ex_info) = Some (Some ex_info)
  /\ option_map (fun t => nlookup t ([116], [99], [122])) (nins goc_pinned goc_forgets_store ex_t2 ([116], [99], [122]) ex_info) = Some None.
Proof. exact goc_refuted. Qed.

(** ---- the nested dicts simulate the table of the state machine (SM/VpkNestedSim.v) ---- *)

(** [nrel t tb]: looking a name up in the nested dicts gives what the table of SM/Vpk.v holds for it.  It holds for the empty archive
    and is preserved by new_file / an in-place update of an entry ([aset] on the table) and by __delitem__ ([adel]), for the
    translated descriptions of both; a KeyError from the nested delete implies that the table has no such file. *)
Theorem c13_nested_simulates_table_empty : nrel [] [].
Proof. exact nrel_nil. Qed.

Theorem c13_nested_simulates_table_new_file : forall g1 g2, goc_ok g1 = true -> goc_ok g2 = true -> forall t tb k i, nrel t tb ->
  exists t', nins g1 g2 t k i = Some t' /\ nrel t' (aset k i tb).
Proof. exact nrel_nins. Qed.

Theorem c13_nested_simulates_table_delete : forall prog, prog_safe prog = true -> forall t tb k, nrel t tb ->
  match ndel prog t k with
  | Some t' => nrel t' (adel k tb)
  | None => alookup k tb = None
  end.
Proof. exact nrel_ndel. Qed.

(** ---- Python dicts have no two entries with one key: what __iter__ walks is the table (SM/VpkNestedWf.v) ---- *)

(** [tree_wf] (distinct keys at each of the three levels) holds for the empty archive and is kept by new_file and __delitem__. *)
Theorem c13_nested_wf_invariant :
  tree_wf []
  /\ (forall g1 g2, goc_ok g1 = true -> goc_ok g2 = true -> forall t k i t', tree_wf t -> nins g1 g2 t k i = Some t' -> tree_wf t')
  /\ (forall prog t k t', tree_wf t -> ndel prog t k = Some t' -> tree_wf t').
Proof. split; [exact tree_wf_nil|]. split; [exact tree_wf_nins|exact tree_wf_ndel]. Qed.

(** For such nested dicts related to a table of the state machine: the files __iter__ / __len__ / filenames() walk ([flat_tree], the
    three-level walk the listing obligations establish) are exactly the table's names, none twice, each with the table's entry ... *)
Theorem c13_nested_walk_is_table : forall t tb, tree_wf t -> nrel t tb -> NoDup (map fst tb) ->
  Permutation (map fst (flat_tree t)) (map fst tb) /\ forall k, alookup k (flat_tree t) = alookup k tb.
Proof. exact wf_walk_is_table. Qed.

(** ... and __delitem__ raises KeyError exactly when the table has no such file. *)
Theorem c13_nested_delete_raises_iff_missing : forall prog, prog_safe prog = true -> forall t tb k, tree_wf t -> nrel t tb ->
  (ndel prog t k = None <-> alookup k tb = None).
Proof. exact wf_ndel_exact. Qed.

(** Every sequence of new_file / in-place updates of an entry / deletes from the empty archive: no insertion raises, and what __iter__
    walks afterwards is exactly the table SM/Vpk.v holds after the same [aset]/[adel] operations. *)
Theorem c13_nested_history_lists_table : forall g1 g2 prog, goc_ok g1 = true -> goc_ok g2 = true -> prog_safe prog = true -> forall ops,
  exists t, nt_run g1 g2 prog [] ops = Some t
  /\ Permutation (map fst (flat_tree t)) (map fst (tb_run [] ops))
  /\ forall k, alookup k (flat_tree t) = alookup k (tb_run [] ops).
Proof. exact nested_history_lists_table. Qed.

(** ---- where FileInfo.write puts the data, as a decision table (SM/VpkPlace.v; Gen/VpkPlace_gen.v g_place_table) ---- *)

(** [want_cut] / [want_dest], against which the table obtained by executing FileInfo.write on symbolic values is compared
    ([place_table_ok], instance obligation), are exactly what [write_info] of the state machine does: for every configuration, state,
    entry, data and index with a changed checksum, the preload is the data up to the cut (the limit if the VPK is a directory with a
    limit <= MAX_PRELOAD, MAX_PRELOAD otherwise), the stored length is that of the rest, and the rest goes nowhere (empty), to the end
    of footer_data with the old length as offset (singular, no limit, or no index), or to the end of archive [x] with its old length
    as offset. *)
Theorem c13_write_placement_is_table : forall crc cf st i d ix, (crc d =? icrc i) = false ->
  let cut := cut_val cf (want_cut (v_is_dir cf) (class_of cf)) in
  let tail := skipn (N.to_nat cut) d in
  let dest := want_dest (v_is_dir cf) (class_of cf) (is_none ix) (is_nil' tail) in
  let '(st', i') := write_info crc cf st i d ix in
  icrc i' = crc d /\ ipre i' = firstn (N.to_nat cut) d /\ ilen i' = len tail /\
  match dest with
  | DNone => st' = st /\ iidx i' = None /\ ioff i' = 0
  | DFooter => foot st' = foot st ++ tail /\ archs st' = archs st /\ tbl st' = tbl st /\ iidx i' = None /\ ioff i' = len (foot st)
  | DArch => exists x, ix = Some x /\ archs st' = arch_app x tail (archs st) /\ foot st' = foot st /\ tbl st' = tbl st
                       /\ iidx i' = Some x /\ ioff i' = len (arch_get x (archs st))
  | DOther => False
  end.
Proof. exact write_info_want. Qed.

(** The table of the pinned code is accepted; a table without the cap at MAX_PRELOAD (defect 20 of round 1) and one that drops the rest
    of a file written with arch_index None (defect 19) are rejected, as is an incomplete table. *)
Theorem c13_place_tables_computed :
  place_table_ok table_pinned = true /\ length table_pinned = 24%nat
  /\ place_cut_ok table_no_cap = false /\ place_dest_ok table_tail_dropped = false /\ place_table_ok [] = false.
Proof. exact place_tables_computed. Qed.

(** [want_src], against which the table obtained by executing FileInfo.read and FileInfo.verify on symbolic values is compared
    ([read_table_ok], instance obligation: nothing after start_data when arch_len is 0, the slice of footer_data at the stored offset
    when the index is None, otherwise the stored number of bytes at the stored offset of the archive with the stored index; verify()
    takes the checksum of the same bytes), is [read_info] / [verify_info] of the state machine. *)
Theorem c13_read_source_is_table : forall crc st i,
  read_info st i = ipre i ++ match want_src (ilen i =? 0) (is_none (iidx i)) with
                            | RNone => []
                            | RFooter => slice (foot st) (ioff i) (ilen i)
                            | RArch => match iidx i with Some x => slice (arch_get x (archs st)) (ioff i) (ilen i) | None => [] end
                            | ROther => []
                            end
  /\ verify_info crc st i = (crc (read_info st i) =? icrc i).
Proof. exact read_info_want. Qed.

Theorem c13_read_tables_computed :
  read_table_ok rtable_pinned = true
  /\ read_table_ok [mkRRow false false RArch ROther; mkRRow false true RFooter RFooter; mkRRow true false RNone RNone; mkRRow true true RNone RNone] = false
  /\ read_table_ok [mkRRow false false RArch RArch] = false.
Proof. exact read_tables_computed. Qed.

(** ---- the two name helpers as read from the source (Fmt/VpkNameJoin.v; Gen/VpkNames_gen.v g_join_table / g_parts) ---- *)

(** Every table obtained by executing _join_file_parts on symbolic strings (eight combinations of empty / non-empty folder, stem,
    extension) that is accepted by [join_table_ok] (instance obligation) is [join_parts] of the model on every key: folder and '/' when
    there is a folder, the stem, '.' and the extension when there is an extension. *)
Theorem c13_join_table_is_model : forall tb, join_table_ok tb = true -> forall k, join_k tb k = Some (join_parts k).
Proof. exact join_table_ok_is_join_parts. Qed.

(** Every description of _get_file_parts (sources of folder / file name / extension for the three name forms, split statement reached,
    chain of operations on the folder, order of the result) accepted by [gparts_ok] (instance obligation) is [file_parts_k] of the model
    for every normpath, every split statement and every name form. *)
Theorem c13_get_parts_description_is_model : forall g, gparts_ok g = true -> forall normpath k f,
  file_parts_g normpath k g f = file_parts_k normpath k f.
Proof. exact gparts_ok_is_file_parts. Qed.

(** _get_file_parts o _join_file_parts = id on the keys that can be listed: the name filenames() / FileInfo.filename show for an entry
    resolves back to that entry, for every os.path.normpath.  [key_listable]: the folder is in the form _get_file_parts returns, stem and
    extension contain no '/', the extension no '.', and (the carve-out, exactly the known finding name-trailing-dot) a stem containing
    '.' has an extension. *)
Theorem c13_listed_name_resolves : forall normpath k, key_listable normpath k -> file_parts normpath (NStr (join_parts k)) = k.
Proof. exact parts_of_join. Qed.

(** The same about the generated objects of both helpers and the translated split statement. *)
Theorem c13_generated_listed_name_resolves : forall normpath sk g tb,
  split_kind_ok sk = true -> gparts_ok g = true -> join_table_ok tb = true ->
  forall k, key_listable normpath k -> exists s, join_k tb k = Some s /\ file_parts_g normpath sk g (NStr s) = k.
Proof. exact generated_parts_of_join. Qed.

(** _join_file_parts o _get_file_parts = id on names in the listed form (folder as _get_file_parts returns it, one '/', the file name)
    whose file name does not end in '.'. *)
Theorem c13_join_of_parts : forall normpath s h t, split_path s = (h, t) -> norm_dir normpath h = h ->
  s = h ++ (match h with [] => [] | _ => [47] end) ++ t -> (forall a, rsplit1 46 t <> Some (a, [])) ->
  join_parts (file_parts normpath (NStr s)) = s.
Proof. exact join_of_parts. Qed.

(** The pinned table is accepted; the table of seeded fault c13_5 ('/'.join(filter(None, (path, filename))): the separator is dropped
    with a blank stem) is rejected, and lists the dot-file ('a', '', 't') as 'a.t', which resolves to ('', 'a', 't'). *)
Theorem c13_join_tables_computed :
  join_table_ok join_table_pinned = true /\ join_table_ok join_table_c13_5 = false /\ join_table_ok [] = false
  /\ join_k join_table_c13_5 ([116], [97], []) = Some [97; 46; 116]
  /\ join_parts ([116], [97], []) = [97; 47; 46; 116]
  /\ file_parts posix_normpath (NStr [97; 46; 116]) = ([116], [], [97]).
Proof. exact join_tables_computed. Qed.

Theorem c13_get_parts_descriptions_computed :
  gparts_ok gparts_pinned = true /\ gparts_ok gparts_triple_ext_dropped = false
  /\ file_parts_g posix_normpath (SplitLast 46) gparts_triple_ext_dropped (NTriple [97] [98] [116]) = ([], [97], [98]).
Proof. exact gparts_computed. Qed.

(** The carve-out is exact: 'a/b.c.' is stored as (ext '', stem 'b.c'), listed as 'a/b.c', which resolves to (ext 'c', stem 'b'). *)
Theorem c13_listed_name_trailing_dot_refuted :
  file_parts posix_normpath (NStr [97; 47; 98; 46; 99; 46]) = ([], [97], [98; 46; 99])
  /\ join_parts ([], [97], [98; 46; 99]) = [97; 47; 98; 46; 99]
  /\ file_parts posix_normpath (NStr [97; 47; 98; 46; 99]) = ([99], [97], [98])
  /\ jhas 46 [98; 46; 99] = true.
Proof. exact parts_of_join_trailing_dot_refuted. Qed.

(** Non-vacuity: 'a/b.txt', the dot-file 'cfg/.g' in a sub-folder and '' are listable. *)
Theorem c13_key_listable_examples :
  key_listable posix_normpath ([116; 120; 116], [97], [98]) /\ key_listable posix_normpath ([103], [99; 102; 103], [])
  /\ key_listable posix_normpath ([], [], []).
Proof. exact key_listable_examples. Qed.

(** ---- the decision tables have a meaning of their own (SM/VpkPlaceTable.v) ---- *)

(** FileInfo.write run *from the placement table* ([write_info_t]: pick the row of the situation, cut where it says, put the rest where it
    says, store the index and offset it says) is [write_info] of the state machine, for every table accepted by [place_table_ok] and
    every configuration, state, entry, data and index. *)
Theorem c13_write_table_is_write_info : forall pt, place_table_ok pt = true -> forall crc cf st i d ix,
  write_info_t pt crc cf st i d ix = Some (write_info crc cf st i d ix).
Proof. exact write_info_t_is_write_info. Qed.

(** FileInfo.read / verify run from the read table are [read_info] / [verify_info]. *)
Theorem c13_read_table_is_read_info : forall rt, read_table_ok rt = true -> forall crc st i,
  read_info_t rt st i = Some (read_info st i) /\ verify_info_t rt crc st i = Some (verify_info crc st i).
Proof. exact read_info_t_is_read_info. Qed.

(** ---- write_dirfile / load_dirfile as programs read from the source (Fmt/VpkDirProg.v, Fmt/VpkDirRead.v; Gen/VpkDirProg_gen.v) ---- *)

(** The statements of write_dirfile inside its with-block, compiled to a program and run on a file buffer with a cursor: every program
    accepted by [wprog_ok] leaves exactly [enc_file] in the file (or raises struct.error exactly when [enc_file] is [None]) — header, mark,
    loops extension > folder > file over sorted dicts skipping empty ones, string / entry / preload, one NUL after each level, tree
    length measured before footer_data is written and patched in at offset 8. *)
Theorem c13_write_dirfile_program_is_encoder : forall p, wprog_ok p = true -> forall c t footer, wexec c footer p t = enc_file c t footer.
Proof. exact wprog_ok_is_enc_file. Qed.

(** The statements of load_dirfile after the file is opened: every program accepted by [rprog_ok] returns what [dec_file_v] returns on
    every input (well-formed or not; versions 1 and 2). *)
Theorem c13_load_dirfile_program_is_decoder : forall p, rprog_ok p = true -> forall c bs, rexec c p bs = dec_file_v c bs.
Proof. exact rprog_ok_is_dec_file_v. Qed.

(** The translated reader reads back what the translated writer wrote. *)
Theorem c13_dirfile_programs_roundtrip : forall wp rp, wprog_ok wp = true -> rprog_ok rp = true -> forall c, dcfg_ok c = true ->
  forall t footer b, wf_tree c t -> wexec c footer wp t = Some b -> rexec c rp b = Some (1, nmap (flat_tree t), footer).
Proof. exact programs_roundtrip. Qed.

(** Wrong programs: no terminator after the folder level / preload before the entry (the file does not decode); tree length taken after
    footer_data (wrong header; the library's lenient reader still loads it). *)
Theorem c13_write_dirfile_programs_computed :
  wprog_ok wprog_pinned = true
  /\ match wexec ex_c [5; 6] wprog_pinned ex_t with Some b => dec_file ex_c b | None => None end = Some (nmap (flat_tree ex_t), [5; 6])
  /\ wprog_ok wprog_no_dir_term = false
  /\ match wexec ex_c [5; 6] wprog_no_dir_term ex_t with Some b => dec_file ex_c b | None => None end <> Some (nmap (flat_tree ex_t), [5; 6])
  /\ wprog_ok wprog_len_after_footer = false
  /\ wexec ex_c [5; 6] wprog_len_after_footer ex_t <> enc_file ex_c ex_t [5; 6]
  /\ wprog_ok wprog_preload_first = false
  /\ match wexec ex_c [5; 6] wprog_preload_first ex_t with Some b => dec_file ex_c b | None => None end <> Some (nmap (flat_tree ex_t), [5; 6]).
Proof. exact wprogs_computed. Qed.

(** Wrong readers: version-2 fields not skipped, header_len marked before them, the sentinel rewrite of the archive index forgotten. *)
Theorem c13_load_dirfile_programs_computed :
  rprog_ok rprog_pinned = true
  /\ rexec ex_c rprog_pinned ex_dirfile = Some (1, nmap (flat_tree ex_t), [5; 6])
  /\ rexec ex_c rprog_pinned ex_v2 = Some (2, nmap (flat_tree ex_t), [5; 6])
  /\ rprog_ok rprog_no_v2_skip = false /\ rexec ex_c rprog_no_v2_skip ex_v2 <> Some (2, nmap (flat_tree ex_t), [5; 6])
  /\ rprog_ok rprog_mark_before_v2 = false
  /\ rprog_ok rprog_no_idx_sentinel = false
  /\ rexec ex_c rprog_no_idx_sentinel ex_dirfile <> Some (1, nmap (flat_tree ex_t), [5; 6])
  /\ rprog_ok rprog_no_early_exit = false
  /\ rexec ex_c rprog_no_early_exit ex_dirfile = Some (1, nmap (flat_tree ex_t), [5; 6]).
Proof. exact rprogs_computed. Qed.

(** ---- the whole property as one statement (SM/VpkProperty.v) ---- *)

(** [c13_hyps] collects, as one boolean, everything assumed about today's source: the objects the translators read from vpk.py (truth
    table of __exit__, format constants and validations, placement and read tables, get-or-create steps of new_file, clean-up of
    __delitem__, NUL-terminated string codec, programs of write_dirfile and load_dirfile, split statement, description of
    _get_file_parts, table of _join_file_parts, archive naming sites) each pass their obligation.  Under it, for every checksum function
    and every os.path.normpath: (1) any history of adding, overwriting, deleting, saving, reopening, with-blocks and load_dirfile(),
    whose data values do not collide under the checksum and whose fields fit 32 bits ([xrun]/[run] not [None]), followed by leaving a
    with-block (or write_dirfile) and reopening in 'r'/'a': every call returned what the specification map says, the reopened archive
    lists exactly the files that should exist, and each file read as the read table says gives the bytes last written and verifies;
    (2) the write of the machine is the write the placement table describes, for every placement; (3) write_dirfile / reopen of the
    machine are the translated programs and the reader inverts the writer; (4) tree strings of any length go through the translated
    codec; (5) the nested dicts hold exactly the machine's table; (6) the three name forms agree and a listed name resolves to its
    entry (carve-out: last component ending in '.'); (7) numbered archives are found again; (8) read-only archives reject every mutation. *)
Theorem c13_property : forall et cf pt rt g1 g2 prog nk wp rp sk gp jt nc,
  c13_hyps et cf pt rt g1 g2 prog nk wp rp sk gp jt nc = true -> forall (crc : bytes -> N) (normpath : bytes -> bytes),
  (forall xs m st codes, m <> MW -> collision_free crc (xplain xs) ->
     xrun et crc cf init (xs ++ [XExit true; XOp (OReopen m)]) = Some (st, codes) ->
     let '(s0, c0) := sxrun cf sinit xs in
     writable (smd s0) = true ->
     codes = c0 ++ [rOk; rOk] /\ md st = m /\ Permutation (map fst (tbl st)) (map fst (cur s0)) /\
     forall k, match alookup k (tbl st), alookup k (cur s0) with
               | Some i, Some d => read_info_t rt st i = Some d /\ verify_info_t rt crc st i = Some true
               | None, None => True
               | _, _ => False
               end)
  /\ (forall ops m st codes, m <> MW -> collision_free crc ops ->
     run crc cf init (ops ++ [OSave; OReopen m]) = Some (st, codes) ->
     let '(s0, c0) := srun cf sinit ops in
     writable (smd s0) = true ->
     codes = c0 ++ [rOk; rOk] /\ md st = m /\ Permutation (map fst (tbl st)) (map fst (cur s0)) /\
     forall k, match alookup k (tbl st), alookup k (cur s0) with
               | Some i, Some d => read_info_t rt st i = Some d /\ verify_info_t rt crc st i = Some true
               | None, None => True
               | _, _ => False
               end)
  /\ (forall st i d ix, write_info_t pt crc cf st i d ix = Some (write_info crc cf st i d ix))
  /\ (forall t footer, wexec (v_dc cf) footer wp t = enc_file (v_dc cf) t footer)
  /\ (forall bs, rexec (v_dc cf) rp bs = dec_file_v (v_dc cf) bs)
  /\ (forall t footer b, wf_tree (v_dc cf) t -> wexec (v_dc cf) footer wp t = Some b -> rexec (v_dc cf) rp b = Some (1, nmap (flat_tree t), footer))
  /\ (forall s, write_cstr_k nk s = write_cstr s) /\ (forall bs, next_str_k nk bs = next_str bs)
  /\ (forall s rest, str_ok s = true -> next_str_k nk (write_cstr_k nk s ++ rest) = Some (Some s, rest))
  /\ (forall ops, exists t, nt_run g1 g2 prog [] ops = Some t
        /\ Permutation (map fst (flat_tree t)) (map fst (tb_run [] ops)) /\ forall k, alookup k (flat_tree t) = alookup k (tb_run [] ops))
  /\ (forall s, let '(h, t) := split_path s in let '(n, e) := split_ext t [] in
        file_parts_g normpath sk gp (NPair h t) = file_parts_g normpath sk gp (NStr s)
        /\ ((e = [] -> rsplit1 46 n = None) -> file_parts_g normpath sk gp (NTriple h n e) = file_parts_g normpath sk gp (NStr s)))
  /\ (forall k, key_listable normpath k -> exists s, join_k jt k = Some s /\ file_parts_g normpath sk gp (NStr s) = k)
  /\ (forall f p i, dir_prefix_of nc f = Some p ->
        site_name nc f (n_writer nc) i = Some (arch_filename nc p (Some i))
        /\ Forall (fun r => site_name nc f r i = Some (arch_filename nc p (Some i))) (n_readers nc)
        /\ arch_filename nc p None = f)
  /\ (forall st o, md st = MR -> mutating o = true -> exists c, step crc cf st o = Some (st, c) /\ (c = rReadOnly \/ c = rMissing)).
Proof. exact c13_property_composed. Qed.

(** Non-vacuity: the objects of vpk.py as pinned satisfy [c13_hyps] (the check proves the same for the objects generated on every run:
    instance obligation c13_property_hypotheses_hold_for_todays_source). *)
Theorem c13_property_hypotheses_satisfiable :
  c13_hyps exit_table_pinned ex_cfg table_pinned rtable_pinned goc_pinned goc_pinned del_prog_pinned ncodec_pinned wprog_pinned rprog_pinned
           (SplitLast 46) gparts_pinned join_table_pinned (ex_ncfg (n_writer (ex_ncfg reader_rstrip))) = true.
Proof. exact c13_hyps_pinned. Qed.

(** ---- the state machine assembled from the generated objects (SM/VpkGenMachine.v) ---- *)

(** [gstep] is the state machine with FileInfo.write run from the placement table, write_dirfile run as the translated writer program and
    reopening run as the translated reader program.  Whenever it gives an answer, the hand-written machine [step] gives the same one
    (it gives none when a field overflows, or when a version-2 file is reopened: write_dirfile never produces one). *)
Theorem c13_generated_machine_step : forall pt wp rp crc cf,
  place_table_ok pt = true -> wprog_ok wp = true -> rprog_ok rp = true ->
  forall st o r, gstep pt wp rp crc cf st o = Some r -> step crc cf st o = Some r.
Proof. exact gstep_sound. Qed.

(** Hence the property at its observation point holds for the generated machine: any history it runs, then write_dirfile, then reopen in
    'r'/'a': the result codes of the specification map, exactly the files that should exist, each read back from the read table with the
    bytes last written and verifying. *)
Theorem c13_generated_machine_history : forall pt rt wp rp crc cf,
  place_table_ok pt = true -> read_table_ok rt = true -> wprog_ok wp = true -> rprog_ok rp = true -> vcfg_ok cf = true ->
  forall ops m st codes, m <> MW -> collision_free crc ops ->
  grun pt wp rp crc cf init (ops ++ [OSave; OReopen m]) = Some (st, codes) ->
  let '(s0, c0) := srun cf sinit ops in
  writable (smd s0) = true ->
  codes = c0 ++ [rOk; rOk] /\ md st = m /\ Permutation (map fst (tbl st)) (map fst (cur s0)) /\
  forall k, match alookup k (tbl st), alookup k (cur s0) with
            | Some i, Some d => read_info_t rt st i = Some d /\ verify_info_t rt crc st i = Some true
            | None, None => True
            | _, _ => False
            end.
Proof. exact generated_machine_history. Qed.

(** Non-vacuity: the generated machine runs the example history over all four placements with the real CRC-32. *)
Theorem c13_generated_machine_example :
  match grun table_pinned wprog_pinned rprog_pinned crc32 ex_cfg init ex_ops, run crc32 ex_cfg init ex_ops with
  | Some (s1, c1), Some (s2, c2) => (if list_eq_dec N.eq_dec c1 c2 then true else false) && Nat.eqb (length (tbl s1)) (length (tbl s2)) && negb (Nat.eqb (length (tbl s1)) 0)
  | _, _ => false
  end = true.
Proof. exact generated_machine_example. Qed.

(** ---- round 5: error paths of FileInfo.write (SM/VpkWriteOrder.v) and the os.path.splitext split ---- *)

(** [write_guarded_t] runs FileInfo.write WITH its validations from two generated tables: the placement table and the rejection table
    (the method executed with a read-only archive / an index out of range / both, for every combination of the deciding facts: did a
    validation raise, which one, which stores had been executed by then; a rejected call keeps exactly those stores).  For every table
    accepted by [rej_table_ok] — every validation that can reject raises before the first store, the mode before the index, a singular
    VPK ignores the index — it is the guard order and the result codes of the state machine, on all inputs. *)
Theorem c13_guarded_write_is_model : forall jt pt, rej_table_ok jt = true -> place_table_ok pt = true -> forall crc cf st i d ix,
  v_chk_idx cf = true ->
  write_guarded_t jt pt crc cf st i d ix = Some (write_guarded_model crc cf st i d ix).
Proof. exact write_guarded_is_model. Qed.

(** A rejected write changes neither the archive nor the entry. *)
Theorem c13_rejected_write_stores_nothing : forall jt pt, rej_table_ok jt = true -> place_table_ok pt = true ->
  forall crc cf st i d ix st' i' c,
  v_chk_idx cf = true -> write_guarded_t jt pt crc cf st i d ix = Some (st', i', c) -> c <> rOk -> st' = st /\ i' = i.
Proof. exact rejected_write_stores_nothing. Qed.

(** The OWrite case of [step] — where the refinement theorem uses "a rejected write changes nothing" — is the method run from the two
    generated tables. *)
Theorem c13_write_step_is_generated_tables : forall jt pt, rej_table_ok jt = true -> place_table_ok pt = true -> forall crc cf st k d ix,
  v_chk_idx cf = true ->
  step crc cf st (OWrite k d ix) =
    match alookup k (tbl st) with
    | None => Some (st, rMissing)
    | Some i => match write_guarded_t jt pt crc cf st i d ix with
                | Some (st', i', c) => Some (if c =? rOk then with_tbl st' (aset k i' (tbl st')) else st', c)
                | None => None
                end
    end.
Proof. exact step_write_is_guarded_tables. Qed.

(** The pinned table is accepted; the table of seeded c13_7 (index validated after `self.crc = new_checksum`) and a table without the
    "both wrong" rows are rejected. *)
Theorem c13_rejection_tables_computed :
  rej_table_ok rej_table_pinned = true /\ rej_table_ok rej_table_late_check = false
  /\ rej_table_ok (filter (fun r => negb (kind_eqb (j_kind r) KBoth)) rej_table_pinned) = false.
Proof. exact rej_tables_computed. Qed.

(** Seeded c13_7 followed in the model, for EVERY checksum function, archive, entry and data: in a directory VPK a write of different data
    with an index out of range is rejected, but the entry keeps the new checksum on the old data — it reads back the old bytes and
    verify() is false — and writing the same data again with a valid index is taken for "same data" and stores nothing. *)
Theorem c13_late_index_check_refuted : forall crc cf st i d ix ix2,
  v_is_dir cf = true -> writable (md st) = true -> idx_ok cf ix = false -> idx_ok cf ix2 = true -> (crc d =? icrc i) = false ->
  verify_info crc st i = true ->
  let i' := mkInfo (crc d) (ipre i) (iidx i) (ioff i) (ilen i) in
  write_guarded_t rej_table_late_check table_pinned crc cf st i d ix = Some (st, i', rBadIndex)
  /\ read_info st i' = read_info st i /\ verify_info crc st i' = false
  /\ write_guarded_t rej_table_late_check table_pinned crc cf st i' d ix2 = Some (st, i', rOk).
Proof. exact late_check_rejected_write_breaks_verify. Qed.

(** Seeded c13_8: the split statement as `os.path.splitext` ([SplitExt], meaning [splitext] = posixpath.splitext).  Not accepted by
    [split_kind_ok]; 'a/.b' resolves to (folder a, name '.b') while the 3-tuple ('a', '', 'b') — the entry load_dirfile creates — is
    (folder a, name '', extension b); both are listed as 'a/.b'.  With the split at the last '.' the string resolves to that entry.  A name
    starting with '.' never loses its first character to the extension; on a name with an inner dot the two splits agree. *)
Theorem c13_name_forms_splitext_refuted :
  let s := [97; 47; 46; 98] in
  split_kind_ok SplitExt = false
  /\ file_parts_k posix_normpath SplitExt (NStr s) = ([], [97], [46; 98])
  /\ file_parts_k posix_normpath SplitExt (NTriple [97] [] [98]) = ([98], [97], [])
  /\ join_k join_table_pinned ([98], [97], []) = Some s
  /\ join_k join_table_pinned ([], [97], [46; 98]) = Some s
  /\ file_parts_k posix_normpath (SplitLast 46) (NStr s) = ([98], [97], [])
  /\ (forall n, splitext (46 :: n) = None \/ exists a b, splitext (46 :: n) = Some (46 :: a, b))
  /\ file_parts_k posix_normpath SplitExt (NStr [97; 47; 98; 46; 99; 46; 100]) = file_parts_k posix_normpath (SplitLast 46) (NStr [97; 47; 98; 46; 99; 46; 100]).
Proof. exact name_forms_splitext_refuted. Qed.

(** Seeded c13_6 given a meaning: [RBlockLoopRel n] = blocks of n in an inner loop, `start` taken once before the first block, then
    `seek(start + end + 1)` with `end` found in the LAST block.  Not accepted; 127 characters are read and the file is left after the
    terminator, with 128 characters the string is still right but the file is left at position 1, inside the string. *)
Theorem c13_nullstr_block_rel_refuted :
  let s127 := repeat 97 127 in let s128 := repeat 97 128 in
  reader_ok (RBlockLoopRel 128) = false
  /\ read_cstr_r (RBlockLoopRel 128) (s127 ++ 0 :: [7; 8]) = Some (s127, [7; 8])
  /\ read_cstr_r (RBlockLoopRel 128) (s128 ++ 0 :: [7; 8]) = Some (s128, repeat 97 127 ++ 0 :: [7; 8])
  /\ read_cstr_r (RBlockLoop 128) (s128 ++ 0 :: [7; 8]) = Some (s128, [7; 8]).
Proof. exact nullstr_block_rel_refuted. Qed.

(** ---- round 5: the listing methods called with arguments (SM/VpkListing.v) ---- *)

(** [list_walk w ext folder t] is what `filenames(ext, folder)` / `fileinfos(ext=, folder=)` yield on the nested dicts [t] when the method,
    executed with that combination of arguments, performs the walk [w] (translate/c13_api.py: which extension dicts, which folders).  For
    every accepted description and dicts without duplicate extension keys it is, in the same order, the entries of the default walk
    ([flat_tree]: the table of the state machine by c13_nested_walk_is_table) with that extension (when one is given) whose folder name
    starts with the folder argument (when one is given). *)
Theorem c13_listing_with_arguments_is_filter : forall eg fg w, walk_ok eg fg w = true -> forall ext folder t, NoDup (map fst t) ->
  list_walk w ext folder t = filter (listed eg fg ext folder) (flat_tree t).
Proof. exact list_walk_is_filter. Qed.

Theorem c13_listing_tables_list_matching : forall ws, walks_ok ws = true -> forall eg fg w, In (eg, fg, w) ws ->
  forall ext folder t, NoDup (map fst t) ->
  list_walk w ext folder t = filter (listed eg fg ext folder) (flat_tree t).
Proof. exact walks_ok_lists_matching. Qed.

(** The pinned walks are accepted; an inverted folder test (R7 of round 3) and a walk that ignores the extension argument are not. *)
Theorem c13_listing_walks_computed :
  walks_ok walks_pinned = true /\ walks_ok walks_inverted_filter = false
  /\ walks_ok (map (fun x : bool * bool * lwalk => let '(eg, fg, w) := x in (eg, fg, mkWalk EAll (lw_dir w) true)) walks_pinned) = false.
Proof. exact walks_computed. Qed.

(** extract_all: for a description accepted as the full walk, exactly one file per entry of the default walk, named by the entry's listed
    name (the translated _join_file_parts table) and holding what read() — run from the read table — returns. *)
Theorem c13_extract_all_writes_every_file : forall (jt : list jrow) (rt : list rrow) (st : vstate) w,
  walk_ok false false w = true -> forall t, NoDup (map fst t) ->
  extract_files w (join_k jt) (read_info_t rt st) t = map (fun e => (join_k jt (fst e), read_info_t rt st (snd e))) (flat_tree t).
Proof. exact (fun jt rt st w => extract_all_writes_every_file w (join_k jt) (read_info_t rt st)). Qed.

(** ---- round 5: the additions to the whole property as one statement (SM/VpkProperty.v) ---- *)

(** [c13_hyps_r5] = the hypotheses of [c13_property] and three more generated objects: the rejection table of FileInfo.write and the
    walks of `filenames` / `fileinfos` under their arguments.  Then [c13_property] applies (first conjunct) and: the write step of the
    state machine is the method run from the generated tables, validations included; a rejected write stores nothing; the listing methods
    called with arguments list exactly the matching entries of the default walk. *)
Theorem c13_property_r5 : forall et cf pt rt g1 g2 prog nk wp rp sk gp jt nc rj wn wi,
  c13_hyps_r5 et cf pt rt g1 g2 prog nk wp rp sk gp jt nc rj wn wi = true -> forall (crc : bytes -> N),
  c13_hyps et cf pt rt g1 g2 prog nk wp rp sk gp jt nc = true
  /\ (forall st k d ix,
        step crc cf st (OWrite k d ix) =
          match alookup k (tbl st) with
          | None => Some (st, rMissing)
          | Some i => match write_guarded_t rj pt crc cf st i d ix with
                      | Some (st', i', c) => Some (if c =? rOk then with_tbl st' (aset k i' (tbl st')) else st', c)
                      | None => None
                      end
          end)
  /\ (forall st i d ix st' i' c, write_guarded_t rj pt crc cf st i d ix = Some (st', i', c) -> c <> rOk -> st' = st /\ i' = i)
  /\ (forall eg fg w, In (eg, fg, w) (wn ++ wi) -> forall ext folder t, NoDup (map fst t) ->
        list_walk w ext folder t = filter (listed eg fg ext folder) (flat_tree t)).
Proof. exact c13_property_r5_composed. Qed.

Theorem c13_property_r5_hypotheses_satisfiable :
  c13_hyps_r5 exit_table_pinned ex_cfg table_pinned rtable_pinned goc_pinned goc_pinned del_prog_pinned ncodec_pinned wprog_pinned rprog_pinned
           (SplitLast 46) gparts_pinned join_table_pinned (ex_ncfg (n_writer (ex_ncfg reader_rstrip))) rej_table_pinned walks_pinned walks_pinned = true.
Proof. exact c13_hyps_r5_pinned. Qed.
