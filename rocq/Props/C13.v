(** C13 — VPK archives return exactly what was last written, across reopen.
    Only statements here; proofs are in Fmt/VpkDirProofs.v, Fmt/VpkNameProofs.v and SM/VpkProofs.v. *)
From Coq Require Import List NArith Bool.
From SV Require Import Fmt.VpkDir Fmt.VpkName Fmt.VpkNameProofs SM.Vpk SM.VpkProofs.
Import ListNotations.
Open Scope N_scope.

(** What the theorems need of a configuration (checked on the instance generated from vpk.py). *)
Definition vcfg_ok (cf : vcfg) : bool :=
  dcfg_ok (v_dc cf) && (v_max_pre cf <=? 65535) && v_chk_idx cf && v_chk_name cf.

(** Read-only archives reject every mutation: state unchanged, error result. *)
Theorem c13_readonly_rejects : forall crc cf st o,
  md st = MR -> mutating o = true ->
  exists c, step crc cf st o = Some (st, c) /\ (c = rReadOnly \/ c = rMissing).
Proof. exact readonly_rejects. Qed.

(** 'd/n.e', ('d', 'n.e') and ('d', 'n', 'e') resolve to the same entry, for every os.path.normpath. *)
Theorem c13_name_forms_agree : forall normpath s,
  let '(h, t) := split_path s in
  let '(n, e) := split_ext t [] in
  file_parts normpath (NPair h t) = file_parts normpath (NStr s)
  /\ ((e = [] -> rsplit1 46 n = None) -> file_parts normpath (NTriple h n e) = file_parts normpath (NStr s)).
Proof. exact name_forms_agree. Qed.

Theorem c13_name_forms_trailing_dot_refuted :
  let s := [97; 47; 98; 46; 99; 46] in
  file_parts posix_normpath (NStr s) = ([], [97], [98; 46; 99])
  /\ file_parts posix_normpath (NTriple [97] [98; 46; 99] []) = ([99], [97], [98]).
Proof. exact name_forms_trailing_dot_refuted. Qed.
