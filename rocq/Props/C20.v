(** C20 — secondary format writers emit files their own readers reproduce.
    Only statements here; proofs are in Fmt/CmdSeqProofs.v, Fmt/ScenesImageProofs.v, Fmt/SmdTplProofs.v.

    - Hammer command sequences: complete model of cmdseq.write / cmdseq.parse over a configuration [cfg] that is
      regenerated from cmdseq.py (Gen/CmdSeqFmt_gen.v); the check discharges [cfg_okb gen_cfg = true] in the kernel
      and compares model bytes / parse results with the implementation on every run.
    - scenes.image: container-level model of save_scenes_image_sync / parse_scenes_image (LZMA as a Section pair).
    - SMD: every line Mesh.export can write (Gen/SmdTpl_gen.v) keeps its conversions apart. *)
From Coq Require Import List NArith ZArith Bool Sorted Permutation.
Import ListNotations.
From SV Require Fmt.CmdSeq Fmt.CmdSeqProofs Fmt.ScenesImage Fmt.ScenesImageProofs Fmt.ScenesImageCfg Fmt.ScenesImageCfgProofs
  Fmt.SmdTpl Fmt.SmdTplProofs Fmt.SmdWords Fmt.TextFields Fmt.TextFieldsProofs Fmt.SndStacks Fmt.SndStacksProofs Fmt.VmtQuote Fmt.VmtQuoteProofs Fmt.TextLines Fmt.TextLinesProofs Fmt.ChoreoBin Fmt.ChoreoBinProofs Fmt.SceneSummary Fmt.BspDedup Fmt.C20KeyTables Fmt.C20KeyTablesProofs Fmt.SmdNumber Fmt.SmdNumberProofs Fmt.ChoreoQuant Fmt.VmtBlocks Fmt.VmtBlocksProofs Fmt.C20Property Fmt.C20PropertyProofs KV.KvBase KV.KvLex KV.KvSym KV.KvLexProofs.

(** * Command sequences *)
Module CS := Fmt.CmdSeq.
Module CSP := Fmt.CmdSeqProofs.

(** struct.unpack inverts struct.pack for every format of the dialect (B, i, <n>s; native alignment), at any offset *)
Theorem c20_struct_unpack_pack : forall fmt off vals b r,
  CS.pack off fmt vals = Some b -> CS.unpack off fmt (b ++ r) = Some (vals, r).
Proof. exact CSP.unpack_pack. Qed.

(** one record: every representable command is written, and read back unchanged whatever follows it *)
Theorem c20_cmdseq_record_roundtrip : forall c x, CS.cfg_okb c = true -> CS.cmd_okb c x = true ->
  exists b, b <> [] /\ CS.write_cmd c x = Some b /\
            forall r, CS.parse_cmd c (CS.c_fmt_v2 c) (b ++ r) = Some (x, r).
Proof. exact CSP.cmd_roundtrip. Qed.

(** the file: for every configuration satisfying the generated obligations and every representable value
    (ASCII, NUL-free, within the field widths, distinct sequence names, counts below 2^32) *)
Theorem c20_cmdseq_roundtrip : forall c v, CS.cfg_okb c = true -> CS.repr_okb c v = true ->
  exists b, CS.write c v = Some b /\ CS.parse c b = Some v.
Proof. intros c v Hc Hv. exact (CSP.file_roundtrip c v Hc (CSP.repr_okb_ok c v Hv)). Qed.

Theorem c20_cmdseq_second_generation : forall c v b v', CS.cfg_okb c = true -> CS.repr_okb c v = true ->
  CS.write c v = Some b -> CS.parse c b = Some v' -> CS.write c v' = Some b.
Proof. intros c v b v' Hc Hv. exact (CSP.second_generation c v b v' Hc (CSP.repr_okb_ok c v Hv)). Qed.

(** outside the alphabet the reader does not give the value back: an embedded NUL truncates *)
Theorem c20_cmdseq_nul_not_representable : CS.strip_cstring ([97; 0; 98] ++ CS.zeros 3)%N = Some [97%N].
Proof. exact CSP.nul_truncates. Qed.

(** * scenes.image container *)
Module SI := Fmt.ScenesImage.
Module SIP := Fmt.ScenesImageProofs.

(** the model of Python's stable list.sort(key=crc) sorts and permutes *)
Theorem c20_image_sort_sorted : forall es, Sorted (fun a b => (SI.e_crc a <= SI.e_crc b)%N) (SI.sort_by_crc es).
Proof. exact SIP.sort_by_crc_sorted. Qed.
Theorem c20_image_sort_perm : forall es, Permutation es (SI.sort_by_crc es).
Proof. exact SIP.sort_by_crc_perm. Qed.

(** the entry table of every written image is sorted by checksum (what the game's binary search needs) *)
Theorem c20_image_sorted_by_crc : forall version pool es, SI.image_ok version pool es ->
  exists ps, SI.img_parse (SI.img_write version pool es) = Some (version, pool, ps)
    /\ StronglySorted N.le (map SI.p_crc ps) /\ Sorted N.le (map SI.p_crc ps)
    /\ Permutation (map SI.e_crc es) (map SI.p_crc ps).
Proof. exact SIP.image_sorted_by_crc. Qed.

(** container round trip (versions 2 and 3): header, string pool through the offset table, entry table, summaries
    and blobs all come back; version 2 has no last-speak field and the reader substitutes the duration *)
Theorem c20_image_roundtrip : forall version pool es, SI.image_ok version pool es ->
  SI.img_parse (SI.img_write version pool es)
  = Some (version, pool, map (SI.to_pentry version pool) (SI.sort_by_crc es)).
Proof. exact SIP.image_roundtrip. Qed.

(** the writer that follows DeferredWrites literally (slots keyed by checksum) is the ideal writer exactly when the
    checksums are distinct; with that hypothesis its round trip holds *)
Theorem c20_image_roundtrip_deferred_writer : forall version pool es, SI.image_ok version pool es ->
  SI.crcs_distinctb es = true ->
  SI.img_parse (SI.img_write_py version pool es)
  = Some (version, pool, map (SI.to_pentry version pool) (SI.sort_by_crc es)).
Proof. exact SIP.image_roundtrip_py. Qed.

(** payloads through any store/unstore pair that is an inverse pair (LZMA / raw): visible hypothesis *)
Theorem c20_image_payload_roundtrip : forall (store unstore : list N -> list N),
  (forall d, unstore (store d) = d) ->
  forall version pool es, SI.image_ok version pool (map (SIP.store_entry store) es) ->
  exists ps, SI.img_parse (SI.img_write version pool (map (SIP.store_entry store) es)) = Some (version, pool, ps)
    /\ map (fun p => unstore (SI.p_blob p)) ps = map SI.e_blob (SI.sort_by_crc es).
Proof.
  intros store unstore H version pool es Hok.
  destruct (SIP.image_payload_roundtrip store unstore H version pool es Hok) as (ps & H1 & _ & H3).
  exists ps. split; assumption.
Qed.

Theorem c20_image_okb_sound : forall v pool es, SI.image_okb v pool es = true -> SI.image_ok v pool es.
Proof. exact SIP.image_okb_sound. Qed.

(** * scenes.image: the writer over the configuration regenerated from choreo.py (Gen/ScenesImg_gen.v) *)
Module SC := Fmt.ScenesImageCfg.
Module SCP := Fmt.ScenesImageCfgProofs.

(** for every configuration satisfying the obligations (struct formats and the value each field carries on both sides,
    version tests, the sort in effect for every input form when the pool is filled and when the table is written) the
    configured writer produces exactly the bytes of the hand model, for both input forms and whatever the dict keys are *)
Theorem c20_image_cfg_writer_is_model : forall c is_dict version pool kes,
  SC.icfg_okb c = true -> SC.image_ok_w version pool (map snd kes) ->
  SC.img_save_g c is_dict version pool kes = Some (SI.img_write version pool (map snd kes)).
Proof. exact SCP.save_g_is_img_write. Qed.

Theorem c20_image_cfg_roundtrip : forall c is_dict version pool kes,
  SC.icfg_okb c = true -> SC.image_ok_w version pool (map snd kes) ->
  exists b, SC.img_save_g c is_dict version pool kes = Some b /\
    SI.img_parse b = Some (version, pool, map (SI.to_pentry version pool) (SI.sort_by_crc (map snd kes))).
Proof. exact SCP.save_g_roundtrip. Qed.

(** the stored table is sorted by checksum, for the dict form too (keys play no role) *)
Theorem c20_image_cfg_table_sorted : forall c is_dict version pool kes,
  SC.icfg_okb c = true -> SC.image_ok_w version pool (map snd kes) ->
  exists b ps, SC.img_save_g c is_dict version pool kes = Some b /\ SI.img_parse b = Some (version, pool, ps) /\
    StronglySorted N.le (map SI.p_crc ps) /\ Permutation (map (fun ke => SI.e_crc (snd ke)) kes) (map SI.p_crc ps).
Proof. exact SCP.save_g_table_sorted. Qed.

(** sort site, generically: whenever the sort key is the attribute stored in the table, the stored column is sorted *)
Theorem c20_image_table_sorted_by_stored_attribute : forall a kes,
  StronglySorted N.le (map (SC.ekey a) (SC.order_g SC.ekey (SC.SKAttr a) kes)).
Proof. exact SCP.table_sorted_by_stored_attribute. Qed.

(** including the construction of the string pool (find_or_insert over sounds and scene strings in sorted order):
    the file parses to that pool and to entries whose sounds are the original strings *)
Theorem c20_image_pool_roundtrip : forall c is_dict version pool0 kes, SC.icfg_okb c = true ->
  let pool := SC.pool_g c is_dict pool0 kes in
  SC.image_ok_w version pool (map (SC.resolve pool) (map snd kes)) ->
  exists b, SC.img_save_s c is_dict version pool0 kes = Some b /\
    SI.img_parse b = Some (version, pool, map (SC.to_pentry_s version) (SC.sort_by SC.s_crc (map snd kes))).
Proof. exact SCP.save_s_roundtrip. Qed.

(** equal images give identical files: the caller's order, the input form and the dict keys do not matter
    (entries with distinct checksums) *)
Theorem c20_image_order_independent : forall c d1 d2 version pool0 kes1 kes2,
  SC.icfg_okb c = true -> Permutation (map snd kes1) (map snd kes2) -> NoDup (map SC.s_crc (map snd kes1)) ->
  SC.img_save_s c d1 version pool0 kes1 = SC.img_save_s c d2 version pool0 kes2.
Proof. exact SCP.save_s_order_independent. Qed.

(** refuted variants (computed witnesses).  Table ordered by the dict key, keys stale (entries stored under 5 and 7
    have checksums 30 and 10): the obligation is false, the parsed table is [30; 10], and the list form of the same
    image gives another file *)
Theorem c20_image_sort_by_dict_key_refuted :
  (SC.sort_table_okb SC.cfg_dict_key = false /\ SC.sort_pool_okb SC.cfg_dict_key = false) /\
  SC.parsed_crcs (SC.img_save_s SC.cfg_dict_key true 3 [] [(5, SC.ex_s1); (7, SC.ex_s2)])%N = Some [30; 10]%N /\
  SC.img_save_s SC.cfg_dict_key true 3 [] [(5, SC.ex_s1); (7, SC.ex_s2)]%N
  <> SC.img_save_s SC.cfg_dict_key false 3 [] [(5, SC.ex_s1); (7, SC.ex_s2)]%N.
Proof. exact (conj SCP.dict_key_cfg_rejected SCP.sort_by_dict_key_refuted). Qed.

(** pool filled in the caller's order and the table sorted afterwards (the pinned tree): two orders, two files *)
Theorem c20_image_pool_in_caller_order_refuted :
  (SC.sort_pool_okb SC.cfg_pool_unsorted = false /\ SC.sort_table_okb SC.cfg_pool_unsorted = true) /\
  SC.img_save_s SC.cfg_pool_unsorted false 3 [] [(0, SC.ex_s1); (0, SC.ex_s2)]%N
  <> SC.img_save_s SC.cfg_pool_unsorted false 3 [] [(0, SC.ex_s2); (0, SC.ex_s1)]%N.
Proof. exact (conj SCP.pool_unsorted_cfg_rejected SCP.pool_in_caller_order_refuted). Qed.

(** table sorted by an attribute other than the stored one *)
Theorem c20_image_sort_by_other_attribute_refuted :
  SC.sort_table_okb SC.cfg_sort_other = false /\
  SC.parsed_crcs (SC.img_save_s SC.cfg_sort_other false 3 [] [(0, SC.ex_s1); (0, SC.ex_s2)])%N = Some [30; 10]%N.
Proof. exact SCP.sort_by_other_attribute_refuted. Qed.

(** * SMD line templates *)
Module ST := Fmt.SmdTpl.
Module STP := Fmt.SmdTplProofs.

(** numeric_fields_separated: in every line that passes the boolean check, any two conversions with only literals
    between them have a whitespace literal between them; the check instantiates this on the generated lines *)
Theorem c20_smd_numeric_fields_separated : forall ls, forallb ST.line_ok ls = true -> Forall ST.separated ls.
Proof. exact STP.lines_ok_separated. Qed.

(** the boolean is exact: a rejected line really has two touching conversions *)
Theorem c20_smd_rejected_line_has_touching_conversions : forall l, ST.line_ok l = false ->
  exists a c1 mid c2 b, l = a ++ c1 :: mid ++ c2 :: b /\ ST.is_conv c1 = true /\ ST.is_conv c2 = true /\
    Forall (fun p => ST.is_conv p = false /\ ST.has_ws p = false) mid.
Proof. exact STP.line_not_ok_touching. Qed.

(** the vertex line of the pinned tree (link count written directly after the V coordinate) is rejected *)
Theorem c20_smd_pinned_vertex_line_refuted : ST.line_ok ST.smd_vertex_line_pinned = false.
Proof. exact STP.smd_pinned_vertex_line_refuted. Qed.

(** SMD data lines (skeleton poses, time lines, vertex lines with their bone links): in every line template whose
    conversions are delimited by whitespace literals, splitting the written line at whitespace (what the reader does)
    gives back exactly the written fields (literal keywords included), for all field texts without whitespace *)
Module SW := Fmt.SmdWords.
Theorem c20_smd_delimited_line_splits_into_its_fields : forall ps prev_ws,
  SW.delim prev_ws (map fst ps) = true -> SW.values_wordy ps = true -> SW.words (SW.render ps) = SW.fields ps.
Proof. exact SW.delimited_line_splits. Qed.
(** the bone line  index "name" parent  is read back by the reader's regular expression (modelled as greedy matching
    over disjoint classes; the pattern bytes are compared with the source on every run): any name without a double quote *)
Theorem c20_smd_bone_line_reads_back : forall a b idx nm par,
  SW.nodes_line_shape [ST.ConvInt; ST.Lit a; ST.ConvStr; ST.Lit b; ST.ConvInt] = true ->
  SW.all_digits idx = true -> forallb (fun c => negb (c =? 34)%N) nm = true -> SW.int_text par = true ->
  SW.parse_nodes (SW.render [(ST.ConvInt, idx); (ST.Lit a, []); (ST.ConvStr, nm); (ST.Lit b, []); (ST.ConvInt, par)])
  = Some (idx, nm, par).
Proof. exact SW.nodes_line_reads_back. Qed.
Theorem c20_smd_glued_fields_refuted :
  SW.delim true ST.smd_vertex_line_pinned = false
  /\ SW.words (SW.render [(ST.ConvFloat 6, [48; 46; 53]%N); (ST.ConvInt, [50%N])]) = [[48; 46; 53; 50]%N].
Proof. exact (conj SW.pinned_vertex_line_not_delimited SW.glued_fields_merge). Qed.

(** * Text writers (soundscripts, VMT, text choreo scenes): the interpolated fields (Gen/TextFields_gen.v) *)
Module TF := Fmt.TextFields.
Module TFP := Fmt.TextFieldsProofs.

(** over the tokenizer model of KV/KvLex.v (the string mode is the same code for every Tokenizer configuration with
    escapes enabled) and any escape table satisfying C01's obligations: a field written escaped between quotes is read
    back as one string whatever it holds; a field written raw between quotes when it has no quote, backslash or line break *)
Theorem c20_text_field_reads_back : forall E, KvSym.esc_ok E = true -> forall c v l, TFP.field_reads c v = true ->
  KvLexProofs.lexes E l (TF.render_field E c v) [KvBase.TStr v] l.
Proof. exact TFP.field_lexes. Qed.

(** a writer whose census passes [free_text_escaped] (text choreo scenes): every free-text field comes back, any value *)
Theorem c20_text_escaped_sites_read_back : forall E sites, KvSym.esc_ok E = true -> TF.free_text_escaped sites = true ->
  forall s v l, In s sites -> TF.is_free_text (TF.fs_type s) = true ->
  KvLexProofs.lexes E l (TF.render_field E (TF.fs_class s) v) [KvBase.TStr v] l.
Proof. exact TFP.escaped_sites_read_back. Qed.

(** a writer whose census passes [free_text_quoted] (soundscripts: the format has no escapes): every free-text field
    comes back for values in the raw alphabet *)
Theorem c20_text_quoted_sites_read_back : forall E sites, KvSym.esc_ok E = true -> TF.free_text_quoted sites = true ->
  forall s v l, In s sites -> TF.is_free_text (TF.fs_type s) = true -> TF.raw_safe v = true ->
  KvLexProofs.lexes E l (TF.render_field E (TF.fs_class s) v) [KvBase.TStr v] l.
Proof. exact TFP.quoted_sites_read_back. Qed.

(** refuted: a quote inside a raw quoted field; an unquoted "low, high" pair; the stop stack written from the update stack *)
Theorem c20_text_raw_quoted_quote_refuted :
  KvLex.lex_all TFP.ex_escfg (TF.render_field TFP.ex_escfg TF.FRawQuoted [97; 34; 98]%N) <> ([KvBase.TStr [97; 34; 98]%N], None).
Proof. exact TFP.raw_quoted_quote_refuted. Qed.
Theorem c20_text_bare_pair_refuted :
  fst (KvLex.lex_all TFP.ex_escfg (TF.render_field TFP.ex_escfg TF.FRawBare [57; 53; 44; 32; 49; 49; 48]%N ++ [KvBase.LF]))
  <> [KvBase.TStr [57; 53; 44; 32; 49; 49; 48]%N; KvBase.TNL].
Proof. exact TFP.bare_pair_refuted. Qed.
Theorem c20_sndscript_stacks_crossed_refuted :
  TF.stacks_paired [([1], [10], [10]); ([2], [11], [11]); ([3], [11], [11])]%N [([1], [10]); ([2], [11]); ([3], [12])]%N = false
  /\ TF.stacks_paired [([1], [10], [10]); ([2], [11], [11]); ([3], [12], [12])]%N [([1], [10]); ([2], [11]); ([3], [12])]%N = true.
Proof. exact TFP.stacks_crossed_refuted. Qed.

(** * Soundscript operator stacks (SK := Fmt.SndStacks): Sound keeps three optional blocks behind lazy properties (reading
    `snd.stack_start` stores an empty block when there was none).  Over the census regenerated from sndscript.py -- the
    terms of the test that switches the version-2 keys on, and per stack block its guard and source -- for every census
    passing [guard_okb] / [blocks_okb] (the check discharges both for today's source), every sound, any child type: *)
Module SK := Fmt.SndStacks.
Module SKP := Fmt.SndStacksProofs.

(** what is written depends on the value only: reading the lazy properties first, in any order, changes nothing *)
Theorem c20_sndscript_export_observer_independent : forall A g ws ts (x : SK.sound A),
  SK.guard_okb g = true -> SK.blocks_okb ws = true ->
  fst (SK.export g ws (SK.touches ts x)) = fst (SK.export g ws x).
Proof. exact SKP.export_observer_independent. Qed.

(** exporting the same object twice (export itself reads the lazy properties) writes the same *)
Theorem c20_sndscript_export_again_identical : forall A g ws (x : SK.sound A),
  SK.guard_okb g = true -> SK.blocks_okb ws = true ->
  fst (SK.export g ws (snd (SK.export g ws x))) = fst (SK.export g ws x).
Proof. exact SKP.export_again_identical. Qed.

(** two sounds of the same value (same version-2-ness, same children; a missing stack = an empty one) are written identically *)
Theorem c20_sndscript_export_same_value : forall A g ws (x y : SK.sound A),
  SK.guard_okb g = true -> SK.blocks_okb ws = true -> SK.same_value x y ->
  fst (SK.export g ws x) = fst (SK.export g ws y).
Proof. exact SKP.export_same_value. Qed.

(** the reader gives the value back, and the second generation is identical *)
Theorem c20_sndscript_stacks_roundtrip : forall A g ws (x : SK.sound A),
  SK.guard_okb g = true -> SK.blocks_okb ws = true ->
  SK.same_value (SK.parse (fst (SK.export g ws x))) x.
Proof. exact SKP.parse_export_same_value. Qed.
Theorem c20_sndscript_stacks_second_generation : forall A g ws (x : SK.sound A),
  SK.guard_okb g = true -> SK.blocks_okb ws = true ->
  fst (SK.export g ws (SK.parse (fst (SK.export g ws x)))) = fst (SK.export g ws x).
Proof. exact SKP.second_generation_identical. Qed.

(** refuted: `self._stack_x is not None` in the version-2 test (a version-1 sound whose start stack was merely looked
    at is written as version 2 and read back as another value); a test that forgets the stop stack; a block guarded by a
    presence test *)
Theorem c20_sndscript_presence_test_refuted :
  SK.guard_okb SKP.presence_guard = false
  /\ let x := SK.mkSnd (A := nat) false None None None in
     fst (SK.export SKP.presence_guard SKP.ref_blocks (SK.touch SK.SStart x)) <> fst (SK.export SKP.presence_guard SKP.ref_blocks x)
     /\ SK.is_v2 (SK.parse (fst (SK.export SKP.presence_guard SKP.ref_blocks (SK.touch SK.SStart x)))) <> SK.is_v2 (SK.touch SK.SStart x).
Proof. exact SKP.presence_guard_refuted. Qed.
Theorem c20_sndscript_forgetful_test_refuted :
  SK.guard_okb SKP.forgetful_guard = false
  /\ let x := SK.mkSnd false None None (Some [5]) in
     SK.content (SK.parse (fst (SK.export SKP.forgetful_guard SKP.ref_blocks x))) SK.SStop <> SK.content x SK.SStop.
Proof. exact SKP.forgetful_guard_refuted. Qed.
Theorem c20_sndscript_presence_block_refuted :
  SK.blocks_okb SKP.presence_blocks = false
  /\ let x := SK.mkSnd (A := nat) true None None None in
     fst (SK.export SKP.ref_guard SKP.presence_blocks (SK.touch SK.SStart x)) <> fst (SK.export SKP.ref_guard SKP.presence_blocks x).
Proof. exact SKP.presence_block_refuted. Qed.

(** * VMT parameters (VQ := Fmt.VmtQuote): `\t<name> <value>\n`, each quoted on demand by vmt._needs_quotes; the decision table
    is regenerated from vmt.py / tokenizer.py.  Over the bare-string mode of the tokenizer model (the same loop for every
    configuration without the colon / plus operators), for every table passing [nq_okb] (the check discharges it), on any line
    but the first (the shader line comes first): *)
Module VQ := Fmt.VmtQuote.
Module VQP := Fmt.VmtQuoteProofs.

(** a string the decision lets through unquoted is read back as exactly that string *)
Theorem c20_vmt_unquoted_reads_back : forall E cfg l v, VQ.nq_okb cfg = true -> l <> 1%N -> VQ.needs_quotes cfg v = false ->
  KvLexProofs.lexes E l (v ++ [KvBase.SP]) [KvBase.TStr v] l.
Proof. exact VQP.bare_reads_back. Qed.

(** the whole parameter line is read back as name, value, newline: any name / value the decision lets through, and quoted ones
    without quote, backslash or line break (partial: the model un-escapes inside quotes, Material.parse reads with escapes
    disabled, so for the real reader a backslash inside quotes is fine too -- searched, not proved) *)
Theorem c20_vmt_param_line_reads_back_partial : forall E cfg l name value, VQ.nq_okb cfg = true -> l <> 1%N ->
  VQP.value_ok cfg name = true -> VQP.value_ok cfg value = true ->
  KvLexProofs.lexes E l (VQ.param_line cfg name value) [KvBase.TStr name; KvBase.TStr value; KvBase.TNL] (l + 1)%N.
Proof. exact VQP.param_line_reads_back. Qed.

(** refuted: the decision of the pinned tree (no test for a leading '/': `//x` written bare is a comment); a delimiter missing
    from the table (a value with a comma is split) *)
Theorem c20_vmt_leading_slash_refuted :
  VQ.nq_okb VQP.no_slash_nq = false
  /\ fst (KvLex.lex_all TFP.ex_escfg ([97; 10]%N ++ VQ.param_line VQP.no_slash_nq [36; 98]%N [47; 47; 120]%N))
     = [KvBase.TStr [97%N]; KvBase.TNL; KvBase.TStr [36; 98]%N; KvBase.TNL].
Proof. exact VQP.leading_slash_refuted. Qed.
Theorem c20_vmt_missing_delimiter_refuted :
  VQ.nq_okb VQP.no_comma_nq = false
  /\ fst (KvLex.lex_all TFP.ex_escfg ([97; 10]%N ++ VQ.param_line VQP.no_comma_nq [36; 98]%N [49; 44; 50]%N))
     <> [KvBase.TStr [97%N]; KvBase.TNL; KvBase.TStr [36; 98]%N; KvBase.TStr [49; 44; 50]%N; KvBase.TNL].
Proof. exact VQP.missing_delimiter_refuted. Qed.

(** the whole file of a material that has parameters only (no sub-blocks, no proxies; the frame `<shader>\n\t{\n` ... `\t}\n` is an
    obligation on Material.export, the file text is compared with the exporter on every run): for a shader name that is a bare
    string and parameters as above, the tokenizer model reads the file without error as exactly shader, `{`, the (name, value)
    pairs in order, `}` (partial as above: quoted strings without backslash; what Material.parse builds from the tokens is searched) *)
Theorem c20_vmt_file_reads_back_partial : forall E cfg shader ps, VQ.nq_okb cfg = true -> VQP.shader_ok shader = true ->
  VQP.params_ok cfg ps = true -> KvLex.lex_all E (VQ.vmt_file cfg shader ps) = (VQ.vmt_tokens shader ps, None).
Proof. exact VQP.vmt_file_reads_back. Qed.

(** hence the written file determines the material: two different parameter-only materials never produce the same file *)
Theorem c20_vmt_file_determines_material : forall cfg s1 p1 s2 p2, VQ.nq_okb cfg = true ->
  VQP.shader_ok s1 = true -> VQP.params_ok cfg p1 = true -> VQP.shader_ok s2 = true -> VQP.params_ok cfg p2 = true ->
  VQ.vmt_file cfg s1 p1 = VQ.vmt_file cfg s2 p2 -> s1 = s2 /\ p1 = p2.
Proof. exact VQP.vmt_file_determines_material. Qed.

(** refuted: a shader name with a space (written as it is) is not representable *)
Theorem c20_vmt_shader_with_space_refuted :
  VQP.shader_ok [97; 32; 98]%N = false
  /\ fst (KvLex.lex_all TFP.ex_escfg (VQ.vmt_file VQP.ref_nq [97; 32; 98]%N [])) <> VQ.vmt_tokens [97; 32; 98]%N [].
Proof. exact VQP.shader_with_space_refuted. Qed.

(** * Whole written lines (TL := Fmt.TextLines): what one `file.write(template)` of a text writer produces, as a list of
    self-delimiting items regenerated from the source (every template of sndscript.Sound.export, `snd_lines`, none unstructured;
    the templates of the choreo export_text methods that are whole items, `cho_lines`, with the run-time indent as the item IInd;
    the check discharges [items_ok] for each).  For every escape table with [esc_ok], every
    structured line, every line number and ALL field values within [vals_ok] (one value per field; a raw quoted field without
    quote / backslash / line break, a bare field a bare word, an escaped quoted field anything): the tokenizer model reads the
    written text back as exactly the keywords, braces, newlines and field values, in order *)
Module TL := Fmt.TextLines.
Module TLP := Fmt.TextLinesProofs.
Theorem c20_text_line_reads_back : forall E ind, KvSym.esc_ok E = true -> KvSym.ws_only ind = true ->
  forall its, TL.items_ok its = true -> forall vs l, TL.vals_ok its vs = true ->
  KvLexProofs.lexes E l (TL.render E ind its vs) (TL.toks its vs) (TL.lines its l).
Proof. exact TLP.items_lex. Qed.
Theorem c20_text_lines_of_a_writer_read_back : forall E ind ls, KvSym.esc_ok E = true -> KvSym.ws_only ind = true ->
  forallb TL.items_ok ls = true -> forall its vs l, In its ls -> TL.vals_ok its vs = true ->
  KvLexProofs.lexes E l (TL.render E ind its vs) (TL.toks its vs) (TL.lines its l).
Proof. exact TLP.lines_lex. Qed.
(** the unquoted low/high pair `95, 110` (the repaired soundscript defect) is not a bare word: as a bare field it is outside [vals_ok] *)
Theorem c20_text_bare_pair_is_not_a_word_refuted : TL.word_ok [57; 53; 44; 32; 49; 49; 48]%N = false.
Proof. exact TLP.bare_pair_not_a_word. Qed.

(** * Binary choreo scenes (BVCD), at the level of raw field values (float32 as bit pattern, quantised values as the
    byte written, strings as pool indexes).  Fmt/ChoreoBin.v describes each class by a layout; the check discharges,
    per class, that the width / call / loop paths of the layout are exactly the paths export_binary can emit and exactly
    the paths parse_binary can consume (Gen/ChoreoBin_gen.v), and compares the layout's encoder with export_binary byte
    for byte. *)
Module CB := Fmt.ChoreoBin.
Module CBP := Fmt.ChoreoBinProofs.

(** a record written with a sequence of field widths is read back with the same widths, whatever follows *)
Theorem c20_choreo_record_roundtrip : forall ws vals b r, CB.emit ws vals = Some b -> CB.consume ws (b ++ r) = Some (vals, r).
Proof. exact CBP.consume_emit. Qed.

(** a counted list (count field of [cw] bytes, then the records) *)
Theorem c20_choreo_counted_list_roundtrip : forall cw ws recs b r, CB.emit_counted cw ws recs = Some b ->
  CB.consume_counted cw ws (b ++ r) = Some (recs, r).
Proof. exact CBP.consume_counted_emit. Qed.

(** for EVERY layout (records, counted lists of items, optional parts behind a marker byte, parts selected by a field
    or a flag bit of the head record, nested records of other classes): decoding what was encoded gives the value back
    and leaves what follows; in particular for scene_lay: a whole binary scene with its events (ramps, four tag lists,
    gesture duration, relative tag, flex tracks with optional direction track, loop / speak tails), actors and channels *)
Theorem c20_choreo_layout_roundtrip : forall l env v b r, CB.enc l env v = Some b -> CB.dec l env (b ++ r) = Some (v, r).
Proof. exact CBP.dec_enc. Qed.

Theorem c20_choreo_scene_roundtrip : forall g l s v b r, CB.enc (CB.scene_lay g l s) [] v = Some b ->
  CB.dec (CB.scene_lay g l s) [] (b ++ r) = Some (v, r).
Proof. intros g l s. exact (CBP.dec_enc (CB.scene_lay g l s) []). Qed.

(** second generation at the same level *)
Theorem c20_choreo_layout_second_generation : forall l env v b v' r, CB.enc l env v = Some b ->
  CB.dec l env (b ++ r) = Some (v', r) -> CB.enc l env v' = Some b.
Proof. exact CBP.enc_dec_enc. Qed.

(** refuted: the relative-tag marker written twice (widths 1,1,2,2 against the reader's 1,2,2) *)
Theorem c20_choreo_double_marker_refuted :
  match CB.emit [1; 1; 2; 2]%nat [1; 1; 5; 9]%N with
  | Some b => CB.consume [1; 2; 2]%nat b = Some ([1; 1281; 2304]%N, [0%N])
  | None => False
  end /\ CB.paths_eqb [[CB.TW 1; CB.TW 1; CB.TW 2; CB.TW 2]] [[CB.TW 1; CB.TW 2; CB.TW 2]] = false.
Proof. exact CBP.double_marker_refuted. Qed.

(** * The summary stored with a scene (Entry.from_scene): model Fmt/SceneSummary.v, compared with the implementation on
    every run.  Times are float32 values scaled by 2^160 (exact integers); round() is half-to-even of an exact rational. *)
Module SS := Fmt.SceneSummary.

(** the last-speak time never exceeds the duration *)
Theorem c20_summary_last_speak_le_duration : forall speak master slave evs,
  let '(d, l, _) := SS.summary_of speak master slave evs in (l <= d)%Z.
Proof. exact SS.last_speak_le_duration. Qed.

(** the sound list is strictly increasing (sorted, no duplicates) and holds exactly the sounds the events use *)
Theorem c20_summary_sounds_sorted : forall l, StronglySorted SS.str_lt (SS.sort_set l).
Proof. exact SS.sort_set_sorted. Qed.
Theorem c20_summary_sounds_members : forall l x, In x (SS.sort_set l) <-> In x l.
Proof. exact SS.sort_set_In. Qed.

(** the summary is a function of the set of events: their order (events, actors, channels) does not matter *)
Theorem c20_summary_order_independent : forall speak master slave evs evs', Permutation evs evs' ->
  SS.summary_of speak master slave evs = SS.summary_of speak master slave evs'.
Proof. exact SS.summary_order_independent. Qed.

(** milliseconds are monotone in the time *)
Theorem c20_summary_ms_monotone : forall a b, (a <= b)%Z -> (SS.ms a <= SS.ms b)%Z.
Proof. exact SS.ms_mono. Qed.

(** * Keyed tables of the writers (round 4): bone numbering through [dict[Bone, int]], the string pool, particle systems by
    name, scenes.image slots.  The table is C11's [dd_run] (Fmt/BspDedup.v, imported); the census [kt_tables] / [kt_classes] is
    regenerated from the six modules (Gen/KeyTables_gen.v), the KEY of an object-keyed table being read from the [__eq__] /
    [__hash__] of the key's class. *)
Module KT := Fmt.C20KeyTables.
Module KTP := Fmt.C20KeyTablesProofs.
Module DD := Fmt.BspDedup.
From Coq Require Import String.
Open Scope string_scope.
Open Scope list_scope.

(** every table of a census passing [tables_ok] (the instance obligation on [kt_tables]): whatever is requested, in whatever
    order, the record stored under the number handed out for an object is that object's record *)
Theorem c20_keyed_table_roundtrip : forall (ts : list DD.dedup_table) name adm fields k tr l xs,
  KT.tables_ok ts = true -> In (name, adm, fields, k) ts ->
  (forall v, tr "" v = v) ->
  (forall o, In o (l ++ xs) -> map fst (snd o) = fields) ->
  (forall o o', In o (l ++ xs) -> In o' (l ++ xs) -> fst o = fst o' -> o = o') ->
  (forall t, In t adm -> forall o o' f v v', In o (l ++ xs) -> In o' (l ++ xs) ->
     DD.assoc_f f (snd o) = Some v -> DD.assoc_f f (snd o') = Some v' -> tr t v = tr t v' -> v = v') ->
  forall s' is, DD.dd_run (DD.key_sem tr k) DD.keyval_eqb (DD.dd_init (DD.key_sem tr k) l) xs = (s', is) ->
  Forall2 (fun o i => DD.read_back (fst s') i = Some (snd o)) xs is /\ exists ext, fst s' = l ++ ext.
Proof. exact KTP.keyed_table_roundtrip. Qed.

(** hand-written comparison methods passing [kcmp_ok]: objects the dict treats as equal also hash equal *)
Theorem c20_class_equal_objects_hash_equal : forall eq ne hash tr (o o' : DD.obj),
  KT.kcmp_ok (KT.CFields eq ne hash) = true -> (forall v, tr "" v = v) ->
  DD.key_sem tr (DD.KFields eq) o = DD.key_sem tr (DD.KFields eq) o' ->
  DD.key_sem tr (DD.KFields hash) o = DD.key_sem tr (DD.KFields hash) o'.
Proof. exact KTP.class_equal_objects_hash_equal. Qed.

(** the class of seeded fault c20_6: [Bone.__eq__] / [__hash__] through [name.casefold()] are consistent with each other, but
    "Weapon" and "weapon" get one node number, under which the reader finds "Weapon"; with the exact name both are kept *)
Theorem c20_smd_bone_key_casefold_refuted :
  KT.kcmp_ok KTP.bone_casefold = true /\ KT.kcmp_exact KTP.bone_casefold = false /\
  DD.dedup_ok ("smd.Mesh.export:bone_indexes", [], ["name"], KT.keyspec_of_class KTP.bone_casefold) = false /\
  (let k := DD.key_sem KT.tr_case (KT.keyspec_of_class KTP.bone_casefold) in
   let '(s, is) := DD.dd_run k DD.keyval_eqb (DD.dd_init k []) [KT.bone_Weapon; KT.bone_weapon] in
   is = [0; 0]%nat /\ DD.read_back (fst s) 0 = Some (snd KT.bone_Weapon) /\ snd KT.bone_Weapon <> snd KT.bone_weapon) /\
  KT.kcmp_ok KTP.bone_exact = true /\ KT.kcmp_exact KTP.bone_exact = true /\
  DD.dedup_ok ("smd.Mesh.export:bone_indexes", [], ["name"], KT.keyspec_of_class KTP.bone_exact) = true /\
  (let k := DD.key_sem KT.tr_case (KT.keyspec_of_class KTP.bone_exact) in
   let '(s, is) := DD.dd_run k DD.keyval_eqb (DD.dd_init k []) [KT.bone_Weapon; KT.bone_weapon; KT.bone_Weapon] in
   is = [0; 1; 0]%nat /\ DD.read_back (fst s) 1 = Some (snd KT.bone_weapon)).
Proof. exact KTP.bone_key_casefold_refuted. Qed.

(** [__eq__] folding case with an exact [__hash__] is rejected (equal objects, different hashes); the converse is accepted *)
Theorem c20_hash_finer_than_eq_refuted :
  KT.kcmp_ok (KT.CFields [("name", "casefold")] [("name", "casefold")] [("name", "")]) = false /\
  KT.kcmp_ok (KT.CFields [("name", "")] [("name", "")] [("name", "casefold")]) = true.
Proof. exact KTP.hash_finer_than_eq_refuted. Qed.

(** a string pool keyed by the casefolded string, a particle table keyed more coarsely than the reader keys systems *)
Theorem c20_pool_key_casefold_refuted :
  DD.dedup_ok ("choreo.save_scenes_image_sync:add_to_pool", [], ["<value>"], DD.KFields [("<value>", "casefold")]) = false /\
  DD.dedup_ok ("choreo.save_scenes_image_sync:add_to_pool", [], ["<value>"], DD.KValue) = true /\
  DD.dedup_ok ("particles.Particle.export:name_to_elem", ["casefold"], ["name"], DD.KFields [("name", "casefold")]) = true /\
  DD.dedup_ok ("particles.Particle.export:name_to_elem", ["casefold"], ["name"], DD.KFields [("name", "strip+casefold")]) = false.
Proof. exact KTP.pool_key_casefold_refuted. Qed.

(** * SMD bone numbering (round 4): the [nodes] section of [Mesh.export] -- [dict.fromkeys] over the bones, passes that number a
    bone once its parent is numbered, [ValueError] when a pass numbers nobody -- against the reader's line-by-line table
    (numbers consecutive from 0, a parent number must be defined by an earlier line).  Model Fmt/SmdNumber.v, compared with the
    implementation on every run. *)
Module SN := Fmt.SmdNumber.
Module SNP := Fmt.SmdNumberProofs.

(** whenever the section is written, the reader accepts every line and returns, in file order, exactly the (name, parent name)
    records of the bones of [todo]: each once, none invented, whatever the order of the dict (children first included) *)
Theorem c20_smd_nodes_section_reads_back : forall bs ls, SN.number bs = Some ls ->
  exists perm, Permutation perm (SN.dedupe bs) /\ SN.read_nodes [] ls = Some (map SN.bone_rec perm).
Proof. exact SNP.number_reads_back. Qed.

(** with pairwise distinct keys (names, as the comparison methods of Bone read them) no bone is dropped *)
Theorem c20_smd_nodes_section_reads_back_distinct : forall bs ls, NoDup (map SN.bkey bs) -> SN.number bs = Some ls ->
  exists perm, Permutation perm bs /\ SN.read_nodes [] ls = Some (map SN.bone_rec perm).
Proof. exact SNP.number_reads_back_distinct. Qed.

(** two bones under one key (what a case-folding comparison makes of "Weapon" / "weapon"): the second one is gone *)
Theorem c20_smd_equal_keys_merge_refuted :
  SN.number [SN.mkBone 0 None; SN.mkBone 1 (Some 0%N); SN.mkBone 1 (Some 0%N); SN.mkBone 3 (Some 1%N)] =
  Some [(0%nat, 0%N, None); (1%nat, 1%N, Some 0%nat); (2%nat, 3%N, Some 1%nat)] /\
  ~ NoDup (map SN.bkey [SN.mkBone 0 None; SN.mkBone 1 (Some 0%N); SN.mkBone 1 (Some 0%N); SN.mkBone 3 (Some 1%N)]).
Proof. exact SNP.number_equal_keys_merge_refuted. Qed.

(** * Quantised fields of binary choreo scenes (round 4): [min(MAX, max(0, round(value * FACTOR)))] written, [field / FACTOR] read,
    on the kernel's binary64 floats (Fmt/ChoreoQuant.v; sites regenerated from choreo.py in Gen/QuantSites_gen.v).  The stored
    values form a finite domain: every one of them is checked in the kernel. *)
Module CQ := Fmt.ChoreoQuant.
From Coq Require Import Floats.

(** for every site passing the enumeration: each field value 0..MAX is read as a float that is written back as that field *)
Theorem c20_choreo_quantised_field_stable : forall s, CQ.all_stable s = true ->
  forall k, (0 <= k <= CQ.q_max s)%Z -> CQ.quant s (CQ.dequant s k) = Some k.
Proof. exact CQ.quant_dequant. Qed.

(** ... and read again as the same float (second generation identical) *)
Theorem c20_choreo_quantised_value_second_generation : forall s, CQ.all_stable s = true ->
  forall k, (0 <= k <= CQ.q_max s)%Z -> option_map (CQ.dequant s) (CQ.quant s (CQ.dequant s k)) = Some (CQ.dequant s k).
Proof. exact CQ.dequant_second_generation. Qed.

(** the two sites of the pinned tree: factor 255 into a byte (all 256 values), factor 4096 into 16 bits (all 65536 values) *)
Theorem c20_choreo_byte_fields_stable : CQ.all_stable CQ.site_byte = true.
Proof. exact CQ.byte_sites_stable. Qed.
Theorem c20_choreo_absolute_tag_fields_stable : CQ.all_stable CQ.site_abs = true.
Proof. exact CQ.abs_sites_stable. Qed.

(** a reader dividing by 256 where the writer multiplies by 255: field 200 comes back as 199 *)
Theorem c20_choreo_quantisation_factor_mismatch_refuted :
  CQ.all_stable (CQ.mkQ CQ.QRound 255%float true 255 256%float) = false /\
  CQ.quant (CQ.mkQ CQ.QRound 255%float true 255 256%float) (CQ.dequant (CQ.mkQ CQ.QRound 255%float true 255 256%float) 200) = Some 199%Z.
Proof. exact CQ.quant_factor_mismatch_refuted. Qed.

(** * The property, composed (round 4).  One statement with its hypotheses visible: the objects regenerated from today's source --
    the cmdseq configuration, the scenes.image configuration, the soundscript stack census, the key census of the writers, the
    quantisation sites -- enter only through the named booleans the check discharges on every run ([cmdseq_cfg_ok], [image_cfg_ok],
    [sndscript_stack_census_ok], the per-table obligations, the quantisation obligation).  Partial: the formats / layers that have a
    model (see docs/C20.md for what is only searched); VMT, text lines and SMD data lines have their own statements above, over the
    tokenizer model. *)
Theorem c20_property_partial :
  forall (c : CS.cfg) (ic : SC.icfg) (A : Type) (g : list SK.gterm) (ws : list SK.wblock) (ts : list DD.dedup_table) (qs : list CQ.qsite),
  CS.cfg_okb c = true -> SC.icfg_okb ic = true -> SK.guard_okb g = true -> SK.blocks_okb ws = true ->
  KT.tables_ok ts = true -> forallb CQ.all_stable qs = true ->
  (* command sequences: written, read back equal, second generation identical *)
  (forall v, CS.repr_okb c v = true -> exists b, CS.write c v = Some b /\ CS.parse c b = Some v /\
                                                 forall v', CS.parse c b = Some v' -> CS.write c v' = Some b) /\
  (* scenes.image: read back equal (sorted by checksum), for both input forms and any dict keys *)
  (forall is_dict version pool kes, SC.image_ok_w version pool (map snd kes) ->
     exists b, SC.img_save_g ic is_dict version pool kes = Some b /\
       SI.img_parse b = Some (version, pool, map (SI.to_pentry version pool) (SI.sort_by_crc (map snd kes)))) /\
  (* binary scenes: every layout decodes what it encoded *)
  (forall l env v b r, CB.enc l env v = Some b -> CB.dec l env (b ++ r) = Some (v, r)) /\
  (* ... and every stored quantised field is stable *)
  (forall s, In s qs -> forall k, (0 <= k <= CQ.q_max s)%Z -> CQ.quant s (CQ.dequant s k) = Some k) /\
  (* soundscript operator stacks: the value comes back *)
  (forall x : SK.sound A, SK.same_value (SK.parse (fst (SK.export g ws x))) x) /\
  (* SMD: the nodes section reads back as the bones, through a table whose key keeps apart what the reader keeps apart *)
  (forall bs ls, NoDup (map SN.bkey bs) -> SN.number bs = Some ls ->
     exists perm, Permutation perm bs /\ SN.read_nodes [] ls = Some (map SN.bone_rec perm)) /\
  (forall name adm fields k, In (name, adm, fields, k) ts -> DD.key_determines adm fields k = true).
Proof. exact Fmt.C20PropertyProofs.property_partial. Qed.

(** * VMT sub-blocks and proxies (round 5; VB := Fmt.VmtBlocks).  vmt._write_block is recursive: a block with children is written as
    OPEN, its children at the indent extended by STEP, CLOSE; a block without children as LEAF.  The three templates, the step, the
    indents Material.export starts with and the frame of the Proxies block are regenerated from vmt.py (Gen/VmtBlocks_gen.v, the
    control flow is matched fail-closed); the check discharges [bcfg_okb] (self-delimiting items, whitespace indents) and
    [bcfg_shape_okb] (the templates are  "name" NL { NL / } NL / "name" "value" NL) for the generated configuration and compares
    [vmt_file_b] with Material.export on generated materials.  Names and values are written raw between quotes (Material.parse reads
    with escapes disabled; the tokenizer model un-escapes, so [tree_ok] excludes quote, backslash and line break). *)
Module VB := Fmt.VmtBlocks.
Module VBP := Fmt.VmtBlocksProofs.

(** one block with all its descendants, at any whitespace indent and any line: lexed as exactly the tokens of its templates *)
Theorem c20_vmt_block_reads_back : forall E c, KvSym.esc_ok E = true -> VB.bcfg_okb c = true ->
  forall t ind l, KvSym.ws_only ind = true -> VB.tree_ok c t = true ->
  exists l', KvLexProofs.lexes E l (VB.write_block E c ind t) (VB.block_toks c t) l'.
Proof. exact VBP.block_lexes. Qed.

(** the whole file of a material with parameters, sub-blocks and proxies (extends c20_vmt_file_reads_back_partial) *)
Theorem c20_vmt_file_with_blocks_reads_back_partial : forall E c, KvSym.esc_ok E = true -> VB.bcfg_okb c = true ->
  forall q shader ps blocks proxies, VQ.nq_okb q = true -> VQP.shader_ok shader = true -> VQP.params_ok q ps = true ->
  forallb (VB.tree_ok c) blocks = true -> forallb (VB.tree_ok c) proxies = true ->
  KvLex.lex_all E (VB.vmt_file_b E c q shader ps blocks proxies) = (VB.vmt_tokens_b c shader ps blocks proxies, None).
Proof. exact VBP.vmt_file_b_reads_back. Qed.

(** for templates of the expected shape those tokens are the canonical token stream of the tree ... *)
Theorem c20_vmt_block_tokens_canonical : forall c, VB.bcfg_shape_okb c = true -> forall t, VB.block_toks c t = VB.kv_toks t.
Proof. exact VBP.block_toks_canonical. Qed.

(** ... which a recursive-descent reader of block lists turns back into exactly the trees (with enough fuel; what follows the closing
    brace is left), so the tokens determine the blocks *)
Theorem c20_vmt_blocks_read_back_as_trees : forall ts st,
  VBP.reads (flat_map VB.kv_toks ts ++ [KvBase.TBC; KvBase.TNL] ++ st) ts st.
Proof. exact VBP.read_blocks_kv. Qed.
Theorem c20_vmt_block_tokens_determine_blocks : forall ts1 ts2 st,
  flat_map VB.kv_toks ts1 ++ [KvBase.TBC; KvBase.TNL] ++ st = flat_map VB.kv_toks ts2 ++ [KvBase.TBC; KvBase.TNL] ++ st -> ts1 = ts2.
Proof. exact VBP.kv_toks_determine_blocks. Qed.

(** refuted: a leaf template that does not quote the value, a close template without the brace *)
Theorem c20_vmt_block_leaf_without_quotes_refuted :
  VB.bcfg_shape_okb (VB.mkB (VB.b_open VB.ref_bcfg) (VB.b_close VB.ref_bcfg) [TL.IInd; TL.IQRaw; TL.IWs [32%N]; TL.IBare 10%N] [9%N] [9%N]
                       (VB.b_prox_open VB.ref_bcfg) (VB.b_prox_close VB.ref_bcfg) [9; 9]%N) = false.
Proof. exact VBP.leaf_without_quotes_refuted. Qed.
Theorem c20_vmt_block_close_without_brace_refuted :
  VB.bcfg_shape_okb (VB.mkB (VB.b_open VB.ref_bcfg) [TL.IInd; TL.INl] (VB.b_leaf VB.ref_bcfg) [9%N] [9%N]
                       (VB.b_prox_open VB.ref_bcfg) (VB.b_prox_close VB.ref_bcfg) [9; 9]%N) = false.
Proof. exact VBP.close_without_brace_refuted. Qed.

(** * The property with ONE hypothesis (round 5).  [P.gen_objects] is the record of everything the seven translators regenerate from
    today's source (cmdseq configuration, scenes.image configuration, soundscript version-2 test and stack blocks, keyed tables of the
    writers, quantisation sites, VMT quoting table and block templates, the structured lines of the soundscript and choreo text writers, the SMD lines);
    [P.premises] is the conjunction of the named booleans.  The check discharges [P.premises] for the record built from the Gen files
    on every run (obligation [c20_property_premises_hold_for_the_objects_regenerated_from_todays_source]); nothing else is assumed
    about the source.  What remains trusted is what gives the objects their meaning: the translators, the hand models behind
    [CS.write] / [SC.img_save_s] / [CB.enc] / [SK.export] / [SN.number] / [VQ.vmt_file] / [TL.render] / [SW.render] (each compared with the
    implementation on every run) and the tokenizer model of C01.  Compared with [c20_property_partial] it adds: the pool the
    scenes.image writer builds, independence of caller order, sortedness of the stored table, second generation of binary layouts and
    of soundscript stacks, independence of lazy reads, VMT files incl. sub-blocks and proxies, all structured text lines, all SMD lines. *)
Module P := Fmt.C20Property.
Theorem c20_property :
  forall g : P.gen_objects, P.premises g = true ->
  (* command sequences: written, read back equal, second generation identical *)
  (forall v, CS.repr_okb (P.g_cmdseq g) v = true -> exists b, CS.write (P.g_cmdseq g) v = Some b /\ CS.parse (P.g_cmdseq g) b = Some v /\
     forall v', CS.parse (P.g_cmdseq g) b = Some v' -> CS.write (P.g_cmdseq g) v' = Some b) /\
  (* scenes.image: read back equal, table sorted by checksum, for both input forms and any dict keys *)
  (forall is_dict version pool kes, SC.image_ok_w version pool (map snd kes) ->
     exists b ps, SC.img_save_g (P.g_image g) is_dict version pool kes = Some b /\
       SI.img_parse b = Some (version, pool, ps) /\ ps = map (SI.to_pentry version pool) (SI.sort_by_crc (map snd kes)) /\
       StronglySorted N.le (map SI.p_crc ps)) /\
  (* ... with the string pool the writer builds itself, every sound comes back as its string *)
  (forall is_dict version pool0 kes, let pool := SC.pool_g (P.g_image g) is_dict pool0 kes in
     SC.image_ok_w version pool (map (SC.resolve pool) (map snd kes)) ->
     exists b, SC.img_save_s (P.g_image g) is_dict version pool0 kes = Some b /\
       SI.img_parse b = Some (version, pool, map (SC.to_pentry_s version) (SC.sort_by SC.s_crc (map snd kes)))) /\
  (* ... and equal images give identical files *)
  (forall d1 d2 version pool0 kes1 kes2, Permutation (map snd kes1) (map snd kes2) -> NoDup (map SC.s_crc (map snd kes1)) ->
     SC.img_save_s (P.g_image g) d1 version pool0 kes1 = SC.img_save_s (P.g_image g) d2 version pool0 kes2) /\
  (* binary scenes: every layout decodes what it encoded, the second generation is identical, every stored quantised field is stable *)
  (forall l env v b r, CB.enc l env v = Some b -> CB.dec l env (b ++ r) = Some (v, r)) /\
  (forall l env v b v' r, CB.enc l env v = Some b -> CB.dec l env (b ++ r) = Some (v', r) -> CB.enc l env v' = Some b) /\
  (forall s, In s (P.g_quant g) -> forall k, (0 <= k <= CQ.q_max s)%Z -> CQ.quant s (CQ.dequant s k) = Some k) /\
  (* soundscript operator stacks: the value comes back, identically the second time, whatever lazy property was read before *)
  (forall (A : Type) (x : SK.sound A), SK.same_value (SK.parse (fst (SK.export (P.g_snd_guard g) (P.g_snd_blocks g) x))) x /\
     fst (SK.export (P.g_snd_guard g) (P.g_snd_blocks g) (SK.parse (fst (SK.export (P.g_snd_guard g) (P.g_snd_blocks g) x))))
       = fst (SK.export (P.g_snd_guard g) (P.g_snd_blocks g) x) /\
     forall ts, fst (SK.export (P.g_snd_guard g) (P.g_snd_blocks g) (SK.touches ts x)) = fst (SK.export (P.g_snd_guard g) (P.g_snd_blocks g) x)) /\
  (* SMD: the nodes section reads back as the bones; every writer table has a key that determines what the reader identifies *)
  (forall bs ls, NoDup (map SN.bkey bs) -> SN.number bs = Some ls ->
     exists perm, Permutation perm bs /\ SN.read_nodes [] ls = Some (map SN.bone_rec perm)) /\
  (forall name adm fields k, In (name, adm, fields, k) (P.g_tables g) -> DD.key_determines adm fields k = true) /\
  (* SMD: every other written line splits at whitespace into exactly its fields; the bone line is read back by the reader's pattern *)
  (forall l, In l (P.g_smd_lines g) ->
     (SW.delim true l = true /\ forall ps, map fst ps = l -> SW.values_wordy ps = true -> SW.words (SW.render ps) = SW.fields ps) \/
     (SW.nodes_line_shape l = true /\ forall a b idx nm par, l = [ST.ConvInt; ST.Lit a; ST.ConvStr; ST.Lit b; ST.ConvInt] ->
        SW.all_digits idx = true -> forallb (fun c => negb (c =? 34)%N) nm = true -> SW.int_text par = true ->
        SW.parse_nodes (SW.render [(ST.ConvInt, idx); (ST.Lit a, []); (ST.ConvStr, nm); (ST.Lit b, []); (ST.ConvInt, par)])
        = Some (idx, nm, par))) /\
  (* VMT (parameter-only materials): the file is read as shader, brace, the pairs in order, brace; the file determines the material *)
  (forall E shader ps, VQP.shader_ok shader = true -> VQP.params_ok (P.g_vmt_nq g) ps = true ->
     KvLex.lex_all E (VQ.vmt_file (P.g_vmt_nq g) shader ps) = (VQ.vmt_tokens shader ps, None)) /\
  (forall s1 p1 s2 p2, VQP.shader_ok s1 = true -> VQP.params_ok (P.g_vmt_nq g) p1 = true -> VQP.shader_ok s2 = true ->
     VQP.params_ok (P.g_vmt_nq g) p2 = true -> VQ.vmt_file (P.g_vmt_nq g) s1 p1 = VQ.vmt_file (P.g_vmt_nq g) s2 p2 -> s1 = s2 /\ p1 = p2) /\
  (* VMT with sub-blocks and proxies: the file is read as shader, brace, the pairs, the canonical tokens of every block (name, brace,
     children, brace / name, value), the Proxies frame with its blocks, brace; and a reader of such tokens gives the trees back *)
  (forall E shader ps blocks proxies, KvSym.esc_ok E = true -> VQP.shader_ok shader = true -> VQP.params_ok (P.g_vmt_nq g) ps = true ->
     forallb (VB.tree_ok (P.g_vmt_blocks g)) blocks = true -> forallb (VB.tree_ok (P.g_vmt_blocks g)) proxies = true ->
     KvLex.lex_all E (VB.vmt_file_b E (P.g_vmt_blocks g) (P.g_vmt_nq g) shader ps blocks proxies)
       = (VB.vmt_tokens_b (P.g_vmt_blocks g) shader ps blocks proxies, None) /\
     (forall t, VB.block_toks (P.g_vmt_blocks g) t = VB.kv_toks t) /\
     (forall st, VBP.reads (flat_map VB.kv_toks blocks ++ [KvBase.TBC; KvBase.TNL] ++ st) blocks st)) /\
  (* soundscripts and text scenes: every structured line the writers can emit is lexed back as its keywords and field values *)
  (forall E ind its vs l, KvSym.esc_ok E = true -> KvSym.ws_only ind = true -> In its (P.g_snd_lines g ++ P.g_cho_lines g) ->
     TL.vals_ok its vs = true -> KvLexProofs.lexes E l (TL.render E ind its vs) (TL.toks its vs) (TL.lines its l)).
Proof. exact Fmt.C20PropertyProofs.property. Qed.

(** the premise is satisfiable (a record of the shape generated for the pinned tree) and rejects the classes of the seeded faults:
    table ordered by the dict keys (c20_1, 3, 5, 7), version-2 test by presence of a lazy stack (c20_4, 8), bones compared through
    casefold (c20_6) *)
Theorem c20_property_premises_satisfiable : P.premises Fmt.C20PropertyProofs.pinned_objects = true.
Proof. exact Fmt.C20PropertyProofs.premises_satisfiable. Qed.
