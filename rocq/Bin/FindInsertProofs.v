(** Soundness of the index builders: the index returned denotes the item asked for, in the final table too
    (tables only grow at the end), for every sequence of requests. *)
From Coq Require Import NArith List Bool Lia PeanoNat.
From SV Require Import Bin.FindInsert.
Import ListNotations.
Open Scope N_scope.

Definition fi_inv (s : fi_state) : Prop :=
  forall k i, lookup k (index s) = Some i -> nth_error (items s) i = Some k.

Lemma build_from_inv : forall l pre d,
  (forall k i, lookup k d = Some i -> nth_error (pre ++ l) i = Some k) ->
  forall k i, lookup k (build_from (List.length pre) l d) = Some i -> nth_error (pre ++ l) i = Some k.
Proof.
  induction l as [|x l IH]; intros pre d Hd k i H; cbn [build_from] in H.
  - auto.
  - replace (pre ++ x :: l) with ((pre ++ [x]) ++ l) in * by (rewrite <- app_assoc; reflexivity).
    apply (IH (pre ++ [x]) ((x, List.length pre) :: d)).
    + intros k' i' H'. cbn [lookup] in H'. destruct (N.eqb_spec k' x).
      * injection H' as <-. subst k'. rewrite <- app_assoc. cbn [app].
        rewrite nth_error_app2 by lia. rewrite Nat.sub_diag. reflexivity.
      * auto.
    + rewrite app_length. cbn [List.length]. replace (List.length pre + 1)%nat with (S (List.length pre)) by lia. exact H.
Qed.

Lemma fi_init_inv : forall l, fi_inv (fi_init l).
Proof.
  intros l k i H. unfold fi_init in *. cbn [items index] in *.
  apply (build_from_inv l [] []); [intros ? ? E; discriminate E | exact H].
Qed.

Lemma fi_find_sound : forall s k s' i, fi_inv s -> fi_find s k = (s', i) ->
  nth_error (items s') i = Some k /\ fi_inv s' /\ exists ext, items s' = items s ++ ext.
Proof.
  intros s k s' i Hinv H. unfold fi_find in H. destruct (lookup k (index s)) as [j|] eqn:E.
  - injection H as <- <-. split; [auto|]. split; [exact Hinv|]. exists []. rewrite app_nil_r. reflexivity.
  - injection H as <- <-. cbn [items index]. split.
    + rewrite nth_error_app2 by lia. rewrite Nat.sub_diag. reflexivity.
    + split.
      * intros k' i' H'. cbn [items index lookup] in *. destruct (N.eqb_spec k' k).
        -- injection H' as <-. subst k'. rewrite nth_error_app2 by lia. rewrite Nat.sub_diag. reflexivity.
        -- rewrite nth_error_app1; [auto|]. apply nth_error_Some. rewrite (Hinv _ _ H'). discriminate.
      * eexists; reflexivity.
Qed.

(** Every index handed out during a whole run still denotes its item in the final table. *)
Theorem fi_run_sound : forall ks s s' is, fi_inv s -> fi_run s ks = (s', is) ->
  Forall2 (fun k i => nth_error (items s') i = Some k) ks is /\ fi_inv s' /\ exists ext, items s' = items s ++ ext.
Proof.
  induction ks as [|k r IH]; intros s s' is Hinv H; cbn [fi_run] in H.
  - injection H as <- <-. split; [constructor|]. split; [exact Hinv|]. exists []. rewrite app_nil_r. reflexivity.
  - destruct (fi_find s k) as [s1 i] eqn:E1. destruct (fi_run s1 r) as [s2 is2] eqn:E2. injection H as <- <-.
    destruct (fi_find_sound _ _ _ _ Hinv E1) as (Hn & Hinv1 & ext1 & Hx1).
    destruct (IH _ _ _ Hinv1 E2) as (Hf & Hinv2 & ext2 & Hx2).
    split; [|split; [exact Hinv2|]].
    + constructor; [|exact Hf]. rewrite Hx2. rewrite nth_error_app1; [exact Hn|].
      apply nth_error_Some. rewrite Hn. discriminate.
    + exists (ext1 ++ ext2). rewrite Hx2, Hx1, app_assoc. reflexivity.
Qed.

(** * find_or_extend *)
Lemma zip_all_eq_firstn : forall sub l, (List.length sub <= List.length l)%nat -> zip_all_eq sub l = true ->
  firstn (List.length sub) l = sub.
Proof.
  induction sub as [|x sub IH]; intros l Hl H; [reflexivity|].
  destruct l as [|y l]; [cbn in Hl; lia|]. cbn [zip_all_eq] in H. apply andb_prop in H. destruct H as [H1 H2].
  apply N.eqb_eq in H1. subst y. cbn [List.length firstn]. f_equal. apply IH; [cbn in Hl; lia | exact H2].
Qed.

Lemma fe_find_sound : forall keys sub keys' i, fe_find true keys sub = (keys', i) ->
  slice keys' i (List.length sub) = sub /\ exists ext, keys' = keys ++ ext.
Proof.
  intros keys sub keys' i H. unfold fe_find in H. destruct sub as [|k sub'].
  - injection H as <- <-. split; [reflexivity|]. exists []. rewrite app_nil_r. reflexivity.
  - destruct (find (fe_match true keys (k :: sub')) (candidates keys k)) as [j|] eqn:E.
    + injection H as <- <-. apply find_some in E. destruct E as [_ E]. unfold fe_match in E.
      apply andb_prop in E. destruct E as [E1 E2]. apply Nat.leb_le in E1.
      split; [|exists []; rewrite app_nil_r; reflexivity].
      unfold slice. apply zip_all_eq_firstn; [rewrite skipn_length; lia | exact E2].
    + injection H as <- <-. split; [|eexists; reflexivity].
      unfold slice. rewrite skipn_app, skipn_all, Nat.sub_diag. cbn [skipn app]. apply firstn_all.
Qed.

Lemma slice_app : forall keys ext i n, (i + n <= List.length keys)%nat \/ slice keys i n = slice keys i n ->
  (i + n <= List.length keys)%nat -> slice (keys ++ ext) i n = slice keys i n.
Proof.
  intros keys ext i n _ H. unfold slice. rewrite skipn_app, firstn_app, skipn_length.
  replace (n - (List.length keys - i))%nat with O by lia. cbn [firstn]. rewrite app_nil_r. reflexivity.
Qed.

Lemma slice_len : forall keys i sub, sub <> [] -> slice keys i (List.length sub) = sub -> (i + List.length sub <= List.length keys)%nat.
Proof.
  intros keys i sub Hne H. unfold slice in H. assert (L : List.length (firstn (List.length sub) (skipn i keys)) = List.length sub) by (rewrite H; reflexivity).
  rewrite firstn_length, skipn_length in L. destruct sub; [congruence|]. cbn [List.length] in *. lia.
Qed.

(** With the bound test, every (first, count) pair produced during a run selects exactly the requested
    sub-list of the final table. *)
Theorem fe_run_sound : forall subs keys keys' is, fe_run true keys subs = (keys', is) ->
  Forall2 (fun sub i => slice keys' i (List.length sub) = sub) subs is /\ exists ext, keys' = keys ++ ext.
Proof.
  induction subs as [|s r IH]; intros keys keys' is H; cbn [fe_run] in H.
  - injection H as <- <-. split; [constructor|]. exists []. rewrite app_nil_r. reflexivity.
  - destruct (fe_find true keys s) as [k1 i] eqn:E1. destruct (fe_run true k1 r) as [k2 is2] eqn:E2. injection H as <- <-.
    destruct (fe_find_sound _ _ _ _ E1) as (Hs & ext1 & Hx1).
    destruct (IH _ _ _ E2) as (Hf & ext2 & Hx2).
    split.
    + constructor; [|exact Hf]. destruct s as [|x s'].
      * reflexivity.
      * rewrite Hx2. rewrite slice_app; [exact Hs | right; reflexivity |].
        apply slice_len; [discriminate | exact Hs].
    + exists (ext1 ++ ext2). rewrite Hx2, Hx1, app_assoc. reflexivity.
Qed.

(** Without the bound test the statement is false: a sub-list whose first element is the last table entry
    "matches" there although the table ends (zip stops early). *)
Theorem fe_unbounded_refuted :
  let '(keys', is) := fe_run false [] [[1; 2]; [2; 3]] in
  keys' = [1; 2] /\ is = [0; 1]%nat /\ slice keys' 1 2 = [2].
Proof. vm_compute. repeat split; reflexivity. Qed.

Theorem fi_sound : forall l ks s' is, fi_run (fi_init l) ks = (s', is) ->
  Forall2 (fun k i => nth_error (items s') i = Some k) ks is /\ exists ext, items s' = l ++ ext.
Proof.
  intros l ks s' is H. destruct (fi_run_sound ks (fi_init l) s' is (fi_init_inv l) H) as (A & _ & B). split; assumption.
Qed.
