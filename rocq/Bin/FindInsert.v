(** [find_or_insert] / [find_or_extend] (binformat.py): the index builders every lump writer uses to turn
    object references into indexes of shared tables.  Items are represented by their keys ([id(obj)] or the
    value of [key_func]).  Executable definitions only; proofs are in FindInsertProofs.v. *)
From Coq Require Import NArith List Bool PeanoNat.
Import ListNotations.
Open Scope N_scope.

(** A Python dict as an association list, newest binding first. *)
Definition dict := list (N * nat).
Fixpoint lookup (k : N) (d : dict) : option nat :=
  match d with
  | [] => None
  | (k', i) :: r => if k =? k' then Some i else lookup k r
  end.

(** [{key(item): i for i, item in enumerate(item_list)}]: for a duplicated key the LAST index wins. *)
Fixpoint build_from (i : nat) (l : list N) (d : dict) : dict :=
  match l with
  | [] => d
  | k :: r => build_from (S i) r ((k, i) :: d)
  end.

Record fi_state := { items : list N; index : dict }.
Definition fi_init (l : list N) : fi_state := {| items := l; index := build_from 0 l [] |}.

Definition fi_find (s : fi_state) (k : N) : fi_state * nat :=
  match lookup k (index s) with
  | Some i => (s, i)
  | None => ({| items := items s ++ [k]; index := (k, List.length (items s)) :: index s |}, List.length (items s))
  end.

Fixpoint fi_run (s : fi_state) (ks : list N) : fi_state * list nat :=
  match ks with
  | [] => (s, [])
  | k :: r => let '(s1, i) := fi_find s k in let '(s2, is) := fi_run s1 r in (s2, i :: is)
  end.

(** * find_or_extend *)
(** [all(key(a) == key(b) for a, b in zip(items, islice(item_list, i, i + len(items))))]:
    [zip] stops at the shorter sequence, so running off the end of [item_list] counts as a match. *)
Fixpoint zip_all_eq (a b : list N) : bool :=
  match a, b with
  | x :: a', y :: b' => (x =? y) && zip_all_eq a' b'
  | _, _ => true
  end.

(** [bounded] = the candidate test also demands [i + len(items) <= len(item_list)]
    (read from the source by the translator; absent in the pinned tree). *)
Definition fe_match (bounded : bool) (keys sub : list N) (i : nat) : bool :=
  (if bounded then (i + List.length sub <=? List.length keys)%nat else true) && zip_all_eq sub (skipn i keys).

Definition candidates (keys : list N) (k : N) : list nat :=
  filter (fun i => nth i keys (k + 1) =? k) (seq 0 (List.length keys)).

Definition fe_find (bounded : bool) (keys sub : list N) : list N * nat :=
  match sub with
  | [] => (keys, O)
  | k :: _ =>
      match find (fe_match bounded keys sub) (candidates keys k) with
      | Some i => (keys, i)
      | None => (keys ++ sub, List.length keys)
      end
  end.

Fixpoint fe_run (bounded : bool) (keys : list N) (subs : list (list N)) : list N * list nat :=
  match subs with
  | [] => (keys, [])
  | s :: r => let '(k1, i) := fe_find bounded keys s in let '(k2, is) := fe_run bounded k1 r in (k2, i :: is)
  end.

(** What a reader does with (first, count). *)
Definition slice (keys : list N) (first count : nat) : list N := firstn count (skipn first keys).
