(** DeferredWrites (model in BspDeferred.v): the file that results from reserving slots, writing on, setting the slots and
    filling them in at the end is the file a two-pass writer would produce - every slot holds the value set LAST for its
    key, every other byte is where the sequential writes put it. *)
From Coq Require Import NArith List Bool PeanoNat Lia.
From SV Require Import Bin.BspDeferred.
Import ListNotations.
Local Open Scope nat_scope.

Section DictLemmas.
Context {V : Type}.
Implicit Types l : list (nat * V).

Lemma dget_dupd : forall l k k' v, dget k (dupd k' v l) = if Nat.eqb k k' then Some v else dget k l.
Proof.
  induction l as [|[k0 v0] r IH]; intros k k' v; cbn [dupd dget].
  - reflexivity.
  - destruct (Nat.eqb_spec k' k0) as [->|Hne]; cbn [dget].
    + destruct (Nat.eqb k k0); reflexivity.
    + rewrite IH. destruct (Nat.eqb_spec k k0) as [->|]; [|reflexivity].
      destruct (Nat.eqb_spec k0 k'); [congruence|reflexivity].
Qed.

Lemma dget_None : forall l k, dget k l = None <-> ~ In k (dkeys l).
Proof.
  induction l as [|[k0 v0] r IH]; intros k; cbn [dget dkeys map fst In].
  - split; [intros _ []|reflexivity].
  - destruct (Nat.eqb_spec k k0) as [->|Hne].
    + split; [discriminate|]. intros H. exfalso. apply H. left. reflexivity.
    + rewrite IH. unfold dkeys. split; [intros H [E|E]; [congruence|exact (H E)]|intros H E; apply H; right; exact E].
Qed.

Lemma dupd_fresh : forall l k v, ~ In k (dkeys l) -> dupd k v l = l ++ [(k, v)].
Proof.
  induction l as [|[k0 v0] r IH]; intros k v H; cbn [dupd app]; [reflexivity|].
  cbn [dkeys map fst In] in H. destruct (Nat.eqb_spec k k0) as [->|Hne]; [exfalso; apply H; left; reflexivity|].
  f_equal. apply IH. intro E. apply H. right. exact E.
Qed.

Lemma dkeys_dupd : forall l k v x, In x (dkeys (dupd k v l)) <-> x = k \/ In x (dkeys l).
Proof.
  induction l as [|[k0 v0] r IH]; intros k v x; cbn [dupd dkeys map fst In].
  - split; [intros [E|[]]; left; congruence|intros [E|[]]; left; congruence].
  - destruct (Nat.eqb_spec k k0) as [->|Hne]; cbn [map fst In].
    + split; [intros [E|E]; [left; congruence|right; right; exact E]|intros [E|[E|E]]; [left; congruence|left; exact E|right; exact E]].
    + fold (dkeys (dupd k v r)). rewrite IH. unfold dkeys. tauto.
Qed.

Lemma NoDup_dkeys_dupd : forall l k v, NoDup (dkeys l) -> NoDup (dkeys (dupd k v l)).
Proof.
  induction l as [|[k0 v0] r IH]; intros k v H; cbn [dupd dkeys map fst].
  - constructor; [intros []|constructor].
  - cbn [dkeys map fst] in H. inversion H as [|? ? Hn Hr]; subst.
    destruct (Nat.eqb_spec k k0) as [->|Hne]; cbn [map fst]; [constructor; assumption|].
    constructor; [|apply IH; exact Hr]. fold (dkeys (dupd k v r)). rewrite dkeys_dupd. intros [E|E]; [congruence|exact (Hn E)].
Qed.

Lemma dget_ddel : forall l k k', k <> k' -> dget k (ddel k' l) = dget k l.
Proof.
  induction l as [|[k0 v0] r IH]; intros k k' H; cbn [ddel dget]; [reflexivity|].
  destruct (Nat.eqb_spec k' k0) as [->|Hne].
  - destruct (Nat.eqb_spec k k0); [congruence|reflexivity].
  - cbn [dget]. rewrite IH by exact H. reflexivity.
Qed.

Lemma dkeys_ddel : forall l k x, NoDup (dkeys l) -> (In x (dkeys (ddel k l)) <-> x <> k /\ In x (dkeys l)).
Proof.
  induction l as [|[k0 v0] r IH]; intros k x H; cbn [ddel dkeys map fst In].
  - tauto.
  - cbn [dkeys map fst] in H. inversion H as [|? ? Hn Hr]; subst. destruct (Nat.eqb_spec k k0) as [->|Hne].
    + fold (dkeys r). split; [intros E; split; [intros ->; exact (Hn E)|right; exact E]|intros [E1 [E2|E2]]; [congruence|exact E2]].
    + cbn [map fst In]. fold (dkeys (ddel k r)). rewrite IH by exact Hr. unfold dkeys. split.
      * intros [E|[E1 E2]]; [split; [congruence|left; exact E]|split; [exact E1|right; exact E2]].
      * intros [E1 [E2|E2]]; [left; exact E2|right; split; assumption].
Qed.

Lemma NoDup_dkeys_ddel : forall l k, NoDup (dkeys l) -> NoDup (dkeys (ddel k l)).
Proof.
  induction l as [|[k0 v0] r IH]; intros k H; cbn [ddel dkeys map fst]; [constructor|].
  cbn [dkeys map fst] in H. inversion H as [|? ? Hn Hr]; subst. destruct (Nat.eqb_spec k k0) as [->|Hne]; [exact Hr|].
  cbn [map fst]. constructor; [|apply IH; exact Hr]. fold (dkeys (ddel k r)). rewrite dkeys_ddel by exact Hr. intros [_ E]. exact (Hn E).
Qed.

Lemma dget_In : forall l k v, NoDup (dkeys l) -> In (k, v) l -> dget k l = Some v.
Proof.
  induction l as [|[k0 v0] r IH]; intros k v H Hin; [destruct Hin|].
  cbn [dkeys map fst] in H. inversion H as [|? ? Hn Hr]; subst. cbn [dget]. destruct Hin as [E|Hin].
  - injection E as -> ->. rewrite Nat.eqb_refl. reflexivity.
  - destruct (Nat.eqb_spec k k0) as [->|Hne]; [|apply IH; assumption].
    exfalso. apply Hn. change k0 with (fst (k0, v)). apply in_map. exact Hin.
Qed.

Lemma dget_app_l : forall l l' k v, dget k l = Some v -> dget k (l ++ l') = Some v.
Proof.
  induction l as [|[k0 v0] r IH]; intros l' k v H; [discriminate|]. cbn [dget app] in *.
  destruct (Nat.eqb k k0); [exact H|apply IH; exact H].
Qed.
End DictLemmas.

(** The file as the sequential writes leave it (slots zero), and the slots in file order. *)
Fixpoint render0 (ops : list dop) : list N :=
  match ops with
  | [] => []
  | DWrite bs :: r => bs ++ render0 r
  | DDefer _ size :: r => repeat 0%N size ++ render0 r
  | DSet _ _ :: r => render0 r
  end.
Fixpoint locs (base : nat) (ops : list dop) : list (nat * (nat * nat)) :=
  match ops with
  | [] => []
  | DWrite bs :: r => locs (base + List.length bs) r
  | DDefer k size :: r => (k, (base, size)) :: locs (base + size) r
  | DSet _ _ :: r => locs base r
  end.

Lemma dkeys_locs : forall ops base, dkeys (locs base ops) = defer_keys ops.
Proof. induction ops as [|[bs|k size|k d] r IH]; intros base; cbn [locs defer_keys dkeys map fst]; [reflexivity|apply IH|f_equal; apply IH|apply IH]. Qed.

Lemma patch_slot : forall (pre rest d : list N) size, List.length d = size ->
  patch (pre ++ repeat 0%N size ++ rest) (List.length pre) d = pre ++ d ++ rest.
Proof.
  intros pre rest d size H. unfold patch. rewrite firstn_app, firstn_all, Nat.sub_diag. cbn [firstn]. rewrite app_nil_r. f_equal. f_equal.
  rewrite skipn_app. rewrite skipn_all2 by lia. cbn [app]. replace (List.length pre + List.length d - List.length pre) with size by lia.
  rewrite skipn_app. rewrite skipn_all2 by (rewrite repeat_length; lia). rewrite repeat_length, Nat.sub_diag. reflexivity.
Qed.

Lemma final_ok : forall ops pre data m, NoDup (defer_keys ops) -> NoDup (dkeys data) ->
  (forall k, In k (dkeys data) <-> In k (defer_keys ops)) ->
  (forall k off size, In (k, (off, size)) (locs (List.length pre) ops) -> dget k data = Some (m k) /\ List.length (m k) = size) ->
  dfinal (locs (List.length pre) ops) data (pre ++ render0 ops) = Some (pre ++ render m ops).
Proof.
  induction ops as [|[bs|k size|k d] r IH]; intros pre data m Hnd Hdd Hkeys Hval; cbn [locs render0 render defer_keys] in *.
  - cbn [dfinal]. destruct data as [|[k v] data']; [reflexivity|]. exfalso. apply (Hkeys k). left. reflexivity.
  - rewrite <- app_length. rewrite !app_assoc. apply IH; try assumption. rewrite app_length. exact Hval.
  - inversion Hnd as [|? ? Hk Hr]; subst. cbn [dfinal].
    destruct (Hval k (List.length pre) size (or_introl eq_refl)) as [Hg Hl]. rewrite Hg.
    rewrite patch_slot by exact Hl.
    replace (pre ++ m k ++ render0 r) with ((pre ++ m k) ++ render0 r) by (rewrite app_assoc; reflexivity).
    replace (pre ++ m k ++ render m r) with ((pre ++ m k) ++ render m r) by (rewrite app_assoc; reflexivity).
    replace (List.length pre + size) with (List.length (pre ++ m k)) by (rewrite app_length; lia).
    apply IH.
    + exact Hr.
    + apply NoDup_dkeys_ddel. exact Hdd.
    + intros x. rewrite dkeys_ddel by exact Hdd. rewrite Hkeys. cbn [In]. split.
      * intros [H1 [H2|H2]]; [congruence|exact H2].
      * intros H. split; [intros ->; exact (Hk H)|right; exact H].
    + intros k' off' size' Hin.
      assert (Hne : k' <> k).
      { intros ->. apply Hk. rewrite <- (dkeys_locs r (List.length (pre ++ m k))). change k with (fst (k, (off', size'))). apply in_map. exact Hin. }
      rewrite dget_ddel by exact Hne. apply (Hval k' off' size'). right.
      replace (List.length pre + size) with (List.length (pre ++ m k)) by (rewrite app_length; lia). exact Hin.
  - apply IH; assumption.
Qed.

Lemma run_inv : forall ops s s', drun s ops = Some s' -> NoDup (dkeys (dloc s) ++ defer_keys ops) ->
  dfile s' = dfile s ++ render0 ops /\ dloc s' = dloc s ++ locs (List.length (dfile s)) ops /\
  (forall k, dget k (ddata s') = match last_set ops k with Some d => Some d | None => dget k (ddata s) end) /\
  (NoDup (dkeys (ddata s)) -> NoDup (dkeys (ddata s'))) /\
  (forall k d, dget k (ddata s') = Some d -> dget k (ddata s) = Some d \/ exists off, dget k (dloc s') = Some (off, List.length d)).
Proof.
  induction ops as [|o r IH]; intros s s' H Hnd; cbn [drun] in H.
  - injection H as <-. cbn [render0 locs last_set]. rewrite !app_nil_r. repeat split; auto.
  - destruct (dstep s o) as [s1|] eqn:E; [|discriminate]. destruct o as [bs|k size|k d]; cbn [dstep] in E.
    + injection E as <-. destruct (IH _ _ H) as (A & B & C & D & F); [exact Hnd|]. cbn [dfile dloc ddata] in *.
      cbn [render0 locs last_set defer_keys]. split; [rewrite A, <- app_assoc; reflexivity|]. split; [rewrite B, app_length; reflexivity|]. split; [exact C|]. split; [exact D|exact F].
    + injection E as <-. cbn [defer_keys] in Hnd.
      assert (Hfresh : ~ In k (dkeys (dloc s))).
      { intro Hin. apply NoDup_remove_2 in Hnd. apply Hnd. apply in_or_app. left. exact Hin. }
      destruct (IH _ _ H) as (A & B & C & D & F); cbn [dfile dloc ddata] in *.
      { rewrite dupd_fresh by exact Hfresh. unfold dkeys in *. rewrite map_app. cbn [map fst]. rewrite <- app_assoc. exact Hnd. }
      cbn [render0 locs last_set]. rewrite dupd_fresh in B by exact Hfresh.
      split; [rewrite A, <- app_assoc; reflexivity|]. split; [rewrite B, app_length, repeat_length, <- app_assoc; reflexivity|]. split; [exact C|]. split; [exact D|exact F].
    + destruct (dget k (dloc s)) as [[off size]|] eqn:Eg; [|discriminate].
      destruct (Nat.eqb_spec (List.length d) size) as [Hsz|]; [|discriminate]. injection E as <-.
      destruct (IH _ _ H) as (A & B & C & D & F); cbn [dfile dloc ddata] in *; [exact Hnd|].
      cbn [render0 locs last_set defer_keys]. split; [exact A|]. split; [exact B|]. split; [|split].
      * intros k0. rewrite C. destruct (last_set r k0); [reflexivity|]. rewrite dget_dupd. destruct (Nat.eqb k0 k); reflexivity.
      * intros Hn. apply D. apply NoDup_dkeys_dupd. exact Hn.
      * intros k0 d0 Hg. destruct (F k0 d0 Hg) as [Hold|Hnew]; [|right; exact Hnew].
        rewrite dget_dupd in Hold. destruct (Nat.eqb_spec k0 k) as [->|]; [|left; exact Hold].
        injection Hold as <-. right. exists off. rewrite B. apply dget_app_l. rewrite Hsz. exact Eg.
Qed.

(** The two-pass theorem. *)
Theorem dw_two_pass : forall ops s, NoDup (defer_keys ops) -> drun dempty ops = Some s ->
  (forall k, In k (defer_keys ops) -> last_set ops k <> None) ->
  dwhole ops = Some (render (final_value ops) ops).
Proof.
  intros ops s Hnd Hrun Hset. unfold dwhole. rewrite Hrun.
  destruct (run_inv ops dempty s Hrun) as (A & B & C & D & F); [exact Hnd|]. cbn [dempty dfile dloc ddata app List.length] in *.
  rewrite A, B. apply (final_ok ops [] (ddata s) (final_value ops)).
  - exact Hnd.
  - apply D. constructor.
  - intros k. split.
    + intros Hin. destruct (dget k (ddata s)) as [d|] eqn:Eg; [|apply dget_None in Eg; contradiction].
      destruct (F k d Eg) as [Hold|[off Hloc]]; [discriminate|]. rewrite B in Hloc.
      rewrite <- (dkeys_locs ops 0). destruct (in_dec Nat.eq_dec k (dkeys (locs 0 ops))) as [Hi|Hni]; [exact Hi|].
      apply dget_None in Hni. congruence.
    + intros Hin. destruct (dget k (ddata s)) as [d|] eqn:Eg.
      * destruct (in_dec Nat.eq_dec k (dkeys (ddata s))) as [Hi|Hni]; [exact Hi|]. apply dget_None in Hni. congruence.
      * exfalso. rewrite C in Eg. specialize (Hset k Hin). destruct (last_set ops k); [discriminate|contradiction].
  - intros k off size Hin.
    assert (Hk : In k (defer_keys ops)).
    { rewrite <- (dkeys_locs ops 0). change k with (fst (k, (off, size))). apply in_map. exact Hin. }
    specialize (Hset k Hk). unfold final_value. rewrite C. destruct (last_set ops k) as [d|] eqn:El; [|contradiction].
    split; [reflexivity|].
    assert (Hg : dget k (ddata s) = Some d) by (rewrite C, El; reflexivity).
    destruct (F k d Hg) as [Hold|[off' Hloc]]; [discriminate|]. rewrite B in Hloc.
    assert (Hn : NoDup (dkeys (locs 0 ops))) by (rewrite dkeys_locs; exact Hnd).
    rewrite (dget_In _ _ _ Hn Hin) in Hloc. injection Hloc as _ <-. reflexivity.
Qed.

(** A slot that never got its value is an error, not a file with zeros in it. *)
Theorem dw_unset_slot_is_error : dwhole [DWrite [1%N]; DDefer 0 4; DWrite [2%N]] = None.
Proof. reflexivity. Qed.

(** The visibility lump of one cluster: count, one slot of two offsets, two rows; the slot gets the offsets afterwards. *)
Example dw_example :
  dwhole [DWrite [1%N; 0%N; 0%N; 0%N]; DDefer 0 8; DWrite [7%N]; DWrite [9%N]; DSet 0 [12%N; 0%N; 0%N; 0%N; 13%N; 0%N; 0%N; 0%N]]
  = Some [1%N; 0%N; 0%N; 0%N; 12%N; 0%N; 0%N; 0%N; 13%N; 0%N; 0%N; 0%N; 7%N; 9%N].
Proof. reflexivity. Qed.
