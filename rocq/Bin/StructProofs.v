(** Proofs about the [struct] model: [unpack] inverts [pack] on every value that fits; [pack] refuses every
    out-of-range integer; [Ns] pads short values and silently truncates long ones. *)
From Coq Require Import NArith ZArith List Bool Lia PeanoNat String.
From SV Require Import Bin.LE Bin.Struct.
Import ListNotations.
Open Scope N_scope.

Lemma all_bytes_ok : forall l, all_bytes l = true -> bytes_ok l.
Proof.
  induction l; intros H; constructor; cbn [all_bytes forallb] in H; apply andb_prop in H; destruct H as [H1 H2].
  - unfold byte_ok. apply N.ltb_lt. exact H1.
  - apply IHl. exact H2.
Qed.

Lemma pack_int_length : forall s w z a, pack_int s w z = Some a -> List.length a = w.
Proof. unfold pack_int. intros s w z a H. destruct (in_range s w z); [injection H as <-|discriminate]. apply le_enc_length. Qed.

Lemma pack1_length : forall k v a, pack1 k v = Some a -> List.length a = ksize k.
Proof.
  intros k v a H. destruct k, v; cbn [pack1 ksize] in *; try discriminate.
  - eapply pack_int_length; eauto.
  - eapply pack_int_length; eauto.
  - destruct (bits <? 2 ^ 32); [injection H as <-|discriminate]. first [apply le_enc_length | reflexivity].
  - injection H as <-. reflexivity.
  - injection H as <-. reflexivity.
  - injection H as <-. reflexivity.
  - destruct (all_bytes l); [injection H as <-|discriminate]. rewrite app_length, firstn_length, repeat_length. lia.
Qed.

Lemma pack_length : forall f vs bs, pack f vs = Some bs -> List.length bs = calcsize f.
Proof.
  induction f as [|k f IH]; intros vs bs H.
  - cbn [pack] in H. destruct vs; inversion H. reflexivity.
  - assert (Hnp : forall v vs' , pack1 k v = None \/ exists a, pack1 k v = Some a) by
      (intros; destruct (pack1 k v); eauto).
    destruct k; cbn [pack] in H;
    try (destruct vs as [|v vs']; [discriminate|];
         match type of H with context [pack1 ?k v] => destruct (pack1 k v) as [a|] eqn:E1 end; [|discriminate];
         destruct (pack f vs') as [b|] eqn:E2; [|discriminate]; inversion H; subst;
         rewrite app_length; cbn [calcsize fold_right]; fold (calcsize f);
         rewrite (pack1_length _ _ _ E1), (IH _ _ E2); reflexivity).
    destruct (pack f vs) as [b|] eqn:E2; cbn [option_map] in H; inversion H; subst.
    cbn [List.length calcsize fold_right ksize]. fold (calcsize f). rewrite (IH _ _ E2). reflexivity.
Qed.

(** One field: a fitting value is packed and read back unchanged. *)
Lemma pack1_unpack1 : forall k v, wf_kind k = true -> fits1 k v = true ->
  exists a, pack1 k v = Some a /\ List.length a = ksize k /\ unpack1 k a = v.
Proof.
  intros k v Hw H. destruct k, v; cbn [fits1] in H; try discriminate.
  - cbn [wf_kind] in Hw. apply Nat.ltb_lt in Hw.
    cbn [pack1]. unfold pack_int. rewrite H. eexists; split; [reflexivity|]. split; [apply le_enc_length|].
    cbn [unpack1]. rewrite le_dec_enc by apply to_unsigned_bound. rewrite of_to_unsigned; auto.
  - cbn [pack1]. rewrite H. eexists; split; [reflexivity|]. split; [apply le_enc_length|].
    cbn [unpack1]. apply N.ltb_lt in H. rewrite le_dec_enc; [reflexivity|]. exact H.
  - cbn [pack1]. eexists; split; [reflexivity|]. split; [reflexivity|]. cbn [unpack1 le_dec]. destruct b; reflexivity.
  - apply andb_prop in H. destruct H as [H1 H2]. apply Nat.eqb_eq in H1. cbn [pack1]. rewrite H2.
    eexists; split; [reflexivity|]. subst n. rewrite firstn_all, Nat.sub_diag. cbn [repeat]. rewrite app_nil_r.
    split; [reflexivity|]. reflexivity.
Qed.

Lemma unpack_app : forall k f a b, List.length a = ksize k ->
  unpack (k :: f) (a ++ b) =
  match unpack f b with None => None | Some r => Some (match k with KPad => r | _ => unpack1 k a :: r end) end.
Proof.
  intros k f a b H. cbn [unpack].
  assert (E : (List.length (a ++ b) <? ksize k)%nat = false).
  { apply Nat.ltb_ge. rewrite app_length. lia. }
  rewrite E. rewrite <- H. rewrite skipn_app, skipn_all, Nat.sub_diag. cbn [skipn app].
  rewrite firstn_app, firstn_all, Nat.sub_diag. cbn [firstn]. rewrite app_nil_r. reflexivity.
Qed.

Theorem unpack_pack : forall f vs, wf_fmt f = true -> fits f vs = true ->
  exists bs, pack f vs = Some bs /\ unpack f bs = Some vs.
Proof.
  induction f as [|k f IH]; intros vs Hw H.
  - destruct vs; [|discriminate]. exists []. split; reflexivity.
  - cbn [wf_fmt forallb] in Hw. apply andb_prop in Hw. destruct Hw as [Hk Hw].
    destruct k;
    try (cbn [fits] in H; destruct vs as [|v vs']; [discriminate|]; apply andb_prop in H; destruct H as [H1 H2];
         destruct (pack1_unpack1 _ _ Hk H1) as (a & Ea & La & Ua);
         destruct (IH _ Hw H2) as (b & Eb & Ub);
         exists (a ++ b); split; [cbn [pack]; rewrite Ea, Eb; reflexivity|];
         rewrite unpack_app by exact La; rewrite Ub, Ua; reflexivity).
    cbn [fits] in H. destruct (IH _ Hw H) as (b & Eb & Ub).
    exists (0 :: b). split; [cbn [pack]; rewrite Eb; reflexivity|].
    change (0 :: b) with ([0] ++ b). rewrite unpack_app by reflexivity. rewrite Ub. reflexivity.
Qed.

(** [pack] succeeds only when every integer is inside its field's range: out-of-range integers are rejected
    ([struct.error]) whatever the rest of the record holds. *)
Theorem pack_rejects : forall f vs bs, pack f vs = Some bs -> ints_ok f vs = true.
Proof.
  induction f as [|k f IH]; intros vs bs H; [reflexivity|].
  destruct k; cbn [pack] in H; cbn [ints_ok];
  try (destruct vs as [|v vs']; [reflexivity|];
       match type of H with context [pack1 ?k v] => destruct (pack1 k v) as [a|] eqn:E1 end; [|discriminate];
       destruct (pack f vs') as [b|] eqn:E2; [|discriminate];
       rewrite (IH _ _ E2), andb_true_r).
  - destruct v; cbn [int_ok1]; try reflexivity. cbn [pack1] in E1. unfold pack_int in E1.
    destruct (in_range signed w z); [reflexivity|discriminate].
  - reflexivity.
  - reflexivity.
  - reflexivity.
  - destruct (pack f vs) as [b|] eqn:E2; [|discriminate]. eapply IH; eauto.
Qed.

Corollary pack_out_of_range_is_error : forall s w z pre post vs1 vs2,
  in_range s w z = false -> nvalues pre = List.length vs1 ->
  pack (pre ++ KInt s w :: post) (vs1 ++ VInt z :: vs2) = None.
Proof.
  intros s w z pre. induction pre as [|k pre IH]; intros post vs1 vs2 Hr Hn.
  - destruct vs1; [|discriminate]. cbn [app pack pack1]. unfold pack_int. rewrite Hr. reflexivity.
  - destruct k; cbn [nvalues filter List.length] in Hn; fold (nvalues pre) in Hn;
    try (destruct vs1 as [|v vs1]; [discriminate|]; injection Hn as Hn;
         cbn [app pack]; rewrite (IH post vs1 vs2 Hr Hn);
         match goal with |- context [pack1 ?k v] => destruct (pack1 k v) end; reflexivity).
    cbn [app pack]. rewrite (IH post vs1 vs2 Hr Hn). reflexivity.
Qed.

(** * The [Ns] field *)
Lemma pack_s_pads : forall n l, all_bytes l = true -> (List.length l <= n)%nat ->
  pack [KBytes n] [VBytes l] = Some (l ++ repeat 0 (n - List.length l)).
Proof.
  intros n l Hb Hl. cbn [pack pack1]. rewrite Hb. rewrite firstn_all2 by exact Hl. rewrite app_nil_r. reflexivity.
Qed.

(** Silent truncation: a value longer than the field is cut, no error. *)
Lemma pack_s_truncates : forall n l, all_bytes l = true -> (n < List.length l)%nat ->
  pack [KBytes n] [VBytes l] = Some (firstn n l).
Proof.
  intros n l Hb Hl. cbn [pack pack1]. rewrite Hb.
  replace (n - List.length l)%nat with O by lia. cbn [repeat]. rewrite !app_nil_r. reflexivity.
Qed.

Lemma rstrip0_zeros : forall k, rstrip0 (repeat 0 k) = [].
Proof. induction k; cbn [repeat rstrip0]; [reflexivity|]. rewrite IHk. reflexivity. Qed.

Lemma rstrip0_app_zeros : forall l k, rstrip0 (l ++ repeat 0 k) = rstrip0 l.
Proof.
  induction l as [|b l IH]; intros k; cbn [app].
  - apply rstrip0_zeros.
  - cbn [rstrip0]. rewrite IH. reflexivity.
Qed.

Lemma rstrip0_id : forall l, last l 1 <> 0 -> rstrip0 l = l.
Proof.
  induction l as [|b l IH]; intros H; [reflexivity|].
  cbn [rstrip0]. destruct l as [|c l'].
  - cbn [rstrip0]. cbn [last] in H. apply N.eqb_neq in H. rewrite H. reflexivity.
  - assert (Hl : last (c :: l') 1 <> 0) by exact H.
    rewrite (IH Hl). reflexivity.
Qed.

(** A name that is no longer than the field and does not end in NUL survives pack / unpack / rstrip. *)
Theorem s_roundtrip : forall n l, all_bytes l = true -> (List.length l <= n)%nat -> last l 1 <> 0 ->
  exists bs, pack [KBytes n] [VBytes l] = Some bs /\
             option_map (map (fun v => match v with VBytes b => rstrip0 b | _ => [] end)) (unpack [KBytes n] bs) = Some [l].
Proof.
  intros n l Hb Hl Hz. eexists. split; [apply pack_s_pads; assumption|].
  set (bs := l ++ repeat 0 (n - List.length l)).
  assert (Lb : List.length bs = n) by (unfold bs; rewrite app_length, repeat_length; lia).
  cbn [unpack ksize]. rewrite Lb, Nat.ltb_irrefl.
  rewrite skipn_all2 by lia. rewrite firstn_all2 by lia. cbn [option_map map unpack1].
  unfold bs. rewrite rstrip0_app_zeros, rstrip0_id by exact Hz. reflexivity.
Qed.

(** ... and a longer one does not: it comes back cut to the field width (the defect class "unguarded Ns"). *)
Theorem s_truncation_loses : forall n l, all_bytes l = true -> (n < List.length l)%nat ->
  exists bs, pack [KBytes n] [VBytes l] = Some bs /\ unpack [KBytes n] bs = Some [VBytes (firstn n l)].
Proof.
  intros n l Hb Hl. exists (firstn n l). split; [apply pack_s_truncates; assumption|].
  assert (Lb : List.length (firstn n l) = n) by (rewrite firstn_length; lia).
  cbn [unpack ksize]. rewrite Lb, Nat.ltb_irrefl. rewrite skipn_all2 by lia. rewrite firstn_all2 by lia. reflexivity.
Qed.

(** Non-vacuity. *)
Example fits_example : fits (fmt_of "<3f3fHH4BI5B3xB3xf"%string)
  (repeat (VFloat 1065353216) 6 ++ [VInt 65535; VInt 0] ++ repeat (VInt 255) 4 ++ [VInt 4294967295] ++
   repeat (VInt 7) 5 ++ [VInt 3; VFloat 0]) = true.
Proof. vm_compute. reflexivity. Qed.
Example reject_example : pack (fmt_of "<HhhH"%string) [VInt 65536; VInt 0; VInt 0; VInt 0] = None.
Proof. vm_compute. reflexivity. Qed.
