(** A model of CPython's [struct] module for the format language used by srctools/bsp.py:
    prefix ["<"] (or none, accepted only when every field is 4 bytes wide so that native alignment on
    x86-64 adds no padding), repeat counts, the integer codes [b B h H i I], [f] (carried as the 32-bit IEEE
    pattern), [?], [x] padding and [Ns] byte strings -- including the documented behaviour of [Ns]:
    shorter values are padded with NULs and LONGER VALUES ARE SILENTLY TRUNCATED.
    [None] stands for [struct.error] (or OverflowError).  Executable definitions only; proofs are in
    StructProofs.v. *)
From Coq Require Import NArith ZArith List Bool Ascii String.
From SV Require Import Bin.LE.
Import ListNotations.
Open Scope N_scope.

Inductive kind :=
| KInt (signed : bool) (w : nat)   (* b B h H i I : w = 1, 2, 4 *)
| KFloat                           (* f, as its bit pattern *)
| KBool                            (* ? *)
| KBytes (n : nat)                 (* Ns: ONE value of n bytes *)
| KPad.                            (* x: one NUL byte, no value *)

Inductive value :=
| VInt (z : Z)
| VFloat (bits : N)
| VBool (b : bool)
| VBytes (l : list N).

Definition fmt := list kind.

Definition ksize (k : kind) : nat :=
  match k with KInt _ w => w | KFloat => 4 | KBool => 1 | KBytes n => n | KPad => 1 end.
Definition calcsize (f : fmt) : nat := fold_right (fun k a => (ksize k + a)%nat) O f.
Definition nvalues (f : fmt) : nat := List.length (filter (fun k => match k with KPad => false | _ => true end) f).

Definition pack_int (s : bool) (w : nat) (z : Z) : option (list N) :=
  if in_range s w z then Some (le_enc w (to_unsigned w z)) else None.

Definition all_bytes (l : list N) : bool := forallb (fun b => b <? 256) l.

(** One value field.  Python accepts a [bool] where an integer is required (it is an [int]) and tests the
    truth value of whatever it is given for ['?']. *)
Definition pack1 (k : kind) (v : value) : option (list N) :=
  match k, v with
  | KInt s w, VInt z => pack_int s w z
  | KInt s w, VBool b => pack_int s w (if b then 1 else 0)%Z
  | KFloat, VFloat bits => if bits <? 2 ^ 32 then Some (le_enc 4 bits) else None
  | KBool, VBool b => Some [if b then 1 else 0]
  | KBool, VInt z => Some [if (z =? 0)%Z then 0 else 1]
  | KBool, VBytes l => Some [match l with [] => 0 | _ => 1 end]
  | KBytes n, VBytes l => if all_bytes l then Some (firstn n l ++ repeat 0 (n - List.length l)) else None
  | _, _ => None
  end.

Fixpoint pack (f : fmt) (vs : list value) : option (list N) :=
  match f with
  | [] => match vs with [] => Some [] | _ => None end
  | KPad :: f' => option_map (cons 0) (pack f' vs)
  | k :: f' =>
      match vs with
      | [] => None
      | v :: vs' =>
          match pack1 k v, pack f' vs' with
          | Some a, Some b => Some (a ++ b)
          | _, _ => None
          end
      end
  end.

Definition unpack1 (k : kind) (bs : list N) : value :=
  match k with
  | KInt s w => VInt (of_unsigned s w (le_dec bs))
  | KFloat => VFloat (le_dec bs)
  | KBool => VBool (negb (le_dec bs =? 0))
  | KBytes _ => VBytes bs
  | KPad => VInt 0
  end.

(** [struct.unpack] demands exactly [calcsize] bytes. *)
Fixpoint unpack (f : fmt) (bs : list N) : option (list value) :=
  match f with
  | [] => match bs with [] => Some [] | _ => None end
  | k :: f' =>
      if (List.length bs <? ksize k)%nat then None
      else match unpack f' (skipn (ksize k) bs) with
           | None => None
           | Some r => Some (match k with KPad => r | _ => unpack1 k (firstn (ksize k) bs) :: r end)
           end
  end.

(** [struct.iter_unpack]: the buffer must be a whole number of records. *)
Fixpoint iter_unpack (fuel : nat) (f : fmt) (bs : list N) : option (list (list value)) :=
  match bs with
  | [] => Some []
  | _ => match fuel with
         | O => None
         | S fuel' =>
             if (List.length bs <? calcsize f)%nat then None
             else match unpack f (firstn (calcsize f) bs), iter_unpack fuel' f (skipn (calcsize f) bs) with
                  | Some r, Some rs => Some (r :: rs)
                  | _, _ => None
                  end
         end
  end.

(** A value that a reader can hand back: right type, in range, byte strings of exactly the field width. *)
Definition fits1 (k : kind) (v : value) : bool :=
  match k, v with
  | KInt s w, VInt z => in_range s w z
  | KFloat, VFloat bits => bits <? 2 ^ 32
  | KBool, VBool _ => true
  | KBytes n, VBytes l => (List.length l =? n)%nat && all_bytes l
  | _, _ => false
  end.
Fixpoint fits (f : fmt) (vs : list value) : bool :=
  match f with
  | [] => match vs with [] => true | _ => false end
  | KPad :: f' => fits f' vs
  | k :: f' => match vs with [] => false | v :: vs' => fits1 k v && fits f' vs' end
  end.

(** Every integer handed to an integer field is inside the field's range (what [pack] insists on). *)
Definition int_ok1 (k : kind) (v : value) : bool :=
  match k, v with
  | KInt s w, VInt z => in_range s w z
  | _, _ => true
  end.
Fixpoint ints_ok (f : fmt) (vs : list value) : bool :=
  match f with
  | [] => true
  | KPad :: f' => ints_ok f' vs
  | k :: f' => match vs with [] => true | v :: vs' => int_ok1 k v && ints_ok f' vs' end
  end.

Definition wf_kind (k : kind) : bool :=
  match k with KInt _ w => (0 <? w)%nat | _ => true end.
Definition wf_fmt (f : fmt) : bool := forallb wf_kind f.

(** What a reader of an [Ns] name field does: [padded.rstrip(b'\0')]. *)
Fixpoint rstrip0 (l : list N) : list N :=
  match l with
  | [] => []
  | b :: r => match rstrip0 r with
              | [] => if b =? 0 then [] else [b]
              | r' => b :: r'
              end
  end.

(** * Format strings *)
Inductive endian := Little | Native.

Definition digit (c : ascii) : option nat :=
  let n := nat_of_ascii c in if ((48 <=? n) && (n <=? 57))%nat then Some (n - 48)%nat else None.

Definition code (c : ascii) : option kind :=
  match c with
  | "b"%char => Some (KInt true 1) | "B"%char => Some (KInt false 1)
  | "h"%char => Some (KInt true 2) | "H"%char => Some (KInt false 2)
  | "i"%char => Some (KInt true 4) | "I"%char => Some (KInt false 4)
  | "f"%char => Some KFloat | "?"%char => Some KBool | "x"%char => Some KPad
  | _ => None
  end.

(** [cnt] is the pending repeat count ([None] = none written). *)
Fixpoint parse_items (cs : list ascii) (cnt : option nat) : option fmt :=
  match cs with
  | [] => match cnt with None => Some [] | Some _ => None end
  | c :: r =>
      match digit c with
      | Some d => parse_items r (Some (match cnt with None => d | Some n => 10 * n + d end)%nat)
      | None =>
          if Ascii.eqb c " "%char then match cnt with None => parse_items r None | Some _ => None end
          else if Ascii.eqb c "s"%char then
            option_map (cons (KBytes (match cnt with None => 1 | Some n => n end))) (parse_items r None)
          else match code c with
               | Some k => option_map (app (repeat k (match cnt with None => 1 | Some n => n end))) (parse_items r None)
               | None => None
               end
      end
  end.

(** Native formats (no prefix) are accepted only when alignment cannot insert padding: every field is a
    number and all fields have the same size (then every offset is a multiple of the alignment). *)
Definition scalar_size (k : kind) : option nat :=
  match k with KInt _ w => Some w | KFloat => Some 4%nat | _ => None end.
Definition same_size_scalars (f : fmt) : bool :=
  match f with
  | [] => true
  | k :: _ => match scalar_size k with
              | None => false
              | Some w => forallb (fun k' => match scalar_size k' with Some w' => Nat.eqb w w' | None => false end) f
              end
  end.

Definition parse_fmt (s : string) : option fmt :=
  match list_ascii_of_string s with
  | "<"%char :: r => parse_items r None
  | cs => match parse_items cs None with
          | Some f => if same_size_scalars f then Some f else None
          | None => None
          end
  end.

Definition fmt_of (s : string) : fmt := match parse_fmt s with Some f => f | None => [] end.
Definition fmt_known (s : string) : bool := match parse_fmt s with Some _ => true | None => false end.

Definition kind_eqb (a b : kind) : bool :=
  match a, b with
  | KInt s w, KInt s' w' => Bool.eqb s s' && Nat.eqb w w'
  | KFloat, KFloat | KBool, KBool | KPad, KPad => true
  | KBytes n, KBytes m => Nat.eqb n m
  | _, _ => false
  end.
Fixpoint fmt_eqb (a b : fmt) : bool :=
  match a, b with
  | [], [] => true
  | x :: a', y :: b' => kind_eqb x y && fmt_eqb a' b'
  | _, _ => false
  end.
