(** [rle_roundtrip]: decoding inverts encoding for every byte list, alone and in the middle of a lump. *)
From Coq Require Import NArith List Bool Lia PeanoNat.
From SV Require Import Bin.RLE.
Import ListNotations.
Open Scope N_scope.

Lemma omap_app_app : forall (a b : list N) o,
  option_map (app a) (option_map (app b) o) = option_map (app (a ++ b)) o.
Proof. intros. destruct o; cbn [option_map]; [rewrite app_assoc|]; reflexivity. Qed.

Lemma decU_pair : forall k t, decU (0 :: k :: t) = option_map (app (repeat 0 (N.to_nat k))) (decU t).
Proof. intros. cbn [decU]. rewrite N.eqb_refl. reflexivity. Qed.

Lemma decU_nz : forall x t, x <> 0 -> decU (x :: t) = option_map (cons x) (decU t).
Proof. intros x t H. cbn [decU]. apply N.eqb_neq in H. rewrite H. reflexivity. Qed.

Lemma decB_cons : forall want have atb y r, decB want have atb (y :: r) =
  if andb atb (Nat.leb want have) then Some []
  else if y =? 0 then match r with
                      | [] => None
                      | k :: r' => option_map (app (repeat 0 (N.to_nat k))) (decB want (have + N.to_nat k) true r')
                      end
       else option_map (cons y) (decB want (S have) false r).
Proof. reflexivity. Qed.

Lemma decU_pairs : forall q t,
  decU (concat (repeat [0; 255] q) ++ t) = option_map (app (repeat 0 (q * N.to_nat 255))) (decU t).
Proof.
  induction q; intros t.
  - cbn [repeat concat app Nat.mul]. destruct (decU t); reflexivity.
  - cbn [repeat concat]. rewrite <- app_assoc. change ([0; 255] ++ ?x) with (0 :: 255 :: x).
    rewrite decU_pair, IHq, omap_app_app. rewrite <- repeat_app.
    replace (N.to_nat 255 + q * N.to_nat 255)%nat with (S q * N.to_nat 255)%nat by lia. reflexivity.
Qed.

Lemma decU_emit : forall z t, decU (emit z ++ t) = option_map (app (repeat 0 (N.to_nat z))) (decU t).
Proof.
  intros z t. unfold emit. rewrite <- app_assoc, decU_pairs.
  pose proof (N.div_mod' z 255) as E.
  destruct (N.eqb_spec (z mod 255) 0) as [Hz|Hz].
  - cbn [app]. f_equal. f_equal. f_equal. lia.
  - change ([0; z mod 255] ++ t) with (0 :: z mod 255 :: t). rewrite decU_pair, omap_app_app, <- repeat_app.
    f_equal. f_equal. f_equal. lia.
Qed.

Lemma repeat_snoc : forall (x : N) n, repeat x (S n) = repeat x n ++ [x].
Proof. induction n; cbn [repeat app]; [reflexivity|]. cbn [repeat] in IHn. rewrite IHn at 1. reflexivity. Qed.

Lemma decU_enc : forall l z t,
  decU (enc l z ++ t) = option_map (app (repeat 0 (N.to_nat z) ++ l)) (decU t).
Proof.
  induction l as [|x r IH]; intros z t.
  - cbn [enc]. rewrite decU_emit, app_nil_r. reflexivity.
  - cbn [enc]. destruct (N.eqb_spec x 0) as [Hx|Hx].
    + subst x. rewrite IH. f_equal. f_equal.
      replace (N.to_nat (z + 1)) with (S (N.to_nat z)) by lia.
      rewrite repeat_snoc, <- app_assoc. reflexivity.
    + rewrite <- app_assoc, decU_emit. cbn [app decU]. apply N.eqb_neq in Hx. rewrite Hx.
      rewrite IH. cbn [N.to_nat repeat app].
      destruct (decU t); cbn [option_map]; [|reflexivity]. rewrite <- app_assoc. reflexivity.
Qed.

(** Run-length coding loses nothing, whatever the length of the row and of its zero runs. *)
Theorem rle_roundtrip : forall d, rle_decode None 0 (rle_encode d) = Some d.
Proof.
  intros d. unfold rle_decode, rle_encode. cbn [skipn].
  rewrite <- (app_nil_r (enc d 0)), decU_enc. cbn [decU option_map N.to_nat repeat app]. rewrite app_nil_r. reflexivity.
Qed.

Lemma decU_encs : forall ds, exists r, decU (flat_map rle_encode ds) = Some r.
Proof.
  induction ds as [|d ds [r IH]]; [exists []; reflexivity|].
  cbn [flat_map]. unfold rle_encode at 1. rewrite decU_enc, IH. cbn [option_map]. eexists; reflexivity.
Qed.

(** The bounded loop yields, up to the requested length, what the unbounded one yields. *)
Lemma decB_prefix_aux : forall l,
  (forall want have atb out, decU l = Some out ->
     exists out', decB want have atb l = Some out' /\ firstn (want - have) out' = firstn (want - have) out) /\
  (forall y want have atb out, decU (y :: l) = Some out ->
     exists out', decB want have atb (y :: l) = Some out' /\ firstn (want - have) out' = firstn (want - have) out).
Proof.
  induction l as [|x l [IH1 IH2]].
  - split.
    + intros want have atb out H. cbn [decU] in H. injection H as <-. exists []. split; reflexivity.
    + intros y want have atb out H. cbn [decU decB] in *.
      destruct (andb atb (Nat.leb want have)) eqn:Es.
      * exists []. split; [reflexivity|]. apply andb_prop in Es. destruct Es as [_ Es]. apply Nat.leb_le in Es.
        replace (want - have)%nat with O by lia. reflexivity.
      * destruct (y =? 0); [discriminate|]. cbn [option_map] in *. injection H as <-. exists [y]. split; reflexivity.
  - split; [exact (IH2 x)|].
    intros y want have atb out H. rewrite decB_cons.
    destruct (andb atb (Nat.leb want have)) eqn:Es.
    + exists []. split; [reflexivity|]. apply andb_prop in Es. destruct Es as [_ Es]. apply Nat.leb_le in Es.
      replace (want - have)%nat with O by lia. reflexivity.
    + destruct (N.eqb_spec y 0) as [Hy|Hy].
      * subst y. rewrite decU_pair in H.
        destruct (decU l) as [o|] eqn:El; [|discriminate]. cbn [option_map] in H. injection H as <-.
        destruct (IH1 want (have + N.to_nat x)%nat true o eq_refl) as (o' & E' & F').
        rewrite E'. cbn [option_map]. eexists; split; [reflexivity|].
        rewrite !firstn_app, repeat_length. f_equal.
        replace (want - have - N.to_nat x)%nat with (want - (have + N.to_nat x))%nat by lia. exact F'.
      * rewrite (decU_nz y (x :: l) Hy) in H.
        destruct (decU (x :: l)) as [o|] eqn:El; [|discriminate]. cbn [option_map] in H. injection H as <-.
        destruct (IH2 x want (S have) false o El) as (o' & E' & F').
        rewrite E'. cbn [option_map]. eexists; split; [reflexivity|].
        destruct (want - have)%nat as [|m] eqn:Em; [reflexivity|]. cbn [firstn]. f_equal.
        replace m with (want - S have)%nat by lia. exact F'.
Qed.

Lemma decB_prefix : forall l want out, decU l = Some out ->
  exists out', decB want 0 true l = Some out' /\ firstn want out' = firstn want out.
Proof.
  intros l want out H. destruct (proj1 (decB_prefix_aux l) want O true out H) as (o & E & F).
  exists o. rewrite Nat.sub_0_r in F. auto.
Qed.

(** In the lump: a row of exactly [want] bytes, encoded at offset [length pre] and followed by further encoded
    rows, is read back exactly (the reader is given the offset and [want = ceil(clusters/8)]). *)
Theorem rle_roundtrip_in_lump : forall pre d rest,
  rle_decode (Some (List.length d)) (List.length pre) (pre ++ rle_encode d ++ flat_map rle_encode rest) = Some d.
Proof.
  intros pre d rest. unfold rle_decode.
  rewrite skipn_app, skipn_all, Nat.sub_diag. cbn [skipn app].
  destruct (decU_encs rest) as [r Hr].
  assert (HU : decU (rle_encode d ++ flat_map rle_encode rest) = Some (d ++ r)).
  { unfold rle_encode at 1. rewrite decU_enc, Hr. cbn [option_map N.to_nat repeat app]. reflexivity. }
  destruct (decB_prefix _ (List.length d) _ HU) as (o & E & F).
  rewrite E. cbn [option_map]. rewrite F, firstn_app, firstn_all, Nat.sub_diag. cbn [firstn]. rewrite app_nil_r. reflexivity.
Qed.

(** A row that is longer than [want] bytes is cut by the reader (so the writer must not accept it). *)
Example rle_long_row_is_cut : rle_decode (Some 1%nat) 0 (rle_encode [5; 7]) = Some [5].
Proof. vm_compute. reflexivity. Qed.
Example rle_255_split : rle_encode (repeat 0 300%nat ++ [9]) = [0; 255; 0; 45; 9].
Proof. vm_compute. reflexivity. Qed.
