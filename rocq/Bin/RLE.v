(** The run-length codec of the visibility lump ([runlength_encode] / [runlength_decode], bsp.py).
    A zero byte is followed by a count byte: "insert that many zeros"; non-zero bytes stand for themselves.
    Executable definitions only; proofs are in RLEProofs.v. *)
From Coq Require Import NArith List Bool.
Import ListNotations.
Open Scope N_scope.

(** [while dist > 0: out += [0, min(255, dist)]; dist -= 255] in closed form. *)
Definition emit (z : N) : list N :=
  concat (repeat [0; 255] (N.to_nat (z / 255))) ++ (if z mod 255 =? 0 then [] else [0; z mod 255]).

(** [z] = zeros seen and not yet written. *)
Fixpoint enc (l : list N) (z : N) : list N :=
  match l with
  | [] => emit z
  | x :: r => if x =? 0 then enc r (z + 1) else emit z ++ x :: enc r 0
  end.
Definition rle_encode (l : list N) : list N := enc l 0.

(** Decoding with no length limit ([max_clusters = -1]); [None] = IndexError (a zero byte with no count). *)
Fixpoint decU (l : list N) : option (list N) :=
  match l with
  | [] => Some []
  | x :: r =>
      if x =? 0 then
        match r with
        | [] => None
        | k :: r' => option_map (app (repeat 0 (N.to_nat k))) (decU r')
        end
      else option_map (cons x) (decU r)
  end.

(** The loop of [runlength_decode] with [ret_bytes = want]: the length test is made only at the top of an
    iteration ([atb]), i.e. at the start and after every (0, count) pair; [have] = bytes produced so far. *)
Fixpoint decB (want have : nat) (atb : bool) (l : list N) : option (list N) :=
  match l with
  | [] => Some []
  | x :: r =>
      if andb atb (Nat.leb want have) then Some []
      else if x =? 0 then
        match r with
        | [] => None
        | k :: r' => option_map (app (repeat 0 (N.to_nat k))) (decB want (have + N.to_nat k) true r')
        end
      else option_map (cons x) (decB want (S have) false r)
  end.

(** [runlength_decode(data, start, max_clusters)]; [want = None] is [max_clusters = -1]. *)
Definition rle_decode (want : option nat) (start : nat) (data : list N) : option (list N) :=
  match want with
  | None => decU (skipn start data)
  | Some w => option_map (firstn w) (decB w 0 true (skipn start data))
  end.

Definition ceil8 (n : nat) : nat := Nat.div (n + 7) 8.
