(** Little-endian byte strings (bytes are [N] values below 256), as used by Python's [struct] with the
    ["<"] prefix.  Definitions and their arithmetic lemmas (the lemmas are the whole point of the file). *)
From Coq Require Import NArith ZArith List Bool Lia.
Import ListNotations.
Open Scope N_scope.

Definition byte_ok (b : N) : Prop := b < 256.
Definition bytes_ok (l : list N) : Prop := Forall byte_ok l.

(** [n] written on [w] bytes, least significant first (high part silently dropped: callers check the range). *)
Fixpoint le_enc (w : nat) (n : N) : list N :=
  match w with
  | O => []
  | S w' => (n mod 256) :: le_enc w' (n / 256)
  end.

Fixpoint le_dec (l : list N) : N :=
  match l with
  | [] => 0
  | b :: r => b + 256 * le_dec r
  end.

Lemma le_enc_length : forall w n, length (le_enc w n) = w.
Proof. induction w; intros; cbn [le_enc length]; auto. Qed.

Lemma le_enc_bytes : forall w n, bytes_ok (le_enc w n).
Proof.
  induction w; intros; cbn [le_enc]; constructor.
  - unfold byte_ok. apply N.mod_lt. discriminate.
  - apply IHw.
Qed.

Lemma pow256_succ : forall w : nat, 256 ^ N.of_nat (S w) = 256 * 256 ^ N.of_nat w.
Proof. intros. rewrite Nnat.Nat2N.inj_succ, N.pow_succ_r'. reflexivity. Qed.

Lemma le_dec_enc : forall w n, n < 256 ^ N.of_nat w -> le_dec (le_enc w n) = n.
Proof.
  induction w; intros n H.
  - cbn in H. cbn [le_enc le_dec]. lia.
  - cbn [le_enc le_dec]. rewrite pow256_succ in H.
    rewrite IHw.
    + pose proof (N.div_mod' n 256). lia.
    + apply N.div_lt_upper_bound; lia.
Qed.

Lemma le_dec_bound : forall l, bytes_ok l -> le_dec l < 256 ^ N.of_nat (length l).
Proof.
  induction l; intros H.
  - cbn. lia.
  - inversion H; subst. cbn [le_dec length]. rewrite pow256_succ.
    specialize (IHl H3). unfold byte_ok in H2. lia.
Qed.

Lemma le_enc_dec : forall l, bytes_ok l -> le_enc (length l) (le_dec l) = l.
Proof.
  induction l; intros H; [reflexivity|].
  inversion H; subst. unfold byte_ok in H2. cbn [length le_enc le_dec].
  assert (E1 : (a + 256 * le_dec l) mod 256 = a).
  { replace (a + 256 * le_dec l) with (a + le_dec l * 256) by lia.
    rewrite N.mod_add by discriminate. apply N.mod_small; assumption. }
  assert (E2 : (a + 256 * le_dec l) / 256 = le_dec l).
  { replace (a + 256 * le_dec l) with (a + le_dec l * 256) by lia.
    rewrite N.div_add by discriminate. rewrite (N.div_small a 256) by assumption. lia. }
  rewrite E1, E2, IHl; auto.
Qed.

(** Two's complement: the unsigned image of a signed value on [w] bytes, and back. *)
Definition modulus (w : nat) : Z := (256 ^ Z.of_nat w)%Z.
Definition in_range (signed : bool) (w : nat) (z : Z) : bool :=
  if signed then andb (- (modulus w / 2) <=? z)%Z (z <? modulus w / 2)%Z
  else andb (0 <=? z)%Z (z <? modulus w)%Z.
Definition to_unsigned (w : nat) (z : Z) : N := Z.to_N (z mod modulus w).
Definition of_unsigned (signed : bool) (w : nat) (n : N) : Z :=
  if andb signed (modulus w / 2 <=? Z.of_N n)%Z then (Z.of_N n - modulus w)%Z else Z.of_N n.

Lemma modulus_pos : forall w, (0 < modulus w)%Z.
Proof. intros. unfold modulus. apply Z.pow_pos_nonneg; lia. Qed.

Lemma modulus_N : forall w, Z.of_N (256 ^ N.of_nat w) = modulus w.
Proof. intros. unfold modulus. rewrite N2Z.inj_pow. rewrite nat_N_Z. reflexivity. Qed.

Lemma modulus_even : forall w, (0 < w)%nat -> (modulus w = 2 * (modulus w / 2))%Z.
Proof.
  intros w H. unfold modulus. destruct w; [lia|].
  rewrite Nat2Z.inj_succ, Z.pow_succ_r by lia.
  replace (256 * 256 ^ Z.of_nat w)%Z with ((128 * 256 ^ Z.of_nat w) * 2)%Z by lia.
  rewrite Z.div_mul by lia. lia.
Qed.

Lemma to_unsigned_bound : forall w z, to_unsigned w z < 256 ^ N.of_nat w.
Proof.
  intros. unfold to_unsigned. pose proof (modulus_pos w).
  pose proof (Z.mod_pos_bound z (modulus w) H).
  apply N2Z.inj_lt. rewrite modulus_N, Z2N.id; lia.
Qed.

Lemma of_to_unsigned : forall s w z, (0 < w)%nat -> in_range s w z = true -> of_unsigned s w (to_unsigned w z) = z.
Proof.
  intros s w z Hw H. unfold in_range in H. unfold of_unsigned, to_unsigned.
  pose proof (modulus_pos w) as Hp. pose proof (modulus_even w Hw) as He.
  pose proof (Z.mod_pos_bound z (modulus w) Hp) as Hb.
  rewrite Z2N.id by lia.
  destruct s; cbn [andb].
  - apply andb_prop in H. destruct H as [H1 H2]. apply Z.leb_le in H1. apply Z.ltb_lt in H2.
    destruct (Z.leb_spec (modulus w / 2) (z mod modulus w)).
    + (* negative *) destruct (Z.lt_ge_cases z 0).
      * assert (z mod modulus w = z + modulus w)%Z.
        { symmetry. apply Z.mod_unique_pos with (q := (-1)%Z); lia. }
        lia.
      * rewrite Z.mod_small in H by lia. lia.
    + destruct (Z.lt_ge_cases z 0).
      * assert (z mod modulus w = z + modulus w)%Z.
        { symmetry. apply Z.mod_unique_pos with (q := (-1)%Z); lia. }
        lia.
      * apply Z.mod_small. lia.
  - apply andb_prop in H. destruct H as [H1 H2]. apply Z.leb_le in H1. apply Z.ltb_lt in H2.
    apply Z.mod_small. lia.
Qed.

Lemma to_of_unsigned : forall s w n, (0 < w)%nat -> n < 256 ^ N.of_nat w ->
  in_range s w (of_unsigned s w n) = true /\ to_unsigned w (of_unsigned s w n) = n.
Proof.
  intros s w n Hw H. pose proof (modulus_pos w) as Hp. pose proof (modulus_even w Hw) as He.
  apply N2Z.inj_lt in H. rewrite modulus_N in H. pose proof (N2Z.is_nonneg n) as Hn.
  unfold of_unsigned, in_range, to_unsigned.
  destruct s; cbn [andb].
  - destruct (Z.leb_spec (modulus w / 2) (Z.of_N n)).
    + split.
      * apply andb_true_intro; split; [apply Z.leb_le | apply Z.ltb_lt]; lia.
      * assert ((Z.of_N n - modulus w) mod modulus w = Z.of_N n)%Z.
        { symmetry. apply Z.mod_unique_pos with (q := (-1)%Z); lia. }
        rewrite H1. apply N2Z.id.
    + split.
      * apply andb_true_intro; split; [apply Z.leb_le | apply Z.ltb_lt]; lia.
      * rewrite Z.mod_small by lia. apply N2Z.id.
  - split.
    + apply andb_true_intro; split; [apply Z.leb_le | apply Z.ltb_lt]; lia.
    + rewrite Z.mod_small by lia. apply N2Z.id.
Qed.
