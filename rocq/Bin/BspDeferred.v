(** [binformat.DeferredWrites]: slots of a file that are reserved while the file is written front to back ([defer(key,
    fmt, write=True)] writes [fmt.size] zero bytes and remembers the position), get their value later ([set_data]) and are
    filled in at the end ([write()] seeks to every slot).  Used by [_lmp_write_visibility] for the table of row offsets
    that precedes the rows, and by [BSP.save] for the lump directory.
    Keys are numbers, the two dicts are association lists with Python's dict semantics (assignment to an existing key keeps
    its place, a new key goes last), the file is the list of bytes written so far ([tell()] = its length: every write
    before the final pass appends).  Executable definitions only; proofs in BspDeferredProofs.v. *)
From Coq Require Import NArith List Bool PeanoNat.
Import ListNotations.

Inductive dop :=
| DWrite (bs : list N)                 (* file.write(bs) *)
| DDefer (k : nat) (size : nat)        (* defer(k, fmt, write=True), fmt.size = size *)
| DSet (k : nat) (d : list N).         (* set_data(k, values...), d = fmt.pack(values...) *)

Section Dict.
Context {V : Type}.
Fixpoint dget (k : nat) (l : list (nat * V)) : option V :=
  match l with [] => None | (k', v) :: r => if Nat.eqb k k' then Some v else dget k r end.
Fixpoint dupd (k : nat) (v : V) (l : list (nat * V)) : list (nat * V) :=
  match l with [] => [(k, v)] | (k', v') :: r => if Nat.eqb k k' then (k, v) :: r else (k', v') :: dupd k v r end.
Fixpoint ddel (k : nat) (l : list (nat * V)) : list (nat * V) :=
  match l with [] => [] | (k', v) :: r => if Nat.eqb k k' then r else (k', v) :: ddel k r end.
Definition dkeys (l : list (nat * V)) : list nat := map fst l.
End Dict.

Record dstate := { dfile : list N; dloc : list (nat * (nat * nat)); ddata : list (nat * list N) }.
Definition dempty : dstate := {| dfile := []; dloc := []; ddata := [] |}.

(** One call.  [set_data] of a key that was never deferred is a KeyError; the packed data has the size of the format
    ([assert len(packed) == fmt.size]). *)
Definition dstep (s : dstate) (o : dop) : option dstate :=
  match o with
  | DWrite bs => Some {| dfile := dfile s ++ bs; dloc := dloc s; ddata := ddata s |}
  | DDefer k size => Some {| dfile := dfile s ++ repeat 0%N size; dloc := dupd k (List.length (dfile s), size) (dloc s); ddata := ddata s |}
  | DSet k d =>
      match dget k (dloc s) with
      | None => None
      | Some (_, size) => if Nat.eqb (List.length d) size then Some {| dfile := dfile s; dloc := dloc s; ddata := dupd k d (ddata s) |} else None
      end
  end.

Fixpoint drun (s : dstate) (ops : list dop) : option dstate :=
  match ops with
  | [] => Some s
  | o :: r => match dstep s o with Some s' => drun s' r | None => None end
  end.

(** [seek(off); write(d)] inside the file. *)
Definition patch (f : list N) (off : nat) (d : list N) : list N := firstn off f ++ d ++ skipn (off + List.length d) f.

(** [write()]: every slot in dict order; a slot without data, or data left over, is a ValueError. *)
Fixpoint dfinal (loc : list (nat * (nat * nat))) (data : list (nat * list N)) (f : list N) : option (list N) :=
  match loc with
  | [] => match data with [] => Some f | _ => None end
  | (k, (off, _)) :: r =>
      match dget k data with
      | None => None
      | Some d => dfinal r (ddel k data) (patch f off d)
      end
  end.

Definition dwhole (ops : list dop) : option (list N) :=
  match drun dempty ops with
  | Some s => dfinal (dloc s) (ddata s) (dfile s)
  | None => None
  end.

(** The two-pass description: the same calls with every slot holding its final value from the start. *)
Fixpoint last_set (ops : list dop) (k : nat) : option (list N) :=
  match ops with
  | [] => None
  | DSet k' d :: r => match last_set r k with Some x => Some x | None => if Nat.eqb k k' then Some d else None end
  | _ :: r => last_set r k
  end.
Fixpoint render (m : nat -> list N) (ops : list dop) : list N :=
  match ops with
  | [] => []
  | DWrite bs :: r => bs ++ render m r
  | DDefer k _ :: r => m k ++ render m r
  | DSet _ _ :: r => render m r
  end.
Fixpoint defer_keys (ops : list dop) : list nat :=
  match ops with [] => [] | DDefer k _ :: r => k :: defer_keys r | _ :: r => defer_keys r end.
Definition final_value (ops : list dop) (k : nat) : list N := match last_set ops k with Some d => d | None => [] end.
