(** C04 — the zero-argument matrix conversions (copy, freeze, thaw, _new_copy, __deepcopy__): format of the generated table
    (Gen/RotCopies_gen.v) and its acceptance test.  The translator classifies each method by symbolic execution of its body:
    either `return self` (alias) or a NEW matrix whose nine slots are, field for field, the nine slots of the receiver (anything
    else - a transposed, permuted or partial copy - fails closed); the table records which, and the class of the new object. *)
From Coq Require Import List Bool.
Import ListNotations.

Inductive cmeth := CCopy | CDeepcopy | CFreeze | CThaw | CNewCopy.
Record crow := CRow {
  cr_frozen : bool;          (* the receiver's class is FrozenMatrix *)
  cr_meth : cmeth;
  cr_alias : bool;           (* returns the receiver itself *)
  cr_result_frozen : bool }. (* class of the new object (when not an alias) *)

(** copy / deepcopy of a frozen matrix may be the matrix itself (it is immutable); of a mutable one it is a new mutable matrix;
    freeze gives a new frozen one, thaw a new mutable one, _new_copy a new object of the receiver's class even when frozen
    (it is what `@` multiplies in place - a `return self` there is the round-1 defect). *)
Definition crow_ok (r : crow) : bool :=
  match cr_meth r with
  | CCopy | CDeepcopy => if cr_frozen r then cr_alias r || cr_result_frozen r
                         else negb (cr_alias r) && negb (cr_result_frozen r)
  | CFreeze => negb (cr_frozen r) && negb (cr_alias r) && cr_result_frozen r
  | CThaw => cr_frozen r && negb (cr_alias r) && negb (cr_result_frozen r)
  | CNewCopy => negb (cr_alias r) && Bool.eqb (cr_result_frozen r) (cr_frozen r)
  end.
Definition cmeth_eqb (a b : cmeth) : bool :=
  match a, b with CCopy, CCopy | CDeepcopy, CDeepcopy | CFreeze, CFreeze | CThaw, CThaw | CNewCopy, CNewCopy => true | _, _ => false end.
Definition c_covered (t : list crow) : bool :=
  forallb (fun fm => existsb (fun r => Bool.eqb (fst fm) (cr_frozen r) && cmeth_eqb (snd fm) (cr_meth r)) t)
    [(false, CCopy); (true, CCopy); (false, CDeepcopy); (true, CDeepcopy); (false, CFreeze); (true, CThaw);
     (false, CNewCopy); (true, CNewCopy)].
Definition copies_ok (t : list crow) : bool := forallb crow_ok t && c_covered t.

Lemma copies_ok_sound : forall t, copies_ok t = true -> forall r, In r t ->
  (cr_frozen r = false -> cr_alias r = false) /\                      (* a mutable matrix is never handed out as its own copy *)
  (cr_meth r = CNewCopy -> cr_alias r = false /\ cr_result_frozen r = cr_frozen r) /\
  (cr_meth r = CFreeze -> cr_result_frozen r = true) /\ (cr_meth r = CThaw -> cr_result_frozen r = false).
Proof.
  intros t H r Hr. unfold copies_ok in H. apply andb_prop in H as [H _]. rewrite forallb_forall in H. specialize (H r Hr).
  unfold crow_ok in H. destruct r as [f m a rf]; cbn in *.
  destruct m, f, a, rf; cbn in H; try discriminate; repeat split; intros; try discriminate; reflexivity.
Qed.
