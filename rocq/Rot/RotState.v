(** C04 (round 5) — census of the process state of srctools/math.py: format of the generated census (Gen/RotState_gen.v), its
    decidable acceptance test, and what an accepted census means for a HISTORY of public calls: every call returns what it
    returns as the first call of a new process.  "Every matrix built from an Euler angle agrees with the Source convention"
    quantifies over calls, not over first calls: a memo table keyed by part of the arguments (seeded fault c04_8), a shared
    default, a class-level cache make the answer depend on what was asked before.  No reals; decidable part by vm_compute. *)
From Coq Require Import List Bool String.
Import ListNotations.

Record state_census := StateCensus {
  (* objects that outlive a call: module-level and class-level bindings to a mutable value (dict / list / set displays,
     comprehensions, results of calls that are not constructors of the frozen classes or typing helpers) *)
  sc_reads : list string;          (* ... those that the body of some function reads *)
  sc_writes : list string;         (* ... those that the body of some function updates, rebinds, deletes or lets escape *)
  sc_write_sites : list string;    (* the sites (function:line: text) of these updates / escapes *)
  sc_class_writes : list string;   (* stores into a class object from inside a function: cls.x = / type(self).x = / setattr(cls, ..) *)
  sc_decorators : list string;     (* decorators other than the stateless ones (a cache / memo decorator keeps a table) *)
  sc_defaults : list string;       (* parameter defaults that are mutable objects (shared by all calls) *)
  sc_globals : list string;        (* global / nonlocal declarations *)
  sc_reflective : list string;     (* globals() / vars() / exec / eval / __dict__ / sys.modules inside a function *)
  sc_imports : list string }.      (* imports from outside the standard library (state the census cannot see) *)

Definition is_nil {A} (l : list A) : bool := match l with [] => true | _ => false end.
Definition mem (s : string) (l : list string) : bool := existsb (String.eqb s) l.

(** No function reads an object that some function can update (what history independence needs) ... *)
Definition reads_not_written (c : state_census) : bool := forallb (fun n => negb (mem n (sc_writes c))) (sc_reads c).
(** ... and, stricter, the named parts of the acceptance test: nothing that outlives a call is updated at all. *)
Definition no_long_lived_object_updated (c : state_census) : bool := is_nil (sc_writes c) && is_nil (sc_write_sites c).
Definition no_class_attribute_stored (c : state_census) : bool := is_nil (sc_class_writes c).
Definition no_caching_decorator (c : state_census) : bool := is_nil (sc_decorators c).
Definition no_mutable_default (c : state_census) : bool := is_nil (sc_defaults c).
Definition no_global_declaration (c : state_census) : bool := is_nil (sc_globals c).
Definition no_reflective_access (c : state_census) : bool := is_nil (sc_reflective c).
Definition no_foreign_import (c : state_census) : bool := is_nil (sc_imports c).
Definition state_ok (c : state_census) : bool :=
  reads_not_written c && no_long_lived_object_updated c && no_class_attribute_stored c && no_caching_decorator c &&
  no_mutable_default c && no_global_declaration c && no_reflective_access c && no_foreign_import c.

Lemma mem_In : forall s l, mem s l = true <-> In s l.
Proof.
  intros s l. unfold mem. rewrite existsb_exists. split.
  - intros (x & Hx & E). apply String.eqb_eq in E. subst. exact Hx.
  - intro H. exists s. split; [exact H | apply String.eqb_refl].
Qed.

Lemma reads_not_written_sound : forall c, reads_not_written c = true -> forall n, In n (sc_reads c) -> ~ In n (sc_writes c).
Proof.
  intros c H n Hn Hw. unfold reads_not_written in H. rewrite forallb_forall in H. specialize (H n Hn).
  apply negb_true_iff in H. apply mem_In in Hw. congruence.
Qed.

Lemma state_ok_parts : forall c, state_ok c = true ->
  reads_not_written c = true /\ sc_writes c = [] /\ sc_write_sites c = [] /\ sc_class_writes c = [] /\ sc_decorators c = [] /\
  sc_defaults c = [] /\ sc_globals c = [] /\ sc_reflective c = [] /\ sc_imports c = [].
Proof.
  intros c H. unfold state_ok in H. repeat (apply andb_prop in H as [H ?]).
  unfold no_long_lived_object_updated in *. apply andb_prop in H6 as [Hw Hs].
  unfold no_class_attribute_stored, no_caching_decorator, no_mutable_default, no_global_declaration, no_reflective_access,
    no_foreign_import, is_nil in *.
  repeat split; try assumption;
    repeat match goal with Hx : (match ?l with [] => true | _ :: _ => false end) = true |- _ => destruct l; [clear Hx | discriminate Hx] end;
    reflexivity.
Qed.

(** * Meaning: calls over a store of long-lived objects.  [run a g] is one public call with arguments [a] (which entry point and
    which values) in the process state [g]: what it returns and the state it leaves.  A FOOTPRINT (R, W) of [run]: objects outside
    W are left as they were, and the result depends on the state through the objects in R only.  That the census computes a
    footprint of the real module is the trusted step (the census reads the source; Python's scoping rules); the theorem says
    what follows from it. *)
Section History.
  Variables V A B : Type.
  Definition store := string -> V.
  Variable run : A -> store -> B * store.

  Definition footprint (R W : list string) : Prop :=
    (forall a g n, ~ In n W -> snd (run a g) n = g n) /\
    (forall a g g', (forall n, In n R -> g n = g' n) -> fst (run a g) = fst (run a g')).

  (** the state after a history of earlier calls *)
  Fixpoint after (h : list A) (g : store) : store :=
    match h with [] => g | a :: h' => after h' (snd (run a g)) end.

  Lemma after_frame : forall R W, footprint R W -> forall h g n, ~ In n W -> after h g n = g n.
  Proof.
    intros R W [Fw _] h. induction h as [|a h IH]; intros g n Hn; cbn [after]; [reflexivity|].
    rewrite (IH _ n Hn). apply Fw. exact Hn.
  Qed.

  Theorem history_independent : forall R W, footprint R W -> (forall n, In n R -> ~ In n W) ->
    forall h a g, fst (run a (after h g)) = fst (run a g).
  Proof.
    intros R W F D h a g. destruct F as [Fw Fr]. apply Fr. intros n Hn.
    apply (after_frame R W (conj Fw Fr)). apply D. exact Hn.
  Qed.

  (** An accepted census: whatever was called before (any entry points, any arguments, calls that raised included - a raise is a
      result), a call returns what it returns in the initial state. *)
  Theorem state_ok_history_independent : forall c, state_ok c = true -> footprint (sc_reads c) (sc_writes c) ->
    forall h a g, fst (run a (after h g)) = fst (run a g).
  Proof.
    intros c H F. apply (history_independent (sc_reads c) (sc_writes c) F).
    apply reads_not_written_sound. apply (state_ok_parts c H).
  Qed.
End History.

(** * The rejected shape (seeded fault c04_8): a memo table keyed by the text alone.  The census of such a module lists the table
    under reads and writes; the acceptance test rejects it; and the shape does violate history independence: a concrete [run]
    with exactly that footprint returns the fallback of the FIRST call for the same text. *)
Local Open Scope string_scope.
Definition memo_census : state_census :=
  StateCensus ["_ANGSTR_CACHE"; "_IND_TO_SLOT"] ["_ANGSTR_CACHE"] ["from_angstr:1800: _ANGSTR_CACHE[val] = Py_FrozenMatrix(mat)"]
              [] [] [] [] [] [].

Definition memo_run (a : string * nat) (g : store (list (string * nat))) : nat * store (list (string * nat)) :=
  let tbl := g "_ANGSTR_CACHE" in
  match find (fun e => String.eqb (fst e) (fst a)) tbl with
  | Some e => (snd e, g)
  | None => (snd a, fun n => if String.eqb n "_ANGSTR_CACHE" then a :: tbl else g n)
  end.

Lemma memo_footprint : footprint _ _ _ memo_run ["_ANGSTR_CACHE"] ["_ANGSTR_CACHE"].
Proof.
  split.
  - intros a g n Hn. unfold memo_run. destruct (find _ _); cbn [snd]; [reflexivity|].
    destruct (String.eqb n "_ANGSTR_CACHE") eqn:E; [|reflexivity]. apply String.eqb_eq in E. subst. exfalso. apply Hn. left. reflexivity.
  - intros a g g' H. unfold memo_run. rewrite (H "_ANGSTR_CACHE" (or_introl eq_refl)). destruct (find _ _); reflexivity.
Qed.

Definition memo_refuted_statement : Prop :=
  state_ok memo_census = false /\ reads_not_written memo_census = false /\
  footprint _ _ _ memo_run ["_ANGSTR_CACHE"] ["_ANGSTR_CACHE"] /\
  (* from_angstr('', yaw=0) then from_angstr('', yaw=90): the second call answers 0; alone it answers 90 *)
  fst (memo_run ("", 90) (after _ _ _ memo_run [("", 0)] (fun _ => []))) = 0 /\
  fst (memo_run ("", 90) (fun _ => [])) = 90.

Lemma memo_by_text_refuted : memo_refuted_statement.
Proof. split; [|split; [|split; [exact memo_footprint|]]]; repeat split. Qed.

(** Non-vacuity: a census with a constant table that is only read is accepted. *)
Definition constant_table_census : state_census := StateCensus ["_IND_TO_SLOT"] [] [] [] [] [] [] [] [].
Example constant_table_accepted : state_ok constant_table_census = true.
Proof. reflexivity. Qed.
