(** C04 — the Gauss-Jordan interpreter (Rot/RotGJ.v) instantiated with IEEE binary64 (Coq's primitive floats), and the
    comparison function of the correspondence: the check writes input matrices and what [MatrixBase.inverse] returned
    (nine doubles, or which exception) into a literal and asks for the indexes where the model, run on the GENERATED
    program, differs in any bit.  Python's float operations -, *, /, abs, >, <= are the IEEE operations; [x / 0.0]
    raises ZeroDivisionError (also for -0.0), which [n_is_zero] models. *)
From Coq Require Import Floats ZArith QArith List Bool Uint63.
From SV Require Import Rot.RotGJ.
Import ListNotations.

Definition f_ofZ (z : Z) : float :=
  match z with
  | Z0 => 0%float
  | Zpos _ => PrimFloat.of_uint63 (Uint63.of_Z z)
  | Zneg p => PrimFloat.opp (PrimFloat.of_uint63 (Uint63.of_Z (Zpos p)))
  end.
(** A decimal literal num/den with both parts below 2^53 (checked by the translator): the correctly rounded quotient
    is the double Python reads for the literal. *)
Definition f_ofQ (q : Q) : float := PrimFloat.div (f_ofZ (Qnum q)) (f_ofZ (Zpos (Qden q))).
Definition f_cmp (c : gj_cmp) (a b : float) : bool :=
  match c with
  | CGt => PrimFloat.ltb b a
  | CGe => PrimFloat.leb b a
  | CLt => PrimFloat.ltb a b
  | CLe => PrimFloat.leb a b
  end.
Definition Fnum : gj_num float :=
  GjNum float f_ofQ PrimFloat.sub PrimFloat.mul PrimFloat.div PrimFloat.abs f_cmp (fun b => PrimFloat.eqb b 0%float).

(** Same bits (all NaNs are identified: Python does not expose the payload through arithmetic we use). *)
Definition f_same (a b : float) : bool :=
  match Prim2SF a, Prim2SF b with
  | S754_zero s, S754_zero t => Bool.eqb s t
  | S754_infinity s, S754_infinity t => Bool.eqb s t
  | S754_nan, S754_nan => true
  | S754_finite s m e, S754_finite t m' e' => Bool.eqb s t && Pos.eqb m m' && Z.eqb e e'
  | _, _ => false
  end.

Definition r3_of_list (l : list float) : r3 float :=
  rbuild (fun i j => nth (3 * i + j) l 0%float).
Definition r3_to_list (m : r3 float) : list float :=
  [vget (rget m 0) 0; vget (rget m 0) 1; vget (rget m 0) 2; vget (rget m 1) 0; vget (rget m 1) 1; vget (rget m 1) 2;
   vget (rget m 2) 0; vget (rget m 2) 1; vget (rget m 2) 2]%nat.

(** What the implementation did: returned nine doubles / raised ArithmeticError("Matrix has no inverse") /
    raised ZeroDivisionError. *)
Inductive impl_res := IOk (l : list float) | INoInverse | IZeroDiv.
Definition agrees (p : gj_prog) (c : list float * impl_res) : bool :=
  match gj_inverse Fnum p (r3_of_list (fst c)), snd c with
  | GOk m, IOk l => list_eqb f_same (r3_to_list m) l
  | GNoInverse, INoInverse => true
  | GZeroDiv, IZeroDiv => true
  | _, _ => false
  end.
Fixpoint disagreements (p : gj_prog) (k : nat) (cs : list (list float * impl_res)) : list nat :=
  match cs with
  | [] => []
  | c :: rest => if agrees p c then disagreements p (S k) rest else k :: disagreements p (S k) rest
  end.
(** For the report: what the model computes for one input. *)
Definition model_out (p : gj_prog) (l : list float) : impl_res :=
  match gj_inverse Fnum p (r3_of_list l) with GOk m => IOk (r3_to_list m) | GNoInverse => INoInverse | GZeroDiv => IZeroDiv end.
