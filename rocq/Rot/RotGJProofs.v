(** C04 — MatrixBase.inverse (Gauss-Jordan): proofs over the classical reals, GENERIC in the generated program.

    For every program [p] accepted by [gj_prog_ok] (Rot/RotGJ.v) and every real matrix [m]:
      [gj_inverse p m = GOk n  ->  n * m = I]     (gauss_jordan_inverse)
    and hence, for a rotation [m], [n = transpose m] (gauss_jordan_inverse_rotation).
    Two invariants of the interpreter are shown for ALL programs by induction over the operation list:
      (1) every row of the right block, multiplied by the input matrix, is the same row of the left block
          (each operation applies one elementary row operation to both blocks);
      (2) the abstract interpretation [abs_op] over {0, 1, unknown} is sound for the left block
          (a division that did not raise had a non-zero divisor).
    The product with the input matrix is the GENERATED [vec_rot] / [mat_mul] (= _vec_rot / _mat_mul of math.py). *)
From Coq Require Import Reals Lra List Bool Arith QArith Qreals.
From SV Require Import Rot.RotBase Gen.RotFormulas_gen Rot.RotAlgebra Rot.RotGJ.
Import ListNotations.
Local Open Scope R_scope.

(** ** The real instance of the number type *)
Definition Rcmp (c : gj_cmp) (a b : R) : bool :=
  match c with
  | CGt => if Rgt_dec a b then true else false
  | CGe => if Rge_dec a b then true else false
  | CLt => if Rlt_dec a b then true else false
  | CLe => if Rle_dec a b then true else false
  end.
Definition Rnum : gj_num R :=
  GjNum R Q2R Rminus Rmult Rdiv Rabs Rcmp (fun b => if Req_EM_T b 0 then true else false).

Definition vec_of (v : v3 R) : vec := Vec3 (vget v 0) (vget v 1) (vget v 2).
Definition mat_of (m : r3 R) : mat :=
  Mat (vget (rget m 0) 0) (vget (rget m 0) 1) (vget (rget m 0) 2)
      (vget (rget m 1) 0) (vget (rget m 1) 1) (vget (rget m 1) 2)
      (vget (rget m 2) 0) (vget (rget m 2) 1) (vget (rget m 2) 2).
Definition rows_of (m : mat) : r3 R := ((aa m, ab m, ac m), (ba m, bb m, bc m), (ca m, cb m, cc m)).

(** ** Containers *)
Section Containers.
  Context {A : Type}.
  Lemma idx_idem : forall i, idx (idx i) = idx i.
  Proof. intros [|[|i]]; reflexivity. Qed.
  Lemma vget_idx : forall (v : v3 A) j, vget v (idx j) = vget v j.
  Proof. intros [[x y] z] [|[|j]]; reflexivity. Qed.
  Lemma rget_idx : forall (m : r3 A) i, rget m (idx i) = rget m i.
  Proof. intros [[x y] z] [|[|i]]; reflexivity. Qed.
  Lemma vget_vbuild : forall (f : nat -> A) j, vget (vbuild f) j = f (idx j).
  Proof. intros f [|[|j]]; reflexivity. Qed.
  Lemma rget_rset : forall (m : r3 A) i v k, rget (rset m i v) k = if Nat.eqb (idx i) (idx k) then v else rget m k.
  Proof. intros [[x y] z] [|[|i]] v [|[|k]]; reflexivity. Qed.
  Lemma rget_rswap : forall (m : r3 A) i j k,
    rget (rswap m i j) k = if Nat.eqb (idx j) (idx k) then rget m i else if Nat.eqb (idx i) (idx k) then rget m j else rget m k.
  Proof. intros m i j k. unfold rswap. rewrite !rget_rset. reflexivity. Qed.
  Lemma rset_rget_same : forall (m : r3 A) i, rset m i (rget m i) = m.
  Proof. intros [[x y] z] [|[|i]]; reflexivity. Qed.
  Lemma rget_same_idx : forall (m : r3 A) i k, idx i = idx k -> rget m i = rget m k.
  Proof. intros m i k H. rewrite <- (rget_idx m i), <- (rget_idx m k), H. reflexivity. Qed.
End Containers.

Lemma list_eqb_eq : forall {A} (e : A -> A -> bool), (forall x y, e x y = true -> x = y) ->
  forall a b, list_eqb e a b = true -> a = b.
Proof.
  intros A e He. induction a as [|x a IH]; intros [|y b] H; try discriminate; [reflexivity|].
  cbn in H. apply andb_prop in H as [H1 H2]. f_equal; [apply He, H1 | apply IH, H2].
Qed.
Lemma q_lit_eqb_eq : forall a b, q_lit_eqb a b = true -> a = b.
Proof.
  intros [a1 a2] [b1 b2] H. unfold q_lit_eqb in H; cbn in H. apply andb_prop in H as [H1 H2].
  apply Z.eqb_eq in H1. apply Pos.eqb_eq in H2. subst. reflexivity.
Qed.
Lemma pair_eqb_eq : forall a b, pair_eqb a b = true -> a = b.
Proof.
  intros [a1 a2] [b1 b2] H. unfold pair_eqb in H; cbn in H. apply andb_prop in H as [H1 H2].
  apply Nat.eqb_eq in H1. apply Nat.eqb_eq in H2. subst. reflexivity.
Qed.

(** ** A skip guard that fires only for a zero multiplier does not change what the program computes *)
Lemma vsub_mul0 : forall a b : v3 R, vsub Rnum a (vmuls Rnum b 0) = a.
Proof.
  intros [[x y] z] [[bx by_] bz]. unfold vsub, vmuls, vbuild; cbn [vget n_sub n_mul Rnum].
  f_equal; [f_equal|]; ring.
Qed.
Lemma skip_exact_zero : forall cmp thr, skip_exact cmp thr = true -> cmp = CLe /\ Q2R thr = 0.
Proof.
  intros cmp [n d] H. destruct cmp; try discriminate. split; [reflexivity|].
  unfold skip_exact, q_is_zero in H; cbn [Qnum] in H. apply Z.eqb_eq in H. subst. unfold Q2R; cbn [Qnum Qden]. lra.
Qed.
Lemma elimskip_equiv : forall m p c cmp thr s, skip_exact cmp thr = true ->
  do_op Rnum (OElimSkip m p c cmp thr) s = do_op Rnum (OElim m p c) s.
Proof.
  intros m p c cmp thr [L Rr] H. destruct (skip_exact_zero cmp thr H) as [-> Hz].
  cbn [do_op fst snd]. destruct (n_is_zero Rnum (vget (rget L p) c)); [reflexivity|].
  cbn [n_cmp n_abs n_ofQ n_div Rnum Rcmp]. rewrite Hz.
  destruct (Rle_dec (Rabs (vget (rget L m) c / vget (rget L p) c)) 0) as [Hle|]; [|reflexivity].
  assert (V : vget (rget L m) c / vget (rget L p) c = 0).
  { pose proof (Rabs_pos (vget (rget L m) c / vget (rget L p) c)) as P.
    destruct (Req_dec (vget (rget L m) c / vget (rget L p) c) 0) as [Z|Z]; [exact Z|]. apply Rabs_pos_lt in Z. lra. }
  rewrite V, !vsub_mul0, !rset_rget_same. reflexivity.
Qed.

(** ** Invariant 1: right block times the input matrix = left block, row by row *)
Section Inv.
  Variable M0 : mat.
  Definition rowrel (l r : v3 R) : Prop := vec_rot M0 (vec_of r) = vec_of l.
  Definition Inv (s : state (F := R)) : Prop := forall i, rowrel (rget (fst s) i) (rget (snd s) i).

  Lemma inv_set : forall L Rr i l r, Inv (L, Rr) -> rowrel l r -> Inv (rset L i l, rset Rr i r).
  Proof.
    intros L Rr i l r H Hr k. cbn [fst snd]. rewrite !rget_rset. destruct (Nat.eqb (idx i) (idx k)); [exact Hr | apply (H k)].
  Qed.
  Lemma inv_swap : forall L Rr i j, Inv (L, Rr) -> Inv (rswap L i j, rswap Rr i j).
  Proof.
    intros L Rr i j H k. cbn [fst snd]. rewrite !rget_rswap.
    destruct (Nat.eqb (idx j) (idx k)); [apply (H i)|]. destruct (Nat.eqb (idx i) (idx k)); [apply (H j) | apply (H k)].
  Qed.
  Lemma rowrel_elim : forall l1 r1 l2 r2 v, rowrel l1 r1 -> rowrel l2 r2 ->
    rowrel (vsub Rnum l1 (vmuls Rnum l2 v)) (vsub Rnum r1 (vmuls Rnum r2 v)).
  Proof.
    intros [[l1x l1y] l1z] [[r1x r1y] r1z] [[l2x l2y] l2z] [[r2x r2y] r2z] v H1 H2.
    unfold rowrel, vec_rot, vec_of in *. cbn in *. injection H1 as A1 A2 A3. injection H2 as B1 B2 B3.
    apply vec_ext; subst; ring.
  Qed.
  Lemma rowrel_scale : forall l r v, rowrel l r -> rowrel (vdivs Rnum l v) (vdivs Rnum r v).
  Proof.
    intros [[lx ly] lz] [[rx ry] rz] v H. unfold rowrel, vec_rot, vec_of in *. cbn in *. injection H as A1 A2 A3.
    apply vec_ext; subst; unfold Rdiv; ring.
  Qed.

  Lemma do_op_inv : forall o s s', Inv s -> do_op Rnum o s = GOk s' -> Inv s'.
  Proof.
    intros o [L Rr] s' H E. destruct o as [col n rows cmp init | m p c | m p c cmp thr | r c cmp thr]; cbn [do_op fst snd] in E.
    - destruct (find_pivot Rnum rows col cmp L (n_ofQ Rnum init) None) as [p0|]; [|discriminate].
      injection E as <-. destruct (Nat.eqb p0 n); [exact H | apply inv_swap, H].
    - destruct (n_is_zero Rnum (vget (rget L p) c)); [discriminate|]. injection E as <-.
      apply inv_set; [exact H|]. apply rowrel_elim; [apply (H m) | apply (H p)].
    - destruct (n_is_zero Rnum (vget (rget L p) c)); [discriminate|].
      destruct (n_cmp Rnum cmp _ _); injection E as <-; [exact H|].
      apply inv_set; [exact H|]. apply rowrel_elim; [apply (H m) | apply (H p)].
    - destruct (n_cmp Rnum cmp _ _); [discriminate|]. destruct (n_is_zero Rnum _); [discriminate|]. injection E as <-.
      apply inv_set; [exact H|]. apply rowrel_scale, (H r).
  Qed.
  Lemma gj_run_inv : forall ops s s', Inv s -> gj_run Rnum ops s = GOk s' -> Inv s'.
  Proof.
    induction ops as [|o ops IH]; intros s s' H E; cbn [gj_run] in E.
    - injection E as <-. exact H.
    - destruct (do_op Rnum o s) as [s1| |] eqn:E1; try discriminate. apply (IH s1 s'); [apply (do_op_inv o s s1 H E1) | exact E].
  Qed.
End Inv.

(** ** Invariant 2: soundness of the abstract interpretation of the left block *)
Definition gam (a : av) (x : R) : Prop := match a with AZ => x = 0 | AO => x = 1 | AT => True end.
Definition Gam (A : r3 av) (L : r3 R) : Prop := forall i j, gam (vget (rget A i) j) (vget (rget L i) j).
Definition vle (a b : v3 av) : Prop := forall j x, gam (vget a j) x -> gam (vget b j) x.

Lemma gam_join_l : forall a b x, gam a x -> gam (av_join a b) x.
Proof. intros [] [] x H; cbn in *; auto. Qed.
Lemma gam_join_r : forall a b x, gam b x -> gam (av_join a b) x.
Proof. intros [] [] x H; cbn in *; auto. Qed.
Lemma vle_refl : forall a, vle a a.
Proof. intros a j x H; exact H. Qed.
Lemma vle_trans : forall a b c, vle a b -> vle b c -> vle a c.
Proof. intros a b c H1 H2 j x H. apply H2, H1, H. Qed.
Lemma vle_join_l : forall a b, vle a (vjoin a b).
Proof. intros a b j x H. unfold vjoin. rewrite vget_vbuild. apply gam_join_l. rewrite vget_idx. exact H. Qed.
Lemma vle_join_r : forall a b, vle b (vjoin a b).
Proof. intros a b j x H. unfold vjoin. rewrite vget_vbuild. apply gam_join_r. rewrite vget_idx. exact H. Qed.

Lemma fold_join_acc : forall (A : r3 av) rows acc, vle acc (fold_left (fun a i => vjoin a (rget A i)) rows acc).
Proof.
  intros A. induction rows as [|i rows IH]; intro acc; cbn [fold_left]; [apply vle_refl|].
  eapply vle_trans; [apply vle_join_l | apply IH].
Qed.
Lemma fold_join_in : forall (A : r3 av) rows acc i, In i rows -> vle (rget A i) (fold_left (fun a i => vjoin a (rget A i)) rows acc).
Proof.
  intros A. induction rows as [|k rows IH]; intros acc i H; [destruct H|]. cbn [fold_left]. destruct H as [->|H].
  - eapply vle_trans; [apply vle_join_r | apply fold_join_acc].
  - apply IH, H.
Qed.
Lemma fold_rset_get : forall (J : v3 av) S (A : r3 av) k,
  rget (fold_left (fun L' i => rset L' i J) S A) k = if existsb (fun i => Nat.eqb (idx i) (idx k)) S then J else rget A k.
Proof.
  intros J. induction S as [|i S IH]; intros A k; cbn [fold_left existsb]; [reflexivity|].
  rewrite IH, rget_rset. destruct (Nat.eqb (idx i) (idx k)); cbn [orb]; [|reflexivity].
  destruct (existsb _ S); reflexivity.
Qed.
Lemma find_pivot_in : forall rows col cmp (L : r3 R) la piv p,
  find_pivot Rnum rows col cmp L la piv = Some p -> In p rows \/ piv = Some p.
Proof.
  induction rows as [|m rows IH]; intros col cmp L la piv p H; cbn [find_pivot] in H; [right; exact H|].
  destruct (n_cmp Rnum cmp _ la).
  - apply IH in H as [H|H]; [left; right; exact H | left; left; injection H as ->; reflexivity].
  - apply IH in H as [H|H]; [left; right; exact H | right; exact H].
Qed.

Lemma do_op_gam_elim : forall m p c A L Rr L' R', Gam A L ->
  do_op Rnum (OElim m p c) (L, Rr) = GOk (L', R') -> Gam (abs_op (OElim m p c) A) L'.
Proof.
  intros m p c A L Rr L' R' H E. cbn [do_op fst snd] in E.
  cbn [n_is_zero Rnum] in E. destruct (Req_EM_T (vget (rget L p) c) 0) as [|Hd]; [discriminate|]. injection E as <- <-.
  cbn [abs_op]. destruct (Nat.eqb (idx m) (idx p)).
  + intros k j. rewrite !rget_rset. destruct (Nat.eqb (idx m) (idx k)); [|apply H].
    destruct j as [|[|j]]; exact I.
  + intros k j. rewrite !rget_rset. destruct (Nat.eqb (idx m) (idx k)); [|apply H].
    unfold vsub, vmuls. rewrite !vget_vbuild, idx_idem. cbn [n_sub n_mul n_div Rnum].
    destruct (Nat.eqb (idx j) (idx c)) eqn:Ej.
    * apply Nat.eqb_eq in Ej. rewrite Ej, !vget_idx. cbn [gam]. field. exact Hd.
    * destruct (vget (rget A p) (idx j)) eqn:Ea; try exact I.
      pose proof (H p (idx j)) as Hp. rewrite Ea in Hp. cbn [gam] in Hp. pose proof (H m (idx j)) as Hm. rewrite Hp.
      match goal with |- gam _ (?a - 0 * ?b) => replace (a - 0 * b) with a by ring end. exact Hm.
Qed.

Lemma do_op_gam : forall o A L Rr L' R', Gam A L -> do_op Rnum o (L, Rr) = GOk (L', R') -> Gam (abs_op o A) L'.
Proof.
  intros o A L Rr L' R' H E. destruct o as [col n rows cmp init | m p c | m p c cmp thr | r c cmp thr].
  4: cbn [do_op fst snd] in E.
  1: cbn [do_op fst snd] in E.
  - (* pivot search and swap *)
    destruct (find_pivot Rnum rows col cmp L (n_ofQ Rnum init) None) as [p0|] eqn:EP; [|discriminate].
    apply find_pivot_in in EP as [EP|EP]; [|discriminate].
    cbn [abs_op]. set (J := fold_left (fun acc i => vjoin acc (rget A i)) rows (rget A n)).
    assert (Jn : vle (rget A n) J) by apply fold_join_acc.
    assert (Jr : forall i, In i rows -> vle (rget A i) J) by (intros i Hi; apply fold_join_in, Hi).
    assert (JS : forall i k, In i (n :: rows) -> idx i = idx k -> vle (rget A k) J).
    { intros i k [<-|Hi] Hk; rewrite <- (rget_same_idx A _ _ Hk); [exact Jn | apply Jr, Hi]. }
    intros k j. rewrite fold_rset_get.
    destruct (existsb (fun i => Nat.eqb (idx i) (idx k)) (n :: rows)) eqn:EX.
    + apply existsb_exists in EX as (i & Hi & Hk). apply Nat.eqb_eq in Hk.
      destruct (Nat.eqb p0 n).
      * injection E as <- <-. apply (JS i k Hi Hk), H.
      * injection E as <- <-. rewrite rget_rswap.
        destruct (Nat.eqb (idx p0) (idx k)); [apply Jn, H|].
        destruct (Nat.eqb (idx n) (idx k)); [apply (Jr p0 EP), H | apply (JS i k Hi Hk), H].
    + assert (NE : forall i, In i (n :: rows) -> Nat.eqb (idx i) (idx k) = false).
      { intros i Hi. destruct (Nat.eqb (idx i) (idx k)) eqn:Ek; [|reflexivity].
        rewrite <- EX. symmetry. apply existsb_exists. exists i. split; assumption. }
      destruct (Nat.eqb p0 n).
      * injection E as <- <-. apply H.
      * injection E as <- <-. rewrite rget_rswap, (NE p0 (or_intror EP)), (NE n (or_introl eq_refl)). apply H.
  - (* elimination *)
    exact (do_op_gam_elim m p c A L Rr L' R' H E).
  - (* elimination with a skip guard *)
    cbn [abs_op]. destruct (skip_exact cmp thr) eqn:SE; cbn [andb].
    + rewrite (elimskip_equiv m p c cmp thr (L, Rr) SE) in E.
      pose proof (do_op_gam_elim m p c A L Rr L' R' H E) as G. cbn [abs_op] in G.
      destruct (Nat.eqb (idx m) (idx p)); cbn [negb]; exact G.
    + (* any other guard: the row may or may not have been updated; the other rows are unchanged *)
      cbn [do_op fst snd] in E. destruct (n_is_zero Rnum (vget (rget L p) c)); [discriminate|].
      destruct (n_cmp Rnum cmp _ _); injection E as <- <-; intros k j; rewrite ?rget_rset.
      * destruct (Nat.eqb (idx m) (idx k)); [destruct j as [|[|j]]; exact I | apply H].
      * destruct (Nat.eqb (idx m) (idx k)); [destruct j as [|[|j]]; exact I | apply H].
  - (* scaling *)
    destruct (n_cmp Rnum cmp _ _); [discriminate|]. cbn [n_is_zero Rnum] in E.
    destruct (Req_EM_T (vget (rget L r) c) 0) as [|Hd]; [discriminate|]. injection E as <- <-.
    cbn [abs_op]. intros k j. rewrite !rget_rset. destruct (Nat.eqb (idx r) (idx k)); [|apply H].
    unfold vdivs. rewrite !vget_vbuild. cbn [n_div Rnum].
    destruct (Nat.eqb (idx j) (idx c)) eqn:Ej.
    + apply Nat.eqb_eq in Ej. rewrite Ej, vget_idx. cbn [gam]. field. exact Hd.
    + destruct (vget (rget A r) (idx j)) eqn:Ea; try exact I.
      pose proof (H r (idx j)) as Hp. rewrite Ea in Hp. cbn [gam] in Hp. rewrite Hp. cbn [gam]. unfold Rdiv. ring.
Qed.

Lemma gj_run_gam : forall ops A L Rr L' R', Gam A L -> gj_run Rnum ops (L, Rr) = GOk (L', R') -> Gam (abs_run ops A) L'.
Proof.
  induction ops as [|o ops IH]; intros A L Rr L' R' H E; cbn [gj_run] in E; unfold abs_run; cbn [fold_left].
  - injection E as <- <-. exact H.
  - destruct (do_op Rnum o (L, Rr)) as [[L1 R1]| |] eqn:E1; try discriminate.
    apply (IH (abs_op o A) L1 R1 L' R'); [apply (do_op_gam o A L Rr L1 R1 H E1) | exact E].
Qed.

Lemma all_ij_in : forall i j, In (idx i, idx j) all_ij.
Proof. intros [|[|i]] [|[|j]]; cbn; tauto. Qed.
Lemma av_eqb_eq : forall a b, av_eqb a b = true -> a = b.
Proof. intros [] [] H; try discriminate; reflexivity. Qed.
Lemma r3_eqb_gam : forall A B L, r3_eqb A B = true -> Gam A L -> Gam B L.
Proof.
  intros A B L E H i j. unfold r3_eqb in E. rewrite forallb_forall in E.
  pose proof (E _ (all_ij_in i j)) as Eij. cbn [fst snd] in Eij. apply av_eqb_eq in Eij.
  rewrite !rget_idx, !vget_idx in Eij. rewrite <- Eij. apply H.
Qed.

(** ** The theorems *)
Lemma Q2R_0' : Q2R 0 = 0.
Proof. unfold Q2R; cbn. lra. Qed.
Lemma Q2R_1' : Q2R 1 = 1.
Proof. unfold Q2R; cbn. lra. Qed.

Theorem gauss_jordan_inverse : forall p, gj_prog_ok p = true ->
  forall m n, gj_inverse Rnum p (rows_of m) = GOk n -> mat_mul (mat_of n) m = I3.
Proof.
  intros p OK m n E. unfold gj_prog_ok in OK.
  apply andb_prop in OK as [OK Hid]. apply andb_prop in OK as [OK _]. apply andb_prop in OK as [OK Hout].
  apply andb_prop in OK as [Hl Hr].
  apply (list_eqb_eq _ (fun x y => proj1 (Nat.eqb_eq x y))) in Hl.
  apply (list_eqb_eq _ q_lit_eqb_eq) in Hr. apply (list_eqb_eq _ pair_eqb_eq) in Hout.
  unfold gj_inverse in E.
  destruct (gj_run Rnum (gp_ops p) (init_l p (rows_of m), init_r Rnum p)) as [[L' R']| |] eqn:ER; try discriminate.
  injection E as <-.
  assert (IL : init_l p (rows_of m) = rows_of m) by (unfold init_l; rewrite Hl; reflexivity).
  assert (IR : init_r Rnum p = ((1, 0, 0), (0, 1, 0), (0, 0, 1))).
  { unfold init_r; rewrite Hr. unfold rbuild, vbuild; cbn [nth Nat.mul Nat.add n_ofQ Rnum]. rewrite Q2R_0', Q2R_1'. reflexivity. }
  rewrite IL, IR in ER.
  assert (I0 : Inv m (rows_of m, ((1, 0, 0), (0, 1, 0), (0, 0, 1)))).
  { intros [|[|i]]; unfold rowrel, rows_of, vec_rot, vec_of; cbn; apply vec_ext; ring. }
  assert (G0 : Gam top3 (rows_of m)) by (intros [|[|i]] [|[|j]]; exact I).
  pose proof (gj_run_inv m _ _ _ I0 ER) as I1.
  pose proof (gj_run_gam _ _ _ _ _ _ G0 ER) as G1.
  apply (r3_eqb_gam _ _ _ Hid) in G1.
  assert (OUT : out_of p R' = R').
  { unfold out_of; rewrite Hout. destruct R' as [[[[a b] c] [[d e] f]] [[g h] k]]. reflexivity. }
  cbn [snd]. rewrite OUT.
  pose proof (I1 0%nat) as A0. pose proof (I1 1%nat) as A1. pose proof (I1 2%nat) as A2.
  pose proof (G1 0 0)%nat as g00. pose proof (G1 0 1)%nat as g01. pose proof (G1 0 2)%nat as g02.
  pose proof (G1 1 0)%nat as g10. pose proof (G1 1 1)%nat as g11. pose proof (G1 1 2)%nat as g12.
  pose proof (G1 2 0)%nat as g20. pose proof (G1 2 1)%nat as g21. pose proof (G1 2 2)%nat as g22.
  clear I1 G1 ER I0 G0 IL IR OUT.
  destruct L' as [[[[l00 l01] l02] [[l10 l11] l12]] [[l20 l21] l22]].
  destruct R' as [[[[r00 r01] r02] [[r10 r11] r12]] [[r20 r21] r22]].
  unfold rowrel, vec_rot, vec_of in A0, A1, A2. cbn in *.
  injection A0 as a00 a01 a02. injection A1 as a10 a11 a12. injection A2 as a20 a21 a22.
  unfold mat_mul, mat_of, I3; cbn. apply mat_ext; lra.
Qed.

(** inverse() = transpose() on rotations, whenever inverse() returns. *)
Theorem gauss_jordan_inverse_rotation : forall p, gj_prog_ok p = true ->
  forall m n, rotation m -> gj_inverse Rnum p (rows_of m) = GOk n -> mat_of n = transpose m.
Proof.
  intros p OK m n Hm E. destruct (rotation_inverse_is_transpose m Hm) as (_ & _ & U & _).
  apply U. exact (gauss_jordan_inverse p OK m n E).
Qed.

(** A left inverse of a square real matrix is also a right inverse; stated for the result of inverse(). *)
Theorem gauss_jordan_inverse_det : forall p, gj_prog_ok p = true ->
  forall m n, gj_inverse Rnum p (rows_of m) = GOk n -> det (mat_of n) * det m = 1.
Proof.
  intros p OK m n E. rewrite <- det_mul, (gauss_jordan_inverse p OK m n E).
  unfold det, I3; cbn. ring.
Qed.
