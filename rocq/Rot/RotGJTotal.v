(** C04 — MatrixBase.inverse RETURNS on every rotation: the decidable test (no reals in this file).

    Rot/RotGJ.v accepts a program when its left block provably ends as the identity; that says what inverse() returns
    WHEN it returns.  This file adds a second abstract interpretation of the same generated programs that shows that no
    pivot search, no division and no threshold test of the program can fail on a rotation matrix.  The abstract state is
      - for every entry of the left block an interval [lo, hi] of rationals for its ABSOLUTE VALUE, and
      - a rational lower bound [d] of |det L|.
    A rotation starts with every |entry| in [0, 1] and |det| = 1.  Row swaps keep |det|, an elimination L[m] -= L[p]*v
    with m <> p keeps det, a scaling divides it.  Lower bounds of entries come from the determinant, expanded along a row
    or a column and estimated with the triangle inequality:
        |det L| <= sum_j |L[r][j]| * (|minor r j|),     |minor| <= hi*hi + hi*hi
    so  |L[r][c]| >= (d - sum_{j<>c} hi(r,j) * cofhi(r,j)) / cofhi(r,c)                      ([row_lo])
    and, for a pivot search over [rows] in column [col] (the pivot has the largest absolute value of those rows),
        max_{m in rows} |L[m][col]| >= (d - sum_{m not in rows} hi(m,col)*cofhi(m,col)) / sum_{m in rows} cofhi(m,col)   ([piv_lo]).
    [abs2_op] returns [None] when it cannot show that the operation succeeds.  Soundness (over the classical reals, for ALL
    programs, by induction over the operation list) is in Rot/RotGJTotalProofs.v. *)
From Coq Require Import List Bool Arith QArith.
From SV Require Import Rot.RotGJ.
Import ListNotations.
Local Open Scope nat_scope.

Definition qlt (x y : Q) : bool := negb (Qle_bool y x).
Definition qmax (x y : Q) : Q := if Qle_bool x y then y else x.
Definition qmin (x y : Q) : Q := if Qle_bool x y then x else y.

(** lo <= |x| <= hi *)
Record aq := Aq { a_lo : Q; a_hi : Q }.
Definition bstate := (r3 aq * Q)%type.

Definition aget (A : r3 aq) (i j : nat) : aq := vget (rget A i) j.
Definition hi (A : r3 aq) (i j : nat) : Q := a_hi (aget A i j).
Definition lo (A : r3 aq) (i j : nat) : Q := a_lo (aget A i j).
Definition vset {T} (v : v3 T) (j : nat) (x : T) : v3 T :=
  match v with (a, b, c) => match j with 0 => (x, b, c) | 1 => (a, x, c) | _ => (a, b, x) end end.

(** The two other indexes of 0..2 (arguments are read like [idx]: everything above 1 is 2). *)
Definition oth1 (k : nat) : nat := match k with 0 => 1 | _ => 0 end.
Definition oth2 (k : nat) : nat := match k with 0 | 1 => 2 | _ => 1 end.
(** Upper bound of |minor i j| = |L[i1][j1]*L[i2][j2] - L[i1][j2]*L[i2][j1]|. *)
Definition cofhi (A : r3 aq) (i j : nat) : Q :=
  (hi A (oth1 i) (oth1 j) * hi A (oth2 i) (oth2 j) + hi A (oth1 i) (oth2 j) * hi A (oth2 i) (oth1 j))%Q.

(** Lower bound of |L[r][c]| (expansion of det along row r). *)
Definition row_lo (A : r3 aq) (d : Q) (r c : nat) : Q :=
  let rest := (hi A r (oth1 c) * cofhi A r (oth1 c) + hi A r (oth2 c) * cofhi A r (oth2 c))%Q in
  let cf := cofhi A r c in
  if qlt 0 cf then qmax (lo A r c) ((d - rest) / cf)%Q else lo A r c.

(** Lower bound of the largest |L[m][col]|, m in rows (expansion of det along column col). *)
Definition inrows (rows : list nat) (m : nat) : bool := existsb (fun i => Nat.eqb (idx i) m) rows.
Definition piv_in (A : r3 aq) (col : nat) (rows : list nat) (m : nat) : Q :=
  if inrows rows m then cofhi A m col else 0%Q.
Definition piv_out (A : r3 aq) (col : nat) (rows : list nat) (m : nat) : Q :=
  if inrows rows m then 0%Q else (hi A m col * cofhi A m col)%Q.
Definition piv_lo (A : r3 aq) (d : Q) (col : nat) (rows : list nat) : option Q :=
  let s_in := (piv_in A col rows 0 + piv_in A col rows 1 + piv_in A col rows 2)%Q in
  let s_out := (piv_out A col rows 0 + piv_out A col rows 1 + piv_out A col rows 2)%Q in
  if qlt 0 s_in then Some ((d - s_out) / s_in)%Q else None.

Definition ajoin (a b : aq) : aq := Aq (qmin (a_lo a) (a_lo b)) (qmax (a_hi a) (a_hi b)).
Definition vajoin (a b : v3 aq) : v3 aq := vbuild (fun j => ajoin (vget a j) (vget b j)).

Definition abs2_op (o : gj_op) (st : bstate) : option bstate :=
  let A := fst st in let d := snd st in
  match o with
  | OPivotSwap col n rows cmp init =>
      match cmp with
      | CGt | CGe =>
          match piv_lo A d col rows with
          | Some pl =>
              if qlt init pl then
                (* the pivot row is one of [rows] and is exchanged with row n *)
                let J := fold_left (fun acc i => vajoin acc (rget A i)) rows (rget A n) in
                let A1 := fold_left (fun A' i => rset A' i J) (n :: rows) A in
                let e := aget A1 n col in
                Some (rset A1 n (vset (rget A1 n) col (Aq (qmax (a_lo e) pl) (a_hi e))), d)
              else None
          | None => None
          end
      | _ => None
      end
  | OElim m p c =>
      if Nat.eqb (idx m) (idx p) then None else
      let pl := row_lo A d p c in
      if qlt 0 pl then
        let vb := (hi A m c / pl)%Q in       (* |v| = |L[m][c] / L[p][c]| <= vb *)
        Some (rset A m (vbuild (fun j =>
                if Nat.eqb j (idx c) then Aq 0 0
                else if Qle_bool (hi A p j) 0 then aget A m j
                else Aq 0 (hi A m j + hi A p j * vb)%Q)), d)
      else None
  | OElimSkip m p c cmp thr =>
      if skip_exact cmp thr then
        if Nat.eqb (idx m) (idx p) then None else
        let pl := row_lo A d p c in
        if qlt 0 pl then
          let vb := (hi A m c / pl)%Q in
          Some (rset A m (vbuild (fun j =>
                  if Nat.eqb j (idx c) then Aq 0 0
                  else if Qle_bool (hi A p j) 0 then aget A m j
                  else Aq 0 (hi A m j + hi A p j * vb)%Q)), d)
        else None
      else None
  | OScale r c cmp thr =>
      match cmp with
      | CLe | CLt =>
          let pl := row_lo A d r c in
          if qlt thr pl && qlt 0 pl then
            Some (rset A r (vbuild (fun j => if Nat.eqb j (idx c) then Aq 1 1 else Aq 0 (hi A r j / pl)%Q)),
                  (d / hi A r c)%Q)
          else None
      | _ => None
      end
  end.

Fixpoint abs2_run (ops : list gj_op) (st : bstate) : option bstate :=
  match ops with
  | [] => Some st
  | o :: rest => match abs2_op o st with Some st' => abs2_run rest st' | None => None end
  end.
(** The first operation that is not shown to succeed (for the report and the named obligations). *)
Fixpoint abs2_fail (ops : list gj_op) (st : bstate) : option gj_op :=
  match ops with
  | [] => None
  | o :: rest => match abs2_op o st with Some st' => abs2_fail rest st' | None => Some o end
  end.

(** A rotation: every |entry| <= 1, |det| = 1. *)
Definition unit_iv : aq := Aq 0 1.
Definition rot_init : bstate := (((unit_iv, unit_iv, unit_iv), (unit_iv, unit_iv, unit_iv), (unit_iv, unit_iv, unit_iv)), 1%Q).

Definition total_from (st : bstate) (p : gj_prog) : bool :=
  match abs2_run (gp_ops p) st with Some _ => true | None => false end.
(** The acceptance test and its three named parts. *)
Definition gj_total_ok (p : gj_prog) : bool := init_l_ok p && total_from rot_init p.
Definition pivots_found (p : gj_prog) : bool :=
  match abs2_fail (gp_ops p) rot_init with Some (OPivotSwap _ _ _ _ _) => false | _ => true end.
Definition divisors_nonzero (p : gj_prog) : bool :=
  match abs2_fail (gp_ops p) rot_init with
  | Some (OElim _ _ _) => false
  | Some (OElimSkip _ _ _ cmp thr) => negb (skip_exact cmp thr)   (* an inexact skip guard has its own obligation *)
  | _ => true
  end.
Definition thresholds_passed (p : gj_prog) : bool :=
  match abs2_fail (gp_ops p) rot_init with Some (OScale _ _ _ _) => false | _ => true end.
(** For the report: the final intervals. *)
Definition total_trace (p : gj_prog) : option bstate := abs2_run (gp_ops p) rot_init.
