(** C04 — reified pieces of the generated formulas, in a form about which the kernel can DECIDE (Gen/RotReified_gen.v):
    polynomials in the slots of self / other with integer coefficients (expanded and sorted by the translator; that the
    expansion denotes the generated formula is proved by [ring] in Rot/RotReifyProofs.v), and the test of
    MatrixBase._to_angle that selects the non-degenerate branch.  The acceptance tests here are the named instance
    obligations of the check:
      - the guard compares with [>], its literal is 0.001, its left operand is sqrt(aa^2 + ab^2);
      - every entry of [self._mat_mul(self)] is the entry of the product formula with other := self. *)
From Coq Require Import Reals ZArith QArith Qreals List Bool.
From SV Require Import Rot.RotBase Rot.RotGJ.
Import ListNotations.

Inductive atom := AS (k : nat) | AO (k : nat).      (* slot k (0 = aa ... 8 = cc) of self / of other *)
Definition mono := list atom.
Definition poly := list (Z * mono).
Inductive gexpr := GPoly (p : poly) | GSqrt (p : poly).
Record guard_cfg := GuardCfg { g_op : gj_cmp; g_lhs : gexpr; g_rhs : Q }.

(** ** decidable part *)
Definition atom_eqb (a b : atom) : bool :=
  match a, b with AS i, AS j | AO i, AO j => Nat.eqb i j | _, _ => false end.
Definition term_eqb (a b : Z * mono) : bool := Z.eqb (fst a) (fst b) && list_eqb atom_eqb (snd a) (snd b).
Definition poly_eqb (p q : poly) : bool := list_eqb term_eqb p q.
Definition cmp_eqb (a b : gj_cmp) : bool :=
  match a, b with CGt, CGt | CGe, CGe | CLt, CLt | CLe, CLe => true | _, _ => false end.

(** aa^2 + ab^2: the squared length of the horizontal projection of the forward row *)
Definition horiz_sq_poly : poly := [(1%Z, [AS 0; AS 0]); (1%Z, [AS 1; AS 1])].
Definition guard_operator_ok (c : guard_cfg) : bool := cmp_eqb (g_op c) CGt.
Definition guard_literal_ok (c : guard_cfg) : bool := Qeq_bool (g_rhs c) (1 # 1000).
Definition guard_operand_ok (c : guard_cfg) : bool :=
  match g_lhs c with GSqrt p => poly_eqb p horiz_sq_poly | GPoly _ => false end.
Definition guard_cfg_ok (c : guard_cfg) : bool := guard_operator_ok c && guard_literal_ok c && guard_operand_ok c.

(** One component of the angle computed by _to_angle: [degrees (atan2 y x)] (reduced modulo 360 some number of times), a
    constant, or something the translator could not reify. *)
Inductive comp_cfg := CAtan2 (y x : gexpr) | CConst (q : Q) | COther.
(** -ac: minus the height of the forward row *)
Definition neg_forz_poly : poly := [((-1)%Z, [AS 2])].
(** The pitch is atan2(-forward.z, horizontal length of forward): total on every matrix (no asin/acos of a rounded entry),
    and the same expression in both branches. *)
Definition pitch_ok (c : comp_cfg) : bool :=
  match c with
  | CAtan2 (GPoly y) (GSqrt x) => poly_eqb y neg_forz_poly && poly_eqb x horiz_sq_poly
  | _ => false
  end.

Definition polys_eqb (a b : list poly) : bool := list_eqb poly_eqb a b.
Definition row_of {A} (i : nat) (l : list A) : list A := firstn 3 (skipn (3 * i) l).
Definition alias_row_ok (i : nat) (a b : list poly) : bool := polys_eqb (row_of i a) (row_of i b).

(** ** denotation over the reals *)
Local Open Scope R_scope.
Definition slot_of (m : mat) (k : nat) : R :=
  match k with
  | 0%nat => aa m | 1%nat => ab m | 2%nat => ac m | 3%nat => ba m | 4%nat => bb m | 5%nat => bc m
  | 6%nat => ca m | 7%nat => cb m | _ => cc m
  end.
Definition atom_den (s o : mat) (a : atom) : R := match a with AS k => slot_of s k | AO k => slot_of o k end.
Fixpoint mono_den (s o : mat) (m : mono) : R := match m with [] => 1 | a :: r => atom_den s o a * mono_den s o r end.
Fixpoint poly_den (s o : mat) (p : poly) : R :=
  match p with [] => 0 | t :: r => IZR (fst t) * mono_den s o (snd t) + poly_den s o r end.
Definition gexpr_den (s : mat) (e : gexpr) : R :=
  match e with GPoly p => poly_den s s p | GSqrt p => sqrt (poly_den s s p) end.
Definition cmp_den (c : gj_cmp) (a b : R) : Prop :=
  match c with CGt => a > b | CGe => a >= b | CLt => a < b | CLe => a <= b end.
Definition guard_den (c : guard_cfg) (s : mat) : Prop := cmp_den (g_op c) (gexpr_den s (g_lhs c)) (Q2R (g_rhs c)).
Definition comp_den (s : mat) (c : comp_cfg) (t : ta_comp) : Prop :=
  match c, t with
  | CAtan2 y x, TaAtan2 _ y' x' => gexpr_den s y = y' /\ gexpr_den s x = x'
  | CConst q, TaConst c' => Q2R q = c'
  | _, _ => False
  end.
Definition entries (m : mat) : list R := [aa m; ab m; ac m; ba m; bb m; bc m; ca m; cb m; cc m].
