(** C04 — the @ / @= / reflected-@ dispatch over the seven operand classes: table format and the boolean
    acceptance test that the generated table (Gen/RotDispatch_gen.v) must pass.  No reals here: everything is
    decidable and is discharged by vm_compute on the table regenerated from math.py on every run. *)
From Coq Require Import List Bool.
Import ListNotations.

Inductive cls := CVec | CFrozenVec | CTuple | CAngle | CFrozenAngle | CMatrix | CFrozenMatrix.
Inductive form := FMatmul | FImatmul | FRmatmul.     (* l @ r,  l @= r,  r.__rmatmul__(l) *)
(** Value of an object as a term over the values the two operands had before the operation. *)
Inductive term :=
  | TL | TR | TUninit
  | TFromAngle (t : term)            (* Matrix.from_angle(t) *)
  | TToAngle (t : term)              (* t._to_angle(fresh or self) *)
  | TMatMul (a b : term)             (* a._mat_mul(b), a and b distinct objects *)
  | TMatMulSelf (a : term)           (* a._mat_mul(a): same object on both sides *)
  | TVecRot (v m : term).            (* m._vec_rot(v) *)
Inductive ident := IdL | IdR | IdFresh.      (* which object is returned *)
(** class, identity and value of the result; final values of the left and right operand objects. *)
Inductive outcome := OValue (c : cls) (i : ident) (v fl fr : term) | ONone.   (* ONone: NotImplemented / TypeError *)
Record triple := Triple { t_form : form; t_l : cls; t_r : cls; t_alias : bool; t_out : outcome }.

Inductive kind := KV | KA | KM.
Definition kind_of (c : cls) : kind :=
  match c with CVec | CFrozenVec | CTuple => KV | CAngle | CFrozenAngle => KA | CMatrix | CFrozenMatrix => KM end.
Definition mutable (c : cls) : bool := match c with CVec | CAngle | CMatrix => true | _ => false end.
Definition kind_eqb (a b : kind) : bool := match a, b with KV, KV | KA, KA | KM, KM => true | _, _ => false end.
Definition cls_eqb (a b : cls) : bool :=
  match a, b with
  | CVec, CVec | CFrozenVec, CFrozenVec | CTuple, CTuple | CAngle, CAngle | CFrozenAngle, CFrozenAngle
  | CMatrix, CMatrix | CFrozenMatrix, CFrozenMatrix => true
  | _, _ => false
  end.
Definition form_eqb (a b : form) : bool :=
  match a, b with FMatmul, FMatmul | FImatmul, FImatmul | FRmatmul, FRmatmul => true | _, _ => false end.

Fixpoint term_eqb (a b : term) : bool :=
  match a, b with
  | TL, TL | TR, TR | TUninit, TUninit => true
  | TFromAngle x, TFromAngle y | TToAngle x, TToAngle y | TMatMulSelf x, TMatMulSelf y => term_eqb x y
  | TMatMul x1 x2, TMatMul y1 y2 | TVecRot x1 x2, TVecRot y1 y2 => term_eqb x1 y1 && term_eqb x2 y2
  | _, _ => false
  end.

(** The specification product for a pair of operand kinds: a vector is rotated, a matrix is multiplied on the right,
    an angle is converted, multiplied and converted back; an Angle on the right acts as from_angle of it. *)
Definition as_mat (k : kind) (t : term) : term := match k with KA => TFromAngle t | _ => t end.
Definition expected (l r : cls) (alias : bool) : option term :=
  let R := if alias then TL else TR in
  match kind_of l, kind_of r with
  | _, KV => None
  | KV, k => Some (TVecRot TL (as_mat k R))
  | KM, k => Some (TMatMul TL (as_mat k R))
  | KA, k => Some (TToAngle (TMatMul (TFromAngle TL) (as_mat k R)))
  end.

(** Acceptance of one row.  Unsupported kind pairs: nothing claimed.  Otherwise the value must be the specification
    product; a non-in-place form must return a fresh object and leave both operands as they were; the in-place form may
    either update a MUTABLE left operand in place (right operand untouched unless it is the same object) or fall back to
    the fresh result; the explicitly reflected method may also defer (NotImplemented). *)
Definition triple_ok (t : triple) : bool :=
  match expected (t_l t) (t_r t) (t_alias t) with
  | None => true
  | Some e =>
    match t_out t with
    | ONone => form_eqb (t_form t) FRmatmul
    | OValue c i v fl fr =>
        kind_eqb (kind_of c) (kind_of (t_l t)) && term_eqb v e &&
        match i with
        | IdFresh => term_eqb fl TL && term_eqb fr (if t_alias t then TL else TR)
        | IdL => form_eqb (t_form t) FImatmul && mutable (t_l t) && term_eqb fl e
                 && term_eqb fr (if t_alias t then e else TR)
        | IdR => false
        end
    end
  end.

Definition all_cls := [CVec; CFrozenVec; CTuple; CAngle; CFrozenAngle; CMatrix; CFrozenMatrix].
Definition all_forms := [FMatmul; FImatmul; FRmatmul].
Definition key_match (f : form) (l r : cls) (a : bool) (t : triple) : bool :=
  form_eqb f (t_form t) && cls_eqb l (t_l t) && cls_eqb r (t_r t) && Bool.eqb a (t_alias t).
(** Every (form, left class, right class) occurs, and every same-class pair of non-tuples also with one shared object. *)
Definition covered (tbl : list triple) : bool :=
  forallb (fun f => forallb (fun l => forallb (fun r =>
     existsb (key_match f l r false) tbl &&
     (if cls_eqb l r && negb (cls_eqb l CTuple) then existsb (key_match f l r true) tbl else true))
     all_cls) all_cls) all_forms.
(** The plain operators must actually handle every supported pair (not just "may defer"). *)
Definition handled (t : triple) : bool :=
  match expected (t_l t) (t_r t) (t_alias t), t_form t, t_out t with
  | Some _, (FMatmul | FImatmul), ONone => false
  | _, _, _ => true
  end.
(** The in-place protocol (round 4).  `l @= r` on a supported pair: when the class of [l] is MUTABLE the object the
    operator was applied to must itself be returned (so that every alias of it sees the product: together with the [IdL]
    clause of [triple_ok] its final value is the specification product); when it is frozen / a tuple the result must be a
    new object (and, by the [IdFresh] clause of [triple_ok], nothing is stored into the receiver).  [triple_ok] alone
    accepted a mutable receiver that quietly falls back to the fresh result of `@` - `for a in angles: a @= m` would then
    leave the list as it was. *)
Definition inplace_ok (t : triple) : bool :=
  match t_form t, expected (t_l t) (t_r t) (t_alias t), t_out t with
  | FImatmul, Some _, OValue _ i _ _ _ =>
      match i with IdL => mutable (t_l t) | IdFresh => negb (mutable (t_l t)) | IdR => false end
  | _, _, _ => true
  end.
Definition rows_of (f : form) (tbl : list triple) := filter (fun t => form_eqb f (t_form t)) tbl.
Definition rows_mut (m : bool) (tbl : list triple) := filter (fun t => Bool.eqb m (mutable (t_l t))) (rows_of FImatmul tbl).
Definition table_ok (tbl : list triple) : bool :=
  forallb triple_ok tbl && forallb handled tbl && covered tbl && forallb inplace_ok tbl.
Definition failing (tbl : list triple) : list (form * cls * cls * bool) :=
  map (fun t => (t_form t, t_l t, t_r t, t_alias t)) (filter (fun t => negb (triple_ok t && handled t && inplace_ok t)) tbl).
