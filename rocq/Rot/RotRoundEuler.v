(** C04 — Matrix -> Angle -> Matrix at the float level, away from the gimbal band: composition of the exact Euler round trip
    (Rot/RotEulerProofs.v) with the binary64 error bound of the arithmetic of from_angle (Rot/RotRoundTied.v).

    For an exact rotation [m] outside the band let [a] be its exact Euler angles ([to_angle], atan2 by its specification).  If
    the six numbers the float from_angle runs on (what libm returned for sin / cos of the float angles that the float
    _to_angle produced) are within [d] of the real sin / cos of [a], then every entry of the float matrix is within [tol] of
    the entry of [m].  Everything that is not + - * (atan2, degrees, % 360, radians, sin, cos in binary64) is inside the one
    visible hypothesis, which the check measures on every run against 50-digit arithmetic. *)
From Coq Require Import List Bool Arith QArith Reals Qreals Lra.
From SV Require Import Rot.RotBase Rot.RotRound Rot.RotRoundProofs Rot.RotRoundFlocq Rot.RotRoundTied Rot.RotAlgebra
  Rot.RotEuler Rot.RotEulerProofs Gen.RotFormulas_gen Gen.RotRounded_gen.
Import ListNotations.
Local Open Scope R_scope.

Theorem euler_roundtrip_binary64 : forall atan2, atan2_spec atan2 ->
  forall d tol, errs_within_in 1 d tol from_angle_fe = true ->
  forall m, rotation m -> horiz m > 1 / 1000 ->
  forall inp,
    (forall n, Rabs (inp n - from_angle_inputs (a_pitch (to_angle atan2 m)) (a_yaw (to_angle atan2 m))
                                               (a_roll (to_angle atan2 m)) n) <= Q2R d) ->
  forall i, (i < 9)%nat ->
    Rabs (nth i (map (fe_fl rnd64 inp) from_angle_fe) 0
          - nth i [aa m; ab m; ac m; ba m; bb m; bc m; ca m; cb m; cc m] 0) <= Q2R tol.
Proof.
  intros atan2 A d tol Hok m Hm Hh inp Hinp i Hi.
  pose proof (from_angle_binary64_error d tol Hok _ _ _ inp Hinp i Hi) as [E _].
  cbv zeta in E. rewrite <- from_angle_obj_eq in E.
  replace (from_angle_obj (to_angle atan2 m)) with m in E by (symmetry; apply (euler_roundtrip atan2 A m Hm Hh)).
  exact E.
Qed.
