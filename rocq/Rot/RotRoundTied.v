(** C04 — the reified expression trees of Gen/RotRounded_gen.v ARE the generated real formulas, and the binary64 error
    bound stated about rotations and vectors. *)
From Coq Require Import List Bool Arith QArith Reals Qreals Lra.
From SV Require Import Rot.RotBase Rot.RotRound Rot.RotRoundProofs Rot.RotRoundFlocq Rot.RotAlgebra
  Gen.RotFormulas_gen Gen.RotRounded_gen.
Import ListNotations.
Local Open Scope R_scope.

(** The inputs of the trees: slots of self (0..8), slots of other (9..17), vector components (18..20). *)
Definition env_sov (s o : mat) (v : vec) (n : nat) : R :=
  match n with
  | 0 => aa s | 1 => ab s | 2 => ac s | 3 => ba s | 4 => bb s | 5 => bc s | 6 => ca s | 7 => cb s | 8 => cc s
  | 9 => aa o | 10 => ab o | 11 => ac o | 12 => ba o | 13 => bb o | 14 => bc o | 15 => ca o | 16 => cb o | 17 => cc o
  | 18 => vx v | 19 => vy v | _ => vz v
  end%nat.

Ltac tie := intros; cbn; repeat (apply f_equal2; [ring|]); reflexivity.

(** Exact evaluation of the trees gives the components of [vec_rot] / the entries of [mat_mul] (the objects of every
    algebraic theorem of Props/C04.v). *)
Lemma vec_rot_fe_tied : forall s o v,
  map (fe_exact (env_sov s o v)) vec_rot_fe = [vx (vec_rot s v); vy (vec_rot s v); vz (vec_rot s v)].
Proof. tie. Qed.
Lemma mat_mul_fe_tied : forall s o v,
  map (fe_exact (env_sov s o v)) mat_mul_fe =
  let m := mat_mul s o in [aa m; ab m; ac m; ba m; bb m; bc m; ca m; cb m; cc m].
Proof. tie. Qed.

Definition vec_within (bv : Q) (v : vec) : Prop := Rabs (vx v) <= Q2R bv /\ Rabs (vy v) <= Q2R bv /\ Rabs (vz v) <= Q2R bv.

Lemma sq_le1' : forall x y z, x * x + y * y + z * z = 1 -> Rabs x <= 1.
Proof. intros x y z H. apply Rabs_le. split; nra. Qed.
Lemma Q2R_1' : Q2R 1 = 1.
Proof. unfold Q2R; simpl; lra. Qed.

Lemma rotation_entries_le1 : forall m, rotation m ->
  Rabs (aa m) <= 1 /\ Rabs (ab m) <= 1 /\ Rabs (ac m) <= 1 /\ Rabs (ba m) <= 1 /\ Rabs (bb m) <= 1 /\ Rabs (bc m) <= 1 /\
  Rabs (ca m) <= 1 /\ Rabs (cb m) <= 1 /\ Rabs (cc m) <= 1.
Proof.
  intros [a b c d e f g h k] [(N1 & N2 & N3 & _) _]. cbn [aa ab ac ba bb bc ca cb cc] in *.
  repeat split.
  - apply (sq_le1' a b c); lra.
  - apply (sq_le1' b a c); lra.
  - apply (sq_le1' c a b); lra.
  - apply (sq_le1' d e f); lra.
  - apply (sq_le1' e d f); lra.
  - apply (sq_le1' f d e); lra.
  - apply (sq_le1' g h k); lra.
  - apply (sq_le1' h g k); lra.
  - apply (sq_le1' k g h); lra.
Qed.

Definition mat_within (bm : Q) (m : mat) : Prop :=
  Rabs (aa m) <= Q2R bm /\ Rabs (ab m) <= Q2R bm /\ Rabs (ac m) <= Q2R bm /\ Rabs (ba m) <= Q2R bm /\ Rabs (bb m) <= Q2R bm /\
  Rabs (bc m) <= Q2R bm /\ Rabs (ca m) <= Q2R bm /\ Rabs (cb m) <= Q2R bm /\ Rabs (cc m) <= Q2R bm.
Lemma rotation_within_1 : forall m, rotation m -> mat_within 1 m.
Proof. intros m H. unfold mat_within. rewrite Q2R_1'. exact (rotation_entries_le1 m H). Qed.

Lemma env_bounded : forall s o v bm bv, mat_within bm s -> mat_within bm o -> vec_within bv v ->
  forall n, Rabs (env_sov s o v n) <= Q2R (bounds bm bv n).
Proof.
  intros s o v bm bv (S1 & S2 & S3 & S4 & S5 & S6 & S7 & S8 & S9) (O1 & O2 & O3 & O4 & O5 & O6 & O7 & O8 & O9) (V1 & V2 & V3) n.
  unfold bounds.
  do 18 (destruct n as [|n]; [cbn [env_sov Nat.ltb Nat.leb]; assumption|]).
  destruct n as [|[|n]]; cbn [env_sov Nat.ltb Nat.leb]; assumption.
Qed.

(** v @ M in binary64 (no overflow: [rnd64] has an unbounded exponent range) against v @ M over the reals, for a matrix with
    entries up to [bm] (1 for an exact rotation; a float matrix is a rotation only up to rounding, hence the parameter) and a
    vector with components up to [bv]: each component is within [tol], for every [tol] the decidable test accepts for
    today's trees. *)
Theorem vec_rot_binary64_error : forall bm bv tol, errs_within bm bv tol vec_rot_fe = true ->
  forall s v, mat_within bm s -> vec_within bv v ->
  forall i, (i < 3)%nat ->
  Rabs (nth i (map (fe_fl rnd64 (env_sov s s v)) vec_rot_fe) 0 - nth i [vx (vec_rot s v); vy (vec_rot s v); vz (vec_rot s v)] 0) <= Q2R tol.
Proof.
  intros bm bv tol Hok s v Hs Hv i Hi.
  rewrite <- (vec_rot_fe_tied s s v).
  pose proof (binary64_error_within bm bv tol vec_rot_fe Hok (env_sov s s v) (env_bounded s s v bm bv Hs Hs Hv)) as H.
  assert (L3 : length vec_rot_fe = 3%nat) by reflexivity.
  rewrite (nth_indep _ 0 (fe_fl rnd64 (env_sov s s v) (FVar 0))) by (rewrite map_length, L3; exact Hi).
  rewrite (nth_indep (map (fe_exact _) _) 0 (fe_exact (env_sov s s v) (FVar 0))) by (rewrite map_length, L3; exact Hi).
  rewrite !map_nth. apply H. apply nth_In. rewrite L3. exact Hi.
Qed.

(** A @ B in binary64 against the real product, entries of both up to [bm]: each of the nine entries within [tol]. *)
Theorem mat_mul_binary64_error : forall bm tol, errs_within bm 0 tol mat_mul_fe = true ->
  forall s o, mat_within bm s -> mat_within bm o ->
  forall i, (i < 9)%nat ->
  Rabs (nth i (map (fe_fl rnd64 (env_sov s o (Vec3 0 0 0))) mat_mul_fe) 0 -
        nth i (let m := mat_mul s o in [aa m; ab m; ac m; ba m; bb m; bc m; ca m; cb m; cc m]) 0) <= Q2R tol.
Proof.
  intros bm tol Hok s o Hs Ho i Hi.
  rewrite <- (mat_mul_fe_tied s o (Vec3 0 0 0)).
  assert (Hv : vec_within 0 (Vec3 0 0 0)).
  { unfold vec_within; cbn [vx vy vz]. rewrite Rabs_R0. unfold Q2R; simpl; lra. }
  pose proof (binary64_error_within bm 0 tol mat_mul_fe Hok _ (env_bounded s o (Vec3 0 0 0) bm 0 Hs Ho Hv)) as H.
  assert (L9 : length mat_mul_fe = 9%nat) by reflexivity.
  rewrite (nth_indep _ 0 (fe_fl rnd64 (env_sov s o (Vec3 0 0 0)) (FVar 0))) by (rewrite map_length, L9; exact Hi).
  rewrite (nth_indep (map (fe_exact _) _) 0 (fe_exact (env_sov s o (Vec3 0 0 0)) (FVar 0))) by (rewrite map_length, L9; exact Hi).
  rewrite !map_nth. apply H. apply nth_In. rewrite L9. exact Hi.
Qed.

(** Non-vacuity: trees of the shape of today's are accepted with room to spare: 1e-15 for unit inputs. *)
Example errs_within_example :
  errs_within 1 1 (1 # 1000000000000000)
    [FAdd (FAdd (FMul (FVar 18) (FVar 0)) (FMul (FVar 19) (FVar 3))) (FMul (FVar 20) (FVar 6))] = true.
Proof. vm_compute. reflexivity. Qed.

(** ** from_angle: the arithmetic over libm's sin / cos values *)
Lemma from_angle_fe_tied : forall p y r,
  map (fe_exact (from_angle_inputs p y r)) from_angle_fe =
  let m := from_angle p y r in [aa m; ab m; ac m; ba m; bb m; bc m; ca m; cb m; cc m].
Proof. tie. Qed.

Lemma sin_cos_le1 : forall t, Rabs (sin t) <= 1 /\ Rabs (cos t) <= 1.
Proof. intro t. pose proof (SIN_bound t). pose proof (COS_bound t). split; apply Rabs_le; lra. Qed.

(** Every input is a sine or a cosine (the translator admits nothing else as an input), hence bounded by 1. *)
Lemma from_angle_inputs_le1 : forall p y r n, Rabs (from_angle_inputs p y r n) <= Q2R 1.
Proof.
  intros p y r n. rewrite Q2R_1'. unfold from_angle_inputs.
  repeat (destruct n as [|n]; [first [apply (proj1 (sin_cos_le1 _)) | apply (proj2 (sin_cos_le1 _))]|]).
  first [apply (proj1 (sin_cos_le1 _)) | apply (proj2 (sin_cos_le1 _))].
Qed.

(** Matrix.from_angle in binary64 against the exact rotation [from_angle p y r]: if the sin / cos values the arithmetic
    runs on ([inp]: what libm returned for the float radians) are within [d] of the real sin / cos of the real angles,
    every entry of the float matrix is within [tol] of the entry of the exact rotation - and therefore at most 1 + tol in
    absolute value (the [mat_within] hypothesis of the two theorems above is met by matrices built this way). *)
Theorem from_angle_binary64_error : forall d tol, errs_within_in 1 d tol from_angle_fe = true ->
  forall p y r inp, (forall n, Rabs (inp n - from_angle_inputs p y r n) <= Q2R d) ->
  forall i, (i < 9)%nat ->
  let fl := nth i (map (fe_fl rnd64 inp) from_angle_fe) 0 in
  let ex := nth i (let m := from_angle p y r in [aa m; ab m; ac m; ba m; bb m; bc m; ca m; cb m; cc m]) 0 in
  Rabs (fl - ex) <= Q2R tol /\ Rabs fl <= 1 + Q2R tol.
Proof.
  intros d tol Hok p y r inp Hinp i Hi fl ex.
  assert (E : Rabs (fl - ex) <= Q2R tol).
  { subst fl ex. rewrite <- (from_angle_fe_tied p y r).
    pose proof (binary64_error_within_in 1 d tol from_angle_fe Hok (from_angle_inputs p y r) inp
                  (from_angle_inputs_le1 p y r) Hinp) as H.
    assert (L9 : length from_angle_fe = 9%nat) by reflexivity.
    rewrite (nth_indep _ 0 (fe_fl rnd64 inp (FVar 0))) by (rewrite map_length, L9; exact Hi).
    rewrite (nth_indep (map (fe_exact _) _) 0 (fe_exact (from_angle_inputs p y r) (FVar 0))) by (rewrite map_length, L9; exact Hi).
    rewrite !map_nth. apply H. apply nth_In. rewrite L9. exact Hi. }
  split; [exact E|].
  assert (X : Rabs ex <= 1).
  { subst ex. assert (Hrot : rotation (from_angle p y r)) by (split; [apply from_angle_orthonormal | apply from_angle_det_one]).
    destruct (rotation_entries_le1 _ Hrot) as (S1 & S2 & S3 & S4 & S5 & S6 & S7 & S8 & S9).
    cbv zeta. do 9 (destruct i as [|i]; [cbn [nth]; assumption|]). exfalso. do 9 apply Nat.succ_lt_mono in Hi. inversion Hi. }
  replace fl with (ex + (fl - ex)) by ring. eapply Rle_trans; [apply Rabs_triang|]. lra.
Qed.
