(** C04 — non-vacuity of the Gauss-Jordan theorems: a literal copy of today's program is accepted by [gj_prog_ok], and the
    interpreter over the reals returns on the identity matrix (so the hypothesis [gj_inverse Rnum p m = GOk n] is satisfiable). *)
From Coq Require Import Reals Lra List Bool Arith QArith Qreals.
From SV Require Import Rot.RotBase Gen.RotFormulas_gen Rot.RotAlgebra Rot.RotGJ Rot.RotGJProofs Rot.RotGJTotal.
Import ListNotations.
Local Open Scope R_scope.

Definition gj_ref_prog : gj_prog := GjProg [0;1;2;3;4;5;6;7;8]%nat [1;0;0;0;1;0;0;0;1]%Q
  [OPivotSwap 0 0 [0;1;2]%nat CGt 0; OElim 1 0 0; OElim 2 0 0; OPivotSwap 1 1 [1;2]%nat CGt 0; OElim 2 1 1;
   OElim 1 2 2; OElim 0 2 2; OElim 0 1 1; OScale 0 0 CLe (1#100000); OScale 1 1 CLe (1#100000); OScale 2 2 CLe (1#100000)]
  [(0, 0); (0, 1); (0, 2); (1, 0); (1, 1); (1, 2); (2, 0); (2, 1); (2, 2)]%nat.

Lemma Rcmp_gt_true : forall a b, a > b -> Rcmp CGt a b = true.
Proof. intros a b H. unfold Rcmp. destruct (Rgt_dec a b); [reflexivity | contradiction]. Qed.
Lemma Rcmp_gt_false : forall a b, ~ a > b -> Rcmp CGt a b = false.
Proof. intros a b H. unfold Rcmp. destruct (Rgt_dec a b); [contradiction | reflexivity]. Qed.
Lemma Rcmp_le_false : forall a b, a > b -> Rcmp CLe a b = false.
Proof. intros a b H. unfold Rcmp. destruct (Rle_dec a b); [lra | reflexivity]. Qed.
Lemma iszero_false : forall b, b <> 0 -> n_is_zero Rnum b = false.
Proof. intros b H. cbn. destruct (Req_EM_T b 0); [contradiction | reflexivity]. Qed.

Lemma gjq0 : Q2R 0 = 0. Proof. unfold Q2R; cbn; lra. Qed.
Lemma gjq1 : Q2R 1 = 1. Proof. unfold Q2R; cbn; lra. Qed.
Lemma gjqt : Q2R (1#100000) = 1/100000. Proof. unfold Q2R; cbn; lra. Qed.

Definition gj_II : state (F := R) := (rows_of I3, rows_of I3).
Ltac solve_op :=
  unfold gj_II, rows_of, I3; cbn [aa ab ac ba bb bc ca cb cc];
  cbn [do_op fst snd find_pivot rget rset rswap vget vsub vmuls vdivs vbuild n_ofQ n_sub n_mul n_div n_abs n_cmp Rnum];
  rewrite ?gjq0, ?gjqt, ?Rabs_R1, ?Rabs_R0;
  repeat first [rewrite (Rcmp_gt_true 1 0) by lra | rewrite (Rcmp_gt_false 0 1) by lra | rewrite (Rcmp_gt_false 0 0) by lra
               | rewrite (Rcmp_le_false 1 (1/100000)) by lra | rewrite (iszero_false 1) by lra];
  cbn [Nat.eqb rget rset rswap]; unfold vsub, vmuls, vdivs, vbuild; cbn [vget n_sub n_mul n_div Rnum];
  try reflexivity;
  try (apply f_equal; repeat match goal with |- (_, _) = (_, _) => apply f_equal2 end; try reflexivity; field).
Lemma op_piv0 : do_op Rnum (OPivotSwap 0 0 [0;1;2]%nat CGt 0) gj_II = GOk gj_II. Proof. solve_op. Qed.
Lemma op_piv1 : do_op Rnum (OPivotSwap 1 1 [1;2]%nat CGt 0) gj_II = GOk gj_II. Proof. solve_op. Qed.
Lemma op_e1 : do_op Rnum (OElim 1 0 0) gj_II = GOk gj_II. Proof. solve_op. Qed.
Lemma op_e2 : do_op Rnum (OElim 2 0 0) gj_II = GOk gj_II. Proof. solve_op. Qed.
Lemma op_e3 : do_op Rnum (OElim 2 1 1) gj_II = GOk gj_II. Proof. solve_op. Qed.
Lemma op_e4 : do_op Rnum (OElim 1 2 2) gj_II = GOk gj_II. Proof. solve_op. Qed.
Lemma op_e5 : do_op Rnum (OElim 0 2 2) gj_II = GOk gj_II. Proof. solve_op. Qed.
Lemma op_e6 : do_op Rnum (OElim 0 1 1) gj_II = GOk gj_II. Proof. solve_op. Qed.
Lemma op_s0 : do_op Rnum (OScale 0 0 CLe (1#100000)) gj_II = GOk gj_II. Proof. solve_op. Qed.
Lemma op_s1 : do_op Rnum (OScale 1 1 CLe (1#100000)) gj_II = GOk gj_II. Proof. solve_op. Qed.
Lemma op_s2 : do_op Rnum (OScale 2 2 CLe (1#100000)) gj_II = GOk gj_II. Proof. solve_op. Qed.

Example gj_identity : gj_prog_ok gj_ref_prog = true /\ gj_inverse Rnum gj_ref_prog (rows_of I3) = GOk (rows_of I3).
Proof.
  split; [vm_compute; reflexivity|].
  unfold gj_inverse.
  replace (init_l gj_ref_prog (rows_of I3)) with (rows_of I3) by reflexivity.
  replace (init_r Rnum gj_ref_prog) with (rows_of I3).
  2:{ unfold init_r, rbuild, vbuild, gj_ref_prog, rows_of, I3; cbn [nth Nat.mul Nat.add gp_init_r n_ofQ Rnum aa ab ac ba bb bc ca cb cc]. rewrite gjq0, gjq1. reflexivity. }
  change (rows_of I3, rows_of I3) with gj_II. cbn [gp_ops gj_ref_prog gj_run].
  rewrite op_piv0, op_e1, op_e2, op_piv1, op_e3, op_e4, op_e5, op_e6, op_s0, op_s1, op_s2.
  unfold gj_II; cbn [snd]. unfold out_of, rows_of, I3; cbn. reflexivity.
Qed.

(** Non-vacuity of the totality theorems (Rot/RotGJTotalProofs.v): the same program is accepted by [gj_total_ok]. *)
Example gj_ref_total : gj_total_ok gj_ref_prog = true /\ rotation I3.
Proof. split; [vm_compute; reflexivity | unfold rotation, orthonormal, det, I3; cbn; repeat split; lra]. Qed.
