(** C04 — [self._mat_mul(self)] (the statements of _mat_mul executed with both names bound to ONE object, as in
    [m @= m]) computes the same product as with two distinct equal operands.  True only if _mat_mul reads nothing
    from [other] after it has started to overwrite [self]. *)
From Coq Require Import Reals.
From SV Require Import Rot.RotBase Gen.RotFormulas_gen.
Open Scope R_scope.

Lemma mat_mul_self_eq : forall s, mat_mul_self s = mat_mul s s.
Proof. intro s. unfold mat_mul_self, mat_mul. apply mat_ext; ring. Qed.
