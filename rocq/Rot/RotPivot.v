(** C04 (round 5) — the SHAPE of the pivot searches of MatrixBase.inverse, read from the source by a tolerant reader
    (translate/c04_inverse.py: pivot_shapes -> Gen/RotPivot_gen.v), and what the accepted shapes guarantee.

    The Gauss-Jordan program language of Rot/RotGJ.v knows one pivot idiom: the largest value so far starts from a constant, the
    pivot row from a sentinel, and "no pivot" is the sentinel surviving the pv_search.  A pv_search written differently (seeded fault
    c04_6: the pivot row starts as the diagonal row, the largest value so far as the SIGNED diagonal entry, "no pivot" is
    `la == 0.0`) makes the program translator fail closed.  This file gives such shapes a meaning of their own - a pv_search over the
    list of candidate entries of the column, diagonal row first - so that the decisive property of a pivot pv_search is a named,
    decidable obligation: IF SOME CANDIDATE ENTRY IS NOT ZERO, THE SEARCH SELECTS A ROW WHOSE ENTRY IS NOT ZERO (it does not report
    "no inverse", and the division by the pivot is defined).  The signed-seed shape is refuted by the column (-1, 0, 0). *)
From Coq Require Import Reals List Bool Lra Lia.
Import ListNotations.
Open Scope R_scope.

Inductive pv_cmp := PGt | PGe | PLt | PLe.
Inductive pv_seed :=
  | SeedSentinel (init_is_zero : bool)   (* la = <constant>; pivrow = <not a row>;   the pv_search scans every candidate *)
  | SeedRow (signed : bool)              (* pivrow = n; la = L[n][col] (signed) or abs(L[n][col]); the pv_search scans the others *)
  | SeedOther.
Inductive pv_miss :=
  | MissSentinel        (* raise when the pivot row still is the sentinel *)
  | MissValueZero       (* raise when the largest value so far is (equal to) zero *)
  | MissOther.
Record pivot_shape := PivotShape { ps_cmp : pv_cmp; ps_seed : pv_seed; ps_miss : pv_miss }.

Definition pv_cmpb (c : pv_cmp) (a b : R) : bool :=
  match c with
  | PGt => if Rlt_dec b a then true else false
  | PGe => if Rle_dec b a then true else false
  | PLt => if Rlt_dec a b then true else false
  | PLe => if Rle_dec a b then true else false
  end.

(** for m in rows: va = abs(L[m][col]); if va `cmp` la: pivrow = m; la = va      ([k] = index of the first entry of [es]) *)
Fixpoint pv_scan (c : pv_cmp) (es : list R) (k : nat) (la : R) (piv : option nat) : R * option nat :=
  match es with
  | [] => (la, piv)
  | e :: rest => if pv_cmpb c (Rabs e) la then pv_scan c rest (S k) (Rabs e) (Some k) else pv_scan c rest (S k) la piv
  end.

(** The whole pv_search on the candidate entries [es] (diagonal row first): the selected index, or None = "no inverse". *)
Definition pv_search (s : pivot_shape) (es : list R) : option nat :=
  let start :=
    match ps_seed s, es with
    | SeedSentinel _, _ => Some (pv_scan (ps_cmp s) es 0 0 None)
    | SeedRow signed, e :: rest => Some (pv_scan (ps_cmp s) rest 1 (if signed then e else Rabs e) (Some 0%nat))
    | _, _ => None
    end in
  match start with
  | None => None
  | Some (la, piv) =>
      match ps_miss s with
      | MissSentinel => piv
      | MissValueZero => if Req_EM_T la 0 then None else piv
      | MissOther => None
      end
  end.

(** The acceptance test: largest-absolute-value pv_search from (0, sentinel) with the sentinel test, or from the ABSOLUTE value of the
    diagonal entry with either test. *)
Definition pv_shape_ok (s : pivot_shape) : bool :=
  match ps_cmp s, ps_seed s, ps_miss s with
  | PGt, SeedSentinel true, MissSentinel => true
  | PGt, SeedRow false, MissValueZero => true
  | PGt, SeedRow false, MissSentinel => true
  | _, _, _ => false
  end.
(** Named parts (each necessary for [pv_shape_ok]). *)
Definition pv_cmp_ok (s : pivot_shape) : bool := match ps_cmp s with PGt => true | _ => false end.
Definition pv_seed_ok (s : pivot_shape) : bool :=
  match ps_seed s with SeedSentinel true => true | SeedRow false => true | _ => false end.
Definition pv_miss_ok (s : pivot_shape) : bool :=
  match ps_seed s, ps_miss s with
  | SeedSentinel _, MissSentinel => true
  | SeedRow _, MissSentinel => true
  | SeedRow _, MissValueZero => true
  | _, _ => false
  end.
Definition pv_shapes_ok (l : list pivot_shape) : bool := forallb pv_shape_ok l && negb (match l with [] => true | _ => false end).

(** Invariant of the pv_scan with `>`: the largest value so far is |entry| of the selected row, or the start value. *)
Lemma pv_scan_gt_inv : forall es k la piv la' piv',
  pv_scan PGt es k la piv = (la', piv') -> 0 <= la ->
  (forall i, piv = Some i -> (i < k)%nat) ->
  la <= la' /\ (forall e, In e es -> Rabs e <= la') /\
  (piv' = piv /\ la' = la \/ exists i, piv' = Some i /\ (k <= i)%nat /\ Rabs (nth (i - k) es 0) = la' /\ la < la').
Proof.
  induction es as [|e rest IH]; intros k la piv la' piv' H Hla Hp; cbn [pv_scan] in H.
  - injection H as <- <-. split; [lra|]. split; [intros e []|]. left. split; reflexivity.
  - unfold pv_cmpb in H. destruct (Rlt_dec la (Rabs e)) as [Hlt|Hge].
    + destruct (IH (S k) (Rabs e) (Some k) la' piv' H (Rabs_pos e)) as (A & B & C).
      { intros i Hi. injection Hi as <-. auto. }
      split; [lra|]. split.
      * intros x [<-|Hx]; [exact A | apply B, Hx].
      * right. destruct C as [[-> ->]|(i & -> & Hk & Hn & Hl)].
        -- exists k. split; [reflexivity|]. split; [auto|]. rewrite Nat.sub_diag. cbn [nth]. split; [reflexivity | exact Hlt].
        -- exists i. split; [reflexivity|]. split; [auto with arith|].
           replace (i - k)%nat with (S (i - S k)) by lia.
           cbn [nth]. split; [exact Hn | lra].
    + destruct (IH (S k) la piv la' piv' H Hla) as (A & B & C).
      { intros i Hi. specialize (Hp i Hi). auto. }
      split; [exact A|]. split.
      * intros x [<-|Hx]; [lra | apply B, Hx].
      * destruct C as [C|(i & -> & Hk & Hn & Hl)]; [left; exact C|].
        right. exists i. split; [reflexivity|]. split; [auto with arith|].
        replace (i - k)%nat with (S (i - S k)) by lia.
        cbn [nth]. split; [exact Hn | exact Hl].
Qed.

Lemma abs_pos_nonzero : forall x, 0 < Rabs x -> x <> 0.
Proof. intros x H E. subst. rewrite Rabs_R0 in H. lra. Qed.

Lemma nth_nonzero_lt : forall (es : list R) i, nth i es 0 <> 0 -> (i < length es)%nat.
Proof.
  intros es i H. destruct (Nat.lt_ge_cases i (length es)) as [L|G]; [exact L|].
  exfalso. apply H. apply nth_overflow. exact G.
Qed.

(** An accepted shape: if some candidate entry is not zero, the pv_search selects a row (it does not report "no inverse"), the
    selected entry is not zero and is largest in absolute value. *)
Theorem pv_shape_ok_finds_nonzero_pivot : forall s es, pv_shape_ok s = true -> (exists e, In e es /\ e <> 0) ->
  exists i, pv_search s es = Some i /\ (i < length es)%nat /\ nth i es 0 <> 0 /\ forall e, In e es -> Rabs e <= Rabs (nth i es 0).
Proof.
  intros [c sd ms] es OK (e1 & He1 & Hne). pose proof (Rabs_pos_lt e1 Hne) as Hpos.
  assert (SENT : forall (F : option nat -> option nat), (forall x, F (Some x) = Some x) ->
            exists i, F (snd (pv_scan PGt es 0 0 None)) = Some i /\ (i < length es)%nat /\ nth i es 0 <> 0 /\
                      forall e, In e es -> Rabs e <= Rabs (nth i es 0)).
  { intros F HF. destruct (pv_scan PGt es 0 0 None) as [la' piv'] eqn:E.
    destruct (pv_scan_gt_inv es 0 0 None la' piv' E (Rle_refl 0)) as (A & B & C); [intros i Hi; discriminate|].
    pose proof (B e1 He1) as B1. destruct C as [[-> ->]|(i & -> & _ & Hn & Hl)]; [lra|].
    rewrite Nat.sub_0_r in Hn. assert (NZ : nth i es 0 <> 0) by (apply abs_pos_nonzero; lra).
    exists i. cbn [snd]. split; [apply HF|]. split; [apply nth_nonzero_lt, NZ|]. split; [exact NZ|].
    intros e He. rewrite Hn. apply B, He. }
  assert (ROW : forall e0 rest (F : R -> option nat -> option nat), es = e0 :: rest ->
            (forall la x, la <> 0 -> F la (Some x) = Some x) ->
            exists i, (let r := pv_scan PGt rest 1 (Rabs e0) (Some 0%nat) in F (fst r) (snd r)) = Some i /\ (i < length es)%nat /\
                      nth i es 0 <> 0 /\ forall e, In e es -> Rabs e <= Rabs (nth i es 0)).
  { intros e0 rest F -> HF. destruct (pv_scan PGt rest 1 (Rabs e0) (Some 0%nat)) as [la' piv'] eqn:E. cbn [fst snd].
    destruct (pv_scan_gt_inv rest 1 (Rabs e0) (Some 0%nat) la' piv' E (Rabs_pos e0)) as (A & B & C).
    { intros i Hi. injection Hi as <-. auto. }
    assert (P : 0 < la'). { destruct He1 as [<-|Hr]; [lra | pose proof (B e1 Hr); lra]. }
    assert (MAX : forall e, In e (e0 :: rest) -> Rabs e <= la') by (intros e [<-|Hr]; [exact A | apply B, Hr]).
    destruct C as [[-> ->]|(i & -> & Hk & Hn & Hl)].
    - exists 0%nat. split; [apply HF; lra|]. cbn [nth length]. split; [lia|]. split; [apply abs_pos_nonzero; lra | exact MAX].
    - assert (EQ : nth i (e0 :: rest) 0 = nth (i - 1) rest 0).
      { destruct i as [|j]; [lia|]. cbn [nth]. replace (S j - 1)%nat with j by lia. reflexivity. }
      assert (NZ : nth i (e0 :: rest) 0 <> 0) by (rewrite EQ; apply abs_pos_nonzero; lra).
      exists i. split; [apply HF; lra|]. split; [apply nth_nonzero_lt, NZ|]. split; [exact NZ|].
      intros e He. rewrite EQ, Hn. apply MAX, He. }
  unfold pv_shape_ok in OK. cbn [ps_cmp ps_seed ps_miss] in OK.
  destruct c; try discriminate; destruct sd as [z|sg|]; try discriminate.
  - destruct z; try discriminate. destruct ms; try discriminate.
    unfold pv_search. cbn [ps_cmp ps_seed ps_miss].
    destruct (SENT (fun p => p)) as (i & H & R); [reflexivity|]. exists i. split; [|exact R].
    destruct (pv_scan PGt es 0 0 None) as [la' piv']. exact H.
  - destruct sg; try discriminate. destruct es as [|e0 rest]; [destruct He1|].
    destruct ms; try discriminate.
    + destruct (ROW e0 rest (fun _ p => p) eq_refl) as (i & H & R); [reflexivity|]. exists i. split; [|exact R].
      unfold pv_search. cbn [ps_cmp ps_seed ps_miss]. cbv zeta in H. destruct (pv_scan PGt rest 1 (Rabs e0) (Some 0%nat)). exact H.
    + destruct (ROW e0 rest (fun la p => if Req_EM_T la 0 then None else p) eq_refl) as (i & H & R).
      { intros la x Hla. destruct (Req_EM_T la 0); [contradiction | reflexivity]. }
      exists i. split; [|exact R].
      unfold pv_search. cbn [ps_cmp ps_seed ps_miss]. cbv zeta in H. destruct (pv_scan PGt rest 1 (Rabs e0) (Some 0%nat)). exact H.
Qed.

(** The rejected shape (seeded fault c04_6): the largest value so far starts as the SIGNED diagonal entry.  For the column
    (-1, 0, 0) - a right-angle rotation - the zero entries below "beat" -1, the pv_search ends with la = 0 and reports "no inverse",
    although the diagonal entry is a perfectly good pivot. *)
Definition signed_seed_shape : pivot_shape := PivotShape PGt (SeedRow true) MissValueZero.
Theorem signed_seed_refuted :
  pv_shape_ok signed_seed_shape = false /\ pv_search signed_seed_shape [-1; 0; 0] = None /\ In (-1) [-1; 0; 0] /\ -1 <> 0.
Proof.
  split; [reflexivity|]. split; [|split; [left; reflexivity | lra]].
  unfold pv_search, signed_seed_shape. cbn [ps_cmp ps_seed ps_miss pv_scan pv_cmpb]. rewrite Rabs_R0.
  destruct (Rlt_dec (-1) 0); [|lra]. destruct (Rlt_dec 0 0); [lra|]. destruct (Req_EM_T 0 0); [reflexivity | lra].
Qed.

(** Non-vacuity: today's shape (from zero and a sentinel) is accepted and selects the diagonal row of the identity column. *)
Example sentinel_shape_accepted :
  pv_shape_ok (PivotShape PGt (SeedSentinel true) MissSentinel) = true /\
  pv_search (PivotShape PGt (SeedSentinel true) MissSentinel) [1; 0; 0] = Some 0%nat.
Proof.
  split; [reflexivity|]. unfold pv_search. cbn [ps_cmp ps_seed ps_miss pv_scan pv_cmpb]. rewrite Rabs_R1, Rabs_R0.
  destruct (Rlt_dec 0 1); [|lra]. destruct (Rlt_dec 1 0); [lra|]. reflexivity.
Qed.
