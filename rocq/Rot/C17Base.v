(** C17 — instance collapse: carrier types and the SPECIFICATION operations (hand-written, not generated).
    Vectors are row vectors; [vrot v m] is the row vector [v] times the 3x3 matrix [m], the convention of
    srctools ([Vec @ Matrix]).  The generated formulas (Gen/C17Formulas_gen.v) are stated over these records and
    compared against these operations in Rot/C17GeomProofs.v.  Everything is over the real numbers: floating-point
    rounding is outside this model (the property says "exactly" up to rounding; the oracle uses 1e-6). *)
From Coq Require Import Reals.
Open Scope R_scope.

Record vec := V { vx : R; vy : R; vz : R }.
Record mat := M { aa : R; ab : R; ac : R; ba : R; bb : R; bc : R; ca : R; cb : R; cc : R }.
(** A texture axis: direction, offset (in texels) and scale (world units per texel). *)
Record uvaxis := UV { ux : R; uy : R; uz : R; uoff : R; uscale : R }.

Definition vzero : vec := V 0 0 0.
Definition mid : mat := M 1 0 0 0 1 0 0 0 1.

Definition vadd (a b : vec) : vec := V (vx a + vx b) (vy a + vy b) (vz a + vz b).
Definition dot (a b : vec) : R := vx a * vx b + vy a * vy b + vz a * vz b.

(** Row vector times matrix. *)
Definition vrot (v : vec) (m : mat) : vec :=
  V (vx v * aa m + vy v * ba m + vz v * ca m)
    (vx v * ab m + vy v * bb m + vz v * cb m)
    (vx v * ac m + vy v * bc m + vz v * cc m).

(** Matrix product [a ⊗ b] ("rotate by a, then by b" for row vectors). *)
Definition mmul (a b : mat) : mat :=
  M (aa a * aa b + ab a * ba b + ac a * ca b) (aa a * ab b + ab a * bb b + ac a * cb b) (aa a * ac b + ab a * bc b + ac a * cc b)
    (ba a * aa b + bb a * ba b + bc a * ca b) (ba a * ab b + bb a * bb b + bc a * cb b) (ba a * ac b + bb a * bc b + bc a * cc b)
    (ca a * aa b + cb a * ba b + cc a * ca b) (ca a * ab b + cb a * bb b + cc a * cb b) (ca a * ac b + cb a * bc b + cc a * cc b).

Definition mtrans (m : mat) : mat := M (aa m) (ba m) (ca m) (ab m) (bb m) (cb m) (ac m) (bc m) (cc m).

(** Orthonormal rows: [m ⊗ mᵀ = I].  This is the only fact about rotations C17 needs; that [Matrix.from_angle]
    produces such matrices is C04's theorem (design_experiments/Rot.v proves it by nsatz). *)
Definition orth (m : mat) : Prop := mmul m (mtrans m) = mid.

(** "Rotate by the instance angles, then offset by its origin": the placement of the property statement. *)
Definition place (p o : vec) (m : mat) : vec := vadd (vrot p m) o.

(** Texture coordinate of world point [p] along a texture axis (Source engine: dot(p, axis)/scale + offset). *)
Definition uvdir (a : uvaxis) : vec := V (ux a) (uy a) (uz a).
Definition texcoord (a : uvaxis) (p : vec) : R := dot (uvdir a) p / uscale a + uoff a.

(** Placement of a texture axis: direction rotated, offset corrected so that the texture moves with the geometry. *)
Definition uvplace (a : uvaxis) (o : vec) (m : mat) : uvaxis :=
  let d := vrot (uvdir a) m in UV (vx d) (vy d) (vz d) (uoff a - dot d o / uscale a) (uscale a).

(** Composition of two placements: first [(o1, m1)], then [(o2, m2)]. *)
Definition compose_origin (o1 : vec) (o2 : vec) (m2 : mat) : vec := place o1 o2 m2.
