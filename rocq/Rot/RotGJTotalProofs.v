(** C04 — MatrixBase.inverse RETURNS on every rotation: soundness of the interval / determinant abstract interpretation
    of Rot/RotGJTotal.v over the classical reals, for ALL programs (induction over the operation list).

      gj_total_ok p = true  ->  rotation m  ->  exists n, gj_inverse Rnum p (rows_of m) = GOk n          (gj_inverse_total)

    and, with the partial-correctness theorem of Rot/RotGJProofs.v,
      gj_prog_ok p = true -> gj_total_ok p = true -> rotation m -> gj_inverse Rnum p (rows_of m) = GOk n /\ mat_of n = transpose m.

    Also: the quantitative pivot bound for the first column of a rotation (largest entry of a column has square >= 1/3). *)
From Coq Require Import Reals Lra Lia List Bool Arith QArith Qreals Psatz.
From SV Require Import Rot.RotBase Gen.RotFormulas_gen Rot.RotAlgebra Rot.RotGJ Rot.RotGJProofs Rot.RotGJTotal.
Import ListNotations.
Local Open Scope R_scope.

(** ** rationals *)
Lemma qle_R : forall x y, Qle_bool x y = true -> Q2R x <= Q2R y.
Proof. intros x y H. apply Qle_Rle, Qle_bool_iff, H. Qed.
Lemma qle_false_R : forall x y, Qle_bool x y = false -> Q2R y < Q2R x.
Proof.
  intros x y H. apply Qlt_Rlt, Qnot_le_lt. intro C. apply Qle_bool_iff in C. rewrite C in H. discriminate.
Qed.
Lemma qlt_R : forall x y, qlt x y = true -> Q2R x < Q2R y.
Proof. intros x y H. unfold qlt in H. apply negb_true_iff in H. apply qle_false_R, H. Qed.
Lemma qmax_l : forall x y, Q2R x <= Q2R (qmax x y).
Proof. intros x y. unfold qmax. destruct (Qle_bool x y) eqn:E; [apply qle_R, E | lra]. Qed.
Lemma qmax_r : forall x y, Q2R y <= Q2R (qmax x y).
Proof. intros x y. unfold qmax. destruct (Qle_bool x y) eqn:E; [lra | apply qle_false_R in E; lra]. Qed.
Lemma qmax_le : forall x y z, Q2R x <= z -> Q2R y <= z -> Q2R (qmax x y) <= z.
Proof. intros x y z Hx Hy. unfold qmax. destruct (Qle_bool x y); assumption. Qed.
Lemma qmin_l : forall x y, Q2R (qmin x y) <= Q2R x.
Proof. intros x y. unfold qmin. destruct (Qle_bool x y) eqn:E; [lra | apply qle_false_R in E; lra]. Qed.
Lemma qmin_r : forall x y, Q2R (qmin x y) <= Q2R y.
Proof. intros x y. unfold qmin. destruct (Qle_bool x y) eqn:E; [apply qle_R, E | lra]. Qed.
Lemma Q2R_pos_neq : forall q, 0 < Q2R q -> ~ (q == 0)%Q.
Proof. intros q H C. apply Qeq_eqR in C. rewrite RMicromega.Q2R_0 in C. lra. Qed.
Lemma Q2R_0z : Q2R 0 = 0.
Proof. apply RMicromega.Q2R_0. Qed.
Lemma Q2R_1z : Q2R 1 = 1.
Proof. apply RMicromega.Q2R_1. Qed.

(** ** determinant of a block, expansions, triangle inequality *)
Definition eg (L : r3 R) (i j : nat) : R := vget (rget L i) j.
Definition det3 (L : r3 R) : R := det (mat_of L).
Definition sg (i j : nat) : R := if Nat.even (idx i + idx j) then 1 else -1.
Definition cofR (L : r3 R) (i j : nat) : R :=
  eg L (oth1 i) (oth1 j) * eg L (oth2 i) (oth2 j) - eg L (oth1 i) (oth2 j) * eg L (oth2 i) (oth1 j).

Lemma eg_idx : forall L i j, eg L (idx i) (idx j) = eg L i j.
Proof. intros L i j. unfold eg. rewrite rget_idx, vget_idx. reflexivity. Qed.
Lemma oth1_idx : forall k, oth1 (idx k) = oth1 k.
Proof. intros [|[|k]]; reflexivity. Qed.
Lemma oth2_idx : forall k, oth2 (idx k) = oth2 k.
Proof. intros [|[|k]]; reflexivity. Qed.
Lemma cofR_idx : forall L i j, cofR L (idx i) (idx j) = cofR L i j.
Proof. intros L i j. unfold cofR. rewrite !oth1_idx, !oth2_idx. reflexivity. Qed.
Lemma sg_idx : forall i j, sg (idx i) (idx j) = sg i j.
Proof. intros i j. unfold sg. rewrite !idx_idem. reflexivity. Qed.
Lemma sg_abs : forall i j, Rabs (sg i j) = 1.
Proof. intros i j. unfold sg. destruct (Nat.even _); [apply Rabs_R1 | rewrite Rabs_left; lra]. Qed.

Definition term (L : r3 R) (i j : nat) : R := sg i j * eg L i j * cofR L i j.
Lemma term_idx : forall L i j, term L (idx i) (idx j) = term L i j.
Proof. intros. unfold term. rewrite sg_idx, eg_idx, cofR_idx. reflexivity. Qed.

Lemma term_idx_r : forall L i j, term L i (idx j) = term L i j.
Proof. intros. rewrite <- (term_idx L i (idx j)), idx_idem. apply term_idx. Qed.
Lemma term_idx_l : forall L i j, term L (idx i) j = term L i j.
Proof. intros. rewrite <- (term_idx L (idx i) j), idx_idem. apply term_idx. Qed.

Lemma det_row : forall L i, det3 L = term L i 0 + term L i 1 + term L i 2.
Proof.
  intros [[[[a b] c] [[d e] f]] [[g h] k]] [|[|i]]; unfold det3, det, mat_of, term, sg, cofR, eg; cbn; ring.
Qed.
Lemma det_col : forall L j, det3 L = term L 0 j + term L 1 j + term L 2 j.
Proof.
  intros [[[[a b] c] [[d e] f]] [[g h] k]] [|[|j]]; unfold det3, det, mat_of, term, sg, cofR, eg; cbn; ring.
Qed.
Lemma perm3 : forall (f : nat -> R) c, f 0%nat + f 1%nat + f 2%nat = f (idx c) + f (oth1 c) + f (oth2 c).
Proof. intros f [|[|c]]; cbn; ring. Qed.

Lemma term_abs : forall L i j, Rabs (term L i j) = Rabs (eg L i j) * Rabs (cofR L i j).
Proof. intros. unfold term. rewrite !Rabs_mult, sg_abs. ring. Qed.
Lemma abs3 : forall a b c, Rabs (a + b + c) <= Rabs a + Rabs b + Rabs c.
Proof. intros. eapply Rle_trans; [apply Rabs_triang|]. pose proof (Rabs_triang a b). lra. Qed.

Lemma mul_le : forall x c X C, 0 <= x <= X -> 0 <= c <= C -> x * c <= X * C.
Proof. intros. apply Rmult_le_compat; lra. Qed.

Lemma div_le : forall a b c, 0 < c -> a <= b * c -> a / c <= b.
Proof. intros a b c Hc H. apply Rmult_le_reg_r with c; [lra|]. unfold Rdiv. rewrite Rmult_assoc, Rinv_l by lra. lra. Qed.
Lemma le_div : forall a b c, 0 < c -> a * c <= b -> a <= b / c.
Proof. intros a b c Hc H. apply Rmult_le_reg_r with c; [lra|]. unfold Rdiv. rewrite Rmult_assoc, Rinv_l by lra. lra. Qed.

(** ** concretisation *)
Definition gq (a : aq) (x : R) : Prop := Q2R (a_lo a) <= Rabs x <= Q2R (a_hi a).
Definition GamE (A : r3 aq) (L : r3 R) : Prop := forall i j, gq (aget A i j) (eg L i j).
Definition Gam2 (st : bstate) (L : r3 R) : Prop := GamE (fst st) L /\ Q2R (snd st) <= Rabs (det3 L).

Lemma hi_ge : forall A L i j, GamE A L -> Rabs (eg L i j) <= Q2R (hi A i j).
Proof. intros A L i j H. apply (H i j). Qed.
Lemma lo_le : forall A L i j, GamE A L -> Q2R (lo A i j) <= Rabs (eg L i j).
Proof. intros A L i j H. apply (H i j). Qed.
Lemma hi_nonneg : forall A L i j, GamE A L -> 0 <= Q2R (hi A i j).
Proof. intros A L i j H. pose proof (hi_ge A L i j H). pose proof (Rabs_pos (eg L i j)). lra. Qed.

Lemma cof_bound : forall A L i j, GamE A L -> Rabs (cofR L i j) <= Q2R (cofhi A i j).
Proof.
  intros A L i j H. unfold cofR, cofhi. rewrite Q2R_plus, !Q2R_mult.
  unfold Rminus. eapply Rle_trans; [apply Rabs_triang|]. rewrite Rabs_Ropp, !Rabs_mult.
  apply Rplus_le_compat; apply mul_le; split; try apply Rabs_pos; apply hi_ge, H.
Qed.
Lemma cofhi_nonneg : forall A L i j, GamE A L -> 0 <= Q2R (cofhi A i j).
Proof. intros A L i j H. pose proof (cof_bound A L i j H). pose proof (Rabs_pos (cofR L i j)). lra. Qed.

Lemma term_bound : forall A L i j X, GamE A L -> Rabs (eg L i j) <= X -> Rabs (term L i j) <= X * Q2R (cofhi A i j).
Proof.
  intros A L i j X H HX. rewrite term_abs. apply mul_le; split; try apply Rabs_pos; [exact HX | apply cof_bound, H].
Qed.

(** *** lower bound of an entry from the determinant (row expansion) *)
Lemma row_lo_sound : forall A d L r c, Gam2 (A, d) L -> Q2R (row_lo A d r c) <= Rabs (eg L r c).
Proof.
  intros A d L r c [H Hd]. cbn [fst snd] in *. unfold row_lo.
  destruct (qlt 0 (cofhi A r c)) eqn:E; [|apply lo_le, H].
  apply qlt_R in E. rewrite Q2R_0z in E.
  apply qmax_le; [apply lo_le, H|].
  rewrite Q2R_div by (apply Q2R_pos_neq, E). rewrite Q2R_minus, Q2R_plus, !Q2R_mult.
  apply div_le; [exact E|].
  rewrite (det_row L r), (perm3 (term L r) c), term_idx_r in Hd.
  assert (T0 : Rabs (term L r c) <= Rabs (eg L r c) * Q2R (cofhi A r c)) by (apply term_bound; [exact H | lra]).
  assert (T1 := term_bound A L r (oth1 c) _ H (hi_ge A L r (oth1 c) H)).
  assert (T2 := term_bound A L r (oth2 c) _ H (hi_ge A L r (oth2 c) H)).
  pose proof (abs3 (term L r c) (term L r (oth1 c)) (term L r (oth2 c))). lra.
Qed.

(** ** the pivot search returns a row with the largest absolute value *)
Lemma Rcmp_ge_taken : forall cmp a b, cmp = CGt \/ cmp = CGe -> Rcmp cmp a b = true -> b <= a.
Proof.
  intros cmp a b [->| ->] H; unfold Rcmp in H.
  - destruct (Rgt_dec a b); [lra | discriminate].
  - destruct (Rge_dec a b); [lra | discriminate].
Qed.
Lemma Rcmp_ge_skipped : forall cmp a b, cmp = CGt \/ cmp = CGe -> Rcmp cmp a b = false -> a <= b.
Proof.
  intros cmp a b [->| ->] H; unfold Rcmp in H.
  - destruct (Rgt_dec a b); [discriminate | lra].
  - destruct (Rge_dec a b); [discriminate | lra].
Qed.

Lemma fp_spec : forall cmp, cmp = CGt \/ cmp = CGe -> forall col (L : r3 R) rows la piv,
  exists la', la <= la' /\ (forall m, In m rows -> Rabs (eg L m col) <= la') /\
    ((find_pivot Rnum rows col cmp L la piv = piv /\ la' = la) \/
     (exists p, In p rows /\ find_pivot Rnum rows col cmp L la piv = Some p /\ la' = Rabs (eg L p col))).
Proof.
  intros cmp Hc col L. induction rows as [|m rows IH]; intros la piv.
  - exists la. split; [lra|]. split; [intros m []|]. left. split; reflexivity.
  - cbn [find_pivot]. change (n_abs Rnum (vget (rget L m) col)) with (Rabs (eg L m col)).
    change (n_cmp Rnum cmp) with (Rcmp cmp).
    destruct (Rcmp cmp (Rabs (eg L m col)) la) eqn:E.
    + apply (Rcmp_ge_taken _ _ _ Hc) in E.
      destruct (IH (Rabs (eg L m col)) (Some m)) as (la' & H1 & H2 & H3). exists la'.
      split; [lra|]. split.
      * intros k [<-|Hk]; [lra | apply H2, Hk].
      * right. destruct H3 as [[H3 H4] | (p & Hp & H3 & H4)].
        -- exists m. split; [left; reflexivity|]. split; assumption.
        -- exists p. split; [right; exact Hp|]. split; assumption.
    + apply (Rcmp_ge_skipped _ _ _ Hc) in E.
      destruct (IH la piv) as (la' & H1 & H2 & H3). exists la'.
      split; [lra|]. split.
      * intros k [<-|Hk]; [lra | apply H2, Hk].
      * destruct H3 as [[H3 H4] | (p & Hp & H3 & H4)]; [left; split; assumption|].
        right. exists p. split; [right; exact Hp|]. split; assumption.
Qed.

(** ** what the three row operations do to the determinant *)
Lemma det_rswap_abs : forall L i j, Rabs (det3 (rswap L i j)) = Rabs (det3 L).
Proof.
  intros [[[[a b] c] [[d e] f]] [[g h] k]] [|[|i]] [|[|j]]; unfold det3, det, mat_of, rswap; cbn;
    try reflexivity; rewrite <- Rabs_Ropp; f_equal; ring.
Qed.
Lemma det_elim : forall L m p v, idx m <> idx p ->
  det3 (rset L m (vsub Rnum (rget L m) (vmuls Rnum (rget L p) v))) = det3 L.
Proof.
  intros [[[[a b] c] [[d e] f]] [[g h] k]] [|[|m]] [|[|p]] v H; cbn in H; try congruence;
    unfold det3, det, mat_of; cbn; ring.
Qed.
Lemma det_scale : forall L r v, v <> 0 -> det3 (rset L r (vdivs Rnum (rget L r) v)) = det3 L / v.
Proof.
  intros [[[[a b] c] [[d e] f]] [[g h] k]] [|[|r]] v H; unfold det3, det, mat_of; cbn; field; exact H.
Qed.

(** ** joins of intervals (as in Rot/RotGJProofs.v for the three-point domain) *)
Definition vleq (a b : v3 aq) : Prop := forall j x, gq (vget a j) x -> gq (vget b j) x.
Lemma gq_join_l : forall a b x, gq a x -> gq (ajoin a b) x.
Proof.
  intros a b x [H1 H2]. unfold gq, ajoin; cbn [a_lo a_hi]. split.
  - eapply Rle_trans; [apply qmin_l | exact H1].
  - eapply Rle_trans; [exact H2 | apply qmax_l].
Qed.
Lemma gq_join_r : forall a b x, gq b x -> gq (ajoin a b) x.
Proof.
  intros a b x [H1 H2]. unfold gq, ajoin; cbn [a_lo a_hi]. split.
  - eapply Rle_trans; [apply qmin_r | exact H1].
  - eapply Rle_trans; [exact H2 | apply qmax_r].
Qed.
Lemma vleq_refl : forall a, vleq a a.
Proof. intros a j x H; exact H. Qed.
Lemma vleq_trans : forall a b c, vleq a b -> vleq b c -> vleq a c.
Proof. intros a b c H1 H2 j x H. apply H2, H1, H. Qed.
Lemma vleq_join_l : forall a b, vleq a (vajoin a b).
Proof. intros a b j x H. unfold vajoin. rewrite vget_vbuild. apply gq_join_l. rewrite vget_idx. exact H. Qed.
Lemma vleq_join_r : forall a b, vleq b (vajoin a b).
Proof. intros a b j x H. unfold vajoin. rewrite vget_vbuild. apply gq_join_r. rewrite vget_idx. exact H. Qed.
Lemma foldq_join_acc : forall (A : r3 aq) rows acc, vleq acc (fold_left (fun a i => vajoin a (rget A i)) rows acc).
Proof.
  intros A. induction rows as [|i rows IH]; intro acc; cbn [fold_left]; [apply vleq_refl|].
  eapply vleq_trans; [apply vleq_join_l | apply IH].
Qed.
Lemma foldq_join_in : forall (A : r3 aq) rows acc i, In i rows ->
  vleq (rget A i) (fold_left (fun a i => vajoin a (rget A i)) rows acc).
Proof.
  intros A. induction rows as [|k rows IH]; intros acc i H; [destruct H|]. cbn [fold_left]. destruct H as [->|H].
  - eapply vleq_trans; [apply vleq_join_r | apply foldq_join_acc].
  - apply IH, H.
Qed.
Lemma foldq_rset_get : forall (J : v3 aq) S (A : r3 aq) k,
  rget (fold_left (fun L' i => rset L' i J) S A) k = if existsb (fun i => Nat.eqb (idx i) (idx k)) S then J else rget A k.
Proof.
  intros J. induction S as [|i S IH]; intros A k; cbn [fold_left existsb]; [reflexivity|].
  rewrite IH, rget_rset. destruct (Nat.eqb (idx i) (idx k)); cbn [orb]; [|reflexivity].
  destruct (existsb _ S); reflexivity.
Qed.

Lemma aget_refine : forall (A : r3 aq) i j a k l,
  aget (rset A i (vset (rget A i) j a)) k l = if Nat.eqb (idx i) (idx k) && Nat.eqb (idx j) (idx l) then a else aget A k l.
Proof.
  intros [[[[a0 b0] c0] [[d0 e0] f0]] [[g0 h0] k0]] [|[|i]] [|[|j]] a [|[|k]] [|[|l]]; reflexivity.
Qed.

(** ** sums over the rows that take part in a pivot search *)
Lemma inrows_in : forall rows m, inrows rows m = true -> exists i, In i rows /\ idx i = m.
Proof.
  intros rows m H. unfold inrows in H. apply existsb_exists in H as (i & Hi & E). apply Nat.eqb_eq in E. exists i. split; assumption.
Qed.

Lemma piv_term : forall A L col rows la' m, GamE A L -> (m < 3)%nat ->
  (forall i, In i rows -> Rabs (eg L i col) <= la') -> 0 <= la' ->
  Rabs (term L m col) <= la' * Q2R (piv_in A col rows m) + Q2R (piv_out A col rows m).
Proof.
  intros A L col rows la' m H Hm Hr Hla. unfold piv_in, piv_out. destruct (inrows rows m) eqn:E.
  - rewrite Q2R_0z. apply inrows_in in E as (i & Hi & <-).
    rewrite term_idx_l. pose proof (term_bound A L i col la' H (Hr i Hi)) as T.
    assert (C : cofhi A (idx i) col = cofhi A i col) by (unfold cofhi; rewrite !oth1_idx, !oth2_idx; reflexivity).
    rewrite C. lra.
  - rewrite Q2R_0z, Q2R_mult. pose proof (term_bound A L m col _ H (hi_ge A L m col H)). lra.
Qed.

Lemma piv_lo_sound : forall A d L col rows la' pl, Gam2 (A, d) L -> piv_lo A d col rows = Some pl ->
  (forall i, In i rows -> Rabs (eg L i col) <= la') -> 0 <= la' -> Q2R pl <= la'.
Proof.
  intros A d L col rows la' pl [H Hd] E Hr Hla. cbn [fst snd] in *. unfold piv_lo in E.
  destruct (qlt 0 _) eqn:E0; [|discriminate]. injection E as <-.
  apply qlt_R in E0. rewrite Q2R_0z in E0.
  rewrite Q2R_div by (apply Q2R_pos_neq, E0). apply div_le; [exact E0|].
  rewrite Q2R_minus. rewrite !Q2R_plus in *.
  rewrite (det_col L col) in Hd.
  pose proof (piv_term A L col rows la' 0%nat H ltac:(lia) Hr Hla).
  pose proof (piv_term A L col rows la' 1%nat H ltac:(lia) Hr Hla).
  pose proof (piv_term A L col rows la' 2%nat H ltac:(lia) Hr Hla).
  pose proof (abs3 (term L 0 col) (term L 1 col) (term L 2 col)). lra.
Qed.

(** ** soundness of the transfer functions: the operation succeeds and the new state is described *)
Lemma gamE_refine : forall A L i j a, GamE A L -> gq a (eg L i j) -> GamE (rset A i (vset (rget A i) j a)) L.
Proof.
  intros A L i j a H Ha k l. rewrite aget_refine.
  destruct (Nat.eqb (idx i) (idx k)) eqn:E1; cbn [andb]; [|apply H].
  destruct (Nat.eqb (idx j) (idx l)) eqn:E2; [|apply H].
  apply Nat.eqb_eq in E1. apply Nat.eqb_eq in E2. rewrite <- (eg_idx L k l), <- E1, <- E2, eg_idx. exact Ha.
Qed.

Lemma pivot_sound : forall col n rows cmp init st st' L Rr,
  abs2_op (OPivotSwap col n rows cmp init) st = Some st' -> Gam2 st L ->
  exists s', do_op Rnum (OPivotSwap col n rows cmp init) (L, Rr) = GOk s' /\ Gam2 st' (fst s').
Proof.
  intros col n rows cmp init [A d] st' L Rr E G. cbn [abs2_op fst snd] in E.
  assert (Hc : cmp = CGt \/ cmp = CGe) by (destruct cmp; try discriminate; auto).
  assert (E' : match piv_lo A d col rows with
               | Some pl => if qlt init pl then
                   Some (rset (fold_left (fun A' i => rset A' i (fold_left (fun acc i => vajoin acc (rget A i)) rows (rget A n))) (n :: rows) A) n
                          (vset (rget (fold_left (fun A' i => rset A' i (fold_left (fun acc i => vajoin acc (rget A i)) rows (rget A n))) (n :: rows) A) n) col
                             (Aq (qmax (a_lo (aget (fold_left (fun A' i => rset A' i (fold_left (fun acc i => vajoin acc (rget A i)) rows (rget A n))) (n :: rows) A) n col)) pl)
                                 (a_hi (aget (fold_left (fun A' i => rset A' i (fold_left (fun acc i => vajoin acc (rget A i)) rows (rget A n))) (n :: rows) A) n col)))), d)
                   else None
               | None => None end = Some st') by (destruct cmp; try discriminate; exact E).
  clear E. destruct (piv_lo A d col rows) as [pl|] eqn:EP; [|discriminate].
  destruct (qlt init pl) eqn:EI; [|discriminate]. injection E' as <-.
  apply qlt_R in EI.
  destruct (fp_spec cmp Hc col L rows (Q2R init) None) as (la' & H1 & H2 & H3).
  assert (Hla : 0 <= la').
  { destruct rows as [|i0 rows0]; [unfold piv_lo in EP; cbn in EP; discriminate|].
    pose proof (H2 i0 (or_introl eq_refl)). pose proof (Rabs_pos (eg L i0 col)). lra. }
  assert (PL : Q2R pl <= la') by apply (piv_lo_sound A d L col rows la' pl G EP H2 Hla).
  destruct H3 as [[H3 H4] | (p & Hp & H3 & H4)]; [lra|].
  cbn [do_op fst snd]. change (n_ofQ Rnum init) with (Q2R init). rewrite H3.
  eexists. split; [reflexivity|].
  set (J := fold_left (fun acc i => vajoin acc (rget A i)) rows (rget A n)).
  set (A1 := fold_left (fun A' i => rset A' i J) (n :: rows) A).
  destruct G as [GA Gd]. cbn [fst snd] in GA, Gd.
  set (L' := fst (if Nat.eqb p n then (L, Rr) else (rswap L n p, rswap Rr n p))).
  assert (Jn : vleq (rget A n) J) by apply foldq_join_acc.
  assert (Jr : forall i, In i rows -> vleq (rget A i) J) by (intros i Hi; apply foldq_join_in, Hi).
  assert (JS : forall i k, In i (n :: rows) -> idx i = idx k -> vleq (rget A k) J).
  { intros i k [<-|Hi] Hk; rewrite <- (rget_same_idx A _ _ Hk); [exact Jn | apply Jr, Hi]. }
  (* rows of L' *)
  assert (RW : forall k, rget L' k = if Nat.eqb p n then rget L k else
                 if Nat.eqb (idx p) (idx k) then rget L n else if Nat.eqb (idx n) (idx k) then rget L p else rget L k).
  { intro k. unfold L'. destruct (Nat.eqb p n); cbn [fst]; [reflexivity | apply rget_rswap]. }
  assert (G1 : GamE A1 L').
  { intros k j. unfold aget, eg. unfold A1. rewrite foldq_rset_get, RW.
    destruct (existsb (fun i => Nat.eqb (idx i) (idx k)) (n :: rows)) eqn:EX.
    - apply existsb_exists in EX as (i & Hi & Hk). apply Nat.eqb_eq in Hk.
      destruct (Nat.eqb p n); [apply (JS i k Hi Hk), GA|].
      destruct (Nat.eqb (idx p) (idx k)); [apply Jn, GA|].
      destruct (Nat.eqb (idx n) (idx k)); [apply (Jr p Hp), GA | apply (JS i k Hi Hk), GA].
    - assert (NE : forall i, In i (n :: rows) -> Nat.eqb (idx i) (idx k) = false).
      { intros i Hi. destruct (Nat.eqb (idx i) (idx k)) eqn:Ek; [|reflexivity].
        rewrite <- EX. symmetry. apply existsb_exists. exists i. split; assumption. }
      destruct (Nat.eqb p n); [apply GA|].
      rewrite (NE p (or_intror Hp)), (NE n (or_introl eq_refl)). apply GA. }
  assert (PV : eg L' n col = eg L p col).
  { unfold eg. rewrite RW. destruct (Nat.eqb p n) eqn:Epn; [apply Nat.eqb_eq in Epn; subst; reflexivity|].
    destruct (Nat.eqb (idx p) (idx n)) eqn:E2; [apply Nat.eqb_eq in E2; rewrite (rget_same_idx L _ _ E2); reflexivity|].
    rewrite Nat.eqb_refl. reflexivity. }
  split; cbn [fst snd].
  - apply gamE_refine; [exact G1|]. pose proof (G1 n col) as [g1 g2]. split; cbn [a_lo a_hi]; [|exact g2].
    apply qmax_le; [exact g1|]. eapply Rle_trans; [exact PL|]. rewrite H4. right. f_equal. symmetry. exact PV.
  - unfold L'. destruct (Nat.eqb p n); cbn [fst]; [exact Gd | rewrite det_rswap_abs; exact Gd].
Qed.

Lemma gq_zero : gq (Aq 0 0) 0.
Proof. unfold gq; cbn [a_lo a_hi]. rewrite Q2R_0z, Rabs_R0. lra. Qed.
Lemma gq_one : gq (Aq 1 1) 1.
Proof. unfold gq; cbn [a_lo a_hi]. rewrite Q2R_1z, Rabs_R1. lra. Qed.
Lemma abs_div_le : forall x v X P, Rabs x <= X -> 0 < P <= Rabs v -> Rabs (x / v) <= X / P.
Proof.
  intros x v X P Hx [HP Hv]. assert (v <> 0) by (intro C; subst; rewrite Rabs_R0 in Hv; lra).
  unfold Rdiv. rewrite Rabs_mult, Rabs_inv.
  apply Rmult_le_compat; [apply Rabs_pos | left; apply Rinv_0_lt_compat; lra | exact Hx | apply Rinv_le_contravar; lra].
Qed.

Lemma elim_sound : forall m p c st st' L Rr,
  abs2_op (OElim m p c) st = Some st' -> Gam2 st L ->
  exists s', do_op Rnum (OElim m p c) (L, Rr) = GOk s' /\ Gam2 st' (fst s').
Proof.
  intros m p c [A d] st' L Rr E G. cbn [abs2_op fst snd] in E.
  destruct (Nat.eqb (idx m) (idx p)) eqn:Emp; [discriminate|]. apply Nat.eqb_neq in Emp.
  destruct (qlt 0 (row_lo A d p c)) eqn:E0; [|discriminate]. injection E as <-.
  apply qlt_R in E0. rewrite Q2R_0z in E0.
  pose proof (row_lo_sound A d L p c G) as PL. destruct G as [GA Gd]. cbn [fst snd] in GA, Gd.
  assert (Hd : eg L p c <> 0) by (intro C; rewrite C, Rabs_R0 in PL; lra).
  assert (HV : Rabs (eg L m c / eg L p c) <= Q2R (hi A m c / row_lo A d p c)).
  { rewrite Q2R_div by (apply Q2R_pos_neq, E0). apply abs_div_le; [apply hi_ge, GA | lra]. }
  cbn [do_op fst snd n_is_zero n_div Rnum]. change (vget (rget L p) c) with (eg L p c). change (vget (rget L m) c) with (eg L m c).
  destruct (Req_EM_T (eg L p c) 0) as [C|_]; [contradiction|].
  eexists. split; [reflexivity|].
  split; cbn [fst snd].
  - intros k j. unfold aget. unfold eg at 1. rewrite !rget_rset. destruct (Nat.eqb (idx m) (idx k)); [|apply GA].
    unfold vsub, vmuls. rewrite !vget_vbuild, idx_idem. cbn [n_sub n_mul Rnum].
    change (vget (rget L m) (idx j)) with (eg L m (idx j)). change (vget (rget L p) (idx j)) with (eg L p (idx j)).
    destruct (Nat.eqb (idx j) (idx c)) eqn:Ej.
    + apply Nat.eqb_eq in Ej. rewrite Ej, <- !(eg_idx L _ (idx c)), !idx_idem, !eg_idx.
      replace (eg L m c - eg L p c * (eg L m c / eg L p c)) with 0 by (field; exact Hd). apply gq_zero.
    + destruct (Qle_bool (hi A p (idx j)) 0) eqn:Ez.
      * apply qle_R in Ez. rewrite Q2R_0z in Ez. pose proof (hi_ge A L p (idx j) GA) as Hp.
        assert (Z : eg L p (idx j) = 0).
        { destruct (Req_dec (eg L p (idx j)) 0) as [Z|Z]; [exact Z|]. apply Rabs_pos_lt in Z. lra. }
        rewrite Z. replace (eg L m (idx j) - 0 * (eg L m c / eg L p c)) with (eg L m (idx j)) by ring. apply GA.
      * unfold gq; cbn [a_lo a_hi]. rewrite Q2R_0z. split; [apply Rabs_pos|].
        rewrite Q2R_plus, Q2R_mult. unfold Rminus. eapply Rle_trans; [apply Rabs_triang|]. rewrite Rabs_Ropp, Rabs_mult.
        apply Rplus_le_compat; [apply hi_ge, GA|]. apply mul_le; split; try apply Rabs_pos; [apply hi_ge, GA | exact HV].
  - rewrite (det_elim L m p _ Emp). exact Gd.
Qed.

Lemma Rcmp_le_lt_false : forall cmp a b, cmp = CLe \/ cmp = CLt -> b < a -> Rcmp cmp a b = false.
Proof.
  intros cmp a b [->| ->] H; unfold Rcmp.
  - destruct (Rle_dec a b); [lra | reflexivity].
  - destruct (Rlt_dec a b); [lra | reflexivity].
Qed.

Lemma scale_sound : forall r c cmp thr st st' L Rr,
  abs2_op (OScale r c cmp thr) st = Some st' -> Gam2 st L ->
  exists s', do_op Rnum (OScale r c cmp thr) (L, Rr) = GOk s' /\ Gam2 st' (fst s').
Proof.
  intros r c cmp thr [A d] st' L Rr E G. cbn [abs2_op fst snd] in E.
  assert (Hc : cmp = CLe \/ cmp = CLt) by (destruct cmp; try discriminate; auto).
  assert (E' : (if qlt thr (row_lo A d r c) && qlt 0 (row_lo A d r c) then
                 Some (rset A r (vbuild (fun j => if Nat.eqb j (idx c) then Aq 1 1 else Aq 0 (hi A r j / row_lo A d r c)%Q)),
                       (d / hi A r c)%Q) else None) = Some st') by (destruct cmp; try discriminate; exact E).
  clear E. destruct (qlt thr (row_lo A d r c)) eqn:Et; [|discriminate].
  destruct (qlt 0 (row_lo A d r c)) eqn:E0; [|discriminate]. cbn [andb] in E'. injection E' as <-.
  apply qlt_R in E0, Et. rewrite Q2R_0z in E0.
  pose proof (row_lo_sound A d L r c G) as PL. destruct G as [GA Gd]. cbn [fst snd] in GA, Gd.
  assert (Hd : eg L r c <> 0) by (intro C; rewrite C, Rabs_R0 in PL; lra).
  cbn [do_op fst snd n_is_zero n_cmp n_abs n_ofQ Rnum]. change (vget (rget L r) c) with (eg L r c).
  rewrite (Rcmp_le_lt_false cmp _ _ Hc) by lra.
  destruct (Req_EM_T (eg L r c) 0) as [C|_]; [contradiction|].
  eexists. split; [reflexivity|].
  pose proof (hi_ge A L r c GA) as HH.
  split; cbn [fst snd].
  - intros k j. unfold aget. unfold eg at 1. rewrite !rget_rset. destruct (Nat.eqb (idx r) (idx k)); [|apply GA].
    unfold vdivs. rewrite !vget_vbuild. cbn [n_div Rnum].
    change (vget (rget L r) (idx j)) with (eg L r (idx j)).
    destruct (Nat.eqb (idx j) (idx c)) eqn:Ej.
    + apply Nat.eqb_eq in Ej. rewrite Ej, <- (eg_idx L r (idx c)), !idx_idem, eg_idx.
      replace (eg L r c / eg L r c) with 1 by (field; exact Hd). apply gq_one.
    + unfold gq; cbn [a_lo a_hi]. rewrite Q2R_0z. split; [apply Rabs_pos|].
      rewrite Q2R_div by (apply Q2R_pos_neq, E0). apply abs_div_le; [apply hi_ge, GA | lra].
  - rewrite (det_scale L r _ Hd). assert (HP : 0 < Q2R (hi A r c)) by lra.
    rewrite Q2R_div by (apply Q2R_pos_neq, HP).
    unfold Rdiv at 2. rewrite Rabs_mult, Rabs_inv.
    destruct (Rle_or_lt 0 (Q2R d)) as [D|D].
    + apply Rmult_le_compat; [exact D | left; apply Rinv_0_lt_compat; exact HP | exact Gd | apply Rinv_le_contravar; lra].
    + assert (0 <= Rabs (det3 L) * / Rabs (eg L r c)).
      { apply Rmult_le_pos; [apply Rabs_pos | left; apply Rinv_0_lt_compat; lra]. }
      assert (Q2R d / Q2R (hi A r c) < 0); [|lra].
      unfold Rdiv. assert (0 < / Q2R (hi A r c)) by (apply Rinv_0_lt_compat; exact HP). nra.
Qed.

Lemma abs2_op_sound : forall o st st' L Rr, abs2_op o st = Some st' -> Gam2 st L ->
  exists s', do_op Rnum o (L, Rr) = GOk s' /\ Gam2 st' (fst s').
Proof.
  intros [col n rows cmp init | m p c | m p c cmp thr | r c cmp thr] st st' L Rr E G.
  - exact (pivot_sound col n rows cmp init st st' L Rr E G).
  - exact (elim_sound m p c st st' L Rr E G).
  - (* a skip guard that fires only for a zero multiplier: the same operation *)
    cbn [abs2_op] in E. destruct (skip_exact cmp thr) eqn:SE; [|discriminate].
    rewrite (elimskip_equiv m p c cmp thr (L, Rr) SE). exact (elim_sound m p c st st' L Rr E G).
  - exact (scale_sound r c cmp thr st st' L Rr E G).
Qed.

Lemma abs2_run_sound : forall ops st st' s, abs2_run ops st = Some st' -> Gam2 st (fst s) ->
  exists s', gj_run Rnum ops s = GOk s' /\ Gam2 st' (fst s').
Proof.
  induction ops as [|o ops IH]; intros st st' [L Rr] E G; cbn [abs2_run gj_run] in *.
  - injection E as <-. exists (L, Rr). split; [reflexivity | exact G].
  - destruct (abs2_op o st) as [st1|] eqn:E1; [|discriminate].
    destruct (abs2_op_sound o st st1 L Rr E1 G) as (s1 & R1 & G1). rewrite R1. apply (IH st1 st' s1 E G1).
Qed.

(** ** rotations *)
Lemma sq_le1 : forall x y z, x * x + y * y + z * z = 1 -> Rabs x <= 1.
Proof. intros x y z H. apply Rabs_le. split; nra. Qed.
Lemma rot_init_gam : forall m, rotation m -> Gam2 rot_init (rows_of m).
Proof.
  intros [a b c d e f g h k] [(N1 & N2 & N3 & _) D]. cbn [aa ab ac ba bb bc ca cb cc] in *. split.
  - intros i j. unfold gq, aget, eg, rot_init, unit_iv, rows_of; cbn [fst aa ab ac ba bb bc ca cb cc].
    destruct i as [|[|i]], j as [|[|j]]; cbn [rget vget a_lo a_hi]; rewrite Q2R_0z, Q2R_1z;
      (split; [apply Rabs_pos|]).
    + apply (sq_le1 a b c); lra.
    + apply (sq_le1 b a c); lra.
    + apply (sq_le1 c a b); lra.
    + apply (sq_le1 d e f); lra.
    + apply (sq_le1 e d f); lra.
    + apply (sq_le1 f d e); lra.
    + apply (sq_le1 g h k); lra.
    + apply (sq_le1 h g k); lra.
    + apply (sq_le1 k g h); lra.
  - cbn [snd rot_init]. rewrite Q2R_1z. unfold det3, mat_of, rows_of; cbn [rget vget aa ab ac ba bb bc ca cb cc].
    rewrite D, Rabs_R1. lra.
Qed.

(** ** the theorems *)
(** Every program accepted by the test returns on every matrix described by the initial abstract state. *)
Theorem gj_inverse_total_from : forall st p, init_l_ok p = true -> total_from st p = true ->
  forall m, Gam2 st (rows_of m) -> exists n, gj_inverse Rnum p (rows_of m) = GOk n.
Proof.
  intros st p Hl HT m G. unfold total_from in HT.
  destruct (abs2_run (gp_ops p) st) as [st'|] eqn:E; [|discriminate].
  apply (list_eqb_eq _ (fun x y => proj1 (Nat.eqb_eq x y))) in Hl.
  assert (IL : init_l p (rows_of m) = rows_of m) by (unfold init_l; rewrite Hl; reflexivity).
  unfold gj_inverse. rewrite IL.
  destruct (abs2_run_sound (gp_ops p) st st' (rows_of m, init_r Rnum p) E G) as (s' & R1 & _).
  rewrite R1. eexists. reflexivity.
Qed.

(** inverse() returns (raises neither ArithmeticError nor ZeroDivisionError) on every rotation, in exact arithmetic. *)
Theorem gj_inverse_total : forall p, gj_total_ok p = true ->
  forall m, rotation m -> exists n, gj_inverse Rnum p (rows_of m) = GOk n.
Proof.
  intros p OK m Hm. unfold gj_total_ok in OK. apply andb_prop in OK as [Hl HT].
  exact (gj_inverse_total_from rot_init p Hl HT m (rot_init_gam m Hm)).
Qed.

(** inverse() = transpose() on rotations: it returns, and what it returns is the transpose. *)
Theorem gj_inverse_rotation_is_transpose : forall p, gj_prog_ok p = true -> gj_total_ok p = true ->
  forall m, rotation m -> exists n, gj_inverse Rnum p (rows_of m) = GOk n /\ mat_of n = transpose m.
Proof.
  intros p OK OT m Hm. destruct (gj_inverse_total p OT m Hm) as (n & E). exists n. split; [exact E|].
  exact (gauss_jordan_inverse_rotation p OK m n Hm E).
Qed.

(** The first pivot, quantitatively: every column of a rotation has unit length, so the entry of largest absolute value
    of any column (what the pivot search of column 0 selects) has square at least 1/3, i.e. |pivot| >= 1/sqrt 3. *)
Theorem rotation_column_pivot_bound : forall m, rotation m ->
  (1 / 3 <= Rmax (aa m * aa m) (Rmax (ba m * ba m) (ca m * ca m))) /\
  (1 / 3 <= Rmax (ab m * ab m) (Rmax (bb m * bb m) (cb m * cb m))) /\
  (1 / 3 <= Rmax (ac m * ac m) (Rmax (bc m * bc m) (cc m * cc m))).
Proof.
  intros m Hm. destruct (rotation_transpose m Hm) as [(N1 & N2 & N3 & _) _].
  unfold transpose in N1, N2, N3; cbn [aa ab ac ba bb bc ca cb cc] in N1, N2, N3.
  repeat split.
  - pose proof (Rmax_l (aa m * aa m) (Rmax (ba m * ba m) (ca m * ca m))).
    pose proof (Rmax_r (aa m * aa m) (Rmax (ba m * ba m) (ca m * ca m))).
    pose proof (Rmax_l (ba m * ba m) (ca m * ca m)). pose proof (Rmax_r (ba m * ba m) (ca m * ca m)). lra.
  - pose proof (Rmax_l (ab m * ab m) (Rmax (bb m * bb m) (cb m * cb m))).
    pose proof (Rmax_r (ab m * ab m) (Rmax (bb m * bb m) (cb m * cb m))).
    pose proof (Rmax_l (bb m * bb m) (cb m * cb m)). pose proof (Rmax_r (bb m * bb m) (cb m * cb m)). lra.
  - pose proof (Rmax_l (ac m * ac m) (Rmax (bc m * bc m) (cc m * cc m))).
    pose proof (Rmax_r (ac m * ac m) (Rmax (bc m * bc m) (cc m * cc m))).
    pose proof (Rmax_l (bc m * bc m) (cc m * cc m)). pose proof (Rmax_r (bc m * bc m) (cc m * cc m)). lra.
Qed.
