(** C04 — algebra of the GENERATED rotation formulas (Gen/RotFormulas_gen.v): proofs.
    Everything here is about the expression trees read out of math.py; a source edit changes them and these proofs are
    re-checked.  ring / field / nsatz under sin^2 + cos^2 = 1. *)
From Coq Require Import Reals Lra Psatz Nsatz.
From SV Require Import Rot.RotBase Gen.RotFormulas_gen.
Open Scope R_scope.

Lemma sc1 : forall x, cos x * cos x + sin x * sin x = 1.
Proof. intro x. generalize (sin2_cos2 x). unfold Rsqr. lra. Qed.

(** Abstract the six trigonometric values so that the goals become polynomial. *)
Ltac trig3 p y r :=
  generalize (sc1 (radians p)) (sc1 (radians y)) (sc1 (radians r));
  generalize (cos (radians p)) (sin (radians p)) (cos (radians y)) (sin (radians y)) (cos (radians r)) (sin (radians r));
  intros cp sp cy sy cr sr Hp Hy Hr.
Ltac trig1 p :=
  generalize (sc1 (radians p)); generalize (cos (radians p)) (sin (radians p)); intros c s H.

(** *** from_angle is a proper rotation *)
Lemma from_angle_orthonormal : forall p y r, orthonormal (from_angle p y r).
Proof.
  intros p y r. unfold orthonormal, from_angle; cbn [aa ab ac ba bb bc ca cb cc].
  trig3 p y r. repeat split; nsatz.
Qed.

Lemma from_angle_det_one : forall p y r, det (from_angle p y r) = 1.
Proof.
  intros p y r. unfold det, from_angle; cbn [aa ab ac ba bb bc ca cb cc].
  trig3 p y r. nsatz.
Qed.

Lemma from_angle_rotation : forall p y r, rotation (from_angle p y r).
Proof. intros; split; [apply from_angle_orthonormal | apply from_angle_det_one]. Qed.

(** The Angle-object path and the three-float path of from_angle compute the same matrix. *)
Lemma from_angle_obj_eq : forall a, from_angle_obj a = from_angle (a_pitch a) (a_yaw a) (a_roll a).
Proof. intro a. unfold from_angle_obj, from_angle. apply mat_ext; ring. Qed.

Lemma from_axis_rotation : forall t, rotation (from_pitch t) /\ rotation (from_yaw t) /\ rotation (from_roll t).
Proof.
  intro t. unfold rotation, orthonormal, det, from_pitch, from_yaw, from_roll; cbn [aa ab ac ba bb bc ca cb cc].
  trig1 t. repeat split; nsatz.
Qed.

(** *** Source convention: roll about X, then pitch about Y, then yaw about Z (row vectors: v @ M = v * M) *)
Lemma from_angle_convention : forall p y r,
  from_angle p y r = mat_mul (mat_mul (from_roll r) (from_pitch p)) (from_yaw y).
Proof.
  intros p y r. unfold from_angle, mat_mul, from_roll, from_pitch, from_yaw; cbn [aa ab ac ba bb bc ca cb cc].
  apply mat_ext; ring.
Qed.

(** Each elementary rotation fixes its own axis ... *)
Lemma axis_fixed : forall t,
  vec_rot (from_roll t) (Vec3 1 0 0) = Vec3 1 0 0 /\
  vec_rot (from_pitch t) (Vec3 0 1 0) = Vec3 0 1 0 /\
  vec_rot (from_yaw t) (Vec3 0 0 1) = Vec3 0 0 1.
Proof.
  intro t. unfold vec_rot, from_roll, from_pitch, from_yaw; cbn [aa ab ac ba bb bc ca cb cc vx vy vz].
  repeat split; apply vec_ext; ring.
Qed.

(** ... and turns in the engine's direction: +90 yaw takes forward (x) to left (y), +90 pitch takes forward to
    down (-z), +90 roll takes left (y) to up (z). *)
Lemma radians_90 : radians 90 = PI / 2.
Proof. unfold radians. field. Qed.
Lemma handedness :
  vec_rot (from_yaw 90) (Vec3 1 0 0) = Vec3 0 1 0 /\
  vec_rot (from_pitch 90) (Vec3 1 0 0) = Vec3 0 0 (-1) /\
  vec_rot (from_roll 90) (Vec3 0 1 0) = Vec3 0 0 1.
Proof.
  unfold vec_rot, from_roll, from_pitch, from_yaw; cbn [aa ab ac ba bb bc ca cb cc vx vy vz].
  rewrite radians_90, cos_PI2, sin_PI2. repeat split; apply vec_ext; ring.
Qed.

(** *** Composition *)
Lemma mat_mul_assoc : forall a b c, mat_mul (mat_mul a b) c = mat_mul a (mat_mul b c).
Proof. intros. unfold mat_mul; cbn [aa ab ac ba bb bc ca cb cc]. apply mat_ext; ring. Qed.

Lemma vec_rot_assoc : forall v a b, vec_rot b (vec_rot a v) = vec_rot (mat_mul a b) v.
Proof.
  intros. unfold vec_rot, mat_mul; cbn [aa ab ac ba bb bc ca cb cc vx vy vz]. apply vec_ext; ring.
Qed.

Lemma mat_mul_I_l : forall m, mat_mul I3 m = m.
Proof. intro m. rewrite (mat_eta m) at 2. unfold mat_mul, I3; cbn [aa ab ac ba bb bc ca cb cc]. apply mat_ext; ring. Qed.
Lemma mat_mul_I_r : forall m, mat_mul m I3 = m.
Proof. intro m. rewrite (mat_eta m) at 2. unfold mat_mul, I3; cbn [aa ab ac ba bb bc ca cb cc]. apply mat_ext; ring. Qed.
Lemma vec_rot_I : forall v, vec_rot I3 v = v.
Proof. intros [x y z]. unfold vec_rot, I3; cbn [aa ab ac ba bb bc ca cb cc vx vy vz]. apply vec_ext; ring. Qed.

Lemma det_mul : forall a b, det (mat_mul a b) = det a * det b.
Proof. intros. unfold det, mat_mul; cbn [aa ab ac ba bb bc ca cb cc]. ring. Qed.

Lemma transpose_involutive : forall m, transpose (transpose m) = m.
Proof. intros []. reflexivity. Qed.
Lemma det_transpose : forall m, det (transpose m) = det m.
Proof. intros. unfold det, transpose; cbn [aa ab ac ba bb bc ca cb cc]. ring. Qed.

(** *** Rotations: the third row is the cross product of the first two; columns are orthonormal too *)
Lemma sumsq3_zero : forall x y z, x * x + y * y + z * z = 0 -> x = 0 /\ y = 0 /\ z = 0.
Proof. intros x y z H. repeat split; nra. Qed.

Lemma rotation_cross : forall m, rotation m ->
  ca m = ab m * bc m - ac m * bb m /\ cb m = ac m * ba m - aa m * bc m /\ cc m = aa m * bb m - ab m * ba m.
Proof.
  intros [a1 a2 a3 b1 b2 b3 c1 c2 c3] [(H1 & H2 & H3 & H4 & H5 & H6) HD].
  unfold det in HD; cbn [aa ab ac ba bb bc ca cb cc] in *.
  assert (E : (c1 - (a2 * b3 - a3 * b2)) * (c1 - (a2 * b3 - a3 * b2))
            + (c2 - (a3 * b1 - a1 * b3)) * (c2 - (a3 * b1 - a1 * b3))
            + (c3 - (a1 * b2 - a2 * b1)) * (c3 - (a1 * b2 - a2 * b1)) = 0) by nsatz.
  apply sumsq3_zero in E. lra.
Qed.

Lemma orthonormal_transpose : forall m, rotation m -> orthonormal (transpose m).
Proof.
  intros m Hm. destruct (rotation_cross m Hm) as (C1 & C2 & C3).
  destruct m as [a1 a2 a3 b1 b2 b3 c1 c2 c3]. destruct Hm as [(H1 & H2 & H3 & H4 & H5 & H6) HD].
  unfold det in HD; unfold orthonormal, transpose; cbn [aa ab ac ba bb bc ca cb cc] in *.
  subst c1 c2 c3. repeat split; nsatz.
Qed.

Lemma rotation_transpose : forall m, rotation m -> rotation (transpose m).
Proof. intros m H. split; [apply orthonormal_transpose, H | rewrite det_transpose; apply H]. Qed.

(** *** inverse = transpose on rotations *)
Lemma orthonormal_mul_transpose : forall m, orthonormal m -> mat_mul m (transpose m) = I3.
Proof.
  intros m (H1 & H2 & H3 & H4 & H5 & H6). unfold mat_mul, transpose, I3; cbn [aa ab ac ba bb bc ca cb cc].
  apply mat_ext; lra.
Qed.

Lemma rotation_inverse_is_transpose : forall m, rotation m ->
  mat_mul m (transpose m) = I3 /\ mat_mul (transpose m) m = I3 /\
  (forall n, mat_mul n m = I3 -> n = transpose m) /\ (forall n, mat_mul m n = I3 -> n = transpose m).
Proof.
  intros m Hm.
  assert (R : mat_mul m (transpose m) = I3) by (apply orthonormal_mul_transpose, Hm).
  assert (L : mat_mul (transpose m) m = I3).
  { generalize (orthonormal_mul_transpose _ (orthonormal_transpose m Hm)). now rewrite transpose_involutive. }
  repeat split; trivial.
  - intros n Hn. rewrite <- (mat_mul_I_r n), <- R, <- mat_mul_assoc, Hn. apply mat_mul_I_l.
  - intros n Hn. rewrite <- (mat_mul_I_l n), <- L, mat_mul_assoc, Hn. apply mat_mul_I_r.
Qed.

(** Products and transposes of rotations are rotations (so every value reachable by @ is covered). *)
Lemma transpose_mul : forall a b, transpose (mat_mul a b) = mat_mul (transpose b) (transpose a).
Proof. intros. unfold transpose, mat_mul; cbn [aa ab ac ba bb bc ca cb cc]. apply mat_ext; ring. Qed.

Lemma I3_eq : forall m, m = I3 -> orthonormal m.
Proof. intros m ->. unfold orthonormal, I3; cbn [aa ab ac ba bb bc ca cb cc]. repeat split; ring. Qed.

Lemma mul_transpose_I_orthonormal : forall m, mat_mul m (transpose m) = I3 -> orthonormal m.
Proof.
  intros [a1 a2 a3 b1 b2 b3 c1 c2 c3]. unfold mat_mul, transpose, I3, orthonormal; cbn [aa ab ac ba bb bc ca cb cc].
  intro H. injection H as E1 E2 E3 E4 E5 E6 E7 E8 E9. repeat split; lra.
Qed.

Lemma rotation_mul : forall a b, rotation a -> rotation b -> rotation (mat_mul a b).
Proof.
  intros a b Ha Hb. split.
  - apply mul_transpose_I_orthonormal. rewrite transpose_mul, mat_mul_assoc, <- (mat_mul_assoc b).
    rewrite (orthonormal_mul_transpose b) by apply Hb. rewrite mat_mul_I_l. apply orthonormal_mul_transpose, Ha.
  - rewrite det_mul. destruct Ha as [_ ->], Hb as [_ ->]. ring.
Qed.

(** Rotating preserves length. *)
Lemma vec_rot_len : forall m v, rotation m ->
  let w := vec_rot m v in vx w * vx w + vy w * vy w + vz w * vz w = vx v * vx v + vy v * vy v + vz v * vz v.
Proof.
  intros m [x y z] Hm. destruct (orthonormal_transpose m Hm) as (H1 & H2 & H3 & H4 & H5 & H6).
  destruct m as [a1 a2 a3 b1 b2 b3 c1 c2 c3].
  unfold vec_rot, transpose in *; cbn [aa ab ac ba bb bc ca cb cc vx vy vz] in *. nsatz.
Qed.
