(** C04 — soundness of the running error analysis of Rot/RotRound.v, for every expression tree and every rounding
    with |rnd t - t| <= u |t| + eta (by induction over the tree). *)
From Coq Require Import List Bool Arith QArith Reals Qreals Lra Psatz.
From SV Require Import Rot.RotRound.
Import ListNotations.
Local Open Scope R_scope.

Section Round.
  Variable rnd : R -> R.
  Variables u eta : Q.
  Hypothesis Hrnd : forall t, Rabs (rnd t - t) <= Q2R u * Rabs t + Q2R eta.
  Hypothesis Hu : 0 <= Q2R u.

  Lemma rnd_step : forall x t M E, Rabs t <= M -> Rabs (x - t) <= E ->
    Rabs (rnd x - t) <= E + Q2R u * (M + E) + Q2R eta.
  Proof.
    intros x t M E Ht Hx.
    assert (Hx2 : Rabs x <= M + E).
    { replace x with (t + (x - t)) by ring. eapply Rle_trans; [apply Rabs_triang|lra]. }
    replace (rnd x - t) with ((rnd x - x) + (x - t)) by ring.
    eapply Rle_trans; [apply Rabs_triang|].
    pose proof (Hrnd x) as H.
    assert (Q2R u * Rabs x <= Q2R u * (M + E)) by (apply Rmult_le_compat_l; assumption).
    lra.
  Qed.

  Lemma mul_step : forall fa fb a b Ma Mb Ea Eb,
    Rabs a <= Ma -> Rabs b <= Mb -> Rabs (fa - a) <= Ea -> Rabs (fb - b) <= Eb ->
    Rabs (a * b) <= Ma * Mb /\ Rabs (fa * fb - a * b) <= Ma * Eb + Mb * Ea + Ea * Eb.
  Proof.
    intros fa fb a b Ma Mb Ea Eb Ha Hb Hfa Hfb.
    pose proof (Rabs_pos a). pose proof (Rabs_pos b). pose proof (Rabs_pos (fa - a)). pose proof (Rabs_pos (fb - b)).
    split.
    - rewrite Rabs_mult. apply Rmult_le_compat; assumption.
    - replace (fa * fb - a * b) with (a * (fb - b) + b * (fa - a) + (fa - a) * (fb - b)) by ring.
      eapply Rle_trans; [apply Rabs_triang|]. eapply Rle_trans; [apply Rplus_le_compat_r, Rabs_triang|].
      rewrite !Rabs_mult.
      assert (Rabs a * Rabs (fb - b) <= Ma * Eb) by (apply Rmult_le_compat; assumption).
      assert (Rabs b * Rabs (fa - a) <= Mb * Ea) by (apply Rmult_le_compat; assumption).
      assert (Rabs (fa - a) * Rabs (fb - b) <= Ea * Eb) by (apply Rmult_le_compat; assumption).
      lra.
  Qed.

  (** The analysis is sound: for all inputs within the bounds, the exact value is within [fe_mag] and the rounded
      evaluation is within [fe_err] of it. *)
  Theorem fe_error_bound : forall (B : nat -> Q) (env : nat -> R),
    (forall n, Rabs (env n) <= Q2R (B n)) ->
    forall e, Rabs (fe_exact env e) <= Q2R (fe_mag B e) /\
              Rabs (fe_fl rnd env e - fe_exact env e) <= Q2R (fe_err u eta B e).
  Proof.
    intros B env HB. induction e as [n|a IHa|a IHa b IHb|a IHa b IHb|a IHa b IHb]; cbn [fe_exact fe_fl fe_mag fe_err].
    - split; [apply HB|]. replace (env n - env n) with 0 by ring. rewrite Rabs_R0. unfold Q2R; simpl; lra.
    - destruct IHa as [Ha1 Ha2]. split.
      + rewrite Rabs_Ropp; assumption.
      + replace (- fe_fl rnd env a - - fe_exact env a) with (- (fe_fl rnd env a - fe_exact env a)) by ring.
        rewrite Rabs_Ropp; assumption.
    - destruct IHa as [Ha1 Ha2], IHb as [Hb1 Hb2].
      assert (Hm : Rabs (fe_exact env a + fe_exact env b) <= Q2R (fe_mag B a) + Q2R (fe_mag B b))
        by (eapply Rle_trans; [apply Rabs_triang|lra]).
      split; [rewrite Q2R_plus; exact Hm|].
      repeat (rewrite Q2R_plus || rewrite Q2R_mult).
      apply rnd_step; [exact Hm|].
      replace (fe_fl rnd env a + fe_fl rnd env b - (fe_exact env a + fe_exact env b))
        with ((fe_fl rnd env a - fe_exact env a) + (fe_fl rnd env b - fe_exact env b)) by ring.
      eapply Rle_trans; [apply Rabs_triang|lra].
    - destruct IHa as [Ha1 Ha2], IHb as [Hb1 Hb2].
      assert (Hm : Rabs (fe_exact env a - fe_exact env b) <= Q2R (fe_mag B a) + Q2R (fe_mag B b)).
      { unfold Rminus at 1. eapply Rle_trans; [apply Rabs_triang|]. rewrite Rabs_Ropp. lra. }
      split; [rewrite Q2R_plus; exact Hm|].
      repeat (rewrite Q2R_plus || rewrite Q2R_mult).
      apply rnd_step; [exact Hm|].
      replace (fe_fl rnd env a - fe_fl rnd env b - (fe_exact env a - fe_exact env b))
        with ((fe_fl rnd env a - fe_exact env a) + - (fe_fl rnd env b - fe_exact env b)) by ring.
      eapply Rle_trans; [apply Rabs_triang|]. rewrite Rabs_Ropp. lra.
    - destruct IHa as [Ha1 Ha2], IHb as [Hb1 Hb2].
      destruct (mul_step _ _ _ _ _ _ _ _ Ha1 Hb1 Ha2 Hb2) as [Hm He].
      split; [rewrite Q2R_mult; exact Hm|].
      repeat (rewrite Q2R_plus || rewrite Q2R_mult).
      pose proof (rnd_step _ _ _ _ Hm He) as H.
      replace ((Q2R (fe_mag B a) + Q2R (fe_err u eta B a)) * (Q2R (fe_mag B b) + Q2R (fe_err u eta B b)))
        with (Q2R (fe_mag B a) * Q2R (fe_mag B b) +
              (Q2R (fe_mag B a) * Q2R (fe_err u eta B b) + Q2R (fe_mag B b) * Q2R (fe_err u eta B a) +
               Q2R (fe_err u eta B a) * Q2R (fe_err u eta B b))) by ring.
      exact H.
  Qed.

  Theorem fe_error_bound_in : forall (B E : nat -> Q) (env env' : nat -> R),
    (forall n, Rabs (env n) <= Q2R (B n)) -> (forall n, Rabs (env' n - env n) <= Q2R (E n)) ->
    forall e, Rabs (fe_exact env e) <= Q2R (fe_mag B e) /\
              Rabs (fe_fl rnd env' e - fe_exact env e) <= Q2R (fe_err_in u eta B E e).
  Proof.
    intros B E env env' HB HE. induction e as [n|a IHa|a IHa b IHb|a IHa b IHb|a IHa b IHb]; cbn [fe_exact fe_fl fe_mag fe_err_in].
    - split; [apply HB | apply HE].
    - destruct IHa as [Ha1 Ha2]. split.
      + rewrite Rabs_Ropp; assumption.
      + replace (- fe_fl rnd env' a - - fe_exact env a) with (- (fe_fl rnd env' a - fe_exact env a)) by ring.
        rewrite Rabs_Ropp; assumption.
    - destruct IHa as [Ha1 Ha2], IHb as [Hb1 Hb2].
      assert (Hm : Rabs (fe_exact env a + fe_exact env b) <= Q2R (fe_mag B a) + Q2R (fe_mag B b))
        by (eapply Rle_trans; [apply Rabs_triang|lra]).
      split; [rewrite Q2R_plus; exact Hm|].
      repeat (rewrite Q2R_plus || rewrite Q2R_mult).
      apply rnd_step; [exact Hm|].
      replace (fe_fl rnd env' a + fe_fl rnd env' b - (fe_exact env a + fe_exact env b))
        with ((fe_fl rnd env' a - fe_exact env a) + (fe_fl rnd env' b - fe_exact env b)) by ring.
      eapply Rle_trans; [apply Rabs_triang|lra].
    - destruct IHa as [Ha1 Ha2], IHb as [Hb1 Hb2].
      assert (Hm : Rabs (fe_exact env a - fe_exact env b) <= Q2R (fe_mag B a) + Q2R (fe_mag B b)).
      { unfold Rminus at 1. eapply Rle_trans; [apply Rabs_triang|]. rewrite Rabs_Ropp. lra. }
      split; [rewrite Q2R_plus; exact Hm|].
      repeat (rewrite Q2R_plus || rewrite Q2R_mult).
      apply rnd_step; [exact Hm|].
      replace (fe_fl rnd env' a - fe_fl rnd env' b - (fe_exact env a - fe_exact env b))
        with ((fe_fl rnd env' a - fe_exact env a) + - (fe_fl rnd env' b - fe_exact env b)) by ring.
      eapply Rle_trans; [apply Rabs_triang|]. rewrite Rabs_Ropp. lra.
    - destruct IHa as [Ha1 Ha2], IHb as [Hb1 Hb2].
      destruct (mul_step _ _ _ _ _ _ _ _ Ha1 Hb1 Ha2 Hb2) as [Hm He].
      split; [rewrite Q2R_mult; exact Hm|].
      repeat (rewrite Q2R_plus || rewrite Q2R_mult).
      pose proof (rnd_step _ _ _ _ Hm He) as H.
      replace ((Q2R (fe_mag B a) + Q2R (fe_err_in u eta B E a)) * (Q2R (fe_mag B b) + Q2R (fe_err_in u eta B E b)))
        with (Q2R (fe_mag B a) * Q2R (fe_mag B b) +
              (Q2R (fe_mag B a) * Q2R (fe_err_in u eta B E b) + Q2R (fe_mag B b) * Q2R (fe_err_in u eta B E a) +
               Q2R (fe_err_in u eta B E a) * Q2R (fe_err_in u eta B E b))) by ring.
      exact H.
  Qed.


  (** Instance form: a list of trees accepted by the decidable test is within [tol]. *)
  Lemma Qle_bool_R : forall x y, Qle_bool x y = true -> Q2R x <= Q2R y.
  Proof. intros x y H. apply Qle_Rle, Qle_bool_iff, H. Qed.
End Round.
