(** C04 — associativity for every mix of Vec / Angle / Matrix operands, at the level of the operator specification
    [spec] (what an accepted dispatch row denotes). *)
From Coq Require Import Reals Lra.
From SV Require Import Rot.RotBase Gen.RotFormulas_gen Rot.RotAlgebra Rot.RotEuler Rot.RotEulerProofs
  Rot.RotDispatch Rot.RotDispatchProofs.
Open Scope R_scope.

Section Mixed.
  Variable atan2 : R -> R -> R.

  (** Vec @ Angle is Vec @ Matrix.from_angle(Angle) — and likewise for a Matrix or Angle on the left. *)
  Lemma spec_angle_is_from_angle : forall L a, spec atan2 L (VAng a) = spec atan2 L (VMat (from_angle_obj a)).
  Proof. reflexivity. Qed.

  (** (v @ A) @ B = v @ (A @ B) when A is a Matrix, B a Matrix or an Angle: exact. *)
  Lemma mixed_assoc_matrix : forall v x B m, rhs_mat B = Some m ->
    spec atan2 (VMat x) B = Some (VMat (mat_mul x m)) /\
    spec atan2 (VVec (vec_rot x v)) B = spec atan2 (VVec v) (VMat (mat_mul x m)).
  Proof.
    intros v x B m HB. unfold spec. rewrite HB. cbn [rhs_mat]. split; [reflexivity|].
    now rewrite vec_rot_assoc.
  Qed.

  (** ... and when A is an Angle (so A @ B is an Angle again, obtained through the Euler extraction): exact provided
      the product is outside the gimbal band, where the extraction is exact. *)
  Lemma mixed_assoc_angle : atan2_spec atan2 -> forall v a B m, rhs_mat B = Some m ->
    horiz (mat_mul (from_angle_obj a) m) > 1 / 1000 -> rotation m ->
    exists ab, spec atan2 (VAng a) B = Some (VAng ab) /\
      spec atan2 (VVec (vec_rot (from_angle_obj a) v)) B = spec atan2 (VVec v) (VAng ab).
  Proof.
    intros A v a B m HB Hh Hm. exists (to_angle atan2 (mat_mul (from_angle_obj a) m)).
    unfold spec. rewrite HB. cbn [rhs_mat]. split; [reflexivity|].
    rewrite (euler_roundtrip atan2 A).
    - now rewrite vec_rot_assoc.
    - apply rotation_mul; [rewrite from_angle_obj_eq; apply from_angle_rotation | exact Hm].
    - exact Hh.
  Qed.
End Mixed.
