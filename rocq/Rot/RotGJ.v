(** C04 — model of MatrixBase.inverse (Gauss-Jordan elimination with partial pivoting on the augmented block [L | R]).

    The PROGRAM (which pivot searches, row swaps, eliminations and scalings run, on which rows and columns, with which
    comparison operators and constants; how [L] is initialised from the slots of [self]; which entries of [R] are copied
    to the result) is GENERATED from math.py by unrolling the loops of the method (Gen/RotInverse_gen.v).  This file is
    the interpreter of such programs, generic in the number type:
      - instantiated with the classical reals it is the object of the theorems (Rot/RotGJProofs.v),
      - instantiated with IEEE binary64 (Coq's primitive floats) it is compared bit for bit with the running
        implementation on every run (Rot/RotGJFloat.v + checks/c04.py).
    It also contains the decidable acceptance test [gj_prog_ok]: an abstract interpretation over the three-point domain
    {is 0, is 1, unknown} that follows the left block; the program is accepted when the left block provably ends as the
    identity pattern.  No reals in this file: the test runs in the kernel's VM on the generated program. *)
From Coq Require Import List Bool Arith QArith.
Import ListNotations.
Local Open Scope nat_scope.

(** ** The generated object *)
Inductive gj_cmp := CGt | CGe | CLt | CLe.
Inductive gj_op :=
  (** la = init; pivrow = none; for m in rows: va = abs(L[m][col]); if va `cmp` la: pivrow = m; la = va
      if pivrow is none: raise ArithmeticError; if pivrow != n: swap rows n and pivrow of L and of R *)
  | OPivotSwap (col n : nat) (rows : list nat) (cmp : gj_cmp) (init : Q)
  (** v = L[m][c] / L[p][c];  L[m] -= L[p] * v;  R[m] -= R[p] * v *)
  | OElim (m p c : nat)
  (** v = L[m][c] / L[p][c];  if abs(v) `cmp` thr: continue;  L[m] -= L[p] * v;  R[m] -= R[p] * v *)
  | OElimSkip (m p c : nat) (cmp : gj_cmp) (thr : Q)
  (** v = L[r][c]; if abs(v) `cmp` thr: raise ArithmeticError;  L[r] /= v;  R[r] /= v *)
  | OScale (r c : nat) (cmp : gj_cmp) (thr : Q).
Record gj_prog := GjProg {
  gp_init_l : list nat;        (* L[i][j] is slot number gp_init_l[3i+j] of self (0 = _aa ... 8 = _cc) *)
  gp_init_r : list Q;          (* R[i][j] is the constant gp_init_r[3i+j] *)
  gp_ops : list gj_op;
  gp_out : list (nat * nat)    (* slot 3i+j of the result is R[a][b] with (a, b) = gp_out[3i+j] *)
}.

(** ** Containers: triples with Python-style integer indexing (the generated indexes are all below 3, see [in_range]) *)
Definition idx (i : nat) : nat := match i with 0 => 0 | 1 => 1 | _ => 2 end.
Section Rows.
  Context {A : Type}.
  Definition v3 := (A * A * A)%type.
  Definition vbuild (f : nat -> A) : v3 := (f 0, f 1, f 2).
  Definition vget (v : v3) (j : nat) : A :=
    match v with (x, y, z) => match j with 0 => x | 1 => y | _ => z end end.
  Definition r3 := (v3 * v3 * v3)%type.
  Definition rget (m : r3) (i : nat) : v3 :=
    match m with (x, y, z) => match i with 0 => x | 1 => y | _ => z end end.
  Definition rset (m : r3) (i : nat) (v : v3) : r3 :=
    match m with (x, y, z) => match i with 0 => (v, y, z) | 1 => (x, v, z) | _ => (x, y, v) end end.
  Definition rswap (m : r3) (i j : nat) : r3 := rset (rset m i (rget m j)) j (rget m i).
  Definition rbuild (f : nat -> nat -> A) : r3 := (vbuild (f 0), vbuild (f 1), vbuild (f 2)).
End Rows.
Arguments v3 : clear implicits.
Arguments r3 : clear implicits.

Inductive gj_res (A : Type) := GOk (a : A) | GNoInverse | GZeroDiv.
Arguments GOk {A} a.
Arguments GNoInverse {A}.
Arguments GZeroDiv {A}.

(** ** The number type *)
Record gj_num (F : Type) := GjNum {
  n_ofQ : Q -> F;                       (* a literal of the source *)
  n_sub : F -> F -> F; n_mul : F -> F -> F; n_div : F -> F -> F; n_abs : F -> F;
  n_cmp : gj_cmp -> F -> F -> bool;     (* a > b, a >= b, a < b, a <= b *)
  n_is_zero : F -> bool                 (* as a divisor: Python raises ZeroDivisionError *)
}.
Arguments n_ofQ {F}. Arguments n_sub {F}. Arguments n_mul {F}. Arguments n_div {F}. Arguments n_abs {F}.
Arguments n_cmp {F}. Arguments n_is_zero {F}.

(** ** The interpreter *)
Section Run.
  Context {F : Type} (N : gj_num F).
  Definition state := (r3 F * r3 F)%type.

  Definition vsub (a b : v3 F) : v3 F := vbuild (fun j => n_sub N (vget a j) (vget b j)).     (* a -= b *)
  Definition vmuls (a : v3 F) (k : F) : v3 F := vbuild (fun j => n_mul N (vget a j) k).       (* a * k *)
  Definition vdivs (a : v3 F) (k : F) : v3 F := vbuild (fun j => n_div N (vget a j) k).       (* a /= k *)

  Fixpoint find_pivot (rows : list nat) (col : nat) (cmp : gj_cmp) (L : r3 F) (la : F) (piv : option nat) : option nat :=
    match rows with
    | [] => piv
    | m :: rest =>
        let va := n_abs N (vget (rget L m) col) in
        if n_cmp N cmp va la then find_pivot rest col cmp L va (Some m) else find_pivot rest col cmp L la piv
    end.

  Definition do_op (o : gj_op) (s : state) : gj_res state :=
    let L := fst s in let R := snd s in
    match o with
    | OPivotSwap col n rows cmp init =>
        match find_pivot rows col cmp L (n_ofQ N init) None with
        | None => GNoInverse
        | Some p => GOk (if Nat.eqb p n then s else (rswap L n p, rswap R n p))
        end
    | OElim m p c =>
        let d := vget (rget L p) c in
        if n_is_zero N d then GZeroDiv else
        let v := n_div N (vget (rget L m) c) d in
        GOk (rset L m (vsub (rget L m) (vmuls (rget L p) v)), rset R m (vsub (rget R m) (vmuls (rget R p) v)))
    | OElimSkip m p c cmp thr =>
        let d := vget (rget L p) c in
        if n_is_zero N d then GZeroDiv else
        let v := n_div N (vget (rget L m) c) d in
        if n_cmp N cmp (n_abs N v) (n_ofQ N thr) then GOk s else
        GOk (rset L m (vsub (rget L m) (vmuls (rget L p) v)), rset R m (vsub (rget R m) (vmuls (rget R p) v)))
    | OScale r c cmp thr =>
        let v := vget (rget L r) c in
        if n_cmp N cmp (n_abs N v) (n_ofQ N thr) then GNoInverse else
        if n_is_zero N v then GZeroDiv else
        GOk (rset L r (vdivs (rget L r) v), rset R r (vdivs (rget R r) v))
    end.

  Fixpoint gj_run (ops : list gj_op) (s : state) : gj_res state :=
    match ops with
    | [] => GOk s
    | o :: rest => match do_op o s with GOk s' => gj_run rest s' | GNoInverse => GNoInverse | GZeroDiv => GZeroDiv end
    end.

  Definition slot (m : r3 F) (k : nat) : F := vget (rget m (k / 3)) (k mod 3).
  Definition init_l (p : gj_prog) (m : r3 F) : r3 F := rbuild (fun i j => slot m (nth (3 * i + j) (gp_init_l p) 0)).
  Definition init_r (p : gj_prog) : r3 F := rbuild (fun i j => n_ofQ N (nth (3 * i + j) (gp_init_r p) 0%Q)).
  Definition out_of (p : gj_prog) (R : r3 F) : r3 F :=
    rbuild (fun i j => let ab := nth (3 * i + j) (gp_out p) (0, 0) in vget (rget R (fst ab)) (snd ab)).

  (** [m.inverse()]: the new matrix, or which exception. *)
  Definition gj_inverse (p : gj_prog) (m : r3 F) : gj_res (r3 F) :=
    match gj_run (gp_ops p) (init_l p m, init_r p) with
    | GOk s => GOk (out_of p (snd s))
    | GNoInverse => GNoInverse
    | GZeroDiv => GZeroDiv
    end.
End Run.

(** ** Acceptance test: abstract interpretation of the left block *)
Inductive av := AZ | AO | AT.      (* the entry is 0 / is 1 / unknown *)
Definition av_join (a b : av) : av := match a, b with AZ, AZ => AZ | AO, AO => AO | _, _ => AT end.
Definition av_eqb (a b : av) : bool := match a, b with AZ, AZ | AO, AO | AT, AT => true | _, _ => false end.
Definition vjoin (a b : v3 av) : v3 av := vbuild (fun j => av_join (vget a j) (vget b j)).

(** A conditional skip of an elimination is harmless exactly when it fires only for a multiplier that IS zero
    ([abs(v) <= 0]): then the skipped row operation would not have changed anything (over the reals).  Any other skip
    guard leaves the column possibly uncleared: nothing is known about the row afterwards. *)
Definition q_is_zero (q : Q) : bool := Z.eqb (Qnum q) 0.
Definition skip_exact (cmp : gj_cmp) (thr : Q) : bool := match cmp with CLe => q_is_zero thr | _ => false end.

Definition abs_op (o : gj_op) (L : r3 av) : r3 av :=
  match o with
  | OPivotSwap _ n rows _ _ =>
      (* the pivot row is one of [rows]; rows n and pivot are exchanged: every row of n :: rows may afterwards hold
         what any of them held before *)
      let J := fold_left (fun acc i => vjoin acc (rget L i)) rows (rget L n) in
      fold_left (fun L' i => rset L' i J) (n :: rows) L
  | OElim m p c =>
      if Nat.eqb (idx m) (idx p) then rset L m (AT, AT, AT) else
      let rp := rget L p in let rm := rget L m in
      (* the division succeeded, so L[p][c] <> 0 and L[m][c] - L[p][c] * (L[m][c] / L[p][c]) = 0;
         a column where the pivot row holds 0 is unchanged *)
      rset L m (vbuild (fun j => if Nat.eqb j (idx c) then AZ else match vget rp j with AZ => vget rm j | _ => AT end))
  | OElimSkip m p c cmp thr =>
      if skip_exact cmp thr && negb (Nat.eqb (idx m) (idx p)) then
        let rp := rget L p in let rm := rget L m in
        rset L m (vbuild (fun j => if Nat.eqb j (idx c) then AZ else match vget rp j with AZ => vget rm j | _ => AT end))
      else rset L m (AT, AT, AT)
  | OScale r c _ _ =>
      let row := rget L r in
      rset L r (vbuild (fun j => if Nat.eqb j (idx c) then AO else match vget row j with AZ => AZ | _ => AT end))
  end.
Definition abs_run (ops : list gj_op) (L : r3 av) : r3 av := fold_left (fun L' o => abs_op o L') ops L.

Definition top3 : r3 av := ((AT, AT, AT), (AT, AT, AT), (AT, AT, AT)).
Definition id3 : r3 av := ((AO, AZ, AZ), (AZ, AO, AZ), (AZ, AZ, AO)).
Definition all_ij : list (nat * nat) := [(0, 0); (0, 1); (0, 2); (1, 0); (1, 1); (1, 2); (2, 0); (2, 1); (2, 2)].
Definition r3_eqb (a b : r3 av) : bool :=
  forallb (fun ij => av_eqb (vget (rget a (fst ij)) (snd ij)) (vget (rget b (fst ij)) (snd ij))) all_ij.

Definition lt3 (i : nat) : bool := Nat.ltb i 3.
Definition op_in_range (o : gj_op) : bool :=
  match o with
  | OPivotSwap col n rows _ _ => lt3 col && lt3 n && forallb lt3 rows
  | OElim m p c | OElimSkip m p c _ _ => lt3 m && lt3 p && lt3 c
  | OScale r c _ _ => lt3 r && lt3 c
  end.
Fixpoint list_eqb {A} (e : A -> A -> bool) (a b : list A) : bool :=
  match a, b with
  | [], [] => true
  | x :: a', y :: b' => e x y && list_eqb e a' b'
  | _, _ => false
  end.
Definition pair_eqb (a b : nat * nat) : bool := Nat.eqb (fst a) (fst b) && Nat.eqb (snd a) (snd b).
Definition q_lit_eqb (a b : Q) : bool := Z.eqb (Qnum a) (Qnum b) && Pos.eqb (Qden a) (Qden b).

(** The four named parts of the acceptance test. *)
Definition init_l_ok (p : gj_prog) : bool := list_eqb Nat.eqb (gp_init_l p) [0; 1; 2; 3; 4; 5; 6; 7; 8].
Definition init_r_ok (p : gj_prog) : bool := list_eqb q_lit_eqb (gp_init_r p) [1; 0; 0; 0; 1; 0; 0; 0; 1]%Q.
Definition out_ok (p : gj_prog) : bool :=
  list_eqb pair_eqb (gp_out p) [(0, 0); (0, 1); (0, 2); (1, 0); (1, 1); (1, 2); (2, 0); (2, 1); (2, 2)].
Definition ops_in_range (p : gj_prog) : bool := forallb op_in_range (gp_ops p).
Definition left_becomes_identity (p : gj_prog) : bool := r3_eqb (abs_run (gp_ops p) top3) id3.
(** Named part: every conditional skip of an elimination is of the harmless kind. *)
Definition skips_only_exact_zero (p : gj_prog) : bool :=
  forallb (fun o => match o with OElimSkip _ _ _ cmp thr => skip_exact cmp thr | _ => true end) (gp_ops p).
Definition gj_prog_ok (p : gj_prog) : bool :=
  init_l_ok p && init_r_ok p && out_ok p && ops_in_range p && left_becomes_identity p.
