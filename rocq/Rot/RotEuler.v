(** C04 — model of MatrixBase._to_angle (Euler extraction with the gimbal-lock branch).
    The guard, the atan2 arguments of every component and the number of [% 360] reductions come from
    Gen/RotFormulas_gen.v (generated from math.py).  libm's atan2 is a Section variable. *)
From Coq Require Import Reals.
From SV Require Import Rot.RotBase Gen.RotFormulas_gen.
Open Scope R_scope.

Section Euler.
  Variable atan2 : R -> R -> R.      (* atan2 y x, as math.atan2 *)

  Definition ta_eval (c : ta_comp) : R :=
    match c with
    | TaAtan2 n y x => Nat.iter n (fun d => pymod d ta_modulus) (degrees (atan2 y x))
    | TaConst c => c
    end.
  Definition ta_ang (t : ta_comp * ta_comp * ta_comp) : ang :=
    Ang (ta_eval (fst (fst t))) (ta_eval (snd (fst t))) (ta_eval (snd t)).
  Definition to_angle (m : mat) : ang := ta_ang (if ta_guard_dec m then ta_main m else ta_lock m).
End Euler.

(** What is assumed about atan2 (visible as a premise of every exported statement): away from the origin it returns
    an angle with the right cosine and sine. *)
Definition atan2_spec (atan2 : R -> R -> R) : Prop :=
  forall y x, x * x + y * y <> 0 ->
    cos (atan2 y x) = x / sqrt (x * x + y * y) /\ sin (atan2 y x) = y / sqrt (x * x + y * y).

(** Length of the horizontal projection of the forward axis (first row). *)
Definition horiz (m : mat) : R := sqrt (aa m * aa m + ab m * ab m).

(** Largest absolute entry of the difference of two matrices is at most e. *)
Definition mat_close (e : R) (m n : mat) : Prop :=
  Rabs (aa m - aa n) <= e /\ Rabs (ab m - ab n) <= e /\ Rabs (ac m - ac n) <= e /\
  Rabs (ba m - ba n) <= e /\ Rabs (bb m - bb n) <= e /\ Rabs (bc m - bc n) <= e /\
  Rabs (ca m - ca n) <= e /\ Rabs (cb m - cb n) <= e /\ Rabs (cc m - cc n) <= e.
