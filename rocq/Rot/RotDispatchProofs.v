(** C04 — soundness of the dispatch acceptance test: an accepted table row denotes, in the real-number model built
    from the generated formulas, exactly the specification product, and leaves the operands alone. *)
From Coq Require Import Reals List Bool.
From SV Require Import Rot.RotBase Gen.RotFormulas_gen Rot.RotEuler Rot.RotDispatch.
Import ListNotations.

Inductive value := VVec (v : vec) | VMat (m : mat) | VAng (a : ang).

Lemma term_eqb_eq : forall a b, term_eqb a b = true -> a = b.
Proof.
  induction a; destruct b; cbn; intro H; try discriminate; try reflexivity;
    repeat match goal with H : _ && _ = true |- _ => apply andb_prop in H; destruct H end;
    f_equal; auto.
Qed.

Section Denote.
  Variable atan2 : R -> R -> R.

  Fixpoint denote (L R : value) (t : term) : option value :=
    match t with
    | TL => Some L
    | TR => Some R
    | TUninit => None
    | TFromAngle t => match denote L R t with Some (VAng a) => Some (VMat (from_angle_obj a)) | _ => None end
    | TToAngle t => match denote L R t with Some (VMat m) => Some (VAng (to_angle atan2 m)) | _ => None end
    | TMatMul a b =>
        match denote L R a, denote L R b with Some (VMat x), Some (VMat y) => Some (VMat (mat_mul x y)) | _, _ => None end
    | TMatMulSelf a => match denote L R a with Some (VMat x) => Some (VMat (mat_mul_self x)) | _ => None end
    | TVecRot v m =>
        match denote L R v, denote L R m with Some (VVec x), Some (VMat y) => Some (VVec (vec_rot y x)) | _, _ => None end
    end.

  Definition well_kinded (k : kind) (x : value) : Prop :=
    match k, x with KV, VVec _ | KA, VAng _ | KM, VMat _ => True | _, _ => False end.

  (** The specification, written directly with the model functions: the right operand acts as a matrix (an Angle
      through from_angle); a vector is rotated by it, a matrix is multiplied by it, an angle is converted to a
      matrix, multiplied and converted back. *)
  Definition rhs_mat (x : value) : option mat :=
    match x with VMat m => Some m | VAng a => Some (from_angle_obj a) | VVec _ => None end.
  Definition spec (L R : value) : option value :=
    match rhs_mat R with
    | None => None
    | Some m =>
      Some match L with
           | VVec v => VVec (vec_rot m v)
           | VMat x => VMat (mat_mul x m)
           | VAng a => VAng (to_angle atan2 (mat_mul (from_angle_obj a) m))
           end
    end.

  Lemma denote_expected : forall l r alias e L R,
    expected l r alias = Some e -> well_kinded (kind_of l) L -> well_kinded (kind_of r) R ->
    (alias = true -> R = L) ->
    denote L R e = spec L R /\ spec L R <> None.
  Proof.
    intros l r alias e L R He HL HR Hal. unfold expected in He.
    destruct alias.
    - rewrite (Hal eq_refl) in *. clear Hal.
      destruct (kind_of l), (kind_of r); try discriminate; destruct L; cbn in HL, HR; try contradiction;
        injection He as <-; cbn; split; (reflexivity || discriminate).
    - destruct (kind_of l), (kind_of r); try discriminate; destruct L, R; cbn in HL, HR; try contradiction;
        injection He as <-; cbn; split; (reflexivity || discriminate).
  Qed.

  (** What an accepted row means. *)
  Definition row_meaning (t : triple) : Prop :=
    forall e, expected (t_l t) (t_r t) (t_alias t) = Some e ->
    match t_out t with
    | ONone => t_form t = FRmatmul
    | OValue c i v fl fr =>
        kind_of c = kind_of (t_l t) /\
        forall L R, well_kinded (kind_of (t_l t)) L -> well_kinded (kind_of (t_r t)) R -> (t_alias t = true -> R = L) ->
          spec L R <> None /\
          denote L R v = spec L R /\
          match i with
          | IdFresh => denote L R fl = Some L /\ denote L R fr = Some R      (* neither operand was changed *)
          | IdL => t_form t = FImatmul /\ mutable (t_l t) = true /\ denote L R fl = spec L R /\
                   (t_alias t = false -> denote L R fr = Some R)             (* in place, right operand unchanged *)
          | IdR => False
          end
    end.

  Lemma kind_eqb_eq : forall a b, kind_eqb a b = true -> a = b.
  Proof. destruct a, b; cbn; congruence. Qed.
  Lemma form_eqb_eq : forall a b, form_eqb a b = true -> a = b.
  Proof. destruct a, b; cbn; congruence. Qed.

  Lemma triple_ok_sound : forall t, triple_ok t = true -> row_meaning t.
  Proof.
    intros t H e He. unfold triple_ok in H. rewrite He in H.
    destruct (t_out t) as [c i v fl fr|]; [|now apply form_eqb_eq].
    repeat match goal with H : _ && _ = true |- _ => apply andb_prop in H; destruct H end.
    match goal with H : kind_eqb _ _ = true |- _ => apply kind_eqb_eq in H end.
    match goal with H : term_eqb v e = true |- _ => apply term_eqb_eq in H; subst v end.
    split; [assumption|]. intros L R HL HR Hal.
    destruct (denote_expected _ _ _ _ L R He HL HR Hal) as [D N].
    split; [exact N|]. split; [exact D|].
    destruct i; try discriminate;
      repeat match goal with H : _ && _ = true |- _ => apply andb_prop in H; destruct H end;
      repeat match goal with H : term_eqb _ _ = true |- _ => apply term_eqb_eq in H end; subst.
    - split; [now apply form_eqb_eq|]. split; [assumption|]. split; [exact D|].
      intro Ha. rewrite Ha. reflexivity.
    - split; [reflexivity|]. destruct (t_alias t) eqn:Ea; cbn; [now rewrite Hal|reflexivity].
  Qed.

  Theorem dispatch_sound : forall tbl, table_ok tbl = true -> forall t, In t tbl -> row_meaning t.
  Proof.
    intros tbl H t Ht. unfold table_ok in H.
    apply andb_prop in H as [H _]. apply andb_prop in H as [H _]. apply andb_prop in H as [H _].
    rewrite forallb_forall in H. apply triple_ok_sound, H, Ht.
  Qed.

  (** The plain operators handle every supported pair, and the table is complete. *)
  Theorem dispatch_handled : forall tbl, table_ok tbl = true -> forall t, In t tbl ->
    expected (t_l t) (t_r t) (t_alias t) <> None -> t_form t <> FRmatmul -> t_out t <> ONone.
  Proof.
    intros tbl H t Ht He Hf. unfold table_ok in H.
    apply andb_prop in H as [H _]. apply andb_prop in H as [H _]. apply andb_prop in H as [_ H].
    rewrite forallb_forall in H. specialize (H t Ht). unfold handled in H.
    destruct (expected (t_l t) (t_r t) (t_alias t)); [|congruence].
    destruct (t_form t), (t_out t); congruence.
  Qed.

  Theorem dispatch_complete : forall tbl, table_ok tbl = true -> forall f l r,
    exists t, In t tbl /\ t_form t = f /\ t_l t = l /\ t_r t = r /\ t_alias t = false.
  Proof.
    intros tbl H f l r. unfold table_ok in H. apply andb_prop in H as [H _]. apply andb_prop in H as [_ H]. unfold covered in H.
    rewrite forallb_forall in H. assert (Hf : In f all_forms) by (destruct f; cbn; tauto).
    specialize (H f Hf). rewrite forallb_forall in H. assert (Hl : In l all_cls) by (destruct l; cbn; tauto).
    specialize (H l Hl). rewrite forallb_forall in H. assert (Hr : In r all_cls) by (destruct r; cbn; tauto).
    specialize (H r Hr). apply andb_prop in H as [H _]. apply existsb_exists in H as (t & Ht & K).
    exists t. split; [exact Ht|]. unfold key_match in K.
    repeat match goal with H : _ && _ = true |- _ => apply andb_prop in H; destruct H end.
    repeat split.
    - symmetry. now apply form_eqb_eq.
    - destruct l, (t_l t); cbn in *; congruence.
    - destruct r, (t_r t); cbn in *; congruence.
    - destruct (t_alias t); cbn in *; congruence.
  Qed.

  Lemma table_ok_triple_ok : forall tbl, table_ok tbl = true -> forall t, In t tbl -> triple_ok t = true.
  Proof.
    intros tbl H t Ht. unfold table_ok in H.
    apply andb_prop in H as [H _]. apply andb_prop in H as [H _]. apply andb_prop in H as [H _].
    rewrite forallb_forall in H. exact (H t Ht).
  Qed.

  (** Only the in-place form may return the left operand object. *)
  Lemma triple_ok_pure_fresh : forall t e c i v fl fr, triple_ok t = true ->
    expected (t_l t) (t_r t) (t_alias t) = Some e -> t_out t = OValue c i v fl fr -> t_form t <> FImatmul -> i = IdFresh.
  Proof.
    intros t e c i v fl fr H He Ho Hf. unfold triple_ok in H. rewrite He, Ho in H.
    destruct i; [exfalso|exfalso|reflexivity];
      repeat match goal with H : _ && _ = true |- _ => apply andb_prop in H; destruct H end; try discriminate.
    apply Hf. now apply form_eqb_eq.
  Qed.

  (** Round 4: the in-place protocol.  For an accepted table, `l @= r` on a supported pair returns a value; when the class
      of [l] is mutable the object returned IS the left operand and its final value is the specification product (every
      alias of the receiver sees the product); when it is frozen or a tuple the result is a new object and the receiver
      keeps its value (no store). *)
  Definition inplace_meaning (t : triple) : Prop :=
    t_form t = FImatmul -> expected (t_l t) (t_r t) (t_alias t) <> None ->
    exists c i v fl fr, t_out t = OValue c i v fl fr /\
      i = (if mutable (t_l t) then IdL else IdFresh) /\
      forall L R, well_kinded (kind_of (t_l t)) L -> well_kinded (kind_of (t_r t)) R -> (t_alias t = true -> R = L) ->
        denote L R v = spec L R /\ spec L R <> None /\
        denote L R fl = (if mutable (t_l t) then spec L R else Some L).

  Theorem dispatch_inplace : forall tbl, table_ok tbl = true -> forall t, In t tbl -> inplace_meaning t.
  Proof.
    intros tbl H t Ht Hf He.
    pose proof (dispatch_sound tbl H t Ht) as S.
    pose proof (dispatch_handled tbl H t Ht He) as Hd.
    unfold table_ok in H. apply andb_prop in H as [_ H]. rewrite forallb_forall in H. specialize (H t Ht).
    unfold inplace_ok in H. rewrite Hf in H.
    destruct (expected (t_l t) (t_r t) (t_alias t)) as [e|] eqn:Ee; [|congruence].
    specialize (S e Ee).
    destruct (t_out t) as [c i v fl fr|]; [|exfalso; apply Hd; [rewrite Hf; discriminate|reflexivity]].
    exists c, i, v, fl, fr. split; [reflexivity|].
    destruct S as [_ S].
    destruct i.
    - rewrite H. split; [reflexivity|]. intros L R HL HR Hal.
      destruct (S L R HL HR Hal) as (N & D & _ & _ & F & _). auto.
    - discriminate.
    - destruct (mutable (t_l t)); [discriminate|]. split; [reflexivity|]. intros L R HL HR Hal.
      destruct (S L R HL HR Hal) as (N & D & F & _). auto.
  Qed.

  (** The in-place variant denotes the same value as the pure one: for two rows of an accepted table that differ only in
      the form (`@` / `@=`), both return a value, the two values are equal in the model, and with a mutable receiver the
      receiver of `@=` ends up holding exactly the value `@` returns (while `@` leaves its receiver alone). *)
  Theorem inplace_agrees_with_pure : forall tbl, table_ok tbl = true -> forall t1 t2, In t1 tbl -> In t2 tbl ->
    t_form t1 = FMatmul -> t_form t2 = FImatmul -> t_l t1 = t_l t2 -> t_r t1 = t_r t2 -> t_alias t1 = t_alias t2 ->
    expected (t_l t2) (t_r t2) (t_alias t2) <> None ->
    exists c1 v1 fl1 fr1 c2 i2 v2 fl2 fr2,
      t_out t1 = OValue c1 IdFresh v1 fl1 fr1 /\ t_out t2 = OValue c2 i2 v2 fl2 fr2 /\
      i2 = (if mutable (t_l t2) then IdL else IdFresh) /\
      forall L R, well_kinded (kind_of (t_l t2)) L -> well_kinded (kind_of (t_r t2)) R -> (t_alias t2 = true -> R = L) ->
        denote L R v1 = denote L R v2 /\ denote L R fl1 = Some L /\
        denote L R fl2 = (if mutable (t_l t2) then denote L R v1 else Some L).
  Proof.
    intros tbl H t1 t2 H1 H2 F1 F2 El Er Ea He.
    destruct (dispatch_inplace tbl H t2 H2 F2 He) as (c2 & i2 & v2 & fl2 & fr2 & O2 & I2 & M2).
    pose proof (dispatch_sound tbl H t1 H1) as S1.
    assert (He1 : expected (t_l t1) (t_r t1) (t_alias t1) <> None) by (rewrite El, Er, Ea; exact He).
    pose proof (dispatch_handled tbl H t1 H1 He1) as Hd1.
    destruct (expected (t_l t1) (t_r t1) (t_alias t1)) as [e|] eqn:Ee; [|congruence].
    specialize (S1 e Ee).
    destruct (t_out t1) as [c1 i1 v1 fl1 fr1|] eqn:Eo; [|exfalso; apply Hd1; [rewrite F1; discriminate|reflexivity]].
    destruct S1 as [_ S1].
    assert (Hi : i1 = IdFresh).
    { eapply triple_ok_pure_fresh; [exact (table_ok_triple_ok tbl H t1 H1)|exact Ee|exact Eo|rewrite F1; discriminate]. }
    subst i1.
    exists c1, v1, fl1, fr1, c2, i2, v2, fl2, fr2. split; [reflexivity|]. split; [exact O2|]. split; [exact I2|].
    intros L R HL HR Hal.
    destruct (M2 L R HL HR Hal) as (D2 & N2 & Fl2).
    assert (HL1 : well_kinded (kind_of (t_l t1)) L) by (rewrite El; exact HL).
    assert (HR1 : well_kinded (kind_of (t_r t1)) R) by (rewrite Er; exact HR).
    assert (Hal1 : t_alias t1 = true -> R = L) by (rewrite Ea; exact Hal).
    destruct (S1 L R HL1 HR1 Hal1) as (_ & D1 & F1' & _).
    split; [congruence|]. split; [exact F1'|].
    rewrite Fl2. destruct (mutable (t_l t2)); congruence.
  Qed.
End Denote.

(** Round 4: `x @ Angle` and `x @ Matrix.from_angle(Angle)` are the SAME computation, not merely equal over the reals.
    The terms of the table are interpreted over arbitrary carriers and arbitrary operations (in particular: triples / nonuples
    of IEEE binary64 numbers with the float versions of from_angle, _to_angle, _mat_mul, _vec_rot, whatever they round to).
    For an accepted table the value of the row with an Angle on the right is the value of the row with a Matrix on the right
    evaluated at [from_angle] of the angle - for every such interpretation, hence bit for bit. *)
Fixpoint subst_r (s t : term) : term :=
  match t with
  | TR => s
  | TL => TL
  | TUninit => TUninit
  | TFromAngle a => TFromAngle (subst_r s a)
  | TToAngle a => TToAngle (subst_r s a)
  | TMatMul a b => TMatMul (subst_r s a) (subst_r s b)
  | TMatMulSelf a => TMatMulSelf (subst_r s a)
  | TVecRot a b => TVecRot (subst_r s a) (subst_r s b)
  end.

Lemma expected_angle_operand : forall l ra rm, kind_of ra = KA -> kind_of rm = KM ->
  expected l ra false = option_map (subst_r (TFromAngle TR)) (expected l rm false).
Proof. intros l ra rm Ha Hm. unfold expected. rewrite Ha, Hm. destruct (kind_of l); reflexivity. Qed.

Section Generic.
  Variables (GV GM GA : Type).
  Variables (g_from_angle : GA -> GM) (g_to_angle : GM -> GA) (g_mat_mul : GM -> GM -> GM) (g_mat_mul_self : GM -> GM)
            (g_vec_rot : GM -> GV -> GV).
  Inductive gvalue := GVec (v : GV) | GMat (m : GM) | GAng (a : GA).

  Fixpoint gdenote (L R : gvalue) (t : term) : option gvalue :=
    match t with
    | TL => Some L
    | TR => Some R
    | TUninit => None
    | TFromAngle t => match gdenote L R t with Some (GAng a) => Some (GMat (g_from_angle a)) | _ => None end
    | TToAngle t => match gdenote L R t with Some (GMat m) => Some (GAng (g_to_angle m)) | _ => None end
    | TMatMul a b =>
        match gdenote L R a, gdenote L R b with Some (GMat x), Some (GMat y) => Some (GMat (g_mat_mul x y)) | _, _ => None end
    | TMatMulSelf a => match gdenote L R a with Some (GMat x) => Some (GMat (g_mat_mul_self x)) | _ => None end
    | TVecRot v m =>
        match gdenote L R v, gdenote L R m with Some (GVec x), Some (GMat y) => Some (GVec (g_vec_rot y x)) | _, _ => None end
    end.

  Lemma gdenote_subst_r : forall L R s x t, gdenote L R s = Some x -> gdenote L R (subst_r s t) = gdenote L x t.
  Proof. intros L R s x t Hs. induction t; cbn; try rewrite IHt; try rewrite IHt1, IHt2; auto. Qed.

  Theorem angle_operand_same_computation : forall tbl, table_ok tbl = true -> forall t1 t2, In t1 tbl -> In t2 tbl ->
    t_form t1 = t_form t2 -> t_l t1 = t_l t2 -> kind_of (t_r t1) = KA -> kind_of (t_r t2) = KM ->
    t_alias t1 = false -> t_alias t2 = false ->
    forall c1 i1 v1 fl1 fr1 c2 i2 v2 fl2 fr2,
      t_out t1 = OValue c1 i1 v1 fl1 fr1 -> t_out t2 = OValue c2 i2 v2 fl2 fr2 ->
      forall L a, gdenote L (GAng a) v1 = gdenote L (GMat (g_from_angle a)) v2.
  Proof.
    intros tbl H t1 t2 H1 H2 Ef El Ka Km A1 A2 c1 i1 v1 fl1 fr1 c2 i2 v2 fl2 fr2 O1 O2 L a.
    pose proof (table_ok_triple_ok tbl H t1 H1) as T1. pose proof (table_ok_triple_ok tbl H t2 H2) as T2.
    unfold triple_ok in T1, T2. rewrite O1, A1 in T1. rewrite O2, A2 in T2.
    rewrite (expected_angle_operand (t_l t1) (t_r t1) (t_r t2) Ka Km), El in T1.
    destruct (expected (t_l t2) (t_r t2) false) as [e|] eqn:Ee; cbn [option_map] in T1.
    - repeat match goal with H : _ && _ = true |- _ => apply andb_prop in H; destruct H end.
      repeat match goal with H : term_eqb ?x _ = true |- _ => apply term_eqb_eq in H; try subst x end.
      apply gdenote_subst_r. reflexivity.
    - (* a Matrix on the right is always a supported pair *)
      unfold expected in Ee. rewrite Km in Ee. destruct (kind_of (t_l t2)); discriminate.
  Qed.
End Generic.
