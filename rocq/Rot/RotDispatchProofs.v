(** C04 — soundness of the dispatch acceptance test: an accepted table row denotes, in the real-number model built
    from the generated formulas, exactly the specification product, and leaves the operands alone. *)
From Coq Require Import Reals List Bool.
From SV Require Import Rot.RotBase Gen.RotFormulas_gen Rot.RotEuler Rot.RotDispatch.
Import ListNotations.

Inductive value := VVec (v : vec) | VMat (m : mat) | VAng (a : ang).

Lemma term_eqb_eq : forall a b, term_eqb a b = true -> a = b.
Proof.
  induction a; destruct b; cbn; intro H; try discriminate; try reflexivity;
    repeat match goal with H : _ && _ = true |- _ => apply andb_prop in H; destruct H end;
    f_equal; auto.
Qed.

Section Denote.
  Variable atan2 : R -> R -> R.

  Fixpoint denote (L R : value) (t : term) : option value :=
    match t with
    | TL => Some L
    | TR => Some R
    | TUninit => None
    | TFromAngle t => match denote L R t with Some (VAng a) => Some (VMat (from_angle_obj a)) | _ => None end
    | TToAngle t => match denote L R t with Some (VMat m) => Some (VAng (to_angle atan2 m)) | _ => None end
    | TMatMul a b =>
        match denote L R a, denote L R b with Some (VMat x), Some (VMat y) => Some (VMat (mat_mul x y)) | _, _ => None end
    | TMatMulSelf a => match denote L R a with Some (VMat x) => Some (VMat (mat_mul_self x)) | _ => None end
    | TVecRot v m =>
        match denote L R v, denote L R m with Some (VVec x), Some (VMat y) => Some (VVec (vec_rot y x)) | _, _ => None end
    end.

  Definition well_kinded (k : kind) (x : value) : Prop :=
    match k, x with KV, VVec _ | KA, VAng _ | KM, VMat _ => True | _, _ => False end.

  (** The specification, written directly with the model functions: the right operand acts as a matrix (an Angle
      through from_angle); a vector is rotated by it, a matrix is multiplied by it, an angle is converted to a
      matrix, multiplied and converted back. *)
  Definition rhs_mat (x : value) : option mat :=
    match x with VMat m => Some m | VAng a => Some (from_angle_obj a) | VVec _ => None end.
  Definition spec (L R : value) : option value :=
    match rhs_mat R with
    | None => None
    | Some m =>
      Some match L with
           | VVec v => VVec (vec_rot m v)
           | VMat x => VMat (mat_mul x m)
           | VAng a => VAng (to_angle atan2 (mat_mul (from_angle_obj a) m))
           end
    end.

  Lemma denote_expected : forall l r alias e L R,
    expected l r alias = Some e -> well_kinded (kind_of l) L -> well_kinded (kind_of r) R ->
    (alias = true -> R = L) ->
    denote L R e = spec L R /\ spec L R <> None.
  Proof.
    intros l r alias e L R He HL HR Hal. unfold expected in He.
    destruct alias.
    - rewrite (Hal eq_refl) in *. clear Hal.
      destruct (kind_of l), (kind_of r); try discriminate; destruct L; cbn in HL, HR; try contradiction;
        injection He as <-; cbn; split; (reflexivity || discriminate).
    - destruct (kind_of l), (kind_of r); try discriminate; destruct L, R; cbn in HL, HR; try contradiction;
        injection He as <-; cbn; split; (reflexivity || discriminate).
  Qed.

  (** What an accepted row means. *)
  Definition row_meaning (t : triple) : Prop :=
    forall e, expected (t_l t) (t_r t) (t_alias t) = Some e ->
    match t_out t with
    | ONone => t_form t = FRmatmul
    | OValue c i v fl fr =>
        kind_of c = kind_of (t_l t) /\
        forall L R, well_kinded (kind_of (t_l t)) L -> well_kinded (kind_of (t_r t)) R -> (t_alias t = true -> R = L) ->
          spec L R <> None /\
          denote L R v = spec L R /\
          match i with
          | IdFresh => denote L R fl = Some L /\ denote L R fr = Some R      (* neither operand was changed *)
          | IdL => t_form t = FImatmul /\ mutable (t_l t) = true /\ denote L R fl = spec L R /\
                   (t_alias t = false -> denote L R fr = Some R)             (* in place, right operand unchanged *)
          | IdR => False
          end
    end.

  Lemma kind_eqb_eq : forall a b, kind_eqb a b = true -> a = b.
  Proof. destruct a, b; cbn; congruence. Qed.
  Lemma form_eqb_eq : forall a b, form_eqb a b = true -> a = b.
  Proof. destruct a, b; cbn; congruence. Qed.

  Lemma triple_ok_sound : forall t, triple_ok t = true -> row_meaning t.
  Proof.
    intros t H e He. unfold triple_ok in H. rewrite He in H.
    destruct (t_out t) as [c i v fl fr|]; [|now apply form_eqb_eq].
    repeat match goal with H : _ && _ = true |- _ => apply andb_prop in H; destruct H end.
    match goal with H : kind_eqb _ _ = true |- _ => apply kind_eqb_eq in H end.
    match goal with H : term_eqb v e = true |- _ => apply term_eqb_eq in H; subst v end.
    split; [assumption|]. intros L R HL HR Hal.
    destruct (denote_expected _ _ _ _ L R He HL HR Hal) as [D N].
    split; [exact N|]. split; [exact D|].
    destruct i; try discriminate;
      repeat match goal with H : _ && _ = true |- _ => apply andb_prop in H; destruct H end;
      repeat match goal with H : term_eqb _ _ = true |- _ => apply term_eqb_eq in H end; subst.
    - split; [now apply form_eqb_eq|]. split; [assumption|]. split; [exact D|].
      intro Ha. rewrite Ha. reflexivity.
    - split; [reflexivity|]. destruct (t_alias t) eqn:Ea; cbn; [now rewrite Hal|reflexivity].
  Qed.

  Theorem dispatch_sound : forall tbl, table_ok tbl = true -> forall t, In t tbl -> row_meaning t.
  Proof.
    intros tbl H t Ht. unfold table_ok in H.
    apply andb_prop in H as [H _]. apply andb_prop in H as [H _].
    rewrite forallb_forall in H. apply triple_ok_sound, H, Ht.
  Qed.

  (** The plain operators handle every supported pair, and the table is complete. *)
  Theorem dispatch_handled : forall tbl, table_ok tbl = true -> forall t, In t tbl ->
    expected (t_l t) (t_r t) (t_alias t) <> None -> t_form t <> FRmatmul -> t_out t <> ONone.
  Proof.
    intros tbl H t Ht He Hf. unfold table_ok in H.
    apply andb_prop in H as [H _]. apply andb_prop in H as [_ H].
    rewrite forallb_forall in H. specialize (H t Ht). unfold handled in H.
    destruct (expected (t_l t) (t_r t) (t_alias t)); [|congruence].
    destruct (t_form t), (t_out t); congruence.
  Qed.

  Theorem dispatch_complete : forall tbl, table_ok tbl = true -> forall f l r,
    exists t, In t tbl /\ t_form t = f /\ t_l t = l /\ t_r t = r /\ t_alias t = false.
  Proof.
    intros tbl H f l r. unfold table_ok in H. apply andb_prop in H as [_ H]. unfold covered in H.
    rewrite forallb_forall in H. assert (Hf : In f all_forms) by (destruct f; cbn; tauto).
    specialize (H f Hf). rewrite forallb_forall in H. assert (Hl : In l all_cls) by (destruct l; cbn; tauto).
    specialize (H l Hl). rewrite forallb_forall in H. assert (Hr : In r all_cls) by (destruct r; cbn; tauto).
    specialize (H r Hr). apply andb_prop in H as [H _]. apply existsb_exists in H as (t & Ht & K).
    exists t. split; [exact Ht|]. unfold key_match in K.
    repeat match goal with H : _ && _ = true |- _ => apply andb_prop in H; destruct H end.
    repeat split.
    - symmetry. now apply form_eqb_eq.
    - destruct l, (t_l t); cbn in *; congruence.
    - destruct r, (t_r t); cbn in *; congruence.
    - destruct (t_alias t); cbn in *; congruence.
  Qed.
End Denote.
