(** C04 — the reified pieces (Gen/RotReified_gen.v) denote the generated formulas (Gen/RotFormulas_gen.v), and what
    the decidable acceptance tests of Rot/RotReify.v mean.
      [ta_guard_tied], [mat_mul_self_tied], [mat_mul_ss_tied]: the translator's expansion is right (ring);
      [guard_ok_horiz]: an accepted guard is "horizontal length of the forward row > 1/1000" (generic in the guard);
      [alias_ok_safe]: equal polynomial lists make _mat_mul safe for one object on both sides. *)
From Coq Require Import Reals Lra ZArith QArith Qreals List Bool.
From SV Require Import Rot.RotBase Rot.RotGJ Rot.RotReify Gen.RotFormulas_gen Gen.RotReified_gen Rot.RotEuler.
Import ListNotations.
Local Open Scope R_scope.

Lemma atom_eqb_eq : forall a b, atom_eqb a b = true -> a = b.
Proof. intros [i|i] [j|j] H; cbn in H; try discriminate; apply Nat.eqb_eq in H; subst; reflexivity. Qed.
Lemma list_eqb_eq' : forall {A} (e : A -> A -> bool), (forall x y, e x y = true -> x = y) ->
  forall a b, list_eqb e a b = true -> a = b.
Proof.
  intros A e He. induction a as [|x a IH]; intros [|y b] H; try discriminate; [reflexivity|].
  cbn in H. apply andb_prop in H as [H1 H2]. f_equal; [apply He, H1 | apply IH, H2].
Qed.
Lemma term_eqb_eq : forall a b, term_eqb a b = true -> a = b.
Proof.
  intros [c m] [d n] H. unfold term_eqb in H; cbn in H. apply andb_prop in H as [H1 H2].
  apply Z.eqb_eq in H1. apply (list_eqb_eq' _ atom_eqb_eq) in H2. subst. reflexivity.
Qed.
Lemma poly_eqb_eq : forall p q, poly_eqb p q = true -> p = q.
Proof. exact (list_eqb_eq' _ term_eqb_eq). Qed.

(** ** the guard *)
Theorem guard_ok_horiz : forall c, guard_cfg_ok c = true -> forall m, guard_den c m <-> horiz m > 1 / 1000.
Proof.
  intros [op lhs rhs] H m. unfold guard_cfg_ok, guard_operator_ok, guard_literal_ok, guard_operand_ok in H; cbn in H.
  apply andb_prop in H as [H H3]. apply andb_prop in H as [H1 H2].
  destruct op; try discriminate. destruct lhs as [p|p]; [discriminate|]. apply poly_eqb_eq in H3. subst p.
  apply Qeq_bool_eq, Qeq_eqR in H2. unfold guard_den; cbn [g_op g_lhs g_rhs cmp_den gexpr_den]. rewrite H2.
  replace (Q2R (1 # 1000)) with (1 / 1000) by (unfold Q2R; cbn; lra).
  unfold horiz, horiz_sq_poly; cbn [poly_den mono_den atom_den slot_of fst snd].
  match goal with |- sqrt ?a > _ <-> sqrt ?b > _ => replace a with b by ring end. tauto.
Qed.

(** The reified guard is the generated guard. *)
Lemma ta_guard_tied : forall s, ta_guard s <-> guard_den ta_guard_cfg s.
Proof.
  intro s. unfold ta_guard, guard_den, ta_guard_cfg; cbn [g_op g_lhs g_rhs cmp_den gexpr_den].
  unfold Q2R; cbn [Qnum Qden poly_den mono_den atom_den slot_of fst snd].
  match goal with
  | |- (?f (sqrt ?a) ?c) <-> (?g (sqrt ?b) ?d) => replace b with a by ring; replace d with c by lra; tauto
  | |- (?f ?a ?c) <-> (?g ?b ?d) => replace b with a by ring; replace d with c by lra; tauto
  end.
Qed.

(** Hence: if today's guard is accepted, the generated test is the engine's threshold on the horizontal length. *)
Theorem ta_guard_accepted_horiz : guard_cfg_ok ta_guard_cfg = true -> forall m, ta_guard m <-> horiz m > 1 / 1000.
Proof. intros H m. rewrite ta_guard_tied. apply guard_ok_horiz, H. Qed.

(** ** the pitch component *)
Theorem pitch_ok_meaning : forall c, pitch_ok c = true -> forall s t, comp_den s c t ->
  exists n, t = TaAtan2 n (- ac s) (horiz s).
Proof.
  intros c H s t D. destruct c as [[y|y] [x|x] | q |]; try discriminate.
  cbn [pitch_ok] in H. apply andb_prop in H as [H1 H2]. apply poly_eqb_eq in H1, H2. subst y x.
  destruct t as [n y' x' | c']; cbn [comp_den] in D; [|contradiction]. destruct D as [D1 D2]. exists n. subst y' x'.
  unfold horiz, neg_forz_poly, horiz_sq_poly; cbn [gexpr_den poly_den mono_den atom_den slot_of fst snd].
  f_equal; [ring | f_equal; ring].
Qed.
(** The reified pitch components are the generated ones (both branches). *)
Lemma ta_pitch_tied : forall s,
  comp_den s ta_pitch_main_cfg (fst (fst (ta_main s))) /\ comp_den s ta_pitch_lock_cfg (fst (fst (ta_lock s))).
Proof.
  intro s. unfold ta_pitch_main_cfg, ta_pitch_lock_cfg, ta_main, ta_lock; cbn [fst snd comp_den].
  unfold Q2R; cbn [gexpr_den Qnum Qden poly_den mono_den atom_den slot_of fst snd].
  split; repeat split; first [ring | f_equal; ring | lra].
Qed.

(** ** aliasing in _mat_mul *)
Lemma cons_eq : forall {A} (a b : A) l l', a = b -> l = l' -> a :: l = b :: l'.
Proof. intros; subst; reflexivity. Qed.
Lemma mat_mul_self_tied : forall s, map (poly_den s s) mat_mul_self_polys = entries (mat_mul_self s).
Proof.
  intro s. unfold mat_mul_self_polys, mat_mul_self, entries; cbn [map poly_den mono_den atom_den slot_of fst snd aa ab ac ba bb bc ca cb cc].
  repeat (apply cons_eq; [ring|]). reflexivity.
Qed.
Lemma mat_mul_ss_tied : forall s, map (poly_den s s) mat_mul_ss_polys = entries (mat_mul s s).
Proof.
  intro s. unfold mat_mul_ss_polys, mat_mul, entries; cbn [map poly_den mono_den atom_den slot_of fst snd aa ab ac ba bb bc ca cb cc].
  repeat (apply cons_eq; [ring|]). reflexivity.
Qed.
Lemma entries_inj : forall m n, entries m = entries n -> m = n.
Proof. intros [] [] H. unfold entries in H; cbn in H. injection H as -> -> -> -> -> -> -> -> ->. reflexivity. Qed.

Theorem alias_ok_safe : polys_eqb mat_mul_self_polys mat_mul_ss_polys = true -> forall s, mat_mul_self s = mat_mul s s.
Proof.
  intros H s. apply (list_eqb_eq' _ poly_eqb_eq) in H. apply entries_inj.
  rewrite <- mat_mul_self_tied, <- mat_mul_ss_tied, H. reflexivity.
Qed.
