(** C04 — rotation layer, base definitions (hand written, tiny).
    3-vectors, 3x3 matrices (row major, entries named as the slots of srctools.math.MatrixBase) and Euler angles
    over the classical reals.  Every FORMULA (from_angle, _mat_mul, _vec_rot, ...) lives in Gen/RotFormulas_gen.v and
    is regenerated from math.py; only the carriers and the unit conversions are defined here. *)
From Coq Require Import Reals.
Open Scope R_scope.

Record vec := Vec3 { vx : R; vy : R; vz : R }.
Record mat := Mat { aa : R; ab : R; ac : R;  ba : R; bb : R; bc : R;  ca : R; cb : R; cc : R }.
Record ang := Ang { a_pitch : R; a_yaw : R; a_roll : R }.

(** math.radians / math.degrees as real functions (libm rounding is outside the model). *)
Definition radians (d : R) : R := d * PI / 180.
Definition degrees (t : R) : R := t * 180 / PI.

(** Python's float [%] with a positive modulus, as a real function: x - m * floor (x / m). *)
Definition pymod (x m : R) : R := x - m * IZR (Int_part (x / m)).

Definition I3 : mat := Mat 1 0 0  0 1 0  0 0 1.

Definition det (m : mat) : R :=
  aa m * (bb m * cc m - bc m * cb m) - ab m * (ba m * cc m - bc m * ca m) + ac m * (ba m * cb m - bb m * ca m).

(** "proper rotation": orthonormal rows, determinant +1 (the wording of the property). *)
Definition orthonormal (m : mat) : Prop :=
  aa m * aa m + ab m * ab m + ac m * ac m = 1 /\
  ba m * ba m + bb m * bb m + bc m * bc m = 1 /\
  ca m * ca m + cb m * cb m + cc m * cc m = 1 /\
  aa m * ba m + ab m * bb m + ac m * bc m = 0 /\
  aa m * ca m + ab m * cb m + ac m * cc m = 0 /\
  ba m * ca m + bb m * cb m + bc m * cc m = 0.
Definition rotation (m : mat) : Prop := orthonormal m /\ det m = 1.

Lemma mat_ext : forall a1 a2 a3 b1 b2 b3 c1 c2 c3 a1' a2' a3' b1' b2' b3' c1' c2' c3',
  a1 = a1' -> a2 = a2' -> a3 = a3' -> b1 = b1' -> b2 = b2' -> b3 = b3' -> c1 = c1' -> c2 = c2' -> c3 = c3' ->
  Mat a1 a2 a3 b1 b2 b3 c1 c2 c3 = Mat a1' a2' a3' b1' b2' b3' c1' c2' c3'.
Proof. intros; subst; reflexivity. Qed.
Lemma vec_ext : forall x y z x' y' z', x = x' -> y = y' -> z = z' -> Vec3 x y z = Vec3 x' y' z'.
Proof. intros; subst; reflexivity. Qed.
Lemma mat_eta : forall m, m = Mat (aa m) (ab m) (ac m) (ba m) (bb m) (bc m) (ca m) (cb m) (cc m).
Proof. destruct m; reflexivity. Qed.

(** One component of the Euler extraction [_to_angle]: either [degrees (atan2 y x)] reduced [nmod] times modulo 360,
    or a constant.  The arguments are generated from the source. *)
Inductive ta_comp := TaAtan2 (nmod : nat) (y x : R) | TaConst (c : R).
