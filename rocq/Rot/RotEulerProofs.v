(** C04 — Euler extraction: round trip outside the gimbal band, error bound inside it.  Proofs. *)
From Coq Require Import Reals Lra Psatz Nsatz ZArith.
From SV Require Import Rot.RotBase Gen.RotFormulas_gen Rot.RotAlgebra Rot.RotEuler.
Open Scope R_scope.

(** *** degrees / radians / % 360 are invisible to sin and cos *)
Lemma radians_degrees : forall t, radians (degrees t) = t.
Proof. intro t. unfold radians, degrees. field. apply PI_neq0. Qed.

Lemma cos_shift_nat : forall x (n : nat), cos (x - 2 * PI * INR n) = cos x /\ sin (x - 2 * PI * INR n) = sin x.
Proof.
  intros x n. split.
  - rewrite <- (cos_period (x - 2 * PI * INR n) n). f_equal. ring.
  - rewrite <- (sin_period (x - 2 * PI * INR n) n). f_equal. ring.
Qed.
Lemma trig_shift_Z : forall x (k : Z), cos (x - 2 * PI * IZR k) = cos x /\ sin (x - 2 * PI * IZR k) = sin x.
Proof.
  intros x k. destruct (Z_le_gt_dec 0 k) as [H|H].
  - rewrite <- (Z2Nat.id k H), <- INR_IZR_INZ. apply cos_shift_nat.
  - assert (E : k = (- Z.of_nat (Z.to_nat (- k)))%Z) by (rewrite Z2Nat.id; lia).
    rewrite E, opp_IZR, <- INR_IZR_INZ.
    replace (x - 2 * PI * - INR (Z.to_nat (- k))) with (x + 2 * INR (Z.to_nat (- k)) * PI) by ring.
    split; [apply cos_period | apply sin_period].
Qed.

Lemma trig_pymod360 : forall d,
  cos (radians (pymod d ta_modulus)) = cos (radians d) /\ sin (radians (pymod d ta_modulus)) = sin (radians d).
Proof.
  intro d. unfold pymod, ta_modulus.
  replace (radians (d - 360 * IZR (Int_part (d / 360)))) with (radians d - 2 * PI * IZR (Int_part (d / 360)))
    by (unfold radians; field).
  apply trig_shift_Z.
Qed.

Lemma trig_iter_pymod : forall n d,
  cos (radians (Nat.iter n (fun d => pymod d ta_modulus) d)) = cos (radians d) /\
  sin (radians (Nat.iter n (fun d => pymod d ta_modulus) d)) = sin (radians d).
Proof.
  induction n as [|n IH]; intro d; [split; reflexivity|].
  change (Nat.iter (S n) (fun d0 => pymod d0 ta_modulus) d)
    with (pymod (Nat.iter n (fun d0 => pymod d0 ta_modulus) d) ta_modulus).
  destruct (trig_pymod360 (Nat.iter n (fun d => pymod d ta_modulus) d)) as [-> ->]. apply IH.
Qed.

Section WithAtan2.
  Variable atan2 : R -> R -> R.
  Hypothesis A : atan2_spec atan2.

  Lemma ta_eval_trig : forall n y x, x * x + y * y <> 0 ->
    cos (radians (ta_eval atan2 (TaAtan2 n y x))) = x / sqrt (x * x + y * y) /\
    sin (radians (ta_eval atan2 (TaAtan2 n y x))) = y / sqrt (x * x + y * y).
  Proof.
    intros n y x H. cbn [ta_eval]. destruct (trig_iter_pymod n (degrees (atan2 y x))) as [-> ->].
    rewrite radians_degrees. apply A, H.
  Qed.

  (** The guard in the source is the comparison of the horizontal length with 0.001. *)
  Lemma ta_guard_horiz : forall m, ta_guard m <-> horiz m > 1 / 1000.
  Proof.
    intro m. unfold ta_guard, horiz.
    match goal with |- context [sqrt ?e] => replace e with (aa m * aa m + ab m * ab m) by ring end.
    tauto.
  Qed.

  (** Facts about a rotation used by both branches. *)
  Lemma rot_facts : forall m, rotation m ->
    let h := horiz m in
    0 <= h /\ h * h = aa m * aa m + ab m * ab m /\ h * h + ac m * ac m = 1 /\ bc m * bc m + cc m * cc m = h * h /\
    ba m * ba m + bb m * bb m = 1 - bc m * bc m.
  Proof.
    intros m Hm h. pose proof (orthonormal_transpose m Hm) as (T1 & T2 & T3 & _).
    destruct Hm as [(H1 & H2 & H3 & _) _]. unfold transpose in *; cbn [aa ab ac ba bb bc ca cb cc] in *.
    assert (Hh : h * h = aa m * aa m + ab m * ab m) by (unfold h, horiz; apply sqrt_sqrt; nra).
    repeat split; try lra. apply sqrt_pos.
  Qed.

  (** *** Round trip outside the gimbal band *)
  Lemma euler_roundtrip : forall m, rotation m -> horiz m > 1 / 1000 ->
    from_angle_obj (to_angle atan2 m) = m.
  Proof.
    intros m Hm Hh. pose proof (rot_facts m Hm) as (h0 & hh & h1 & h2 & _).
    destruct (rotation_cross m Hm) as (C1 & C2 & C3).
    pose proof Hm as [(O1 & O2 & O3 & O4 & O5 & O6) _].
    unfold to_angle. destruct (ta_guard_dec m) as [G|G]; [|exfalso; apply G, ta_guard_horiz, Hh].
    rewrite from_angle_obj_eq. unfold ta_ang, ta_main; cbn [fst snd a_pitch a_yaw a_roll].
    match goal with |- context [sqrt ?e] => replace (sqrt e) with (horiz m) by (unfold horiz; f_equal; ring) end.
    set (h := horiz m) in *.
    assert (hpos : 0 < h) by lra.
    (* the number of [% 360] reductions of each component is whatever the source has today *)
    match goal with |- context [ta_eval atan2 (TaAtan2 ?n (- ac m) h)] =>
      destruct (ta_eval_trig n (- ac m) h) as [Ecp Esp]; [nra|] end.
    match goal with |- context [ta_eval atan2 (TaAtan2 ?n (ab m) (aa m))] =>
      destruct (ta_eval_trig n (ab m) (aa m)) as [Ecy Esy]; [nra|] end.
    match goal with |- context [ta_eval atan2 (TaAtan2 ?n (bc m) (cc m))] =>
      destruct (ta_eval_trig n (bc m) (cc m)) as [Ecr Esr]; [nra|] end.
    replace (h * h + - ac m * - ac m) with 1 in Ecp, Esp by lra. rewrite sqrt_1 in Ecp, Esp.
    replace (aa m * aa m + ab m * ab m) with (h * h) in Ecy, Esy by lra.
    replace (cc m * cc m + bc m * bc m) with (h * h) in Ecr, Esr by lra.
    rewrite (sqrt_square h h0) in Ecy, Esy, Ecr, Esr.
    unfold from_angle.
    rewrite Ecp, Esp, Ecy, Esy, Ecr, Esr. clear Ecp Esp Ecy Esy Ecr Esr.
    unfold Rdiv. rewrite Rinv_1.
    assert (hi : h * / h = 1) by (field; lra). revert hi. generalize (/ h). intros ih hi.
    clearbody h. clear G Hh Hm h0 hpos.
    destruct m as [a1 a2 a3 b1 b2 b3 c1 c2 c3]; cbn [aa ab ac ba bb bc ca cb cc] in *.
    subst c1 c2 c3.
    apply mat_ext; nsatz.
  Qed.

  (** *** Inside the gimbal band: every entry is reproduced within twice the horizontal length *)
  Lemma radians_0 : radians 0 = 0.
  Proof. unfold radians. field. Qed.

  Lemma gimbal_error_bound : forall m, rotation m -> horiz m <= 1 / 1000 ->
    mat_close (2 * horiz m) (from_angle_obj (to_angle atan2 m)) m.
  Proof.
    intros m Hm Hh. pose proof (rot_facts m Hm) as (h0 & hh & h1 & h2 & h3).
    destruct (rotation_cross m Hm) as (C1 & C2 & C3).
    unfold to_angle. destruct (ta_guard_dec m) as [G|G]; [apply ta_guard_horiz in G; lra|].
    rewrite from_angle_obj_eq. unfold ta_ang, ta_lock; cbn [fst snd a_pitch a_yaw a_roll].
    match goal with |- context [sqrt ?e] => replace (sqrt e) with (horiz m) by (unfold horiz; f_equal; ring) end.
    set (h := horiz m) in *.
    assert (bcb : bc m * bc m <= h * h) by nra.
    assert (n2pos : 0 < bb m * bb m + - ba m * - ba m) by nra.
    match goal with |- context [ta_eval atan2 (TaAtan2 ?n (- ac m) h)] =>
      destruct (ta_eval_trig n (- ac m) h) as [Ecp Esp]; [nra|] end.
    match goal with |- context [ta_eval atan2 (TaAtan2 ?n (- ba m) (bb m))] =>
      destruct (ta_eval_trig n (- ba m) (bb m)) as [Ecy Esy]; [lra|] end.
    replace (h * h + - ac m * - ac m) with 1 in Ecp, Esp by lra. rewrite sqrt_1 in Ecp, Esp.
    set (n := sqrt (bb m * bb m + - ba m * - ba m)) in *.
    assert (npos : 0 < n) by (apply sqrt_lt_R0, n2pos).
    assert (nn : n * n = 1 - bc m * bc m) by (unfold n; rewrite sqrt_sqrt; lra).
    unfold from_angle.
    rewrite Ecp, Esp, Ecy, Esy. cbn [ta_eval]. rewrite radians_0, cos_0, sin_0. clear Ecp Esp Ecy Esy.
    unfold Rdiv. rewrite Rinv_1.
    assert (ni : n * / n = 1) by (field; lra). revert ni. generalize (/ n). intros i ni.
    clearbody n h. clear G Hm n2pos.
    destruct m as [a1 a2 a3 b1 b2 b3 c1 c2 c3]; cbn [aa ab ac ba bb bc ca cb cc] in *.
    subst c1 c2 c3.
    pose (p := b2 * i). pose (q := b1 * i).
    assert (n1 : n <= 1) by nra.
    assert (pn : p * n = b2) by (unfold p; replace (b2 * i * n) with (b2 * (n * i)) by ring; rewrite ni; ring).
    assert (qn : q * n = b1) by (unfold q; replace (b1 * i * n) with (b1 * (n * i)) by ring; rewrite ni; ring).
    assert (pq : p * p + q * q = 1).
    { replace 1 with ((n * i) * (n * i)) by (rewrite ni; ring).
      replace (n * i * (n * i)) with ((n * n) * (i * i)) by ring. rewrite nn.
      replace (1 - b3 * b3) with (b1 * b1 + b2 * b2) by lra. unfold p, q. ring. }
    assert (gap : 0 <= 1 - n <= h * h) by nra.
    assert (pb : -1 <= p <= 1) by nra.
    assert (qb : -1 <= q <= 1) by nra.
    assert (dp : - (h * h) <= p - b2 <= h * h).
    { replace (p - b2) with (p * (1 - n)) by (rewrite <- pn; ring). nra. }
    assert (dq : - (h * h) <= q - b1 <= h * h).
    { replace (q - b1) with (q * (1 - n)) by (rewrite <- qn; ring). nra. }
    assert (hsq : h * h <= h) by nra.
    assert (a1b : - h <= a1 <= h) by nra.
    assert (a2b : - h <= a2 <= h) by nra.
    assert (a3b : - 1 <= a3 <= 1) by nra.
    assert (b3b : - h <= b3 <= h) by nra.
    assert (c3b : - h <= a1 * b2 - a2 * b1 <= h) by nra.
    unfold mat_close; cbn [aa ab ac ba bb bc ca cb cc].
    repeat split; apply Rabs_le.
    - match goal with |- _ <= ?e <= _ => replace e with (h * p - a1) by (unfold p; ring) end. nra.
    - match goal with |- _ <= ?e <= _ => replace e with (- (h * q) - a2) by (unfold q; ring) end. nra.
    - match goal with |- _ <= ?e <= _ => replace e with 0 by ring end. lra.
    - match goal with |- _ <= ?e <= _ => replace e with (q - b1) by (unfold q; ring) end. lra.
    - match goal with |- _ <= ?e <= _ => replace e with (p - b2) by (unfold p; ring) end. lra.
    - match goal with |- _ <= ?e <= _ => replace e with (- b3) by ring end. lra.
    - match goal with |- _ <= ?e <= _ => replace e with (- a3 * (p - b2) - a2 * b3) by (unfold p; ring) end.
      assert (- (h * h) <= a3 * (p - b2) <= h * h) by nra.
      assert (- (h * h) <= a2 * b3 <= h * h) by nra. lra.
    - match goal with |- _ <= ?e <= _ => replace e with (a3 * (q - b1) + a1 * b3) by (unfold q; ring) end.
      assert (- (h * h) <= a3 * (q - b1) <= h * h) by nra.
      assert (- (h * h) <= a1 * b3 <= h * h) by nra. lra.
    - match goal with |- _ <= ?e <= _ => replace e with (h - (a1 * b2 - a2 * b1)) by ring end. lra.
  Qed.
End WithAtan2.

(** Non-vacuity witnesses for the hypotheses of the two Euler theorems. *)
Lemma rotation_I3_main : rotation I3 /\ horiz I3 > 1 / 1000.
Proof.
  split.
  - unfold rotation, orthonormal, det, I3; cbn [aa ab ac ba bb bc ca cb cc]. repeat split; ring.
  - unfold horiz, I3; cbn [aa ab]. replace (1 * 1 + 0 * 0) with 1 by ring. rewrite sqrt_1. lra.
Qed.
Lemma rotation_pole_lock :
  rotation (Mat 0 0 (-1)  0 1 0  1 0 0) /\ horiz (Mat 0 0 (-1)  0 1 0  1 0 0) <= 1 / 1000.
Proof.
  split.
  - unfold rotation, orthonormal, det; cbn [aa ab ac ba bb bc ca cb cc]. repeat split; ring.
  - unfold horiz; cbn [aa ab]. replace (0 * 0 + 0 * 0) with 0 by ring. rewrite sqrt_0. lra.
Qed.
