(** C04 — IEEE binary64 round-to-nearest-even satisfies the hypothesis of the running error analysis (Flocq). *)
From Coq Require Import ZArith QArith Reals Qreals Lra.
From Flocq Require Import Core Relative.
From SV Require Import Rot.RotRound Rot.RotRoundProofs.
Local Open Scope R_scope.

(** The rounding of binary64 (precision 53, smallest exponent -1074), ties to even, as a function on the reals: what an
    IEEE addition / subtraction / multiplication returns for the exact result [t] when it does not overflow. *)
Definition rnd64 (t : R) : R := round radix2 (FLT_exp (-1074) 53) ZnearestE t.

Lemma u64_bpow : Q2R u64 = / 2 * bpow radix2 (-53 + 1).
Proof.
  unfold u64, Q2R. cbn [Qnum Qden].
  replace (bpow radix2 (-53 + 1)) with (/ IZR (Z.pow_pos 2 52)) by reflexivity.
  replace (Z.pos (2 ^ 53)) with (2 * Z.pow_pos 2 52)%Z by (vm_compute; reflexivity).
  rewrite mult_IZR.
  assert (0 < IZR (Z.pow_pos 2 52)) by (apply IZR_lt; vm_compute; reflexivity).
  field. lra.
Qed.
Lemma eta64_bpow : Q2R eta64 = / 2 * bpow radix2 (-1074).
Proof.
  unfold eta64, Q2R. cbn [Qnum Qden].
  replace (bpow radix2 (-1074)) with (/ IZR (Z.pow_pos 2 1074)) by reflexivity.
  replace (Z.pos (2 ^ 1075)) with (2 * Z.pow_pos 2 1074)%Z by (vm_compute; reflexivity).
  rewrite mult_IZR.
  assert (0 < IZR (Z.pow_pos 2 1074)) by (apply IZR_lt; vm_compute; reflexivity).
  field. lra.
Qed.

Theorem rnd64_error : forall t, Rabs (rnd64 t - t) <= Q2R u64 * Rabs t + Q2R eta64.
Proof.
  intro t. unfold rnd64.
  destruct (error_N_FLT radix2 (-1074) 53 ltac:(reflexivity) (fun x => negb (Z.even x)) t) as (eps & eta & He & Ht & _ & Heq).
  rewrite Heq, u64_bpow, eta64_bpow.
  replace (t * (1 + eps) + eta - t) with (t * eps + eta) by ring.
  eapply Rle_trans; [apply Rabs_triang|]. rewrite Rabs_mult.
  pose proof (Rabs_pos t).
  assert (Rabs t * Rabs eps <= Rabs t * (/ 2 * bpow radix2 (-53 + 1))) by (apply Rmult_le_compat_l; assumption).
  lra.
Qed.
Lemma rnd64_error_w : forall t, Rabs (rnd64 t - t) <= Q2R u64 * Rabs t + Q2R eta64w.
Proof.
  intro t. pose proof (rnd64_error t) as H.
  assert (Q2R eta64 <= Q2R eta64w) by (apply Qle_Rle, Qle_bool_iff; vm_compute; reflexivity).
  lra.
Qed.
Lemma u64_nonneg : 0 <= Q2R u64.
Proof. rewrite u64_bpow. pose proof (bpow_ge_0 radix2 (-53 + 1)). lra. Qed.

(** The composed statement: for every list of expression trees accepted by the decidable test [errs_within bm bv tol],
    every tree, evaluated with binary64 rounding after each operation on inputs bounded by [bm] (matrix slots) and [bv]
    (vector components), is within [tol] of its exact value. *)
Theorem binary64_error_within : forall bm bv tol es, errs_within bm bv tol es = true ->
  forall env, (forall n, Rabs (env n) <= Q2R (bounds bm bv n)) ->
  forall e, List.In e es -> Rabs (fe_fl rnd64 env e - fe_exact env e) <= Q2R tol.
Proof.
  intros bm bv tol es Hok env Henv e Hin.
  unfold errs_within in Hok. rewrite List.forallb_forall in Hok. specialize (Hok e Hin).
  eapply Rle_trans; [apply (fe_error_bound rnd64 u64 eta64w rnd64_error_w u64_nonneg _ env Henv e)|].
  apply Qle_bool_R, Hok.
Qed.

(** The same with inexact inputs: every input bounded by [b] and known within [d]. *)
Theorem binary64_error_within_in : forall b d tol es, errs_within_in b d tol es = true ->
  forall env env', (forall n, Rabs (env n) <= Q2R b) -> (forall n, Rabs (env' n - env n) <= Q2R d) ->
  forall e, List.In e es -> Rabs (fe_fl rnd64 env' e - fe_exact env e) <= Q2R tol.
Proof.
  intros b d tol es Hok env env' Henv Henv' e Hin.
  unfold errs_within_in in Hok. rewrite List.forallb_forall in Hok. specialize (Hok e Hin).
  eapply Rle_trans;
    [apply (fe_error_bound_in rnd64 u64 eta64w rnd64_error_w u64_nonneg (fun _ => b) (fun _ => d) env env' Henv Henv' e)|].
  apply Qle_bool_R, Hok.
Qed.
