(** C04 — an accepted row of the in-place rotation methods denotes, in the real-number model built from the generated formulas,
    the pure operator form: localise = v @ angles + origin, transform = x @ rot, rotate = v @ Angle(p, y, r); the rotation
    argument is left unchanged. *)
From Coq Require Import Reals List Bool.
From SV Require Import Rot.RotBase Gen.RotFormulas_gen Rot.RotAlgebra Rot.RotEuler Rot.RotDispatch Rot.RotDispatchProofs
  Rot.RotMethods.
Import ListNotations.
Open Scope R_scope.

Definition vec_add (a b : vec) : vec := Vec3 (vx a + vx b) (vy a + vy b) (vz a + vz b).

Lemma mterm_eqb_eq : forall a b, mterm_eqb a b = true -> a = b.
Proof.
  induction a; destruct b; cbn; intro H; try discriminate; try reflexivity;
    repeat match goal with H : _ && _ = true |- _ => apply andb_prop in H; destruct H end;
    f_equal; auto.
Qed.

Section MDenote.
  Variable atan2 : R -> R -> R.

  Fixpoint mdenote (S Rt O : value) (t : mterm) : option value :=
    match t with
    | MSelf => Some S | MRot => Some Rt | MOrigin => Some O | MIdent => Some (VMat I3)
    | MFromAngle t => match mdenote S Rt O t with Some (VAng a) => Some (VMat (from_angle_obj a)) | _ => None end
    | MToAngle t => match mdenote S Rt O t with Some (VMat m) => Some (VAng (to_angle atan2 m)) | _ => None end
    | MMatMul a b =>
        match mdenote S Rt O a, mdenote S Rt O b with Some (VMat x), Some (VMat y) => Some (VMat (mat_mul x y)) | _, _ => None end
    | MVecRot v m =>
        match mdenote S Rt O v, mdenote S Rt O m with Some (VVec x), Some (VMat y) => Some (VVec (vec_rot y x)) | _, _ => None end
    | MVecAdd a b =>
        match mdenote S Rt O a, mdenote S Rt O b with Some (VVec x), Some (VVec y) => Some (VVec (vec_add x y)) | _, _ => None end
    end.

  (** The rotation argument as a matrix. *)
  Definition rot_mat (k : rotkind) (Rt : value) : option mat :=
    match k, Rt with
    | RMatrix, VMat m => Some m
    | RAngle, VAng a => Some (from_angle_obj a)
    | RNone, _ => Some I3
    | _, _ => None
    end.

  (** What each method must leave in the receiver, written with the model functions. *)
  Definition method_spec (m : meth) (S O : value) (rm : mat) : option value :=
    match m, S, O with
    | MLocalise, VVec v, VVec o => Some (VVec (vec_add (vec_rot rm v) o))
    | (MVecTransform | MRotate), VVec v, _ => Some (VVec (vec_rot rm v))
    | MAngTransform, VAng a, _ => Some (VAng (to_angle atan2 (mat_mul (from_angle_obj a) rm)))
    | _, _, _ => None
    end.

  Theorem mrow_ok_sound : forall r, mrow_ok r = true ->
    forall S Rt O rm, rot_mat (mr_rot r) Rt = Some rm -> method_spec (mr_meth r) S O rm <> None ->
      mdenote S Rt O (mr_self r) = method_spec (mr_meth r) S O rm /\ mdenote S Rt O (mr_rot_final r) = Some Rt.
  Proof.
    intros r H S Rt O rm Hr Hs. unfold mrow_ok in H.
    repeat match goal with H : _ && _ = true |- _ => apply andb_prop in H; destruct H end.
    repeat match goal with H : mterm_eqb _ _ = true |- _ => apply mterm_eqb_eq in H end.
    match goal with H : mr_self r = _ |- _ => rewrite H end.
    match goal with H : mr_rot_final r = _ |- _ => rewrite H end.
    split; [|reflexivity].
    destruct (mr_meth r), (mr_rot r), S, O, Rt; cbn in *; try discriminate; try congruence;
      try (injection Hr as <-); cbn; rewrite ?mat_mul_I_l; try reflexivity; try congruence.
  Qed.

  Theorem methods_ok_sound : forall t, methods_ok t = true -> forall r, In r t ->
    forall S Rt O rm, rot_mat (mr_rot r) Rt = Some rm -> method_spec (mr_meth r) S O rm <> None ->
      mdenote S Rt O (mr_self r) = method_spec (mr_meth r) S O rm /\ mdenote S Rt O (mr_rot_final r) = Some Rt.
  Proof.
    intros t H r Hr. unfold methods_ok in H. apply andb_prop in H as [H _]. rewrite forallb_forall in H.
    apply mrow_ok_sound, H, Hr.
  Qed.

  (** The in-place methods ARE the operator specification: transform / rotate leave `x @ rot` in the receiver. *)
  Lemma method_spec_is_operator_spec : forall S Rt rm O, rhs_mat Rt = Some rm ->
    (forall v, S = VVec v -> method_spec MVecTransform S O rm = spec atan2 S Rt) /\
    (forall a, S = VAng a -> method_spec MAngTransform S O rm = spec atan2 S Rt).
  Proof. intros S Rt rm O H. split; intros x ->; unfold spec; rewrite H; reflexivity. Qed.
End MDenote.

Example methods_reject :
  (* rotation applied after the translation (ordering), and a transform that multiplies on the wrong side *)
  mrow_ok (MRow MLocalise RMatrix true (MVecRot (MVecAdd MSelf MOrigin) MRot) MRot) = false /\
  mrow_ok (MRow MAngTransform RMatrix true (MToAngle (MMatMul MRot (MFromAngle MSelf))) MRot) = false /\
  mrow_ok (MRow MLocalise RMatrix true (MVecAdd (MVecRot MSelf MRot) MOrigin) MRot) = true.
Proof. repeat split. Qed.
