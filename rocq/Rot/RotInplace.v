(** C04 — census of the in-place operator methods (`__iadd__` ... `__imatmul__`) of the operand classes: format of the
    generated census (Gen/RotInplace_gen.v) and its acceptance test.  No reals; decidable; discharged by vm_compute on the
    census regenerated from math.py on every run. *)
From Coq Require Import List Bool String Arith.
Import ListNotations.

(** What one control-flow path of an in-place method returns. *)
Inductive ipath :=
  | PSelf (stores : nat)     (* the receiver object, after [stores] statements that store into it *)
  | PNotImplemented          (* defers: Python falls back to the pure operator *)
  | POther.                  (* a new object, another object, None *)

Record imeth := IMeth {
  im_cls : string;            (* the class whose body defines the method *)
  im_name : string;
  im_mutable : bool;          (* every concrete class that inherits it is mutable *)
  im_frozen_reach : bool;     (* some frozen class inherits it *)
  im_paths : list ipath }.

Definition path_ok (p : ipath) : bool :=
  match p with PSelf n => Nat.ltb 0 n | PNotImplemented => true | POther => false end.
Definition returns_value (p : ipath) : bool := match p with PNotImplemented => false | _ => true end.

(** Every path of every in-place method that returns a value returns the receiver, after storing into it ... *)
Definition inplace_paths_return_self (c : list imeth) : bool := forallb (fun m => forallb path_ok (im_paths m)) c.
(** ... every in-place method does update the receiver on some path (it is not a stub that always defers) ... *)
Definition inplace_methods_store (c : list imeth) : bool := forallb (fun m => existsb returns_value (im_paths m)) c.
(** ... and no frozen class has (or inherits) an in-place method: `frozen op= x` is the pure operator, a new object. *)
Definition inplace_only_on_mutable (c : list imeth) : bool := forallb (fun m => im_mutable m && negb (im_frozen_reach m)) c.
Definition census_ok (c : list imeth) : bool :=
  inplace_paths_return_self c && inplace_methods_store c && inplace_only_on_mutable c.

Lemma census_ok_sound : forall c, census_ok c = true -> forall m, In m c ->
  im_mutable m = true /\ im_frozen_reach m = false /\
  (exists p, In p (im_paths m) /\ p <> PNotImplemented) /\
  forall p, In p (im_paths m) -> p = PNotImplemented \/ exists n, p = PSelf (S n).
Proof.
  intros c H m Hm. unfold census_ok in H. apply andb_prop in H as [H H3]. apply andb_prop in H as [H1 H2].
  unfold inplace_paths_return_self in H1. unfold inplace_methods_store in H2. unfold inplace_only_on_mutable in H3.
  rewrite forallb_forall in H1, H2, H3. specialize (H1 m Hm). specialize (H2 m Hm). specialize (H3 m Hm).
  apply andb_prop in H3 as [Ha Hb]. apply negb_true_iff in Hb.
  split; [exact Ha|]. split; [exact Hb|]. split.
  - apply existsb_exists in H2 as (p & Hp & Hv). exists p. split; [exact Hp|]. destruct p; cbn in Hv; congruence.
  - intros p Hp. rewrite forallb_forall in H1. specialize (H1 p Hp). destruct p as [n| |]; cbn in H1.
    + right. destruct n; [discriminate|]. exists n. reflexivity.
    + left. reflexivity.
    + discriminate.
Qed.

(** The shapes that are rejected: a path that builds a new object (seeded fault c04_5), a path that returns the receiver
    without having stored anything, an in-place method a frozen class would inherit. *)
Example census_rejects :
  census_ok [IMeth "Angle" "__imatmul__" true false [PSelf 1; POther; PNotImplemented]] = false /\
  census_ok [IMeth "Angle" "__imatmul__" true false [PSelf 1; PSelf 0; PNotImplemented]] = false /\
  census_ok [IMeth "VecBase" "__iadd__" false true [PSelf 3; PNotImplemented]] = false /\
  census_ok [IMeth "Angle" "__imatmul__" true false [PNotImplemented]] = false /\
  census_ok [IMeth "Angle" "__imatmul__" true false [PSelf 1; PSelf 1; PNotImplemented]] = true.
Proof. repeat split. Qed.
