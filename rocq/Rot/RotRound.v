(** C04 — rounding-error model of the straight-line float formulas (_vec_rot, _mat_mul): definitions only.

    The property says "up to rounding".  The theorems of Rot/RotAlgebra.v are about the formulas over the reals; this file
    gives the other half for the formulas that are sums of products: the SAME expression tree (reified by the translator
    into [fexpr], Gen/RotRounded_gen.v) is evaluated
      - exactly ([fe_exact], tied to the generated real formulas in Rot/RotRoundProofs.v), and
      - with a rounding [rnd] after every addition, subtraction and multiplication ([fe_fl]; inputs are floats already, a
        negation is exact),
    and a RUNNING ERROR ANALYSIS over the rationals ([fe_mag], [fe_err]) bounds the distance between the two for all inputs
    whose absolute values are bounded by [B], for every rounding with |rnd t - t| <= u*|t| + eta.  IEEE binary64
    round-to-nearest-even is such a rounding with u = 2^-53, eta = 2^-1075 (Flocq: [error_N_FLT], Rot/RotRoundFlocq.v).
    The bound is a closed rational term, so "the error of v @ M is below the oracle's tolerance" is a kernel-checked
    instance obligation about today's expression trees.  No reals in [fe_mag]/[fe_err]. *)
From Coq Require Import List Bool Arith QArith Reals Qreals.
Import ListNotations.

Inductive fexpr :=
  | FVar (n : nat)
  | FNeg (a : fexpr)
  | FAdd (a b : fexpr)
  | FSub (a b : fexpr)
  | FMul (a b : fexpr).

Local Open Scope R_scope.
Fixpoint fe_exact (env : nat -> R) (e : fexpr) : R :=
  match e with
  | FVar n => env n
  | FNeg a => - fe_exact env a
  | FAdd a b => fe_exact env a + fe_exact env b
  | FSub a b => fe_exact env a - fe_exact env b
  | FMul a b => fe_exact env a * fe_exact env b
  end.

Fixpoint fe_fl (rnd : R -> R) (env : nat -> R) (e : fexpr) : R :=
  match e with
  | FVar n => env n
  | FNeg a => - fe_fl rnd env a
  | FAdd a b => rnd (fe_fl rnd env a + fe_fl rnd env b)
  | FSub a b => rnd (fe_fl rnd env a - fe_fl rnd env b)
  | FMul a b => rnd (fe_fl rnd env a * fe_fl rnd env b)
  end.
Local Close Scope R_scope.

Local Open Scope Q_scope.
(** An upper bound of |exact value| given |variable n| <= B n. *)
Fixpoint fe_mag (B : nat -> Q) (e : fexpr) : Q :=
  match e with
  | FVar n => B n
  | FNeg a => fe_mag B a
  | FAdd a b | FSub a b => fe_mag B a + fe_mag B b
  | FMul a b => fe_mag B a * fe_mag B b
  end.

(** An upper bound of |rounded value - exact value|. *)
Fixpoint fe_err (u eta : Q) (B : nat -> Q) (e : fexpr) : Q :=
  match e with
  | FVar _ => 0
  | FNeg a => fe_err u eta B a
  | FAdd a b | FSub a b =>
      let ea := fe_err u eta B a in let eb := fe_err u eta B b in
      (ea + eb) + u * (fe_mag B a + fe_mag B b + (ea + eb)) + eta
  | FMul a b =>
      let ea := fe_err u eta B a in let eb := fe_err u eta B b in
      let ma := fe_mag B a in let mb := fe_mag B b in
      (ma * eb + mb * ea + ea * eb) + u * ((ma + ea) * (mb + eb)) + eta
  end.

(** The same analysis when the inputs themselves carry an error: the rounded evaluation runs on inputs that are within
    [E n] of the exact ones (libm's sin / cos in from_angle). *)
Fixpoint fe_err_in (u eta : Q) (B E : nat -> Q) (e : fexpr) : Q :=
  match e with
  | FVar n => E n
  | FNeg a => fe_err_in u eta B E a
  | FAdd a b | FSub a b =>
      let ea := fe_err_in u eta B E a in let eb := fe_err_in u eta B E b in
      (ea + eb) + u * (fe_mag B a + fe_mag B b + (ea + eb)) + eta
  | FMul a b =>
      let ea := fe_err_in u eta B E a in let eb := fe_err_in u eta B E b in
      let ma := fe_mag B a in let mb := fe_mag B b in
      (ma * eb + mb * ea + ea * eb) + u * ((ma + ea) * (mb + eb)) + eta
  end.

(** binary64: unit roundoff 2^-53, half the smallest subnormal 2^-1075. *)
Definition u64 : Q := 1 # (2 ^ 53)%positive.
Definition eta64 : Q := 1 # (2 ^ 1075)%positive.
(** The same hypothesis holds a fortiori with any larger absolute term.  The instance test uses 2^-128 (3e-39, still
    invisible at the scale of the bounds): the rationals of the analysis are not reduced, and with 2^-1075 in every step
    their denominators reach tens of thousands of bits (seconds per tree in the kernel's VM instead of milliseconds). *)
Definition eta64w : Q := 1 # (2 ^ 128)%positive.

(** Variable numbering of the generated trees: 0..8 the slots _aa.._cc of self, 9..17 the slots of other, 18..20 the
    vector.  Bound: every matrix entry at most [bm] in absolute value, every vector component at most [bv]. *)
Definition bounds (bm bv : Q) (n : nat) : Q := if Nat.ltb n 18 then bm else bv.

(** The instance test: the error of every tree of the list is at most [tol]. *)
Definition errs_within (bm bv tol : Q) (es : list fexpr) : bool :=
  forallb (fun e => Qle_bool (fe_err u64 eta64w (bounds bm bv) e) tol) es.
(** ... with every input bounded by [b] and known within [d]. *)
Definition errs_within_in (b d tol : Q) (es : list fexpr) : bool :=
  forallb (fun e => Qle_bool (fe_err_in u64 eta64w (fun _ => b) (fun _ => d) e) tol) es.
(** Number of rounded operations (for the report; a tree without any is not a float computation). *)
Fixpoint fe_ops (e : fexpr) : nat :=
  match e with
  | FVar _ => 0
  | FNeg a => fe_ops a
  | FAdd a b | FSub a b | FMul a b => S (fe_ops a + fe_ops b)
  end.
