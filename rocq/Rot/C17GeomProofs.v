(** C17 — proofs about the GENERATED placement arithmetic (Gen/C17Formulas_gen.v, regenerated from
    math.py / vmf.py / instancing.py on every run) against the specification operations of Rot/C17Base.v. *)
From Coq Require Import Reals Lra Field.
From SV Require Import Rot.C17Base SM.C17Whole Gen.C17Formulas_gen.
Open Scope R_scope.

Ltac destr := repeat match goal with
  | v : vec |- _ => destruct v as [?x ?y ?z]
  | m : mat |- _ => destruct m as [?m ?m ?m ?m ?m ?m ?m ?m ?m]
  | a : uvaxis |- _ => destruct a as [?u ?u ?u ?o ?s] end.
Ltac csplit := repeat match goal with |- _ /\ _ => split end.
Ltac vec_eq := unfold place, vadd, vrot, mmul, dot, uvplace, uvdir; cbn [vx vy vz aa ab ac ba bb bc ca cb cc ux uy uz uoff uscale];
               f_equal; try ring.

(** ** The generated primitives are the specification operations. *)
Lemma g_vec_rot_spec : forall m v, g_vec_rot m v = vrot v m.
Proof. intros; destr; unfold g_vec_rot; vec_eq. Qed.

Lemma g_vec_matmul_spec : forall v m, g_vec_matmul v m = vrot v m.
Proof. intros; destr; unfold g_vec_matmul; vec_eq. Qed.

Lemma g_vec_matmul_pure : forall v m, g_vec_matmul_self_after v m = v.
Proof. intros; destr; reflexivity. Qed.

Lemma g_vec_add_spec : forall a b, g_vec_add a b = vadd a b.
Proof. intros; destr; unfold g_vec_add; vec_eq. Qed.

Lemma g_vec_iadd_spec : forall a b, g_vec_iadd a b = vadd a b.
Proof. intros; destr; unfold g_vec_iadd; vec_eq. Qed.

Lemma g_dot_spec : forall a b, g_dot a b = dot a b.
Proof. intros; destr; unfold g_dot, dot; cbn [vx vy vz]; ring. Qed.

Lemma g_mat_mul_spec : forall a b, g_mat_mul a b = mmul a b.
Proof. intros; destr; unfold g_mat_mul; vec_eq. Qed.

Lemma g_mat_mul_pure : forall a b, g_mat_mul_other_after a b = b.
Proof. intros; destr; reflexivity. Qed.

(** ** Positions: rotate by the instance angles, then offset by its origin. *)
Lemma localise_point : forall p o m, g_vec_localise p o m = place p o m.
Proof. intros; destr; unfold g_vec_localise; vec_eq. Qed.

Lemma localise_keeps_origin_argument : forall p o m, g_vec_localise_origin_after p o m = o.
Proof. intros; destr; reflexivity. Qed.

Lemma collapse_ent_origin_spec : forall p o m, g_collapse_ent_origin p o m = place p o m.
Proof. intros; destr; unfold g_collapse_ent_origin; vec_eq. Qed.

Lemma fixup_key_position_spec : forall p o m, g_fixup_key_position p o m = place p o m.
Proof. intros; destr; unfold g_fixup_key_position; vec_eq. Qed.

Lemma fixup_key_axis_spec : forall p o m, g_fixup_key_axis0 p o m = place p o m /\ g_fixup_key_axis1 p o m = place p o m.
Proof. intros; destr; split; [unfold g_fixup_key_axis0 | unfold g_fixup_key_axis1]; vec_eq. Qed.

Lemma fixup_key_direction_spec : forall p m, g_fixup_key_direction p m = vrot p m.
Proof. intros; destr; unfold g_fixup_key_direction; vec_eq. Qed.

(** ** Brush sides and solids. *)
Lemma side_planes_spec : forall p0 p1 p2 o m,
  g_side_plane0 p0 p1 p2 o m = place p0 o m /\ g_side_plane1 p0 p1 p2 o m = place p1 o m /\
  g_side_plane2 p0 p1 p2 o m = place p2 o m.
Proof.
  intros; destr; csplit;
  [unfold g_side_plane0 | unfold g_side_plane1 | unfold g_side_plane2]; vec_eq.
Qed.

Lemma side_vertices_spec : forall sp o m, g_side_strata_point sp o m = place sp o m /\ g_solid_strata_point sp o m = place sp o m.
Proof. intros; destr; split; [unfold g_side_strata_point | unfold g_solid_strata_point]; vec_eq. Qed.

Lemma uv_localise_spec : forall ax o m, g_uv_localise ax o m = uvplace ax o m.
Proof. intros; destr; unfold g_uv_localise; vec_eq. Qed.

Lemma side_axes_spec : forall u o m, g_side_uaxis u o m = uvplace u o m /\ g_side_vaxis u o m = uvplace u o m.
Proof. intros; destr; split; [unfold g_side_uaxis | unfold g_side_vaxis]; vec_eq. Qed.

Lemma side_disp_spec : forall d o m,
  g_side_disp_pos d o m = place d o m /\ g_side_vert_offset d m = vrot d m /\
  g_side_vert_normal d m = vrot d m /\ g_side_vert_offset_norm d m = vrot d m.
Proof.
  intros; destr; csplit;
  [unfold g_side_disp_pos | unfold g_side_vert_offset | unfold g_side_vert_normal | unfold g_side_vert_offset_norm]; vec_eq.
Qed.

Lemma solid_localise_spec : forall p0 p1 p2 u o m,
  g_solid_plane0 p0 p1 p2 o m = place p0 o m /\ g_solid_plane2 p0 p1 p2 o m = place p2 o m /\
  g_solid_uaxis u o m = uvplace u o m.
Proof.
  intros; destr; csplit;
  [unfold g_solid_plane0 | unfold g_solid_plane2 | unfold g_solid_uaxis]; vec_eq.
Qed.

(** ** Algebra of placements (specification level). *)
Lemma place_identity : forall p, place p vzero mid = p.
Proof. intros; destr; unfold vzero, mid; vec_eq. Qed.

Lemma vrot_mmul : forall v a b, vrot (vrot v a) b = vrot v (mmul a b).
Proof. intros; destr; vec_eq. Qed.

Lemma vrot_vadd : forall a b m, vrot (vadd a b) m = vadd (vrot a m) (vrot b m).
Proof. intros; destr; vec_eq. Qed.

Lemma mmul_assoc : forall a b c, mmul (mmul a b) c = mmul a (mmul b c).
Proof. intros; destr; vec_eq. Qed.

Lemma mmul_id_l : forall a, mmul mid a = a.
Proof. intros; destr; unfold mid; vec_eq. Qed.
Lemma mmul_id_r : forall a, mmul a mid = a.
Proof. intros; destr; unfold mid; vec_eq. Qed.

Lemma mtrans_mmul : forall a b, mtrans (mmul a b) = mmul (mtrans b) (mtrans a).
Proof. intros; destr; unfold mtrans; vec_eq. Qed.

(** Placing at [(o1,m1)] and then at [(o2,m2)] is one placement at the composed origin and orientation:
    the law behind nested instances and behind "results differ only by the placement". *)
Lemma place_compose : forall p o1 m1 o2 m2,
  place (place p o1 m1) o2 m2 = place p (compose_origin o1 o2 m2) (mmul m1 m2).
Proof. intros; destr; unfold compose_origin; vec_eq. Qed.

(** Orthonormal matrices are closed under product and contain the identity. *)
Lemma orth_mid : orth mid.
Proof. unfold orth, mid, mtrans; vec_eq. Qed.

Lemma orth_mmul : forall a b, orth a -> orth b -> orth (mmul a b).
Proof.
  unfold orth; intros a b Ha Hb.
  rewrite mtrans_mmul, mmul_assoc, <- (mmul_assoc b), Hb, mmul_id_l. exact Ha.
Qed.

(** Rotating both arguments by an orthonormal matrix preserves the dot product. *)
Lemma orth_fields : forall m, orth m ->
  aa m * aa m + ab m * ab m + ac m * ac m = 1 /\ aa m * ba m + ab m * bb m + ac m * bc m = 0 /\
  aa m * ca m + ab m * cb m + ac m * cc m = 0 /\ ba m * ba m + bb m * bb m + bc m * bc m = 1 /\
  ba m * ca m + bb m * cb m + bc m * cc m = 0 /\ ca m * ca m + cb m * cb m + cc m * cc m = 1.
Proof.
  intros m H; destruct m as [?m ?m ?m ?m ?m ?m ?m ?m ?m]; unfold orth, mmul, mtrans, mid in H; cbn [aa ab ac ba bb bc ca cb cc] in H.
  injection H; intros; cbn [aa ab ac ba bb bc ca cb cc]; repeat split; assumption.
Qed.

Lemma dot_vrot : forall a p m, orth m -> dot (vrot a m) (vrot p m) = dot a p.
Proof.
  intros a p m H. destruct (orth_fields m H) as (H1 & H2 & H3 & H4 & H5 & H6).
  destruct a as [a1 a2 a3], p as [p1 p2 p3], m as [m1 m2 m3 m4 m5 m6 m7 m8 m9].
  unfold dot, vrot; cbn [vx vy vz aa ab ac ba bb bc ca cb cc] in *.
  replace ((a1 * m1 + a2 * m4 + a3 * m7) * (p1 * m1 + p2 * m4 + p3 * m7) +
           (a1 * m2 + a2 * m5 + a3 * m8) * (p1 * m2 + p2 * m5 + p3 * m8) +
           (a1 * m3 + a2 * m6 + a3 * m9) * (p1 * m3 + p2 * m6 + p3 * m9))
    with (a1 * p1 * (m1 * m1 + m2 * m2 + m3 * m3) + (a1 * p2 + a2 * p1) * (m1 * m4 + m2 * m5 + m3 * m6)
          + (a1 * p3 + a3 * p1) * (m1 * m7 + m2 * m8 + m3 * m9) + a2 * p2 * (m4 * m4 + m5 * m5 + m6 * m6)
          + (a2 * p3 + a3 * p2) * (m4 * m7 + m5 * m8 + m6 * m9) + a3 * p3 * (m7 * m7 + m8 * m8 + m9 * m9)) by ring.
  rewrite H1, H2, H3, H4, H5, H6. ring.
Qed.

(** ** Texture alignment moves with the geometry. *)
Lemma texcoord_uvplace : forall ax o m p, orth m -> uscale ax <> 0 ->
  texcoord (uvplace ax o m) (place p o m) = texcoord ax p.
Proof.
  intros ax o m p H Hs.
  assert (E : dot (vrot (uvdir ax) m) (place p o m) = dot (uvdir ax) p + dot (vrot (uvdir ax) m) o).
  { rewrite <- (dot_vrot (uvdir ax) p m H). unfold place.
    destruct (vrot (uvdir ax) m) as [d1 d2 d3], (vrot p m) as [q1 q2 q3], o as [o1 o2 o3]. unfold dot, vadd; cbn [vx vy vz]. ring. }
  unfold texcoord. 
  replace (uvdir (uvplace ax o m)) with (vrot (uvdir ax) m) by (unfold uvplace, uvdir; destruct (vrot _ m) as [d1 d2 d3]; reflexivity).
  replace (uscale (uvplace ax o m)) with (uscale ax) by reflexivity.
  replace (uoff (uvplace ax o m)) with (uoff ax - dot (vrot (uvdir ax) m) o / uscale ax)
    by (unfold uvplace; destruct (vrot _ m) as [d1 d2 d3]; reflexivity).
  rewrite E. field. exact Hs.
Qed.

Lemma texture_moves_with_geometry : forall ax o m p, orth m -> uscale ax <> 0 ->
  texcoord (g_uv_localise ax o m) (g_vec_localise p o m) = texcoord ax p.
Proof. intros. rewrite uv_localise_spec, localise_point. apply texcoord_uvplace; assumption. Qed.

(** The same for a whole brush side as Side.localise transforms it: all three plane points under both axes. *)
Lemma side_texture_moves_with_geometry : forall p0 p1 p2 u w o m, orth m -> uscale u <> 0 -> uscale w <> 0 ->
  let q0 := g_side_plane0 p0 p1 p2 o m in let q1 := g_side_plane1 p0 p1 p2 o m in let q2 := g_side_plane2 p0 p1 p2 o m in
  let u' := g_side_uaxis u o m in let w' := g_side_vaxis w o m in
  (texcoord u' q0 = texcoord u p0 /\ texcoord u' q1 = texcoord u p1 /\ texcoord u' q2 = texcoord u p2) /\
  (texcoord w' q0 = texcoord w p0 /\ texcoord w' q1 = texcoord w p1 /\ texcoord w' q2 = texcoord w p2).
Proof.
  intros p0 p1 p2 u w o m H Hu Hw. cbv zeta.
  destruct (side_planes_spec p0 p1 p2 o m) as (-> & -> & ->).
  destruct (side_axes_spec u o m) as (-> & _). destruct (side_axes_spec w o m) as (_ & ->).
  repeat split; apply texcoord_uvplace; assumption.
Qed.

(** Placement of texture axes composes like placement of points (needs the outer matrix orthonormal). *)
Lemma uvplace_compose : forall ax o1 m1 o2 m2, orth m2 -> 
  uvplace (uvplace ax o1 m1) o2 m2 = uvplace ax (compose_origin o1 o2 m2) (mmul m1 m2).
Proof.
  intros ax o1 m1 o2 m2 H.
  assert (D : uvdir (uvplace ax o1 m1) = vrot (uvdir ax) m1) by (unfold uvplace, uvdir; destruct (vrot _ m1) as [d1 d2 d3]; reflexivity).
  assert (E : dot (vrot (vrot (uvdir ax) m1) m2) (compose_origin o1 o2 m2)
              = dot (vrot (uvdir ax) m1) o1 + dot (vrot (vrot (uvdir ax) m1) m2) o2).
  { rewrite <- (dot_vrot (vrot (uvdir ax) m1) o1 m2 H). unfold compose_origin, place.
    destruct (vrot (vrot (uvdir ax) m1) m2) as [d1 d2 d3], (vrot o1 m2) as [q1 q2 q3], o2 as [e1 e2 e3]. unfold dot, vadd; cbn [vx vy vz]. ring. }
  unfold uvplace at 1 3. rewrite D. rewrite <- vrot_mmul. rewrite E.
  replace (uscale (uvplace ax o1 m1)) with (uscale ax) by reflexivity.
  replace (uoff (uvplace ax o1 m1)) with (uoff ax - dot (vrot (uvdir ax) m1) o1 / uscale ax)
    by (unfold uvplace; destruct (vrot _ m1) as [d1 d2 d3]; reflexivity).
  cbv zeta. f_equal. unfold Rdiv. ring.
Qed.

(** ** Placement equivariance on the generated formulas. *)
Lemma localise_identity : forall p, g_vec_localise p vzero mid = p.
Proof. intros. rewrite localise_point. apply place_identity. Qed.

Lemma placement_equivariance : forall p o m, g_vec_localise p o m = g_vec_localise (g_vec_localise p vzero mid) o m.
Proof. intros. rewrite localise_identity. reflexivity. Qed.

Lemma localise_compose : forall p o1 m1 o2 m2,
  g_vec_localise (g_vec_localise p o1 m1) o2 m2 = g_vec_localise p (g_vec_localise o1 o2 m2) (g_mat_mul m1 m2).
Proof. intros. rewrite !localise_point, g_mat_mul_spec. apply place_compose. Qed.

Lemma uv_localise_compose : forall ax o1 m1 o2 m2, orth m2 ->
  g_uv_localise (g_uv_localise ax o1 m1) o2 m2 = g_uv_localise ax (g_vec_localise o1 o2 m2) (g_mat_mul m1 m2).
Proof. intros. rewrite !uv_localise_spec, localise_point, g_mat_mul_spec. apply uvplace_compose. assumption. Qed.

(** Two collapses of the same template at different placements differ exactly by the relative placement:
    if [(o2,m2) = (o1,m1) ; (d, r)] then every point of the second result is the first result placed at (d, r). *)
Lemma results_differ_by_placement : forall p o1 m1 d r,
  g_vec_localise p (g_vec_localise o1 d r) (g_mat_mul m1 r) = g_vec_localise (g_vec_localise p o1 m1) d r.
Proof. intros. symmetry. apply localise_compose. Qed.

(** ** Orientations compose with the instance rotation.
    The Euler-angle conversions are C04's subject; they enter as Section variables with the round-trip hypothesis
    visible in the statement ([to_angle] then [from_angle] is the identity on rotation matrices outside the gimbal band). *)
Section Orientation.
  Variable angle : Type.
  Variable from_angle : angle -> mat.
  Variable to_angle : mat -> angle.
  Variable good : mat -> Prop.          (* rotation matrices on which the Euler round trip is exact *)
  Hypothesis euler_roundtrip : forall m, good m -> from_angle (to_angle m) = m.

  (** [angles @= orient] in collapse_one: the matrix handed to [_to_angle] is [from_angle a ⊗ r]. *)
  Lemma orientation_composes : forall a r, good (mmul (from_angle a) r) ->
    from_angle (to_angle (g_angle_imatmul (from_angle a) r)) = mmul (from_angle a) r /\
    from_angle (to_angle (g_angle_matmul (from_angle a) r)) = mmul (from_angle a) r.
  Proof.
    intros a r G.
    assert (E1 : g_angle_imatmul (from_angle a) r = mmul (from_angle a) r)
      by (destruct (from_angle a) as [?m ?m ?m ?m ?m ?m ?m ?m ?m]; destr; unfold g_angle_imatmul; vec_eq).
    assert (E2 : g_angle_matmul (from_angle a) r = mmul (from_angle a) r)
      by (destruct (from_angle a) as [?m ?m ?m ?m ?m ?m ?m ?m ?m]; destr; unfold g_angle_matmul; vec_eq).
    rewrite E1, E2. split; apply euler_roundtrip; exact G.
  Qed.

  (** Consequence: the forward direction of a collapsed entity is the original direction rotated by the instance. *)
  Lemma orientation_rotates_directions : forall a r v, good (mmul (from_angle a) r) ->
    vrot v (from_angle (to_angle (g_angle_imatmul (from_angle a) r))) = vrot (vrot v (from_angle a)) r.
  Proof. intros a r v G. destruct (orientation_composes a r G) as [-> _]. symmetry. apply vrot_mmul. Qed.
End Orientation.

(** Non-vacuity: the hypotheses are satisfiable (identity placement, unit scale). *)
Example orth_example : orth (M 0 1 0 (-1) 0 0 0 0 1).
Proof. unfold orth, mmul, mtrans, mid; cbn [aa ab ac ba bb bc ca cb cc]; f_equal; ring. Qed.

(** ** The generated arithmetic as one object ([arith], SM/C17Whole.v) and its identity laws: placing at (0, I) changes
    no point, direction, texture axis or orientation.  These are what makes a whole collapse equivariant in the placement
    (SM/C17WholeProofs.v); each goes through the specification lemma of its generated function. *)
Lemma vrot_identity : forall p, vrot p mid = p.
Proof. intros; destr; unfold mid; vec_eq. Qed.

Lemma uvplace_identity : forall ax, uvplace ax vzero mid = ax.
Proof.
  intros; destr; unfold uvplace, uvdir, vrot, dot, mid, vzero, Rdiv;
    cbn [vx vy vz aa ab ac ba bb bc ca cb cc ux uy uz uoff uscale]; f_equal; ring.
Qed.

Lemma g_angle_imatmul_spec : forall a r, g_angle_imatmul a r = mmul a r.
Proof. intros; destr; unfold g_angle_imatmul; vec_eq. Qed.

Definition g_arith : arith := {|
  ar_point := g_vec_localise;          (* Vec.localise: brush planes, vertices, displacement origins *)
  ar_dir := g_fixup_key_direction;     (* direction keyvalues; displacement normals / offsets use the same rotation *)
  ar_axis := g_uv_localise;            (* UVAxis.localise *)
  ar_orient := g_angle_imatmul |}.     (* angles @= orient *)

Lemma g_arith_identity : arith_identity g_arith.
Proof.
  unfold arith_identity, g_arith; cbn [ar_point ar_dir ar_axis ar_orient]. csplit; intros.
  - apply localise_identity.
  - rewrite fixup_key_direction_spec. apply vrot_identity.
  - rewrite uv_localise_spec. apply uvplace_identity.
  - rewrite g_angle_imatmul_spec. apply mmul_id_r.
Qed.

(** the other generated placement functions are the same arithmetic (so an item placed by any of them is covered) *)
Lemma g_arith_covers_sites : forall p o m,
  g_collapse_ent_origin p o m = ar_point g_arith p o m /\ g_fixup_key_position p o m = ar_point g_arith p o m /\
  g_side_strata_point p o m = ar_point g_arith p o m /\ g_side_disp_pos p o m = ar_point g_arith p o m /\
  g_side_vert_normal p m = ar_dir g_arith p m /\ g_side_vert_offset p m = ar_dir g_arith p m /\
  g_side_vert_offset_norm p m = ar_dir g_arith p m.
Proof.
  intros. unfold g_arith; cbn [ar_point ar_dir].
  pose proof (localise_point p o m) as L. pose proof (fixup_key_direction_spec p m) as Dr.
  destruct (side_vertices_spec p o m) as [S1 _]. destruct (side_disp_spec p o m) as (S2 & S3 & S4 & S5).
  csplit; congruence || (rewrite L; first [apply collapse_ent_origin_spec | apply fixup_key_position_spec]).
Qed.

(** what [transform g_arith] of c17_property means, item by item: a point is rotated by the instance matrix and then offset by
    its origin, a direction is rotated, a texture axis is placed so that the texture moves with the geometry ([uvplace]), an
    orientation is composed with the instance rotation *)
Lemma g_arith_is_spec : forall D p (it : item D), place_item D g_arith p it = place_item D spec_arith p it.
Proof.
  intros D [o m] [v|v|u|r|d]; cbn [place_item fst snd g_arith spec_arith ar_point ar_dir ar_axis ar_orient].
  - rewrite localise_point. reflexivity.
  - rewrite fixup_key_direction_spec. reflexivity.
  - rewrite uv_localise_spec. reflexivity.
  - rewrite g_angle_imatmul_spec. reflexivity.
  - reflexivity.
Qed.

Lemma transform_g_is_spec : forall D p (r : added D), transform D g_arith p r = transform D spec_arith p r.
Proof.
  intros D p [st l]. unfold transform. cbn [fst snd].
  assert (E : List.map (place_item D g_arith p) l = List.map (place_item D spec_arith p) l).
  { induction l as [|x l IH]; cbn [List.map]; [reflexivity|]. rewrite g_arith_is_spec, IH. reflexivity. }
  rewrite E. reflexivity.
Qed.
